"""Random and hand-shaped DIE forests for the DWARF properties, and the
comparison of what the implementation reports for them with the model's rows."""
import json
import os

from vlib import common, zw
from vlib.dwgen import Attr, Die, Unit, Forest, write_object, forest_text, C, consts

TAGS = ["DW_TAG_subprogram", "DW_TAG_variable", "DW_TAG_structure_type", "DW_TAG_member", "DW_TAG_namespace",
        "DW_TAG_lexical_block", "DW_TAG_base_type", "DW_TAG_typedef", "DW_TAG_formal_parameter", "DW_TAG_enumeration_type",
        # tags that code might single out
        "DW_TAG_inlined_subroutine", "DW_TAG_GNU_call_site", "DW_TAG_call_site", "DW_TAG_template_type_parameter",
        "DW_TAG_class_type", "DW_TAG_union_type", "DW_TAG_label", "DW_TAG_imported_declaration", "DW_TAG_pointer_type",
        "DW_TAG_const_type", "DW_TAG_subroutine_type", "DW_TAG_unspecified_type", "DW_TAG_GNU_call_site_parameter", "DW_TAG_enumerator",
        "DW_TAG_imported_module"]


def rand_name(rng):
    return bytes(rng.choice(b"abcdefgxyz_") for _ in range(rng.randint(1, 6)))


def rand_attrs(rng, version, pool):
    ats = []
    if rng.random() < 0.8:
        sforms = ["DW_FORM_string", "DW_FORM_strp"] * 2 + (["DW_FORM_strx1", "DW_FORM_strx2", "DW_FORM_strx3", "DW_FORM_strx4", "DW_FORM_strx", "DW_FORM_line_strp"] if version >= 5 else [])
        ats.append(Attr("DW_AT_name", rng.choice(sforms), rand_name(rng)))
    if rng.random() < 0.3:
        ats.append(Attr("DW_AT_decl_line", rng.choice(["DW_FORM_data1", "DW_FORM_data2", "DW_FORM_udata"]), rng.randint(0, 200)))
    # vendor attributes (codes above 0xff; two of them share their low byte with DW_AT_name / DW_AT_byte_size)
    if rng.random() < 0.2:
        ats.append(Attr("DW_AT_MIPS_linkage_name", "DW_FORM_string", rand_name(rng)))
    if rng.random() < 0.1:
        ats.append(Attr(rng.choice(["DW_AT_MIPS_tail_loop_begin", "DW_AT_GNU_all_tail_call_sites", "DW_AT_GNU_macros", "DW_AT_MIPS_loop_unroll_factor"]),
                        "DW_FORM_data1", rng.randint(0, 9)))
    if rng.random() < 0.2:
        ats.append(Attr("DW_AT_external", "DW_FORM_flag_present" if version >= 4 and rng.random() < 0.7 else "DW_FORM_flag", True))
    if rng.random() < 0.2:
        ats.append(Attr("DW_AT_declaration", "DW_FORM_flag", True))
    if rng.random() < 0.15:
        ats.append(Attr("DW_AT_byte_size", rng.choice(["DW_FORM_data1", "DW_FORM_data4", "DW_FORM_sdata"]), rng.randint(0, 64)))
    if rng.random() < 0.1:
        ats.append(Attr("DW_AT_const_value", rng.choice(["DW_FORM_sdata", "DW_FORM_udata", "DW_FORM_data2"]), rng.randint(0, 1000)))
    if rng.random() < 0.07 and ats:
        ats.append(Attr(ats[0].name, ats[0].form, ats[0].value))        # the same attribute name twice
    if rng.random() < 0.03:
        # now and then a DIE with many attributes
        for i in range(rng.randint(10, 40)):
            ats.append(Attr(rng.choice(["DW_AT_decl_line", "DW_AT_decl_column", "DW_AT_byte_size", "DW_AT_bit_size", "DW_AT_language", "DW_AT_accessibility",
                                        "DW_AT_inline", "DW_AT_virtuality", "DW_AT_MIPS_loop_unroll_factor", "DW_AT_alignment", "DW_AT_ordering"]),
                            "DW_FORM_data1", rng.randint(0, 9)))
    rng.shuffle(ats)
    return ats


def rand_tree(rng, version, depth, budget, pool):
    d = Die(rng.choice(TAGS), rand_attrs(rng, version, pool))
    # using-directives and using-declarations carry DW_AT_import too: they import nothing into the tree
    if d.tag in ("DW_TAG_imported_module", "DW_TAG_imported_declaration") and pool and rng.random() < 0.8:
        d.attrs.insert(rng.randint(0, len(d.attrs)), Attr("DW_AT_import", "DW_FORM_ref4", rng.choice(pool)))
    pool.append(d)
    if depth > 0 and budget[0] > 0 and rng.random() < 0.6:
        n = rng.randint(1, 4)
        for _ in range(n):
            if budget[0] <= 0:
                break
            budget[0] -= 1
            d.children.append(rand_tree(rng, version, depth - 1, budget, pool))
        d.flag = True
    elif rng.random() < 0.15:
        d.flag = True                                                 # abbreviation claims children, none stored
    return d


def random_forest(rng, imports=True, links=True, max_units=4):
    nunits = rng.randint(1, max_units)
    units, pools = [], []
    nparts = rng.randint(0, 3) if imports else 0
    for i in range(nunits + nparts):
        version = rng.choice([2, 3, 4, 4, 5])
        partial = i >= nunits
        pool = []
        budget = [rng.randint(0, 14)]
        # the root of a unit that is not partial is usually a compile unit, now and then another kind
        other = ["DW_TAG_type_unit", "DW_TAG_skeleton_unit"] if version >= 5 else []     # those need the DWARF 5 unit header
        root = Die("DW_TAG_partial_unit" if partial else rng.choice(["DW_TAG_compile_unit"] * 5 + other),
                   [Attr("DW_AT_name", "DW_FORM_string", b"u%d" % i)], flag=True)
        for _ in range(rng.randint(0, 4)):
            root.children.append(rand_tree(rng, version, rng.randint(0, 3), budget, pool))
        units.append(Unit(root, version))
        pools.append(pool)
    # imports: unit i may import partial units with a larger index (acyclic), at any depth, repeatedly
    if nparts:
        for i, u in enumerate(units):
            cands = [j for j in range(max(i + 1, nunits), nunits + nparts)]
            if rng.random() < 0.25:
                # DW_AT_import may also lead to an ordinary compile unit (DWARF 5, 3.2.5)
                cands = [j for j in range(i + 1, nunits + nparts)]
            if not cands:
                continue
            hosts = [u.root] + [d for d in pools[i] if d.flag or not d.children]
            for _ in range(rng.randint(0 if i >= nunits else 1, 3)):
                j = rng.choice(cands)
                host = rng.choice(hosts)
                if host.tag in ("DW_TAG_imported_unit",):
                    continue
                imp = Die("DW_TAG_imported_unit", [Attr("DW_AT_import", "DW_FORM_ref_addr", units[j].root)])
                host.children.insert(rng.randint(0, len(host.children)), imp)
                host.flag = True
    # specification / abstract_origin chains
    if links:
        alld = [d for p in pools for d in p]
        owner = {id(d): k for k, p in enumerate(pools) for d in p}
        order = list(alld)
        rng.shuffle(order)
        for k, d in enumerate(order):
            if rng.random() < 0.35 and k + 1 < len(order):
                for nm in rng.sample(["DW_AT_specification", "DW_AT_abstract_origin"], rng.choice([1, 1, 2])):
                    tgt = rng.choice(order[k + 1:])                   # only "later in the order": acyclic
                    same = owner[id(tgt)] == owner[id(d)]
                    form = rng.choice(["DW_FORM_ref4", "DW_FORM_ref_udata", "DW_FORM_ref1"]) if same else "DW_FORM_ref_addr"
                    d.attrs.insert(rng.randint(0, len(d.attrs)), Attr(nm, form, tgt))
    # DW_AT_sibling: only ever the true next sibling (libdw follows it)
    for u in units:
        for d in u.root.walk():
            for a, b in zip(d.children, d.children[1:]):
                if rng.random() < 0.15 and a.tag != "DW_TAG_imported_unit":
                    a.attrs.insert(rng.randint(0, len(a.attrs)), Attr("DW_AT_sibling", "DW_FORM_ref4", b))
    rng.shuffle(units) if not imports else None
    return Forest(units)


def flat_import_forest(rng):
    """compile units with trees of any shape that import, at any depth, partial units whose DIEs are all leaves
    (variables and further imports, nested up to four deep, repeated, diamonds): every DIE that `child` hands
    out then still carries the imports it was reached through (`child` of an imported DIE does not hand the
    chain on to the grandchildren, so deeper partial units would blur what the routes are)"""
    nparts = rng.randint(1, 4)
    parts = []
    for j in range(nparts):
        version = rng.choice([2, 3, 4, 5])
        root = Die("DW_TAG_partial_unit", [Attr("DW_AT_name", "DW_FORM_string", b"p%d" % j)], flag=True)
        for k in range(rng.randint(0, 3)):
            root.children.append(Die(rng.choice(["DW_TAG_variable", "DW_TAG_base_type", "DW_TAG_typedef"]), [Attr("DW_AT_name", "DW_FORM_string", b"p%dv%d" % (j, k))]))
        parts.append(Unit(root, version))
    for j, u in enumerate(parts):                           # a partial unit imports later ones only (acyclic)
        for _ in range(rng.randint(0, 2)):
            if j + 1 < nparts:
                u.root.children.insert(rng.randint(0, len(u.root.children)), imp(parts[rng.randrange(j + 1, nparts)]))
    cus = []
    for i in range(rng.randint(1, 3)):
        version = rng.choice([2, 3, 4, 5])
        pool, budget = [], [rng.randint(0, 10)]
        root = Die("DW_TAG_compile_unit", [Attr("DW_AT_name", "DW_FORM_string", b"c%d" % i)], flag=True)
        for _ in range(rng.randint(0, 3)):
            root.children.append(rand_tree(rng, version, rng.randint(0, 3), budget, pool))
        hosts = [root] + [d for d in pool if d.flag or not d.children]
        for _ in range(rng.randint(1, 4)):
            host = rng.choice(hosts)
            host.children.insert(rng.randint(0, len(host.children)), imp(rng.choice(parts)))
            host.flag = True
        cus.append(Unit(root, version))
    units = cus + parts
    rng.shuffle(units)
    f = Forest(units)
    fix_small_refs(f)
    return f


def fix_small_refs(forest):
    """DW_FORM_ref1 only reaches 255 bytes into the unit: fall back to ref4 where it does not fit"""
    from vlib.dwgen import layout
    for _ in range(3):
        layout(forest)
        changed = False
        for d in forest.dies():
            for a in d.attrs:
                if a.form == "DW_FORM_ref1" and isinstance(a.value, Die) and a.value.off - d.unit.off > 255:
                    a.form = "DW_FORM_ref4"
                    changed = True
        if not changed:
            break


ROW_QUERY = ("[pos, offset, label value, [?haschildren 1], [parent offset], [child offset], "
             "[attribute [label value, form value]], [root offset], [unit offset]]")


def impl_rows(path, cooked):
    q = ("entry " if cooked else "raw entry ") + ROW_QUERY
    uq = "[unit offset]" if cooked else "[raw unit offset]"
    r, ru = zw.run_cases([zw.enc(q, dw=path, max=20000, t=60), zw.enc(uq, dw=path)])
    rows = []
    if not r.ok():
        return None, None, json.dumps(r.d)[:300]
    for s in r.results:
        v = s[0]["v"]
        num = lambda x: int(x["v"])
        lst = lambda x: [num(e) for e in x["v"]]
        rows.append({"pos": num(v[0]), "off": num(v[1]), "tag": num(v[2]), "flag": bool(v[3]["v"]),
                     "parent": (lst(v[4]) + [None])[0] if len(v[4]["v"]) <= 1 else lst(v[4]),
                     "kids": lst(v[5]), "attrs": [tuple(lst(e)) for e in v[6]["v"]],
                     "root": (lst(v[7]) + [None])[0], "unit": (lst(v[8]) + [None])[0]})
    units = [int(e["v"]) for e in ru.results[0][0]["v"]] if ru.ok() and ru.results else None
    return rows, units, None


def model_rows(forests):
    """forests: list of Forest (already laid out).  Returns per forest {raw: [...], cooked: [...], rawunits, cookedunits}"""
    text = "".join(forest_text(f) for f in forests)
    rc, out, err = common.run(["bash", "-c", "ulimit -s 4000000 2>/dev/null; exec %s dw" % common.model_bin()], input=text, timeout=900)
    res, cur = [], {"raw": [], "cooked": [], "find": {}}
    for line in out.split("\n"):
        p = line.split(" ")
        if p[0] == "RAWUNITS":
            cur["rawunits"] = [int(x) for x in p[1].split(",") if x]
        elif p[0] == "WALK":
            cur["walk"] = [int(x) for x in p[1].split(",") if x] if len(p) > 1 else []
        elif p[0] == "COOKEDUNITS":
            cur["cookedunits"] = [int(x) for x in p[1].split(",") if x]
        elif p[0] in ("RAW", "COOKED"):
            opt = lambda s: None if s == "-" else int(s)
            lst = lambda s: [int(x) for x in s[1:-1].split(",") if x]
            cur[p[0].lower()].append({"off": int(p[1]), "tag": int(p[2]), "flag": p[3] == "1", "parent": opt(p[4]), "kids": lst(p[5]),
                                      "attrs": [tuple(int(y) for y in x.split(":")) for x in p[6][1:-1].split(",") if x],
                                      "root": opt(p[7]), "unit": opt(p[8])})
        elif p[0] == "KIDS":
            cur.setdefault("kids", {})[int(p[1])] = [(int(x.split("@")[0]), [int(y) for y in x.split("@")[1].split(".") if y]) for x in p[2:] if x]
        elif p[0] == "ENTRIES":
            cur.setdefault("entries", []).extend((int(x.split("@")[0]), [int(y) for y in x.split("@")[1].split(".") if y]) for x in p[2:] if x)
        elif p[0] == "FIND":
            cur["find"][int(p[1])] = {int(x.split("=")[0]): (None if x.split("=")[1] == "-" else tuple(int(y) for y in x.split("=")[1].split(":"))) for x in p[2:] if x}
        elif p[0] == "END":
            res.append(cur)
            cur = {"raw": [], "cooked": [], "find": {}}
    if len(res) != len(forests):
        raise RuntimeError("zwmodel dw: %d answers for %d forests: %s" % (len(res), len(forests), err[-300:]))
    return res


def describe(forest):
    return [{"unit": u.off, "version": u.version, "dies": len(u.dies())} for u in forest.units]


def compare_rows(impl, model, fields):
    """first difference between row lists on the given fields, or None"""
    if len(impl) != len(model):
        return "the implementation reports %d DIEs, the stored forest has %d (offsets %s vs %s)" % (
            len(impl), len(model), [hex(r["off"]) for r in impl][:40], [hex(r["off"]) for r in model][:40])
    for i, (a, b) in enumerate(zip(impl, model)):
        if "pos" in fields and a["pos"] != i:
            return "DIE number %d (offset %#x) carries position %d" % (i, a["off"], a["pos"])
        for f in fields:
            if f == "pos":
                continue
            if a[f] != b[f]:
                return "DIE %#x (number %d): %s is %s, stored/expected %s" % (b["off"], i, f, a[f], b[f])
    return None


def workdir(ctx):
    d = os.path.join(common.BUILD, "dw", ctx.pid + "-" + ctx.tier)
    os.makedirs(d, exist_ok=True)
    for f in os.listdir(d):
        os.unlink(os.path.join(d, f))
    return d


# ---- hand-shaped forests ----

def cu(name, kids=None, version=4, partial=False):
    return Unit(Die("DW_TAG_partial_unit" if partial else "DW_TAG_compile_unit", [Attr("DW_AT_name", "DW_FORM_string", name)], kids or [], flag=True), version)


def var(name, extra=None):
    return Die("DW_TAG_variable", [Attr("DW_AT_name", "DW_FORM_string", name)] + (extra or []))


def imp(unit):
    return Die("DW_TAG_imported_unit", [Attr("DW_AT_import", "DW_FORM_ref_addr", unit.root)])


def shaped_forests():
    out = []
    # empty units between and after real ones, in several versions
    out.append(("empty-units", Forest([cu(b"a", [var(b"av")]), Unit(None, 4), cu(b"b", [var(b"bv")], 5), Unit(None, 5), Unit(None, 2), cu(b"c", [], 3), Unit(None, 3)])))
    out.append(("only-empty", Forest([Unit(None, 4), cu(b"z", [var(b"zv")])])))
    # an import that leads to a compile unit (LTO-like), next to one that leads to a partial unit
    ic_b = cu(b"icb", [var(b"b1"), Die("DW_TAG_namespace", [Attr("DW_AT_name", "DW_FORM_string", b"bns")], [var(b"b2")])])
    ic_p = cu(b"icp", [var(b"p1")], 4, True)
    out.append(("import-cu", Forest([cu(b"ica", [var(b"a1"), imp(ic_b), var(b"a2"), imp(ic_p)]), ic_b, ic_p])))
    # vendor attributes on both ends of a link; a vendor attribute whose code shares its low byte with an inherited standard one;
    # call sites that get their name through DW_AT_abstract_origin
    decl = Die("DW_TAG_subprogram", [Attr("DW_AT_name", "DW_FORM_string", b"callee"), Attr("DW_AT_MIPS_linkage_name", "DW_FORM_string", b"_Zdecl"),
                                      Attr("DW_AT_byte_size", "DW_FORM_data1", 4), Attr("DW_AT_declaration", "DW_FORM_flag", True)])
    defn = Die("DW_TAG_subprogram", [Attr("DW_AT_specification", "DW_FORM_ref4", decl), Attr("DW_AT_MIPS_linkage_name", "DW_FORM_string", b"_Zdefn"),
                                      Attr("DW_AT_MIPS_tail_loop_begin", "DW_FORM_data1", 1)])
    cs1 = Die("DW_TAG_GNU_call_site", [Attr("DW_AT_abstract_origin", "DW_FORM_ref4", decl)])
    cs2 = Die("DW_TAG_call_site", [Attr("DW_AT_abstract_origin", "DW_FORM_ref4", defn)])
    inl = Die("DW_TAG_inlined_subroutine", [Attr("DW_AT_abstract_origin", "DW_FORM_ref4", decl)], [cs1])
    out.append(("vendor-and-call-sites", Forest([cu(b"vc", [decl, defn, Die("DW_TAG_subprogram", [Attr("DW_AT_name", "DW_FORM_string", b"caller")], [inl, cs2])])])))
    # units of every kind: only partial units are left out of the cooked view
    def ku(tag, name, kids):
        return Unit(Die(tag, [Attr("DW_AT_name", "DW_FORM_string", name)], kids, flag=True), 5)
    kp = cu(b"kp", [var(b"kpv")], 4, True)
    out.append(("unit-kinds", Forest([ku("DW_TAG_type_unit", b"kt", [Die("DW_TAG_structure_type", [Attr("DW_AT_name", "DW_FORM_string", b"S")], [var(b"m")])]),
                                      cu(b"kc", [var(b"kcv"), imp(kp)]), kp,
                                      ku("DW_TAG_skeleton_unit", b"ks", []), ku("DW_TAG_type_unit", b"kt2", [var(b"t2v")])])))
    # a partial unit that imports an empty partial unit and has DIEs after that import
    ep_e = cu(b"epe", [], 4, True)
    ep_p = cu(b"epp", [var(b"before"), imp(ep_e), var(b"after"), Die("DW_TAG_namespace", [], [imp(ep_e), var(b"in_ns")])], 4, True)
    out.append(("import-empty-partial", Forest([cu(b"epd", [var(b"d1"), imp(ep_p), var(b"d2")]), ep_p, ep_e, cu(b"epd2", [imp(ep_e), var(b"only")], 5)])))
    # a compile unit that imports another compile unit, no partial unit anywhere
    cc_b = cu(b"ccb", [var(b"cb1"), Die("DW_TAG_namespace", [Attr("DW_AT_name", "DW_FORM_string", b"cbns")], [var(b"cb2")])], 5)
    out.append(("cu-imports-cu", Forest([cu(b"cca", [var(b"ca1"), imp(cc_b), var(b"ca2")]), cc_b])))
    # more units than any small table of per-unit data holds, all of them coming back to one shared partial unit
    shared = cu(b"shared", [var(b"sh1"), Die("DW_TAG_structure_type", [Attr("DW_AT_name", "DW_FORM_string", b"S")], [var(b"sh_m")])], 4, True)
    out.append(("many-importers", Forest([cu(b"mi%d" % i, [var(b"mv%d" % i), imp(shared)] + ([Die("DW_TAG_namespace", [], [imp(shared)])] if i % 9 == 0 else []), [2, 3, 4, 5][i % 4])
                                          for i in range(35)] + [shared] +
                                         [cu(b"mj%d" % i, [imp(shared), var(b"mw%d" % i)], [4, 5][i % 2]) for i in range(40)])))
    # C++ using-directives / using-declarations (DW_AT_import on DIEs that are no imported units) next to a real import
    ns_v = var(b"in_ns")
    ns = Die("DW_TAG_namespace", [Attr("DW_AT_name", "DW_FORM_string", b"N")], [ns_v, var(b"in_ns2")])
    up = cu(b"usingp", [var(b"from_partial")], 4, True)
    fn = Die("DW_TAG_subprogram", [Attr("DW_AT_name", "DW_FORM_string", b"f")],
             [Die("DW_TAG_imported_module", [Attr("DW_AT_import", "DW_FORM_ref4", ns)]), Die("DW_TAG_imported_declaration", [Attr("DW_AT_import", "DW_FORM_ref4", ns_v)]), var(b"local")])
    out.append(("using", Forest([cu(b"using", [ns, Die("DW_TAG_imported_module", [Attr("DW_AT_import", "DW_FORM_ref4", ns)]), fn, imp(up),
                                               Die("DW_TAG_imported_declaration", [Attr("DW_AT_import", "DW_FORM_ref_addr", up.root.children[0])]), var(b"after")]), up])))
    # DIEs with many attributes (readers that fetch them in batches: 15, 16, 17, 31, 32, 33, 48, 70)
    names = sorted((n for n, v in consts().items() if n.startswith("DW_AT_") and 3 < v < 0x2000 and n not in
                    ("DW_AT_sibling", "DW_AT_import", "DW_AT_specification", "DW_AT_abstract_origin", "DW_AT_decl_file", "DW_AT_call_file",
                     "DW_AT_signature", "DW_AT_str_offsets_base")), key=lambda n: (consts()[n], n))
    names = [n for i, n in enumerate(names) if i == 0 or consts()[names[i - 1]] != consts()[n]]
    wides = [Die("DW_TAG_variable", [Attr(names[(k * 7 + i) % len(names)], "DW_FORM_data1", (i * 3 + k) & 0xff) for i in range(cnt)], [var(b"in%d" % cnt)] if k % 2 else [])
             for k, cnt in enumerate((15, 16, 17, 31, 32, 33, 48, 70))]
    out.append(("wide-dies", Forest([cu(b"wide", wides), cu(b"wide5", [Die("DW_TAG_member", list(w.attrs)) for w in wides[1:4]], 5)])))
    # units whose last chains of siblings end with the unit instead of with null entries
    def nest(tagname, depth):
        d = var(tagname + b"_leaf")
        for i in range(depth):
            d = Die("DW_TAG_lexical_block", [Attr("DW_AT_decl_line", "DW_FORM_data1", i)], [var(tagname + b"%d" % i), d])
        return d
    ucs = [cu(b"uc0", [var(b"x0"), nest(b"a", 3)]), cu(b"uc1", [nest(b"b", 2)], 5), cu(b"uc2", [var(b"x2"), nest(b"c", 1)], 3), cu(b"uc3", [var(b"last")]),
           cu(b"uc4", [nest(b"d", 2), Die("DW_TAG_namespace", [], [], flag=True)], 2)]
    for u, k in zip(ucs, (4, 1, 2, 0, 2)):
        u.unclosed = k
    out.append(("unclosed-units", Forest(ucs)))
    # childless DIEs whose abbreviation claims children, with following siblings
    h = Die("DW_TAG_lexical_block", [], [], flag=True)
    out.append(("hollow", Forest([cu(b"h", [var(b"before"), h, var(b"after"), Die("DW_TAG_namespace", [], [Die("DW_TAG_lexical_block", [], [], flag=True), var(b"in_ns")]), var(b"last")])])))
    # deep nesting
    d = var(b"leaf")
    for i in range(60):
        d = Die("DW_TAG_lexical_block", [Attr("DW_AT_decl_line", "DW_FORM_udata", i)], [d, var(b"s%d" % i)])
    out.append(("deep", Forest([cu(b"deep", [d])])))
    # many units
    out.append(("many-units", Forest([cu(b"u%d" % i, [var(b"v%d" % i)] * 0 + [var(b"w%d" % i)], [2, 3, 4, 5][i % 4]) for i in range(40)])))
    # repeated attribute names, all positions
    r = Die("DW_TAG_variable", [Attr("DW_AT_name", "DW_FORM_string", b"one"), Attr("DW_AT_decl_line", "DW_FORM_data1", 1), Attr("DW_AT_name", "DW_FORM_string", b"two"),
                                 Attr("DW_AT_decl_line", "DW_FORM_data1", 2), Attr("DW_AT_name", "DW_FORM_strp", b"three")])
    out.append(("repeated-names", Forest([cu(b"r", [r, var(b"x")])])))
    # imports: nested three deep, a diamond, the same unit imported twice by one DIE, import inside a namespace
    p3 = cu(b"p3", [var(b"p3a"), Die("DW_TAG_namespace", [Attr("DW_AT_name", "DW_FORM_string", b"p3ns")], [var(b"p3deep")])], 4, True)
    p2 = cu(b"p2", [var(b"p2a"), imp(p3), var(b"p2b")], 4, True)
    p1 = cu(b"p1", [imp(p2), var(b"p1a")], 5, True)
    c1 = cu(b"c1", [var(b"c1a"), imp(p1), Die("DW_TAG_namespace", [Attr("DW_AT_name", "DW_FORM_string", b"ns")], [imp(p3), var(b"nsv"), imp(p3)]), imp(p2)])
    c2 = cu(b"c2", [imp(p3), imp(p1)], 3)
    out.append(("imports", Forest([c1, p1, c2, p2, p3])))
    # specification / abstract_origin chains
    base = var(b"base", [Attr("DW_AT_decl_line", "DW_FORM_data1", 7), Attr("DW_AT_declaration", "DW_FORM_flag", True), Attr("DW_AT_byte_size", "DW_FORM_data1", 4)])
    chain = [base]
    for i in range(20):
        chain.append(Die("DW_TAG_variable", [Attr("DW_AT_specification" if i % 2 else "DW_AT_abstract_origin", "DW_FORM_ref4", chain[-1])] +
                         ([Attr("DW_AT_external", "DW_FORM_flag", True)] if i == 10 else []) + ([Attr("DW_AT_decl_line", "DW_FORM_data1", 99)] if i == 15 else [])))
    both_a = var(b"from_spec", [Attr("DW_AT_decl_file", "DW_FORM_data1", 1), Attr("DW_AT_byte_size", "DW_FORM_data1", 8)])
    both_b = var(b"from_origin", [Attr("DW_AT_decl_line", "DW_FORM_data1", 5), Attr("DW_AT_byte_size", "DW_FORM_data1", 16)])
    both = Die("DW_TAG_variable", [Attr("DW_AT_specification", "DW_FORM_ref4", both_a), Attr("DW_AT_abstract_origin", "DW_FORM_ref4", both_b)])
    both2 = Die("DW_TAG_variable", [Attr("DW_AT_abstract_origin", "DW_FORM_ref4", both_b), Attr("DW_AT_specification", "DW_FORM_ref4", both_a)])
    # an attribute whose decoding depends on the DIE that has it, two and three links away
    schar = Die("DW_TAG_base_type", [Attr("DW_AT_name", "DW_FORM_string", b"schar"), Attr("DW_AT_byte_size", "DW_FORM_data1", 1),
                                     Attr("DW_AT_encoding", "DW_FORM_data1", C("DW_ATE_signed_char"))])
    far = Die("DW_TAG_enumerator", [Attr("DW_AT_name", "DW_FORM_string", b"far"), Attr("DW_AT_const_value", "DW_FORM_data1", 0xff)])
    enum_t = Die("DW_TAG_enumeration_type", [Attr("DW_AT_name", "DW_FORM_string", b"E"), Attr("DW_AT_type", "DW_FORM_ref4", schar)], [far])
    hop1 = Die("DW_TAG_variable", [Attr("DW_AT_specification", "DW_FORM_ref4", far)])
    hop2 = Die("DW_TAG_member", [Attr("DW_AT_abstract_origin", "DW_FORM_ref4", hop1)])
    hop3 = Die("DW_TAG_member", [Attr("DW_AT_specification", "DW_FORM_ref4", hop2), Attr("DW_AT_decl_line", "DW_FORM_data1", 3)])
    out.append(("chains", Forest([cu(b"ch", chain + [both_a, both_b, both, both2, schar, enum_t, hop1, hop2, hop3])])))
    for _, f in out:
        fix_small_refs(f)
    return out


def sample_files():
    t = os.path.join(common.REPO, "tests")
    out = []
    for n in sorted(os.listdir(t)):
        p = os.path.join(t, n)
        if not os.path.isfile(p) or n.endswith((".cc", ".c", ".sh", ".s", ".S", ".txt", ".h", ".hh", ".awk", ".py")):
            continue
        with open(p, "rb") as f:
            if f.read(4) != b"\x7fELF":
                continue
        out.append(p)
    return out


def law_counts(path, laws):
    """laws: [(name, query)] -> {name: number of results or 'ERR:...'}"""
    rs = zw.run_cases([zw.enc(q, dw=path, t=120, max=50000) for _, q in laws])
    out = {}
    for (n, _), r in zip(laws, rs):
        if not r.ok():
            out[n] = "ERR:" + json.dumps(r.d)[:200]
        else:
            out[n] = len(r.results)
    return out
