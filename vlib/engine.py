"""Running Zwerg programs through the implementation (zwdrv) and through the
extracted engine model (zwmodel run), and bringing both to one canonical form.

Canonical form of a run:  (status, [events])  with
  status  in DONE | ABORT | HANG | REJECT:<kind> | CRASH:<what>
  events  "R[<stack>]" (TOS first; c:<int>:<dom>:<pos>, s:<hex>:<pos>, q:[..]:<pos>, clo:<pos>),
          "E" for an `Error:` line on stderr, "W" for a `Warning:` line.
"""
import json

from . import common, zw

FUEL = 600
LIMIT = 60           # max results pulled on either side


def canon_value(v):
    t = v["t"]
    if t == "c":
        return "c:%s:%s:%d" % (v["v"], v["d"], v["pos"])
    if t == "s":
        return "s:%s:%d" % (v["v"], v["pos"])
    if t == "q":
        return "q:[%s]:%d" % (",".join(canon_value(x) for x in v["v"]), v["pos"])
    if t == "clo":
        return "clo:%d" % v["pos"]
    return "%s:%d" % (t, v.get("pos", 0))


def canon_impl(r):
    """zw.Res -> (status, events)"""
    if r.crash:
        if str(r.crash).startswith("timeout"):
            return ("HANG", [])
        return ("CRASH:" + str(r.crash), [])
    if r.contract:
        return ("CRASH:contract " + r.contract, [])
    if r.compile_error is not None:
        msg = r.compile_error
        kind = "unbound" if "unbound name" in msg else "rebound" if "rebound" in msg else "syntax"
        return ("REJECT:" + kind, [])
    evs = []
    for e in r.events:
        if e[0] == "r":
            evs.append("R[" + " ".join(canon_value(v) for v in e[1]) + "]")
        elif e[0] == "e":
            evs.append("W" if e[1].startswith("Warning") else "E")
    if r.hard is not None:
        return ("ABORT", evs)
    if r.truncated:
        return ("HANG", evs)
    return ("DONE", evs)


def canon_model(line):
    if line in ("OK", "unbound", "rebound", "badtree", "EQ", "NE"):
        return (line, [])
    f = line.split(" ", 1)
    st = f[0]
    rest = f[1] if len(f) > 1 else ""
    if st == "BUILDERR":
        return ("REJECT:" + rest.strip(), [])
    if st == "MODELERR":
        return ("MODELERR:" + rest, [])
    evs = split_events(rest)
    if st == "FUEL":
        return ("HANG", evs)
    if st == "STUCK":
        return ("STUCK", evs)
    return (st, evs)


def split_events(text):
    """events are separated by blanks, but R[...] contains blanks"""
    evs, i, n = [], 0, len(text)
    while i < n:
        if text[i] == " ":
            i += 1
        elif text[i] == "R":
            depth, j = 0, i + 1
            while j < n:
                if text[j] == "[":
                    depth += 1
                elif text[j] == "]":
                    depth -= 1
                    if depth == 0:
                        break
                j += 1
            evs.append(text[i:j + 1])
            i = j + 1
        else:
            j = text.find(" ", i)
            j = n if j < 0 else j
            evs.append(text[i:j])
            i = j
    return evs


_PARAMS = None
_OTHERS = []


def observe_params():
    """type codes and the address order of the domains the model distinguishes"""
    global _PARAMS
    qs = ["T_CONST value", "T_STR value", "T_SEQ value", "T_CLOSURE value",
          "[(1 true ?lt \"ab\"), (1 T_CONST ?lt \"as\"), (true T_CONST ?lt \"bs\")]"]
    rs = zw.run_cases([zw.enc(q) for q in qs])
    tcs = [int(r.results[0][0]["v"]) for r in rs[:4]]
    holds = set(bytes.fromhex(x["v"]).decode() for x in rs[4].results[0][0]["v"])
    # rank the three keys arith (a), bool (b), slot (s)
    less = {("a", "b"): "ab" in holds, ("a", "s"): "as" in holds, ("b", "s"): "bs" in holds}
    rank = {}
    for k in "abs":
        rank[k] = 1 + sum(1 for o in "abs" if o != k and (less.get((o, k)) if (o, k) in less else not less[(k, o)]))
    # the other registered value types (the base type, the Dwarf ones): what a
    # slot-type constant with that code renders as
    codes = [k for k in range(0, 48) if k not in tcs]
    ns = zw.run_cases([zw.enc('T_CONST %d add "%%s"' % (k - tcs[0])) for k in codes])
    others = []
    for k, r in zip(codes, ns):
        if r.ok() and r.results:
            nm = bytes.fromhex(r.results[0][0]["v"])
            if not nm.startswith(b"T_??? ("):
                others.append("%d:x%s" % (k, nm.hex()))
    _PARAMS = tcs + [rank["a"], rank["b"], rank["s"]]
    _OTHERS[:] = others
    return _PARAMS


def _model_part(args, budget=120):
    sx_trees, fuel, limit, p = args[:4]
    mode = args[4] if len(args) > 4 else "run"
    inp = " ".join(str(x) for x in p) + " %d %d" % (fuel, limit) + "".join(" " + o for o in _OTHERS) + "\n" + "".join(t + "\n" for t in sx_trees)
    rc, out, err = common.run(["bash", "-c", "ulimit -s 4000000 2>/dev/null; ulimit -v 12000000; exec %s %s" % (common.model_bin(), mode)],
                              input=inp, timeout=budget)
    lines = out.split("\n")
    if lines and lines[-1] == "":
        lines.pop()
    res = [canon_model(l) for l in lines[:len(sx_trees)]]
    if len(res) < len(sx_trees):
        k = len(res)
        if rc == 124:
            # over budget on case k: the model is (much) slower than any run of
            # the implementation we wait for; treat as not finishing
            res.append(("HANG", []))
        else:
            res.append(("MODELERR:died rc=%s %s" % (rc, err[-200:].replace("\n", " ")), []))
        if k + 1 < len(sx_trees):
            res += _model_part((sx_trees[k + 1:], fuel, limit, p, mode), budget)
    return res


def run_model(sx_trees, fuel=FUEL, limit=LIMIT, mode="run"):
    from concurrent.futures import ThreadPoolExecutor
    p = _PARAMS or observe_params()
    if not sx_trees:
        return []
    jobs = int(common.NPROC)
    size = max(1, min(300, (len(sx_trees) + jobs - 1) // jobs))
    parts = [sx_trees[i:i + size] for i in range(0, len(sx_trees), size)]
    with ThreadPoolExecutor(max_workers=jobs) as ex:
        res = list(ex.map(_model_part, [(pt, fuel, limit, p, mode) for pt in parts]))
    out = []
    for r in res:
        out += r
    return out


def run_both(queries, simplified=True, timeout_s=3):
    """Returns list of (query, impl canon, model canon, sx tree)."""
    trees = zw.run_cases([zw.enc(q, m="tree") for q in queries])
    runs = zw.run_cases([zw.enc(q, t=timeout_s, max=LIMIT) for q in queries])
    key = "sx_simplified" if simplified else "sx"
    idx = [i for i, t in enumerate(trees) if t.d.get(key)]
    models = run_model([trees[i].d[key] for i in idx]) if idx else []
    mm = dict(zip(idx, models))
    out = []
    for i, q in enumerate(queries):
        ci = canon_impl(runs[i])
        if i in mm:
            cm = mm[i]
            if trees[i].d.get("built") is False and cm[0].startswith("REJECT"):
                pass
        else:
            cm = ("REJECT:syntax", [])
        out.append((q, ci, cm, trees[i].d.get(key)))
    return out


def agree(ci, cm):
    """Both diverging counts as agreement on the common prefix only."""
    if ci[0] == "HANG" or cm[0] == "HANG":
        if ci[0] == cm[0]:
            k = min(len(ci[1]), len(cm[1]))
            return ci[1][:k] == cm[1][:k]
        return False
    if ci[0] == "ABORT" and cm[0] == "ABORT":
        # diagnostics printed during the pull that ended in the exception are
        # not recorded by the model: compare up to the last result
        def upto(evs):
            k = max([i for i, e in enumerate(evs) if e.startswith("R")], default=-1)
            return evs[:k + 1]
        return upto(ci[1]) == upto(cm[1])
    return ci == cm
