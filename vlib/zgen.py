"""Generators of Zwerg programs over the core constructs.

Programs are generated together with an abstract stack (list of type tags,
TOS last: 'i' integer, 's' string, 'q' sequence, '?' unknown) so that most
words are applied to operands they accept; a small fraction is deliberately
ill-typed to exercise the diagnostics.  All random choices come from the
random.Random instance passed in.
"""
import itertools

INTS = ["0", "1", "2", "3", "7", "0x10", "-1"]
STRS = ['""', '"a"', '"ab"', '"ba"']
SEQS = ["[]", "[1, 2]", "[1, 2, 3]", '["a", 1]', "[[1], 2]"]


class G:
    def __init__(self, rng, max_depth=4, names=True, closures=True, blocks=True, illtyped=0.05):
        self.r = rng
        self.max_depth = max_depth
        self.names = names
        self.closures = closures
        self.blocks = blocks
        self.illtyped = illtyped
        self.counter = 0
        self.stats = {}

    def note(self, k):
        self.stats[k] = self.stats.get(k, 0) + 1

    def fresh(self):
        self.counter += 1
        return "V%d" % self.counter

    # ---- atoms --------------------------------------------------------
    def atom(self, st, env):
        r = self.r
        cands = []
        top = st[-1] if st else None
        sec = st[-2] if len(st) > 1 else None
        cands += [("lit", 4)]
        if env:
            cands += [("name", 3)]
        if top is not None:
            cands += [("dup", 1), ("drop", 1), ("type", 0.3), ("pos", 0.5)]
        if top == "i":
            cands += [("cast", 0.5), ("value", 0.3), ("arith1", 2), ("cmp1", 1.5), ("numword", 0.5)]
        if top in ("s", "q"):
            cands += [("length", 1), ("elem", 2), ("relem", 0.7), ("empty", 0.5)]
        if top is not None and sec is not None:
            cands += [("swap", 0.7), ("over", 0.5), ("cmp2", 1)]
            if top == sec and top in ("i", "s", "q"):
                cands += [("add2", 1.5)]
            if top == sec and top in ("s", "q"):
                cands += [("find", 0.7)]
            if top == "i" and sec == "i":
                cands += [("arith2", 1.5)]
        if len(st) > 2:
            cands += [("rot", 0.3)]
        if r.random() < self.illtyped and "t" not in st[-2:]:
            cands = [("dup", 1), ("drop", 1), ("swap", 1), ("add2", 1), ("length", 1), ("elem", 1), ("arith2", 1),
                     ("cmp2", 1), ("cast", 1), ("find", 1), ("empty", 1), ("rot", 1), ("over", 1)]
            self.note("illtyped")
        k = self.pick(cands)
        self.note("atom:" + k)
        if k == "lit":
            t = r.choice("iiisq")
            txt = r.choice({"i": INTS, "s": STRS, "q": SEQS}[t])
            return txt, st + [t]
        if k == "name":
            n, t = r.choice(env)
            return n, st + [t]
        if k == "dup":
            return "dup", st + st[-1:] if st else st
        if k == "drop":
            return "drop", st[:-1]
        if k == "type":
            return "type", st[:-1] + ["t"]
        if k == "pos":
            return "pos", st[:-1] + ["i"]
        if k == "cast":
            return r.choice(["hex", "dec", "oct", "bin"]), st[:-1] + ["i"]
        if k == "value":
            return "value", st[:-1] + ["i"]
        if k == "arith1":
            return "%s %s" % (r.choice(INTS), r.choice(["add", "sub", "mul", "div", "mod"])), st[:-1] + ["i"]
        if k == "cmp1":
            return "(%s %s)" % (r.choice(["==", "!=", "<", ">", "<=", ">="]), r.choice(INTS)), st
        if k == "numword":
            return r.choice(["?0", "!0", "?1", "!1", "?2"]), st
        if k == "length":
            return "length", st[:-1] + ["i"]
        if k == "elem":
            return "elem", st[:-1] + ["?" if (st and st[-1] == "q") else "s"]
        if k == "relem":
            return "relem", st[:-1] + ["?" if (st and st[-1] == "q") else "s"]
        if k == "empty":
            return r.choice(["?empty", "!empty"]), st
        if k == "swap":
            return "swap", st[:-2] + [st[-1], st[-2]] if len(st) > 1 else st
        if k == "over":
            return "over", st + [st[-2]] if len(st) > 1 else st
        if k == "rot":
            return "rot", st[:-3] + [st[-2], st[-1], st[-3]] if len(st) > 2 else st
        if k == "cmp2":
            return r.choice(["?eq", "!eq", "?lt", "!lt", "?gt", "?ge", "?le", "?ne"]), st
        if k == "add2":
            return "add", st[:-1]
        if k == "arith2":
            return r.choice(["add", "sub", "mul", "div", "mod"]), st[:-1]
        if k == "find":
            return r.choice(["?find", "!find", "?starts", "?ends", "!starts"]), st
        return "", st

    def pick(self, cands):
        tot = sum(w for _, w in cands)
        x = self.r.random() * tot
        for k, w in cands:
            x -= w
            if x <= 0:
                return k
        return cands[-1][0]

    # ---- expressions -------------------------------------------------
    def seq(self, depth, st, env, n=None):
        """a concatenation of n statements"""
        n = n or self.r.choice([1, 1, 2, 2, 3])
        parts = []
        for _ in range(n):
            t, st, env = self.stmt(depth, st, env)
            if t:
                parts.append(t)
        return " ".join(parts), st, env

    def sub(self, depth, st, env):
        """sub-expression: own scope for names"""
        t, st2, _ = self.seq(depth, st, list(env))
        return t, st2

    def stmt(self, depth, st, env):
        r = self.r
        if depth <= 0:
            t, st = self.atom(st, env)
            return t, st, env
        kinds = [("atom", 5), ("alt", 2.5), ("or", 1.5), ("capture", 1.5), ("subx", 1.2), ("neg", 0.6),
                 ("infix", 1.0), ("if", 1.0), ("format", 1.2), ("opt", 0.6), ("paren", 0.5)]
        if self.names:
            kinds += [("let", 1.5), ("bindparen", 0.8), ("bindcapture", 0.4)]
        if self.closures:
            kinds += [("star", 0.9), ("plus", 0.6)]
        if self.blocks and self.names:
            kinds += [("block", 0.7)]
        k = self.pick(kinds)
        self.note("stmt:" + k)
        d = depth - 1
        if k == "atom":
            t, st = self.atom(st, env)
            return t, st, env
        if k == "paren":
            t, st2 = self.sub(d, st, env)
            return "(%s)" % t, st2, env
        if k == "alt":
            n = r.choice([2, 2, 3])
            bs = [self.sub(d, st, env) for _ in range(n)]
            return "(%s)" % ", ".join(b[0] for b in bs), self.join([b[1] for b in bs]), env
        if k == "or":
            n = r.choice([2, 2, 3])
            bs = [self.sub(d, st, env) for _ in range(n)]
            return "(%s)" % " || ".join(b[0] for b in bs), self.join([b[1] for b in bs]), env
        if k == "capture":
            t, _ = self.sub(d, st, env)
            return "[%s]" % t, st + ["q"], env
        if k == "subx":
            t, _ = self.sub(d, st, env)
            return "?(%s)" % t, st, env
        if k == "neg":
            t, _ = self.sub(d, st, env)
            return "!(%s)" % t, st, env
        if k == "infix":
            a, sa = self.sub(d, st, env)
            b, sb = self.sub(d, st, env)
            return "(%s %s %s)" % (a, r.choice(["==", "!=", "<", ">", "<=", ">="]), b), st, env
        if k == "if":
            c, _ = self.sub(d, st, env)
            a, sa = self.sub(d, st, env)
            b, sb = self.sub(d, st, env)
            return "if (%s) then (%s) else (%s)" % (c, a, b), self.join([sa, sb]), env
        if k == "format":
            return self.format(d, st, env)
        if k == "opt":
            t, st2 = self.sub(d, st, env)
            return "(%s)?" % t, self.join([st, st2]), env
        if k == "let":
            nm = self.fresh()
            t, st2 = self.sub(d, st, env)
            ty = st2[-1] if st2 else "?"
            return "let %s := %s;" % (nm, t), st, env + [(nm, ty)]
        if k == "bindparen":
            if not st:
                t, st = self.atom(st, env)
                return t, st, env
            nm = self.fresh()
            t, st2 = self.sub(d, st[:-1], env + [(nm, st[-1])])
            return "(|%s| %s)" % (nm, t), st2, env
        if k == "bindcapture":
            if not st:
                t, st = self.atom(st, env)
                return t, st, env
            nm = self.fresh()
            t, _ = self.sub(d, st[:-1], env + [(nm, st[-1])])
            return "[|%s| %s]" % (nm, t), st[:-1] + ["q"], env
        if k in ("star", "plus"):
            body, st2 = self.closure_body(d, st, env)
            return "(%s)%s" % (body, "*" if k == "star" else "+"), st2, env
        if k == "block":
            nm = self.fresh()
            t, st2 = self.sub(d, st, env)
            # bind the block to a name, apply it later through the name
            return "{%s} (|%s| %s)" % (t, nm, nm), st2, env
        return "", st, env

    def join(self, sts):
        a = sts[0]
        for b in sts[1:]:
            if len(a) != len(b):
                n = min(len(a), len(b))
                # keep what both agree on from the bottom
                a = [x if x == y else "?" for x, y in zip(a[:n], b[:n])]
            else:
                a = [x if x == y else "?" for x, y in zip(a, b)]
        return a

    def format(self, d, st, env):
        r = self.r
        n = r.choice([1, 1, 2, 3])
        parts, cur = [], list(st)
        lits = ["", "x", "-", "a b"]
        txt = r.choice(lits)
        # splices are evaluated right to left; %s pops
        specs = []
        for _ in range(n):
            if r.random() < 0.5 and cur:
                specs.append("%s")
                cur = cur[:-1]
            else:
                t, _ = self.sub(d, cur, env)
                if not t:
                    t = "1"
                specs.append("%%( %s %%)" % t)
        body = txt + "".join(s + r.choice(lits) for s in reversed(specs))
        return '"%s"' % body, cur + ["s"], env

    def closure_body(self, d, st, env):
        """bodies whose reachable sets are finite"""
        r = self.r
        top = st[-1] if st else None
        k = r.choice(["count", "count2", "elem", "generic", "cycle"])
        if top != "i" and k in ("count", "count2", "cycle"):
            k = "elem" if top in ("q",) else "generic"
        if k == "count":
            return "1 add ?(%s ?lt)" % r.choice(["3", "4", "5"]), st
        if k == "count2":
            return "(1 add, 2 add) ?(%s ?lt)" % r.choice(["4", "5"]), st
        if k == "cycle":
            return "1 add 3 mod", st
        if k == "elem":
            return "?(type T_SEQ ?eq) elem", st[:-1] + ["?"]
        if "t" in st:
            return "?(type T_SEQ ?eq) elem", st[:-1] + ["?"]
        t, st2 = self.sub(min(d, 1), st, env)
        # keep it from growing: cap integers
        return "%s ?(dup type T_CONST ?eq) ?(dup 6 ?lt) ?(dup -3 ?gt)" % t, st2

    def program(self):
        r = self.r
        self.counter = 0
        # a producer of several input stacks in front exercises stream behaviour
        prefix = r.choice(["", "", "(1, 2)", "(1, 2, 3)", '("a", "ab")', "[1, 2, 3] elem", "1 2", '(1, "a")', "([1], [2, 3])"])
        st = {"": [], "(1, 2)": ["i"], "(1, 2, 3)": ["i"], '("a", "ab")': ["s"], "[1, 2, 3] elem": ["i"],
              "1 2": ["i", "i"], '(1, "a")': ["?"], "([1], [2, 3])": ["q"]}[prefix]
        t, _, _ = self.seq(self.max_depth, list(st), [], n=r.choice([1, 2, 2, 3]))
        return (prefix + " " + t).strip()


# ---- exhaustive small programs ---------------------------------------------

ALPHABET = ["1", "2", '"a"', "[]", "dup", "drop", "swap", "add", "elem", "length", "(== 1)", "?0", "pos"]


def small_terms(size):
    """all programs with exactly `size` constructor/atom nodes"""
    if size == 1:
        for a in ALPHABET:
            yield a
        return
    # unary constructors
    for t in small_terms(size - 1):
        yield "[%s]" % t
        yield "?(%s)" % t
        yield "!(%s)" % t
        yield '"%%( %s %%)"' % t
        yield "(%s)?" % t
    if size == 2:
        # closures with finite reachable sets
        for t in ("(1 add ?(3 ?lt))*", "(1 add ?(3 ?lt))+", "((1 add, 2 add) ?(4 ?lt))*", "(1 add 3 mod)*",
                  "(?(type T_SEQ ?eq) elem)*", "(?(type T_CONST ?eq) 1 add 2 mod)+"):
            yield t
    # binary constructors
    for k in range(1, size - 1):
        for a in small_terms(k):
            for b in small_terms(size - 1 - k):
                yield "%s %s" % (a, b)
                yield "(%s, %s)" % (a, b)
                yield "(%s || %s)" % (a, b)
                yield "(%s == %s)" % (a, b)
                yield "let X := %s; %s X" % (a, b)


def exhaustive(max_size, prefixes=('"a" 2', "(1, 2) 3")):
    seen = set()
    for n in range(1, max_size + 1):
        for t in small_terms(n):
            for p in prefixes:
                q = (p + " " + t).strip()
                if q not in seen:
                    seen.add(q)
                    yield q
