"""Shared machinery of the dwgrep verification checks.

Every check:
  1. rebuilds the implementation from /repo's current working tree (hooks on),
  2. rebuilds the Coq development (full .vo) and collects the proof obligations
     of the property (theorems of coq/props/Properties_<id>.v) and the axioms
     `Print Assumptions` reports for each,
  3. extracts the model and builds the OCaml driver `zwmodel`,
  4. runs the correspondence (model vs implementation, same inputs),
  5. decides, writes evidence/<id>.json, prints VIOLATION / KNOWN-FINDING lines.
"""
import fcntl
import hashlib
import json
import os
import random
import re
import subprocess
import sys
import time

VERIF = os.path.dirname(os.path.dirname(os.path.abspath(__file__)))
REPO = os.environ.get("DWGREP_REPO", "/repo")
# VERIF_BUILD / VERIF_OUT: where binaries and where evidence + replays go; only tools/try_seed_iso.sh
# sets them (a seeded change is tried on a scratch copy of the repository without disturbing /repo,
# build/ or evidence/)
BUILD = os.environ.get("VERIF_BUILD") or os.path.join(VERIF, "build")
OUTROOT = os.environ.get("VERIF_OUT") or VERIF
COQ = os.environ.get("VERIF_COQ") or os.path.join(VERIF, "coq")      # (a scratch copy in tools/try_seed_iso.sh)
NPROC = str(os.cpu_count() or 4)

# axioms of the standard library that the development is allowed to rely on;
# each one that actually shows up is named in the evidence.
ALLOWED_AXIOMS = {
    "functional_extensionality_dep", "proof_irrelevance", "classic",
    "JMeq_eq", "eq_rect_eq", "FunctionalExtensionality.functional_extensionality_dep",
    "Eqdep.Eq_rect_eq.eq_rect_eq", "ProofIrrelevance.proof_irrelevance",
    "Classical_Prop.classic",
}


class Lock:
    def __init__(self, name="build"):
        os.makedirs(BUILD, exist_ok=True)
        self.path = os.path.join(BUILD, "." + name + ".lock")

    def __enter__(self):
        self.f = open(self.path, "w")
        fcntl.flock(self.f, fcntl.LOCK_EX)
        return self

    def __exit__(self, *a):
        fcntl.flock(self.f, fcntl.LOCK_UN)
        self.f.close()


def run(cmd, timeout=None, cwd=None, input=None, env=None, check=False):
    """Run a command, return (rc, stdout, stderr) as text; rc 124 on timeout."""
    try:
        p = subprocess.run(cmd, cwd=cwd, input=input, env=env, timeout=timeout,
                           stdout=subprocess.PIPE, stderr=subprocess.PIPE,
                           text=isinstance(input, str) or input is None)
        out, err = p.stdout, p.stderr
        if isinstance(out, bytes):
            out = out.decode("utf-8", "replace")
            err = err.decode("utf-8", "replace")
        if check and p.returncode != 0:
            raise RuntimeError("command failed: %s\n%s\n%s" % (cmd, out[-2000:], err[-2000:]))
        return p.returncode, out, err
    except subprocess.TimeoutExpired as e:
        out = e.stdout or ""
        err = e.stderr or ""
        if isinstance(out, bytes):
            out = out.decode("utf-8", "replace")
        if isinstance(err, bytes):
            err = err.decode("utf-8", "replace")
        return 124, out, err


# ---------------------------------------------------------------- implementation

def build_impl(flavour="plain"):
    """(Re)build dwgrep + drivers from /repo's working tree.  Returns (ok, log)."""
    with Lock("impl-" + flavour):
        rc, out, err = run(["make", "-f", os.path.join(VERIF, "harness", "build.mk"),
                            "-j" + NPROC, "FLAVOUR=" + flavour, "REPO=" + REPO, "VERIF=" + VERIF, "BUILD=" + BUILD],
                           timeout=1800, cwd=VERIF)
    return rc == 0, out + err


def impl_bin(name, flavour="plain"):
    return os.path.join(BUILD, flavour, name)


# ---------------------------------------------------------------- Coq

SCAN_RE = re.compile(r"\b(Admitted|admit|Axiom|Parameter|Conjecture|Admit Obligations|bypass_check)\b|Unset Guard|Unset Positivity|Unset Universe|type-in-type|impredicative-set")


def coq_files():
    res = []
    for d, _, fs in os.walk(COQ):
        for f in fs:
            if f.endswith(".v"):
                res.append(os.path.join(d, f))
    return sorted(res)


def strip_comments(text):
    out, depth, i = [], 0, 0
    while i < len(text):
        if text.startswith("(*", i):
            depth += 1
            i += 2
        elif text.startswith("*)", i) and depth > 0:
            depth -= 1
            i += 2
        else:
            if depth == 0:
                out.append(text[i])
            i += 1
    return "".join(out)


def static_scan():
    """Forbidden constructs anywhere in the development (comments stripped)."""
    hits = []
    for f in coq_files():
        body = strip_comments(open(f).read())
        for n, line in enumerate(body.split("\n"), 1):
            # Variable / Hypothesis outside a Section are axioms too; we simply
            # do not use them outside sections, and check that here.
            if SCAN_RE.search(line):
                hits.append("%s:%d: %s" % (os.path.relpath(f, VERIF), n, line.strip()))
    return hits


def build_coq():
    """Full .vo build (make -k).  Returns (all_ok, log)."""
    with Lock("coq"):
        if (not os.path.exists(os.path.join(COQ, "Makefile"))
                or os.path.getmtime(os.path.join(COQ, "Makefile")) < os.path.getmtime(os.path.join(COQ, "_CoqProject"))):
            run(["coq_makefile", "-f", "_CoqProject", "-o", "Makefile"], cwd=COQ, check=True)
        os.makedirs(os.path.join(COQ, "extract", "out"), exist_ok=True)
        rc, out, err = run(["make", "-k", "-j" + NPROC], cwd=COQ, timeout=3600)
    return rc == 0, out + err


def coqproject_args():
    args = []
    for line in open(os.path.join(COQ, "_CoqProject")):
        line = line.strip()
        if line.startswith("-Q") or line.startswith("-R"):
            args += line.split()
    return args


THEOREM_RE = re.compile(r"^\s*(Theorem|Example)\s+([A-Za-z0-9_']+)", re.M)


def property_obligations(pid):
    """Compile coq/props/Properties_<pid>.v on its own and report, per theorem,
    whether it was accepted and what Print Assumptions said."""
    path = os.path.join(COQ, "props", "Properties_%s.v" % pid)
    src = open(path).read()
    body = strip_comments(src)
    names = [m.group(2) for m in THEOREM_RE.finditer(body)]
    kinds = {m.group(2): m.group(1) for m in THEOREM_RE.finditer(body)}
    with Lock("coq"):
        rc, out, err = run(["coqc"] + coqproject_args() + [path], cwd=COQ, timeout=1800)
    # Print Assumptions output, in file order
    assumptions = []
    cur = None
    for line in out.split("\n"):
        if line.startswith("Closed under the global context"):
            assumptions.append([])
            cur = None
        elif line.startswith("Axioms:"):
            cur = []
            assumptions.append(cur)
        elif cur is not None and line and not line.startswith(" ") and ":" in line:
            cur.append(line.split(":")[0].strip())
        elif cur is not None and line.startswith("  "):
            pass
    printed = re.findall(r"Print Assumptions\s+([A-Za-z0-9_']+)", body)
    per = {}
    for i, n in enumerate(printed):
        per[n] = assumptions[i] if i < len(assumptions) else None
    failed_at = None
    first_error = None
    if rc != 0:
        m = re.search(r'line (\d+), characters', err)
        first_error = err.strip().split("\n")[0:6]
        if m:
            ln = int(m.group(1))
            # theorem whose statement/proof contains that line
            last = None
            for mm in THEOREM_RE.finditer(src):
                l0 = src.count("\n", 0, mm.start()) + 1
                if l0 <= ln:
                    last = mm.group(2)
            failed_at = last
    obligations = []
    ok_so_far = True
    for n in names:
        if failed_at is not None and n == failed_at:
            ok_so_far = False
        ax = per.get(n)
        bad_ax = [a for a in (ax or []) if a.split(".")[-1] not in {x.split(".")[-1] for x in ALLOWED_AXIOMS}]
        accepted = ok_so_far and (rc == 0 or ax is not None or kinds[n] == "Example") and not bad_ax
        if rc != 0 and not ok_so_far:
            accepted = False
        obligations.append({"name": n, "kind": kinds[n], "accepted": bool(accepted),
                            "assumptions": ax if ax is not None else ("(not printed)" if kinds[n] == "Theorem" else []),
                            "unexpected_axioms": bad_ax})
    return {"file": os.path.relpath(path, VERIF), "rc": rc, "obligations": obligations,
            "first_error": first_error, "failed_at": failed_at,
            "checker_cmd": "cd coq && coq_makefile -f _CoqProject -o Makefile && make -k -j%s && coqc <-Q flags> props/Properties_%s.v" % (NPROC, pid)}


# ---------------------------------------------------------------- model (OCaml)

MODEL_SOURCES = ["zutil.ml", "intmain.ml", "main.ml"]


def model_sources():
    order = open(os.path.join(VERIF, "model", "ORDER")).read().split()
    return order


def build_model():
    """Build build/model/zwmodel from the extracted code + model/*.ml."""
    with Lock("model"):
        out_dir = os.path.join(BUILD, "model")
        os.makedirs(out_dir, exist_ok=True)
        srcs = [os.path.join(COQ, "extract", "out", "zwm.mli"), os.path.join(COQ, "extract", "out", "zwm.ml")]
        srcs += [os.path.join(VERIF, "model", f) for f in model_sources()]
        for s in srcs:
            if not os.path.exists(s):
                return False, "missing " + s
        h = hashlib.sha256()
        for s in srcs:
            h.update(open(s, "rb").read())
        stamp = os.path.join(out_dir, "stamp")
        binp = os.path.join(out_dir, "zwmodel")
        if os.path.exists(stamp) and os.path.exists(binp) and open(stamp).read() == h.hexdigest():
            return True, "up to date"
        for s in srcs:
            with open(os.path.join(out_dir, os.path.basename(s)), "wb") as f:
                f.write(open(s, "rb").read())
        rc, out, err = run(["ocamlfind", "ocamlopt", "-O3", "-w", "-a", "-package", "str", "-linkpkg"]
                           + [os.path.basename(s) for s in srcs] + ["-o", "zwmodel.new"], cwd=out_dir, timeout=600)
        if rc == 0:
            os.replace(binp + ".new", binp)       # a check running the old binary keeps its file
            open(stamp, "w").write(h.hexdigest())
        return rc == 0, out + err


def model_bin():
    return os.path.join(BUILD, "model", "zwmodel")


# ---------------------------------------------------------------- known findings

def load_known():
    p = os.path.join(VERIF, "known_findings.json")
    if not os.path.exists(p):
        return []
    return json.load(open(p))["findings"]


# ---------------------------------------------------------------- context / evidence

class Ctx:
    def __init__(self, pid, tier, seed):
        self.pid = pid
        self.tier = tier
        self.seed = seed
        self.rng = random.Random(seed)
        self.t0 = time.time()
        self.violations = []      # list of dicts {what, replay}
        self.known_hits = []
        self.cov = {}
        self.assumptions = []
        self.known = [k for k in load_known() if k.get("property") == pid and k.get("status") == "known"]

    def sub_rng(self, tag):
        return random.Random("%d/%s" % (self.seed, tag))

    def log(self, *a):
        print("[%s %6.1fs]" % (self.pid, time.time() - self.t0), *a, flush=True)

    def replay_path(self, tag):
        d = os.path.join(OUTROOT, "replays")
        os.makedirs(d, exist_ok=True)
        return os.path.join(d, "%s-%s.json" % (self.pid, tag))

    def matches_known(self, case):
        """case: dict describing a failing input; a known finding matches when
        every key of its `match` is present in the case with the same value."""
        for k in self.known:
            m = k.get("match", {})
            if m and all(case.get(kk) == vv for kk, vv in m.items()):
                return k
        return None

    def violation(self, what, case, no_input=False):
        k = None if no_input else self.matches_known(case)
        if k is not None:
            if k not in self.known_hits:
                self.known_hits.append(k)
                print("KNOWN-FINDING: property=%s %s" % (self.pid, k.get("description", what)), flush=True)
            return False
        tag = hashlib.sha1(json.dumps(case, sort_keys=True, default=str).encode()).hexdigest()[:12]
        path = self.replay_path(tag)
        with open(path, "w") as f:
            json.dump({"property": self.pid, "what": what, "seed": self.seed, "tier": self.tier, "case": case},
                      f, indent=1, default=str)
        self.violations.append({"what": what, "replay": path, "no_input": no_input})
        return True

    def finish(self, oblig, level="proof"):
        """Decide, write the evidence, print VIOLATION lines, return exit code."""
        obs = oblig["obligations"] if oblig else []
        thms = [o for o in obs if o["kind"] == "Theorem"]
        n_ob = len(obs)
        n_ok = sum(1 for o in obs if o["accepted"])
        axioms = sorted({a for o in obs for a in (o["assumptions"] if isinstance(o["assumptions"], list) else [])})
        cov = dict(self.cov)
        cov.setdefault("evaluations", 0)
        cov.setdefault("distinct_nontrivial", 0)
        cov.setdefault("rule", "")
        cov.setdefault("samples", [])
        cov["obligations"] = n_ob
        cov["discharged"] = n_ok
        cov["checker_cmd"] = oblig["checker_cmd"] if oblig else ""
        cov["theorems"] = [{"name": o["name"], "kind": o["kind"], "accepted": o["accepted"],
                            "print_assumptions": ("Closed under the global context" if o["assumptions"] == [] else o["assumptions"])}
                           for o in obs]
        tb = [
            "Coq 8.16.1 kernel (coqc, full .vo build; no native_compute; vm_compute only where a theorem says so)",
            "axioms reported by Print Assumptions for this property's theorems: " + (", ".join(axioms) if axioms else "none (closed under the global context)"),
            "extraction: ExtrOcamlBasic (bool, option, list, prod, unit, sumbool -> OCaml natives) and ExtrOcamlString (ascii/string -> char/char list; used only for docstrings of the vocabulary model) plus `Extraction Blacklist String List Nat Int`; no Extract Constant of our own; every directive is in coq/extract/Extract.v",
            "OCaml 4.13.1 compiler and model/*.ml (parsing/printing around the extracted functions)",
            "correspondence check: generators, harness/*.cc drivers, canonicaliser and diff in checks/%s.py" % self.pid,
            "the C++ is modelled (hand-written Gallina mirror), not verified; libdw/libelf/libc behaviour is idealised",
        ]
        cov["trusted_base"] = tb + self.cov.get("trusted_base_extra", [])
        cov.pop("trusted_base_extra", None)
        ev = {
            "property_id": self.pid, "tier": self.tier, "seed": self.seed, "level": level,
            "coverage": cov, "assumptions": self.assumptions,
            "wall_s": round(time.time() - self.t0, 2), "violations": len(self.violations),
            "known_findings_seen": [k.get("description") for k in self.known_hits],
        }
        os.makedirs(os.path.join(OUTROOT, "evidence"), exist_ok=True)
        with open(os.path.join(OUTROOT, "evidence", self.pid + ".json"), "w") as f:
            json.dump(ev, f, indent=1, default=str)
        for v in self.violations:
            print("  what fails: " + " ".join(str(v["what"]).split())[:600], flush=True)
            print("VIOLATION property=%s replay=%s%s" % (self.pid, v["replay"],
                                                        " no-failing-input-found" if v["no_input"] else ""), flush=True)
        self.log("obligations %d/%d, evaluations %s, violations %d, known findings seen %d"
                 % (n_ok, n_ob, cov.get("evaluations"), len(self.violations), len(self.known_hits)))
        return 1 if self.violations else 0


def prepare(ctx, need_impl=True, flavour="plain"):
    """Steps 1-4 shared by all checks.  Returns the obligations record, or None
    after registering a violation when something could not even be built."""
    scan = static_scan()
    if scan:
        ctx.violation("forbidden construct in the Coq development", {"scan": scan}, no_input=True)
    if need_impl:
        ok, log = build_impl(flavour)
        if not ok:
            ctx.log(log[-3000:])
            ctx.violation("implementation no longer builds from /repo's working tree",
                          {"build_log_tail": log[-3000:]}, no_input=True)
            return None
    ok, log = build_coq()
    if not ok:
        ctx.log("Coq build reported errors (continuing with what compiled):\n" + log[-2000:])
    oblig = property_obligations(ctx.pid)
    okm, logm = build_model()
    if not okm:
        ctx.log(logm[-3000:])
        ctx.violation("the extracted model does not build", {"log": logm[-3000:]}, no_input=True)
    return oblig


def obligations_failed(ctx, oblig):
    return [o for o in oblig["obligations"] if not o["accepted"]]


def report_broken_obligations(ctx, oblig, found_input):
    """A theorem of the property no longer checks.  If the search found no
    failing input, report with no-failing-input-found."""
    bad = obligations_failed(ctx, oblig)
    if bad and not found_input:
        ctx.violation("theorem(s) no longer accepted: " + ", ".join(o["name"] for o in bad),
                      {"file": oblig["file"], "theorems": [o["name"] for o in bad],
                       "first_error": oblig["first_error"],
                       "unexpected_axioms": {o["name"]: o["unexpected_axioms"] for o in bad if o["unexpected_axioms"]}},
                      no_input=True)
