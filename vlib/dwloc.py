"""Location expressions with every operand class, and the comparison of what the
implementation reports for them with the generator's ground truth + the model's
operand decoding (zwmodel loc)."""
import json

from vlib import common, zw
from vlib.dwgen import Attr, Die, Unit, Forest, C, expr_layout

S63 = (1 << 63)


def all_ops():
    """one or more instances of every opcode the generator can encode, with boundary operands"""
    ops = []
    for n in ("deref", "dup", "drop", "over", "swap", "rot", "abs", "and", "div", "minus", "mod", "mul", "neg", "not", "or", "plus", "shl", "shr",
              "shra", "xor", "eq", "ge", "gt", "le", "lt", "ne", "nop", "push_object_address", "call_frame_cfa", "stack_value", "xderef",
              "lit0", "lit17", "lit31", "reg0", "reg15", "reg31", "form_tls_address"):
        ops.append(("DW_OP_" + n,))
    ops += [("DW_OP_addr", 0), ("DW_OP_addr", 0x400000), ("DW_OP_addr", (1 << 64) - 1)]
    for n, w in (("const1u", 1), ("const2u", 2), ("const4u", 4), ("const8u", 8)):
        ops += [("DW_OP_" + n, 0), ("DW_OP_" + n, (1 << (8 * w - 1))), ("DW_OP_" + n, (1 << (8 * w)) - 1)]
    for n in ("constu", "plus_uconst", "regx", "piece"):
        ops += [("DW_OP_" + n, 0), ("DW_OP_" + n, 127), ("DW_OP_" + n, 128), ("DW_OP_" + n, (1 << 64) - 1)]
    for n in ("pick", "deref_size", "xderef_size"):
        ops += [("DW_OP_" + n, 0), ("DW_OP_" + n, 255)]
    for n in ("consts", "fbreg", "breg0", "breg7", "breg31"):
        ops += [("DW_OP_" + n, 0), ("DW_OP_" + n, -1), ("DW_OP_" + n, 63), ("DW_OP_" + n, -64), ("DW_OP_" + n, 64), ("DW_OP_" + n, -65),
                ("DW_OP_" + n, S63 - 1), ("DW_OP_" + n, -S63)]
    ops += [("DW_OP_bregx", 0, 0), ("DW_OP_bregx", 40, -16), ("DW_OP_bregx", 200, -300), ("DW_OP_bregx", (1 << 32), S63 - 1), ("DW_OP_bregx", 33, -S63), ("DW_OP_bregx", 5, 8)]
    ops += [("DW_OP_bit_piece", 0, 0), ("DW_OP_bit_piece", 3, 5), ("DW_OP_bit_piece", (1 << 40), (1 << 63) + 5)]
    ops += [("DW_OP_call2", 0x20), ("DW_OP_call4", 0x20)]
    return ops


def signed_fixed():
    # const1s..const8s are signed fixed-size operands: stored as two's complement
    out = []
    for n, w in (("const1s", 1), ("const2s", 2), ("const4s", 4), ("const8s", 8)):
        for v in (0, 1, -1, (1 << (8 * w - 1)) - 1, -(1 << (8 * w - 1))):
            out.append(("DW_OP_" + n, v))
    for v in (0, 5, -5, 32767, -32768):
        out += [("DW_OP_skip", v), ("DW_OP_bra", v)]
    return out


def model_operands(ops):
    lines = []
    for op in ops:
        if op[0] == "DW_OP_implicit_value":
            lines.append("%d %d 0" % (C(op[0]), len(op[1])))          # (not modelled: checked against the stored block directly)
            continue
        a = op[1] if len(op) > 1 else 0
        b = op[2] if len(op) > 2 else 0
        lines.append("%d %d %d" % (C(op[0]), a, b))
    rc, out, err = common.run([common.model_bin(), "loc"], input="\n".join(lines) + "\n", timeout=120)
    res = []
    for l in out.split("\n")[:-1]:
        if l.startswith("V"):
            body = l[2:].strip()
            res.append([(int(x.split(":")[0]), x.split(":")[1]) for x in body.split(",") if x])
        else:
            res.append(None)
    return res


LOC_QUERY = ("value [[address (low, high) value], length, [elem [offset value, label value, [value], pos]], "
             "[relem [offset value, label value, pos]]]")


def check_location(path, die_off, at_num, elements, bad, desc):
    """elements: [(low, high, ops)] expected in stored order.  Returns number of operations checked."""
    try:
        return _check_location(path, die_off, at_num, elements, bad, desc)
    except (TypeError, ValueError, KeyError, IndexError) as ex:
        # the value is not made of location list elements at all (a sequence of bytes, a number, ...)
        r = zw.run_cases([zw.enc("entry ?(offset == %d) attribute ?(label value == %d) [value]" % (die_off, at_num), dw=path, t=60)])[0]
        bad("the location %s does not come out as location list elements: `value` gives %s" % (desc, json.dumps([zw.canon_stack(x) for x in r.results])[:200]),
            {"file": path, "die": die_off, "attribute": at_num, "what": desc})
        return 0


def _check_location(path, die_off, at_num, elements, bad, desc):
    r = zw.run_cases([zw.enc("entry ?(offset == %d) attribute ?(label value == %d) %s" % (die_off, at_num, LOC_QUERY), dw=path, t=60)])[0]
    case = {"file": path, "die": die_off, "attribute": at_num, "what": desc}
    if not r.ok() or r.d.get("hard"):
        bad("the location %s cannot be read: %s" % (desc, json.dumps(r.d)[:200]), case)
        return 0
    if len(r.results) != len(elements):
        bad("the location %s yields %d elements, %d address ranges are stored" % (desc, len(r.results), len(elements)), case)
        return 0
    n = 0
    for k, (s, (low, high, ops)) in enumerate(zip(r.results, elements)):
        v = s[0]["v"]
        rng = [int(x["v"]) for x in v[0]["v"]]
        if rng != [low, high]:
            bad("element %d of %s covers %s, stored range is %s" % (k, desc, rng, [low, high]), case)
        lay, _ = expr_layout(ops)
        want_vals = model_operands(ops)
        if int(v[1]["v"]) != len(ops) or len(v[2]["v"]) != len(ops):
            bad("element %d of %s: length is %s, elem yields %d, %d operations are stored" % (k, desc, v[1]["v"], len(v[2]["v"]), len(ops)), case)
            continue
        for i, (e, (off, op), wv) in enumerate(zip(v[2]["v"], lay, want_vals)):
            n += 1
            got_off, got_code = int(e["v"][0]["v"]), int(e["v"][1]["v"])
            got_vals = [(int(x["v"]), x["d"]) for x in e["v"][2]["v"]] if all(x["t"] == "c" for x in e["v"][2]["v"]) else "non-constant"
            if op[0] == "DW_OP_implicit_value":
                # the operand is the block itself: one sequence of its bytes (the length is no operand of its own)
                ev = e["v"][2]["v"]
                blk = [int(y["v"]) for y in ev[0]["v"]] if len(ev) == 1 and ev[0]["t"] == "q" and all(y["t"] == "c" for y in ev[0]["v"]) else None
                if blk != list(op[1]):
                    bad("operation %d of %s, implicit_value with a block of %d bytes: `value` gives %s; the block is %s" % (i, desc, len(op[1]), str(blk if blk is not None else ev)[:120], str(list(op[1]))[:120]), dict(case, op="implicit_value/%d" % len(op[1])))
            if got_off != off or got_code != C(op[0]) or int(e["v"][3]["v"]) != i:
                bad("operation %d of %s is reported as (offset %d, opcode %d, pos %s); stored: (offset %d, %s)" % (i, desc, got_off, got_code, e["v"][3]["v"], off, op[0]), case)
            elif wv is not None and got_vals != wv:
                bad("operation %s at offset %d of %s has operands %s; stored operands decode to %s" % (op, off, desc, got_vals, wv), dict(case, op=str(op)))
        rel = [(int(e["v"][0]["v"]), int(e["v"][1]["v"])) for e in v[3]["v"]]
        if rel != [(off, C(op[0])) for off, op in reversed(lay)] or [int(e["v"][2]["v"]) for e in v[3]["v"]] != list(range(len(ops))):
            bad("relem of element %d of %s is not elem reversed (numbered from 0)" % (k, desc), case)
    return n
