# A unit whose fifth DIE uses an abbreviation code that the table does not
# define: walking the unit fails part-way through (libdw: invalid DWARF).
	.section .debug_info,"",@progbits
	.long .Lend - .Lstart
.Lstart:
	.value 4
	.long 0
	.byte 8
	.uleb128 1
	.asciz "bad"
	.uleb128 2
	.asciz "a"
	.uleb128 3
	.asciz "ns"
	.uleb128 2
	.asciz "b"
	.uleb128 3
	.asciz "inner"
	.uleb128 2
	.asciz "c"
	.uleb128 9
	.byte 0
	.byte 0
	.byte 0
.Lend:
	.section .debug_abbrev,"",@progbits
	.uleb128 1
	.uleb128 0x11
	.byte 1
	.uleb128 3
	.uleb128 8
	.byte 0
	.byte 0
	.uleb128 2
	.uleb128 0x34
	.byte 0
	.uleb128 3
	.uleb128 8
	.byte 0
	.byte 0
	.uleb128 3
	.uleb128 0x39
	.byte 1
	.uleb128 3
	.uleb128 8
	.byte 0
	.byte 0
	.byte 0
