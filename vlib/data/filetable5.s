# A DWARF 5 unit with a line table whose file entries are numbered from 0
# (entry 0: the unit's own file), and DIEs that say in which file they were
# declared / called from, in several forms.
	.text
.Ltext0:
	.file 0 "/src/proj" "unit0.c"
	.file 1 "inc/decls1.h"
	.file 2 "/abs/other.h"
	.loc 1 2 1
	nop
	.loc 2 3 1
	nop
.Letext0:
	.section .debug_abbrev,"",@progbits
.Ldebug_abbrev0:
	.uleb128 1
	.uleb128 0x11
	.byte 1
	.uleb128 0x03
	.uleb128 0x08
	.uleb128 0x11
	.uleb128 0x01
	.uleb128 0x12
	.uleb128 0x07
	.uleb128 0x10
	.uleb128 0x17
	.byte 0
	.byte 0
	.uleb128 2
	.uleb128 0x34
	.byte 0
	.uleb128 0x03
	.uleb128 0x08
	.uleb128 0x3a
	.uleb128 0x0b
	.byte 0
	.byte 0
	.uleb128 3
	.uleb128 0x34
	.byte 0
	.uleb128 0x03
	.uleb128 0x08
	.uleb128 0x3a
	.uleb128 0x05
	.byte 0
	.byte 0
	.uleb128 4
	.uleb128 0x1d
	.byte 0
	.uleb128 0x03
	.uleb128 0x08
	.uleb128 0x58
	.uleb128 0x0f
	.byte 0
	.byte 0
	.byte 0
	.section .debug_info,"",@progbits
	.long .Lend - .Lstart
.Lstart:
	.value 5
	.byte 1
	.byte 8
	.long .Ldebug_abbrev0
	.uleb128 1
	.string "unit0.c"
	.quad .Ltext0
	.quad .Letext0 - .Ltext0
	.long .Ldebug_line0
	.uleb128 2
	.string "d0"
	.byte 0
	.uleb128 2
	.string "d1"
	.byte 1
	.uleb128 2
	.string "d2"
	.byte 2
	.uleb128 3
	.string "w0"
	.value 0
	.uleb128 3
	.string "w2"
	.value 2
	.uleb128 4
	.string "c0"
	.uleb128 0
	.uleb128 4
	.string "c1"
	.uleb128 1
	.byte 0
.Lend:
	.section .debug_line,"",@progbits
.Ldebug_line0:
