"""Python side of the zwdrv protocol."""
import json

from . import common


def enc(query, **kw):
    """Encode one case line.  query: str or bytes."""
    if isinstance(query, str):
        query = query.encode("utf-8", "surrogateescape")
    fields = ["q=" + query.hex()]
    for k, v in kw.items():
        if v is None:
            continue
        if k == "inq":
            if isinstance(v, str):
                v = v.encode()
            fields.append("in=" + v.hex())
        else:
            fields.append("%s=%s" % (k, v))
    return "@" + "\t".join(fields)


class Res:
    def __init__(self, d):
        self.d = d
        self.crash = d.get("crash")
        self.compile_error = d.get("compile_error")
        self.contract = d.get("contract")
        self.events = d.get("events", [])
        self.hard = d.get("hard")
        self.truncated = d.get("truncated", False)
        self.results = [e[1] for e in self.events if e[0] == "r"]
        self.errors = [e[1] for e in self.events if e[0] == "e"]

    def ok(self):
        return not self.crash and self.compile_error is None and not self.contract and "input_error" not in self.d


def _run_chunk(args):
    part, flavour, mode, timeout = args
    rc, o, e = common.run([common.impl_bin("zwdrv", flavour), mode],
                          input="".join(l + "\n" for l in part), timeout=timeout)
    out = []
    for l in o.split("\n"):
        if not l:
            continue
        try:
            out.append(Res(json.loads(l)))
        except Exception:
            out.append(Res({"crash": "unparsable driver output: " + l[:200]}))
    while len(out) < len(part):
        out.append(Res({"crash": "driver gave no answer (rc=%s) %s" % (rc, e[-200:])}))
    return out[:len(part)]


def run_cases(lines, flavour="plain", mode="run", timeout=3600, chunk=None, jobs=None):
    """Run encoded case lines through zwdrv; returns list of Res (one per line).
    Cases are spread over `jobs` driver processes unless `chunk` asks for one
    process (needed when answers must share one address space)."""
    from concurrent.futures import ThreadPoolExecutor
    if not lines:
        return []
    jobs = jobs or int(common.NPROC)
    if chunk is not None and chunk >= len(lines):
        return _run_chunk((lines, flavour, mode, timeout))
    size = chunk or max(1, min(400, (len(lines) + jobs - 1) // jobs))
    parts = [lines[i:i + size] for i in range(0, len(lines), size)]
    with ThreadPoolExecutor(max_workers=jobs) as ex:
        res = list(ex.map(_run_chunk, [(p, flavour, mode, timeout) for p in parts]))
    out = []
    for r in res:
        out += r
    return out


def canon_value(v, with_pos=True):
    """Canonical, comparable form of a dumped value (no `show`, no addresses)."""
    t = v["t"]
    if t == "c":
        r = ("c", v["v"], v["d"])
    elif t == "s":
        r = ("s", v["v"])
    elif t == "q":
        r = ("q", tuple(canon_value(x, with_pos) for x in v["v"]))
    elif t == "a":
        r = ("a", tuple((a, b) for a, b in v["v"]))
    elif t == "die":
        r = ("die", v["off"], v["cooked"], tuple(v["imp"]))
    elif t == "cu":
        r = ("cu", v["off"], v["cooked"])
    elif t == "attr":
        r = ("attr", v["name"], v["form"], v["die"], v["cooked"])
    else:
        r = (t,)
    if with_pos:
        r = r + (("pos", v.get("pos", 0)),)
    return r


def canon_stack(s, with_pos=True):
    return tuple(canon_value(v, with_pos) for v in s)
