"""Shared runner of the DWARF view checks (C02, C05, C06)."""
import json
import os
import re
import subprocess

from vlib import common, zw, dwforest
from vlib.dwgen import write_object, consts

ALL_FIELDS = ["pos", "off", "tag", "flag", "parent", "kids", "attrs", "root", "unit"]


def build_inputs(ctx, n_random, imports=True, links=True):
    """generated forests -> [(name, forest, path)]"""
    d = dwforest.workdir(ctx)
    rng = ctx.sub_rng("forest")
    out = []
    for name, f in dwforest.shaped_forests():
        out.append((name, f))
    for i in range(n_random):
        f = dwforest.random_forest(rng, imports=imports, links=links)
        dwforest.fix_small_refs(f)
        out.append(("rand%d" % i, f))
    res = []
    for name, f in out:
        p = os.path.join(d, name + ".o")
        write_object(f, p)
        res.append((name, f, p))
    return res


def compare_views(ctx, inputs, views, fields, bad, stats):
    """views: subset of ('raw', 'cooked')"""
    models = dwforest.model_rows([f for _, f, _ in inputs])
    for (name, f, path), m in zip(inputs, models):
        for view in views:
            rows, units, err = dwforest.impl_rows(path, view == "cooked")
            stats["evaluations"] += 1
            case = {"input": name, "view": view, "forest": dwforest.describe(f), "file": path}
            if err:
                bad("the %s view of generated input %s fails: %s" % (view, name, err), case)
                continue
            stats["dies"] += len(rows)
            mu = m["cookedunits" if view == "cooked" else "rawunits"]
            if units != mu:
                bad("%s `unit` of %s lists the units at %s; the file stores %s" % (view, name, units, mu), case)
            if view == "raw" and "walk" in m and [r["off"] for r in rows] != m["walk"]:
                bad("raw `entry` of %s visits the DIEs at %s; the model of the iterator (dw/Iter.v) visits %s" % (name, [hex(r["off"]) for r in rows][:30], [hex(x) for x in m["walk"]][:30]), case)
            if view == "cooked" and "entries" in m and [r["off"] for r in rows] != [o for o, _ in m["entries"]]:
                bad("cooked `entry` of %s visits the DIEs at %s; the model of the producer (dw/ChildIter.v) hands out %s" % (name, [hex(r["off"]) for r in rows][:30], [hex(o) for o, _ in m["entries"]][:30]), case)
            d = dwforest.compare_rows(rows, m[view], fields)
            if d:
                bad("%s view of %s: %s" % (view, name, d), case)


def compare_archives(ctx, inputs, views, fields, bad, stats):
    """`ar` archives of the generated objects (one Dwarf per member): both views of the archive are the members'
    views one after the other - also when a member in the middle has no unit with a DIE, no .debug_info at all,
    or ends in partial units"""
    byname = {name: (f, path) for name, f, path in inputs}
    d = os.path.dirname(inputs[0][2])
    noinfo = os.path.join(d, "noinfo.o")
    with open(noinfo[:-2] + ".s", "w") as fh:
        fh.write("\t.text\n\t.cfi_sections .debug_frame\nnf:\n\t.cfi_startproc\n\tnop\n\t.cfi_endproc\n")
    subprocess.run(["as", "-o", noinfo, noinfo[:-2] + ".s"], check=True)
    rnd = [n for n, _, _ in inputs if n.startswith("rand")]
    plans = [["hollow", "only-empty", "chains"], ["imports", "hollow"], ["hollow", "imports"], ["unit-kinds", "empty-units", "using"],
             ["hollow", "NOINFO", "repeated-names"], ["NOINFO", "hollow"], ["import-cu", "imports", "only-empty", "hollow"]]
    if len(rnd) >= 3:
        plans += [[rnd[0], "only-empty", rnd[1]], [rnd[2], "NOINFO", rnd[0], "imports", rnd[1]]]
    for k, plan in enumerate(plans):
        if any(n != "NOINFO" and n not in byname for n in plan):
            continue
        members = [(n, None, noinfo) if n == "NOINFO" else (n,) + byname[n] for n in plan]
        ar = os.path.join(d, "members-%d.a" % k)
        if os.path.exists(ar):
            os.unlink(ar)
        if subprocess.run(["ar", "rcS", ar] + [p for _, _, p in members]).returncode != 0:
            continue
        models = dwforest.model_rows([f for _, f, _ in members if f is not None])
        mi = iter(models)
        per = [next(mi) if f is not None else {"raw": [], "cooked": [], "rawunits": [], "cookedunits": []} for _, f, _ in members]
        for view in views:
            rows, units, err = dwforest.impl_rows(ar, view == "cooked")
            stats["evaluations"] += 1
            case = {"input": "archive of " + ", ".join(plan), "view": view, "file": ar, "members": [p for _, _, p in members]}
            if err:
                bad("the %s view of an archive of %s fails: %s" % (view, plan, err), case)
                continue
            want = [r for m in per for r in m[view]]
            wu = [u for m in per for u in m["cookedunits" if view == "cooked" else "rawunits"]]
            if units != wu:
                bad("%s `unit` of an archive of %s lists the units at %s; the members store %s" % (view, plan, units, wu), case)
            dd = dwforest.compare_rows(rows, want, fields)
            if dd:
                bad("%s view of an archive of %s: %s" % (view, plan, dd), case)


def readelf_rows(path):
    """independent dumper: (offset, depth, tag name, [attribute names]) per DIE, units"""
    p = subprocess.run(["readelf", "--debug-dump=info", path], stdout=subprocess.PIPE, stderr=subprocess.DEVNULL)
    rows, units = [], []
    cur = None
    for line in p.stdout.decode("latin1").split("\n"):
        m = re.match(r"\s*Compilation Unit @ offset (0x[0-9a-f]+|0):", line)
        if m:
            units.append([int(m.group(1), 16), 0])
            continue
        m = re.match(r"\s*<(\d+)><([0-9a-f]+)>: Abbrev Number: (\d+)(?: \((DW_TAG_[A-Za-z0-9_]+|Unknown TAG value: [0-9a-fx]+)\))?", line)
        if m:
            if m.group(3) == "0":
                cur = None
                continue
            cur = {"depth": int(m.group(1)), "off": int(m.group(2), 16), "tagname": m.group(4), "attrnames": []}
            rows.append(cur)
            if units:
                units[-1][1] += 1
            continue
        m = re.match(r"\s*<[0-9a-f]+>\s+(DW_AT_[A-Za-z0-9_]+|Unknown AT value: [0-9a-fx]+)\s*:", line)
        if m and cur is not None:
            cur["attrnames"].append(m.group(1))
    return rows, [u for u, n in units if n]      # units without DIEs are not units of the view


def name_to_num(n):
    c = consts()
    if n is None:
        return None
    if n.startswith("Unknown"):
        return int(n.split(":")[1].strip(), 16)
    return c.get(n)
