"""DWARF/ELF input generator: a forest known by construction -> assembler source -> .o

The forest is the ground truth: every offset, tag, form and value the checks
expect comes from the objects built here, not from decoding the file again.
The encoding follows the DWARF 2-5 specifications; `as` only wraps the bytes in
ELF sections (no relocations are emitted: references are plain numbers).
"""
import os
import re
import subprocess

_HDR = None


def consts():
    """DW_* constants from /usr/include/dwarf.h (names -> numbers)"""
    global _HDR
    if _HDR is None:
        vals = {}
        txt = open("/usr/include/dwarf.h").read()
        for m in re.finditer(r"^\s*(DW_[A-Za-z0-9_]+)\s*=\s*(0x[0-9a-fA-F]+|\d+)", txt, re.M):
            vals[m.group(1)] = int(m.group(2), 0)
        _HDR = vals
    return _HDR


def C(name):
    return consts()[name]


def uleb(v):
    out = []
    while True:
        b = v & 0x7f
        v >>= 7
        if v:
            out.append(b | 0x80)
        else:
            out.append(b)
            return out


def sleb(v):
    out = []
    while True:
        b = v & 0x7f
        v >>= 7
        if (v == 0 and not b & 0x40) or (v == -1 and b & 0x40):
            out.append(b)
            return out
        out.append(b | 0x80)


BIG_ENDIAN = False        # set by write_object for the time of one layout: multi-byte data in the target's byte order


def le(v, n):
    """the n bytes of v in the byte order of the file being written (little-endian unless write_object says otherwise)"""
    v &= (1 << (8 * n)) - 1
    b = [(v >> (8 * i)) & 0xff for i in range(n)]
    return b[::-1] if BIG_ENDIAN else b


class Attr:
    """name, form: DW_AT_/DW_FORM_ names.  value: int, bytes (string/block), Die (reference), bool (flag),
    list of ops (exprloc).  `indirect`: encode through DW_FORM_indirect."""

    def __init__(self, name, form, value=None, indirect=False):
        self.name, self.form, self.value, self.indirect = name, form, value, indirect

    def abbrev_form(self):
        return "DW_FORM_indirect" if self.indirect else self.form


class Die:
    def __init__(self, tag, attrs=None, children=None, flag=None, label=None):
        self.tag = tag
        self.attrs = attrs or []
        self.children = children or []
        self.flag = bool(self.children) if flag is None else flag     # what the abbreviation claims
        assert self.flag or not self.children
        self.label = label
        self.off = None
        self.unit = None
        self.parent = None
        self.abbrev = None

    def walk(self):
        yield self
        for c in self.children:
            yield from c.walk()

    def attr(self, name):
        for a in self.attrs:
            if a.name == name:
                return a
        return None


class Unit:
    def __init__(self, root, version=4, share_abbrev_with=None):
        self.root, self.version = root, version
        self.share = share_abbrev_with
        self.off = None
        self.abbrev_off = None
        self.abbrevs = None            # list of (code, tag, flag, [(name, form, implicit)])
        self.hdr_size = 12 if version >= 5 else 11
        # DWARF 5 type units carry a signature and a type offset, skeleton units a dwo id
        self.kind = None
        if version >= 5 and root is not None and root.tag == "DW_TAG_type_unit":
            self.kind, self.hdr_size = "type", 12 + 12
        elif version >= 5 and root is not None and root.tag == "DW_TAG_skeleton_unit":
            self.kind, self.hdr_size = "skeleton", 12 + 8

    def dies(self):
        return list(self.root.walk()) if self.root else []


class Forest:
    def __init__(self, units, loc=None):
        self.units = units
        self.loc = loc or []           # .debug_loc entries (DWARF <= 4): list of lists of (begin, end, ops)
        self.loc_offsets = []

    def dies(self):
        return [d for u in self.units for d in u.dies()]


# ---- location expressions ----

def op_bytes(op):
    """op: (name, operand...) -> bytes.  Operand classes follow the DWARF spec."""
    name, args = op[0], list(op[1:])
    code = C(name)
    b = [code]
    n = name[len("DW_OP_"):]
    if n in ("addr",):
        b += le(args[0], 8)
    elif n in ("const1u", "pick", "deref_size", "xderef_size"):
        b += le(args[0], 1)
    elif n == "const1s":
        b += le(args[0], 1)
    elif n in ("const2u", "const2s", "skip", "bra", "call2"):
        b += le(args[0], 2)
    elif n in ("const4u", "const4s", "call4"):
        b += le(args[0], 4)
    elif n in ("const8u", "const8s"):
        b += le(args[0], 8)
    elif n in ("constu", "plus_uconst", "regx", "piece"):
        b += uleb(args[0])
    elif n in ("consts", "fbreg") or re.fullmatch(r"breg\d+", n):
        b += sleb(args[0])
    elif n == "bregx":
        b += uleb(args[0]) + sleb(args[1])
    elif n == "bit_piece":
        b += uleb(args[0]) + uleb(args[1])
    elif n == "implicit_value":
        b += uleb(len(args[0])) + list(args[0])
    return b


def expr_layout(ops):
    """[(offset, op)] and total bytes"""
    out, data = [], []
    for op in ops:
        out.append((len(data), op))
        data += op_bytes(op)
    return out, data


# ---- layout and encoding ----

FIXED = {"DW_FORM_addr": 8, "DW_FORM_data1": 1, "DW_FORM_data2": 2, "DW_FORM_data4": 4, "DW_FORM_data8": 8,
         "DW_FORM_ref1": 1, "DW_FORM_ref2": 2, "DW_FORM_ref4": 4, "DW_FORM_ref8": 8, "DW_FORM_ref_addr": 4,
         "DW_FORM_flag": 1, "DW_FORM_flag_present": 0, "DW_FORM_sec_offset": 4, "DW_FORM_strp": 4, "DW_FORM_implicit_const": 0}


def attr_bytes(a, unit, strtab):
    f = a.form
    v = a.value
    pre = uleb(C(f)) if a.indirect else []
    if f in ("DW_FORM_ref1", "DW_FORM_ref2", "DW_FORM_ref4", "DW_FORM_ref8"):
        tgt = (v.off - unit.off) if isinstance(v, Die) and v.off is not None else 0
        return pre + le(tgt, FIXED[f])
    if f == "DW_FORM_ref_addr":
        tgt = v.off if isinstance(v, Die) and v.off is not None else 0
        return pre + le(tgt, 8 if unit.version == 2 else 4)
    if f == "DW_FORM_ref_udata":
        tgt = (v.off - unit.off) if isinstance(v, Die) and v.off is not None else 0
        return pre + [(tgt >> (7 * i)) & 0x7f | 0x80 for i in range(3)] + [(tgt >> 21) & 0x7f]     # ULEB128 padded to 4 bytes
    if f in ("DW_FORM_data1", "DW_FORM_data2", "DW_FORM_data4", "DW_FORM_data8", "DW_FORM_addr", "DW_FORM_sec_offset"):
        return pre + le(v, FIXED[f])
    if f == "DW_FORM_flag":
        return pre + [1 if v else 0]
    if f in ("DW_FORM_flag_present", "DW_FORM_implicit_const"):
        return pre
    if f == "DW_FORM_sdata":
        return pre + sleb(v)
    if f == "DW_FORM_udata":
        return pre + uleb(v)
    if f == "DW_FORM_string":
        return pre + list(v) + [0]
    if f == "DW_FORM_strp":
        return pre + le(strtab[bytes(v)] if bytes(v) in strtab else strtab_add(strtab, bytes(v)), 4)
    if f in STRX:
        idx = strx_index(strtab, bytes(v))
        return pre + (uleb(idx) if f == "DW_FORM_strx" else le(idx, STRX[f]))
    if f == "DW_FORM_line_strp":
        return pre + le(lstr_add(strtab, bytes(v)), 4)
    if f == "DW_FORM_exprloc":
        _, data = expr_layout(v)
        return pre + uleb(len(data)) + data
    if f == "DW_FORM_block1":
        data = list(v) if not (v and isinstance(v[0], tuple)) else expr_layout(v)[1]
        return pre + [len(data)] + data
    if f == "DW_FORM_block":
        data = list(v) if not (v and isinstance(v[0], tuple)) else expr_layout(v)[1]
        return pre + uleb(len(data)) + data
    raise ValueError("form not supported by the generator: " + f)


# DWARF 5 indexed strings: an index into .debug_str_offsets (one table for the file, base 8)
STRX = {"DW_FORM_strx1": 1, "DW_FORM_strx2": 2, "DW_FORM_strx3": 3, "DW_FORM_strx4": 4, "DW_FORM_strx": 0}
STR_OFFSETS_BASE = 8


def strx_index(strtab, s):
    xi = strtab.setdefault("__xindex__", {})
    if s not in xi:
        xi[s] = len(xi)
        if s not in strtab:
            strtab_add(strtab, s)
    return xi[s]


def lstr_add(strtab, s):
    lo = strtab.setdefault("__loff__", {})
    if s not in lo:
        lo[s] = strtab.get("__lsize__", 0)
        strtab["__lsize__"] = lo[s] + len(s) + 1
    return lo[s]


def strtab_add(strtab, s):
    off = strtab["__size__"]
    strtab[s] = off
    strtab["__size__"] = off + len(s) + 1
    strtab["__order__"].append(s)
    return off


def assign_abbrevs(forest):
    """one table per unit unless shared; codes numbered from 1 in order of first use"""
    for u in forest.units:
        if u.root is not None and any(a.form in STRX for d in u.dies() for a in d.attrs) and u.root.attr("DW_AT_str_offsets_base") is None:
            u.root.attrs.append(Attr("DW_AT_str_offsets_base", "DW_FORM_sec_offset", STR_OFFSETS_BASE))
    for u in forest.units:
        if u.share is not None:
            owner = u.share
            table, index = owner.abbrevs, owner._index
        else:
            table, index = [], {}
            u.abbrevs, u._index = table, index
        for d in u.dies():
            sig = (d.tag, d.flag, tuple((a.name, a.abbrev_form(), a.value if a.form == "DW_FORM_implicit_const" and not a.indirect else None) for a in d.attrs))
            if sig not in index:
                index[sig] = len(table) + 1
                table.append((len(table) + 1, d.tag, d.flag, list(sig[2])))
            d.abbrev = index[sig]
        if u.share is not None:
            u.abbrevs, u._index = table, index


def layout(forest):
    """assigns offsets; returns (info bytes, abbrev bytes, str bytes, loc bytes)"""
    assign_abbrevs(forest)
    strtab = {"__size__": 0, "__order__": []}
    # abbreviation tables
    abbrev = []
    seen = []
    for u in forest.units:
        owner = u.share or u
        if owner in seen:
            u.abbrev_off = owner.abbrev_off
            continue
        seen.append(owner)
        owner.abbrev_off = u.abbrev_off = len(abbrev)
    # tables are complete only after all sharing units were scanned: emit now, in the order of
    # first use unless the forest asks for another placement (forest.abbrev_order: a permutation
    # of the owners' first-use indices)
    abbrev = []
    emitted = {}
    order = getattr(forest, "abbrev_order", None)
    if order is not None and sorted(order) == list(range(len(seen))):
        units_in_emit_order = [seen[i] for i in order]
    else:
        units_in_emit_order = list(forest.units)
    for u in units_in_emit_order:
        owner = u.share or u
        if id(owner) in emitted:
            continue
        emitted[id(owner)] = owner.abbrev_off = len(abbrev)
        owner.abbrev_entry_offsets = {}
        for code, tag, flag, attrs in owner.abbrevs:
            owner.abbrev_entry_offsets[code] = len(abbrev)
            abbrev += uleb(code) + uleb(C(tag)) + [1 if flag else 0]
            for name, form, implicit in attrs:
                abbrev += uleb(C(name)) + uleb(C(form))
                if form == "DW_FORM_implicit_const":
                    abbrev += sleb(implicit)
            abbrev += [0, 0]
        abbrev += [0]
    for u in forest.units:
        u.abbrev_off = (u.share or u).abbrev_off
    # .debug_loc
    loc = []
    forest.loc_offsets = []
    for entries in forest.loc:
        forest.loc_offsets.append(len(loc))
        for begin, end, ops in entries:
            data = expr_layout(ops)[1]
            loc += le(begin, 8) + le(end, 8) + le(len(data), 2) + data
        loc += le(0, 8) + le(0, 8)
    # two passes over .debug_info: sizes do not depend on reference targets
    for _ in range(2):
        info = []
        for u in forest.units:
            u.off = len(info)
            body = []

            def emit(d, parent):
                d.off = u.off + u.hdr_size + len(body)
                d.unit, d.parent = u, parent
                body.extend(uleb(d.abbrev))
                for a in d.attrs:
                    body.extend(attr_bytes(a, u, strtab))
                if d.flag:
                    for c in d.children:
                        emit(c, d)
                    body.append(0)
            if u.root is not None:
                emit(u.root, None)
                # a unit whose last chains of siblings are closed by the end of the unit, not by null entries
                closers, d = 0, u.root
                while d.flag:
                    closers += 1
                    if not d.children:
                        break
                    d = d.children[-1]
                for _ in range(min(getattr(u, "unclosed", 0), closers)):
                    assert body[-1] == 0
                    body.pop()
            if u.version >= 5:
                ut = C("DW_UT_partial") if u.root is not None and u.root.tag == "DW_TAG_partial_unit" else C("DW_UT_compile")
                extra = []
                if u.kind == "type":
                    ut = C("DW_UT_type")
                    extra = le(0x1122334455667700 + (u.off & 0xff), 8) + le(u.hdr_size + 4, 4)
                elif u.kind == "skeleton":
                    ut = C("DW_UT_skeleton")
                    extra = le(0x0102030405060700 + (u.off & 0xff), 8)
                hdr = le(u.version, 2) + [ut, 8] + le(u.abbrev_off, 4) + extra
            else:
                hdr = le(u.version, 2) + le(u.abbrev_off, 4) + [8]
            info += le(len(hdr) + len(body), 4) + hdr + body
    strb = []
    for s in strtab["__order__"]:
        strb += list(s) + [0]
    xi = strtab.get("__xindex__", {})
    forest.str_offsets = []
    if xi:
        ents = [strtab[sx] for sx, _ in sorted(xi.items(), key=lambda kv: kv[1])]
        forest.str_offsets = le(4 + 4 * len(ents), 4) + le(5, 2) + le(0, 2) + [b for e in ents for b in le(e, 4)]
    forest.line_str = []
    for sx, _ in sorted(strtab.get("__loff__", {}).items(), key=lambda kv: kv[1]):
        forest.line_str += list(sx) + [0]
    return info, abbrev, strb, loc


def bytes_directive(b):
    out = []
    for i in range(0, len(b), 24):
        out.append("\t.byte " + ",".join(str(x) for x in b[i:i + 24]))
    return "\n".join(out) + "\n"


def write_object(forest, path, symbols_asm="", big=False):
    """forest -> path (.o).  Returns the assembler source path.  big: a big-endian (s390x) object, assembled by clang."""
    global BIG_ENDIAN
    BIG_ENDIAN = big
    try:
        info, abbrev, strb, loc = layout(forest)
    finally:
        BIG_ENDIAN = False
    src = path[:-2] + ".s"
    with open(src, "w") as f:
        f.write("\t.text\n" + symbols_asm)
        f.write('\t.section .debug_info,"",@progbits\n' + bytes_directive(info))
        f.write('\t.section .debug_abbrev,"",@progbits\n' + bytes_directive(abbrev))
        if strb:
            f.write('\t.section .debug_str,"MS",@progbits,1\n' + bytes_directive(strb))
        if loc:
            f.write('\t.section .debug_loc,"",@progbits\n' + bytes_directive(loc))
        if getattr(forest, "str_offsets", None):
            f.write('\t.section .debug_str_offsets,"",@progbits\n' + bytes_directive(forest.str_offsets))
        if getattr(forest, "line_str", None):
            f.write('\t.section .debug_line_str,"MS",@progbits,1\n' + bytes_directive(forest.line_str))
        # further sections as they are (forest.extra_sections: name -> list of bytes), e.g. range lists
        for name, data in sorted(getattr(forest, "extra_sections", {}).items()):
            f.write('\t.section %s,"",@progbits\n' % name + bytes_directive(list(data)))
    if big:
        subprocess.run(["clang", "--target=s390x-linux-gnu", "-c", src, "-o", path], check=True, stderr=subprocess.DEVNULL)
    else:
        subprocess.run(["as", "-o", path, src], check=True)
    return src


# ---- the forest as text for the model (zwmodel dw) ----

def forest_text(forest):
    """U <off> <version> / D <depth> <off> <tag#> <flag> <abbrev> <name#:form#:ref-or-minus>*"""
    lines = []
    for u in forest.units:
        lines.append("U %d %d %d" % (u.off, u.version, u.abbrev_off))

        def rec(d, depth):
            at = []
            for a in d.attrs:
                ref = a.value.off if isinstance(a.value, Die) else -1
                at.append("%d:%d:%d" % (C(a.name), C(a.form), ref))
            lines.append("D %d %d %d %d %d %s" % (depth, d.off, C(d.tag), 1 if d.flag else 0, d.abbrev, " ".join(at)))
            for c in d.children:
                rec(c, depth + 1)
        if u.root is not None:
            rec(u.root, 0)
    return "\n".join(lines) + "\nE\n"
