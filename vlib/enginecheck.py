"""Shared comparison of programs: implementation vs engine model (event by
event) and implementation vs the denotational specification."""
import json
import re

from . import common, zw, engine


def shrink(q, still_bad, budget=40):
    """greedy token-deletion shrinking that keeps the program parseable and bad"""
    toks = q.split(" ")
    changed = True
    tries = [0]

    def bad(c):
        tries[0] += 1
        return tries[0] <= budget and still_bad(c)
    still = bad
    while changed and len(toks) > 1 and tries[0] < budget:
        changed = False
        for i in range(len(toks)):
            cand = toks[:i] + toks[i + 1:]
            c = " ".join(cand)
            if c.count("(") == c.count(")") and c.count("[") == c.count("]") and c.count('"') % 2 == 0 and c.strip():
                if still(c):
                    toks = cand
                    changed = True
                    break
    return " ".join(toks)


def disagrees(q):
    (_, ci, cm, _), = engine.run_both([q])
    if ci[0].startswith("REJECT") and cm[0].startswith("REJECT"):
        return False
    return not engine.agree(ci, cm)


def order_fixed(sx):
    """The documentation fixes the order of results unless a `,` can be fed
    more than one stack (then the branches' results interleave)."""
    if not sx:
        return True
    multi = sx.count("(ALT") + sx.count("(STAR") + sx.count("(PLUS") + sx.count("x656c656d)") + sx.count("x72656c656d)")
    return not (sx.count("(ALT") >= 1 and multi >= 2)


def _parse_vals(t, i, end):
    """values separated by `sep` until `end`; returns (list, index after end)"""
    vals = []
    while i < len(t) and t[i] != end:
        if t[i] in " ,":
            i += 1
            continue
        if t.startswith("q:[", i):
            inner, j = _parse_vals(t, i + 3, "]")
            k = j
            while k < len(t) and t[k] not in " ,]":
                k += 1
            vals.append(("q", tuple(sorted(inner, key=repr))))
            i = k
        else:
            k = i
            while k < len(t) and t[k] not in " ,]":
                k += 1
            vals.append(re.sub(r":\d+$", ":_", t[i:k]))
            i = k
    return vals, i + 1


def loose(evs):
    """events with positions erased and sequence elements sorted, as a sorted list"""
    out = []
    for e in evs:
        if e.startswith("R["):
            vals, _ = _parse_vals(e, 2, "]")
            out.append(repr(vals))
        else:
            out.append(e)
    return sorted(out)


def spec_agree(ci, cd, sx):
    """implementation vs the denotational specification"""
    if ci[0] == "HANG" or cd[0] == "HANG":
        return True, "diverge"
    if ci[0] != cd[0]:
        return False, "status"
    if ci[0] == "ABORT":
        return True, "abort"          # what precedes an exception depends on scheduling
    if ci[1] == cd[1]:
        return True, "exact"
    if not order_fixed(sx):
        # order unspecified: positions (numbering in yield order) are unspecified too
        if "x706f73)" in sx or "pred_pos" in bytes.fromhex("".join(re.findall(r"BUILTIN x([0-9a-f]*)", sx))).decode("latin1"):
            return True, "skipped-pos-dependent"
        if loose(ci[1]) == loose(cd[1]):
            return True, "permutation"
        if ("(PSUBX" in sx or "(OR " in sx or "(IFELSE" in sx) and \
                loose([e for e in ci[1] if e.startswith("R")]) == loose([e for e in cd[1] if e.startswith("R")]):
            # a construct that stops at the first result of a sub-expression whose results come in unspecified
            # order: how many diagnostics precede that first result is unspecified too
            return True, "skipped-diagnostics-before-first-result"
        if "(FORMAT" in sx and [e for e in ci[1] if not e.startswith("R")] == [e for e in cd[1] if not e.startswith("R")] \
                and len(ci[1]) == len(cd[1]):
            # a value built in unspecified order was rendered into a string: the order is baked into text
            return True, "skipped-order-in-string"
    return False, "results"


def compare(ctx, queries, stats, kind, max_report=6):
    res = engine.run_both(queries)
    # the specification on the same trees
    idx = [i for i, r in enumerate(res) if r[3]]
    dens = engine.run_model([res[i][3] for i in idx], fuel=150, mode="den")
    for i, cd in zip(idx, dens):
        q, ci, cm, sx = res[i]
        if ci[0].startswith("REJECT") or ci[0].startswith("CRASH"):
            continue
        okk, how = spec_agree(ci, cd, sx)
        stats["spec:" + how] = stats.get("spec:" + how, 0) + 1
        if not okk and len(ctx.violations) < 6:
            ctx.violation("`%s`: implementation %s %s, documented meaning %s %s" % (
                q[:300], ci[0], " ".join(ci[1])[:200], cd[0], " ".join(cd[1])[:200]),
                {"query": q, "impl": list(ci), "spec": list(cd), "kind": kind + "/spec"})
    # a model HANG against an implementation that finished: retry with more fuel
    retry = [i for i, (q, ci, cm, sx) in enumerate(res) if cm[0] == "HANG" and ci[0] != "HANG" and sx]
    if retry:
        again = engine.run_model([res[i][3] for i in retry], fuel=engine.FUEL * 10, limit=engine.LIMIT)
        for i, cm in zip(retry, again):
            res[i] = (res[i][0], res[i][1], cm, res[i][3])
    reported = 0
    for q, ci, cm, sx in res:
        stats["evaluations"] += 1
        stats["status:" + ci[0].split(":")[0]] = stats.get("status:" + ci[0].split(":")[0], 0) + 1
        nres = sum(1 for e in ci[1] if e.startswith("R"))
        stats["results_hist"][min(nres, 9)] = stats["results_hist"].get(min(nres, 9), 0) + 1
        if ci[0] == "DONE" and nres >= 2 and any(k in q for k in (",", "||", "*", "+", "elem", "let", "%(")):
            stats["nontrivial"].add(q)
        if not engine.agree(ci, cm):
            stats["disagreements"] += 1
            if reported < max_report and len(ctx.violations) < 6:
                small = shrink(q, disagrees) if len(q) < 400 else q
                (_, si, sm, _), = engine.run_both([small])
                case = {"query": small, "original": q, "impl": list(si), "model": list(sm), "kind": kind}
                what = "`%s`: implementation %s %s, engine model %s %s" % (
                    small, si[0], " ".join(si[1])[:200], sm[0], " ".join(sm[1])[:200])
                if ctx.violation(what, case):
                    reported += 1


