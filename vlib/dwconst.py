"""Constants that come out of DWARF / ELF data (tags, attribute names, forms, location
operations - the only constants created "brief" -, symbol types and bindings, offsets and
addresses): what the radix words and the %-directives make of them."""
import os

from vlib import common, zw

SOURCES = [("entry @AT_location elem label", "location operation"), ("entry label", "tag"), ("entry attribute label", "attribute name"),
           ("entry attribute form", "form"), ("symbol label", "symbol type"), ("symbol binding", "binding"), ("entry offset", "offset"),
           ("entry @AT_location elem offset", "operation offset"), ("entry ?AT_low_pc low", "address"), ("entry @AT_decl_line", "line"),
           ("entry @AT_encoding", "encoding"), ("entry @AT_language", "language")]
RENDER = "(|L| [L value \"%s\", L hex \"%s\", L oct \"%s\", L bin \"%s\", L dec \"%s\", L \"%x\", L \"%o\", L \"%b\", L \"%d\", L value hex \"%s\", L hex \"<%s>\", \"%( L hex %)\", L hex hex \"%s\", L oct bin \"%s\"])"


def expect(n):
    if n == 0:                      # zero is "0" in every radix
        return ["0"] * 10 + ["<0>", "0", "0", "0"]
    h, o, b, d = ("0x%x" % n if n >= 0 else "-0x%x" % -n), ("0%o" % n if n > 0 else "0" if n == 0 else "-0%o" % -n), ("0b%s" % bin(n)[2:] if n >= 0 else "-0b%s" % bin(-n)[2:]), "%d" % n
    return [d, h, o, b, d, h, o, b, d, h, "<%s>" % h, h, h, b]


def check_files(files, bad, quick):
    """bad(what, case) for every DWARF/ELF-sourced constant whose radix renderings differ from those of its number"""
    n = 0
    for f in files:
        lines = [zw.enc("[%s] elem %s" % (src, RENDER), dw=f, t=30, max=(300 if quick else 3000)) for src, _ in SOURCES]
        for (src, kind), r in zip(SOURCES, zw.run_cases(lines)):
            if r.crash:
                bad("`%s` on %s: %s" % (src, os.path.basename(f), r.crash), {"file": f, "source": src, "kind": "radix-of-dwarf-constant"})
                continue
            seen = set()
            for s in r.results:
                got = [bytes.fromhex(x["v"]).decode("latin1") if x["t"] == "s" else x["t"] for x in s[0]["v"]]
                if tuple(got) in seen:
                    continue
                seen.add(tuple(got))
                n += 1
                try:
                    num = int(got[0])
                except ValueError:
                    bad("a %s out of `%s` on %s: `value \"%%s\"` gives %r, not a number" % (kind, src, os.path.basename(f), got[0]), {"file": f, "source": src, "kind": "radix-of-dwarf-constant"})
                    break
                want = expect(num)
                if got != want:
                    k = next(i for i in range(len(want)) if i >= len(got) or got[i] != want[i])
                    bad("a %s (number %d) out of `%s` on %s: the renderings %s are %s; a plain %d gives %s (first difference: %r instead of %r)"
                        % (kind, num, src, os.path.basename(f), RENDER[6:-2], got, num, want, got[k] if k < len(got) else None, want[k]),
                        {"file": f, "source": src, "number": num, "kind": "radix-of-dwarf-constant"})
                    break
    return n


# constants of the address and offset domains, also negative ones (differences): shown in hexadecimal with a sign
HEXSOURCES = [("entry ?AT_low_pc low", "address"), ("entry offset", "offset"), ("entry ?AT_high_pc (|E| E low E high sub)", "negative address difference"),
              ("entry ?AT_high_pc (|E| E high E low sub)", "address difference"), ("entry ?(child) (|E| E offset E child offset sub)", "negative offset difference"),
              ("entry ?AT_low_pc (|E| 0 E low sub)", "negated address"),
              ("symbol address", "symbol address"), ("[symbol address] (|L| L elem (|A| L elem (|B| A B sub)))", "difference of symbol addresses")]
HEXRENDER = "(|L| [L value \"%s\", L \"%s\", [L] \"%s\", L \"<%s>\", L \"%x\", L hex \"%s\", L \"%d\"])"


def check_hex_domains(files, bad, quick):
    n = 0
    for f in files:
        lines = [zw.enc("[%s] elem %s" % (src, HEXRENDER), dw=f, t=30, max=(300 if quick else 3000)) for src, _ in HEXSOURCES]
        for (src, kind), r in zip(HEXSOURCES, zw.run_cases(lines)):
            if r.crash:
                bad("`%s` on %s: %s" % (src, os.path.basename(f), r.crash), {"file": f, "source": src, "kind": "hex-domain-constant"})
                continue
            seen = set()
            for s in r.results:
                got = [bytes.fromhex(x["v"]).decode("latin1") if x["t"] == "s" else x["t"] for x in s[0]["v"]]
                if tuple(got) in seen:
                    continue
                seen.add(tuple(got))
                n += 1
                try:
                    num = int(got[0])
                except ValueError:
                    bad("a %s out of `%s` on %s: `value \"%%s\"` gives %r" % (kind, src, os.path.basename(f), got[0]), {"file": f, "source": src, "kind": "hex-domain-constant"})
                    break
                h = expect(num)[1]
                want = ["%d" % num, h, "[%s]" % h, "<%s>" % h, h, h, "%d" % num]
                if got != want:
                    bad("a %s (number %d) out of `%s` on %s renders as %s (value, %%s, inside a sequence, in text, %%x, hex, %%d); that number is %s"
                        % (kind, num, src, os.path.basename(f), got, want), {"file": f, "source": src, "number": num, "kind": "hex-domain-constant"})
                    break
    return n


def check_mixed_sequences(files, bad, quick):
    """decimal numbers keep their text next to DIEs, attributes, units and location operations in one rendered sequence"""
    import re
    n = 0
    srcs = [("entry", "a DIE"), ("entry attribute", "an attribute"), ("unit", "a unit"), ("entry @AT_location elem", "a location operation"), ("entry @AT_location", "a location list entry"),
            ("symbol", "a symbol")]
    for f in files:
        qs = [zw.enc('%s (|E| [E, 56, 255, E, 1000, [E, 17], 4096 dec] "%%s")' % src, dw=f, t=30, max=(200 if quick else 2000)) for src, _ in srcs]
        for (src, what), r in zip(srcs, zw.run_cases(qs)):
            if r.crash:
                bad("`%s` rendered in sequences on %s: %s" % (src, os.path.basename(f), r.crash), {"file": f, "source": src, "kind": "mixed-sequence"})
                continue
            for st in r.results:
                n += 1
                txt = bytes.fromhex(st[0]["v"]).decode("latin1")
                if not re.search(r", 56, 255, .*, 1000, \[.*, 17\], 4096\]$", txt, re.S):
                    bad("a sequence holding %s and the decimal numbers 56, 255, 1000, 17, 4096 (out of `%s` on %s) renders as %r" % (what, src, os.path.basename(f), txt[:200]),
                        {"file": f, "source": src, "kind": "mixed-sequence"})
                    break
    return n


def default_files(quick):
    t = os.path.join(common.REPO, "tests")
    names = ["bitcount.o", "a1.out", "y.o", "nullptr.o"] if quick else ["bitcount.o", "a1.out", "y.o", "nullptr.o", "enum.o", "twocus", "dwz-partial2-1", "testfile_const_type", "y-mips.o"]
    return [os.path.join(t, n) for n in names if os.path.exists(os.path.join(t, n))]
