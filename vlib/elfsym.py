"""An independent reader (and patcher) of ELF symbol tables: struct-level, no library."""
import struct


class Elf:
    def __init__(self, path):
        self.path = path
        self.data = bytearray(open(path, "rb").read())
        d = self.data
        assert d[:4] == b"\x7fELF"
        self.is64 = d[4] == 2
        self.end = "<" if d[5] == 1 else ">"
        e = self.end
        if self.is64:
            (self.e_type, self.e_machine) = struct.unpack_from(e + "HH", d, 16)
            self.e_shoff = struct.unpack_from(e + "Q", d, 40)[0]
            self.e_shentsize, self.e_shnum, self.e_shstrndx = struct.unpack_from(e + "HHH", d, 58)
        else:
            (self.e_type, self.e_machine) = struct.unpack_from(e + "HH", d, 16)
            self.e_shoff = struct.unpack_from(e + "I", d, 32)[0]
            self.e_shentsize, self.e_shnum, self.e_shstrndx = struct.unpack_from(e + "HHH", d, 46)
        self.sections = []
        for i in range(self.e_shnum):
            o = self.e_shoff + i * self.e_shentsize
            if self.is64:
                name, typ, flags, addr, off, size, link, info, align, entsize = struct.unpack_from(e + "IIQQQQIIQQ", d, o)
            else:
                name, typ, flags, addr, off, size, link, info, align, entsize = struct.unpack_from(e + "IIIIIIIIII", d, o)
            self.sections.append({"name": name, "type": typ, "off": off, "size": size, "link": link, "entsize": entsize})

    def strtab(self, idx, off):
        s = self.sections[idx]
        start = s["off"] + off
        end = self.data.index(0, start)
        return bytes(self.data[start:end])

    def symtab_section(self):
        for s in self.sections:
            if s["type"] == 2:        # SHT_SYMTAB
                return s
        return None

    def symbols(self):
        s = self.symtab_section()
        if s is None:
            return []
        out = []
        n = s["size"] // s["entsize"]
        for i in range(n):
            o = s["off"] + i * s["entsize"]
            if self.is64:
                name, info, other, shndx, value, size = struct.unpack_from(self.end + "IBBHQQ", self.data, o)
            else:
                name, value, size, info, other, shndx = struct.unpack_from(self.end + "IIIBBH", self.data, o)
            out.append({"name": self.strtab(s["link"], name), "value": value, "size": size, "info": info, "other": other, "shndx": shndx,
                        "type": info & 15, "bind": info >> 4, "vis": other & 3, "_off": o})
        return out

    def patch_symbol(self, i, info=None, other=None, value=None, size=None):
        s = self.symtab_section()
        o = s["off"] + i * s["entsize"]
        io = o + 4 if self.is64 else o + 12
        if info is not None:
            self.data[io] = info
        if other is not None:
            self.data[io + 1] = other
        if value is not None:
            struct.pack_into(self.end + ("Q" if self.is64 else "I"), self.data, o + 8 if self.is64 else o + 4, value & ((1 << 64) - 1 if self.is64 else 0xffffffff))
        if size is not None:
            struct.pack_into(self.end + ("Q" if self.is64 else "I"), self.data, o + 16 if self.is64 else o + 8, size & ((1 << 64) - 1 if self.is64 else 0xffffffff))

    def set_machine(self, m):
        struct.pack_into(self.end + "H", self.data, 18, m)

    def save(self, path):
        with open(path, "wb") as f:
            f.write(self.data)
