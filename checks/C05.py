"""C05 — navigation words (parent/child/root/unit/entry) agree on every DIE.

Proof: coq/props/Properties_C05.v (dw/Forest.v): in the model of both views
every child has its parent, the parent chain ends at the root, a unit's DIEs
are exactly the closure of `child` from its root.
Correspondence: (a) generated forests with imports nested up to three deep,
diamonds and repeated imports: parent, children, root and unit of every DIE
in raw and in cooked mode against the extracted model's rows; (b) law queries
whose result count must be zero, run on every generated input and every
sample binary, in both modes; (c) `root child*` vs `entry` per unit.
"""
import json
import os

from vlib import common, zw, dwforest, dwcheck


def laws():
    out = []
    for mode, E, U in (("cooked", "entry", "unit"), ("raw", "raw entry", "raw unit")):
        out += [
            (mode + ":child-has-parent", E + " (|D| D child ?(parent != D))"),
            (mode + ":parent-has-child", E + " (|D| D parent (|P| !(P child (== D))))"),
            (mode + ":root-is-root", E + " root !root"),
            (mode + ":root-has-no-parent", E + " root parent"),
            (mode + ":parent-chain-ends-at-root", E + " (|D| ?((D parent* !(parent)) != (D root)))"),
            (mode + ":same-route-equal", E + " (|D| ?(D != D))"),
            (mode + ":same-route-equal-offset-label", E + " (|D| ?((D offset) != (D offset)), ?((D label) != (D label)), ?([D attribute label] != [D attribute label]))"),
            (mode + ":unit-entry-is-entry", "?([%s entry offset] != [%s offset])" % (U, E)),
            (mode + ":unit-of-die-lists-it", E + " (|D| !(D unit raw entry (offset == D offset)))"),
            (mode + ":entry-twice-equal", "?([%s [offset, label, [attribute label]]] != [%s [offset, label, [attribute label]]])" % (E, E)),
        ]
    # DIEs reached by routes that carry no import chain (converted from the raw view; the target of a
    # reference attribute): their parent is the DIE that stores them - also directly under a partial unit
    out += [
        ("cooked:converted-die-has-stored-parent", "raw entry (|D| ?([D cooked parent offset] != [D parent offset]))"),
        ("cooked:converted-die-root", "raw entry (|D| ?([D cooked root offset] != [D root offset]))"),
        ("cooked:reference-target-has-stored-parent",
         "entry attribute ?(form (== DW_FORM_ref4, == DW_FORM_ref_addr, == DW_FORM_ref_udata, == DW_FORM_ref1, == DW_FORM_ref2, == DW_FORM_ref8, == DW_FORM_GNU_ref_alt)) value ?(type == T_DIE) (|D| ?([D parent offset] != [D raw parent offset]))"),
        ("cooked:reference-target-chain-ends-at-root",
         "entry attribute ?(form (== DW_FORM_ref4, == DW_FORM_ref_addr, == DW_FORM_ref_udata, == DW_FORM_ref1, == DW_FORM_ref2, == DW_FORM_ref8, == DW_FORM_GNU_ref_alt)) value ?(type == T_DIE) (|D| ?((D parent* !(parent)) != (D root)))"),
        ("raw:reference-target-has-stored-parent",
         "raw entry attribute ?(form (== DW_FORM_ref4, == DW_FORM_ref_addr, == DW_FORM_ref_udata, == DW_FORM_ref1, == DW_FORM_ref2, == DW_FORM_ref8, == DW_FORM_GNU_ref_alt)) value ?(type == T_DIE) (|D| D child ?(parent != D))"),
    ]
    return out


def run(ctx):
    oblig = common.prepare(ctx)
    if oblig is None:
        return ctx.finish(None)
    quick = ctx.tier == "quick"
    stats = {"evaluations": 0, "dies": 0}
    nviol = [0]

    def bad(what, case):
        nviol[0] += 1
        if nviol[0] <= 6:
            ctx.violation(what, case)

    inputs = dwcheck.build_inputs(ctx, 40 if quick else 400, imports=True, links=False)
    dwcheck.compare_views(ctx, inputs, ("raw", "cooked"), ["off", "parent", "kids", "root", "unit"], bad, stats)
    dwcheck.compare_archives(ctx, inputs, ("raw", "cooked"), ["off", "parent", "kids", "root", "unit"], bad, stats)
    files = [(n, p) for n, _, p in inputs] + [(os.path.basename(p), p) for p in dwforest.sample_files()]
    L = laws()
    nlaw = 0
    for name, p in files:
        probe = zw.run_cases([zw.enc("[raw unit offset]", dw=p)])[0]
        if not probe.ok():
            continue
        counts = dwforest.law_counts(p, L)
        for (ln, q) in L:
            stats["evaluations"] += 1
            nlaw += 1
            if counts[ln] != 0:
                bad("on %s the law %s is broken: `%s` yields %s (must yield nothing)" % (name, ln, q, counts[ln]), {"input": name, "file": p, "law": ln, "query": q})
        # the DIEs of a unit are exactly root child*
        for mode, U in (("cooked", "unit"), ("raw", "raw unit")):
            r = zw.run_cases([zw.enc("%s [[entry offset], [root child* offset]]" % U, dw=p, t=120, max=100000)])[0]
            stats["evaluations"] += 1
            if not r.ok():
                bad("on %s `%s [[entry offset], [root child* offset]]` fails: %s" % (name, U, json.dumps(r.d)[:200]), {"input": name, "file": p})
                continue
            for s in r.results:
                a, b = [[int(x["v"]) for x in e["v"]] for e in s[0]["v"]]
                if sorted(set(a)) != sorted(set(b)):         # `*` yields each DIE once; an imported unit may be listed repeatedly
                    bad("on %s (%s) a unit's entry lists %d DIEs, root child* reaches %d" % (name, mode, len(a), len(b)), {"input": name, "file": p, "mode": mode})
                    break
    common.report_broken_obligations(ctx, oblig, bool(ctx.violations))
    ctx.cov.update({
        "evaluations": stats["evaluations"], "distinct_nontrivial": stats["dies"],
        "rule": "%d generated inputs (named shapes incl. imports nested 3 deep, a diamond, one unit imported twice under one DIE, imports inside a namespace; random forests with up to 3 partial units imported at any depth) compared in raw and cooked mode with the model's parent/children/root/unit of every DIE; %d law evaluations (%d zero-count laws x inputs, both modes) on the generated inputs and the sample binaries; entry vs root child* per unit" % (len(inputs), nlaw, len(L)),
        "samples": [L[0][1], L[4][1], L[8][1]],
        "traces_validated_against_impl": stats["dies"] + nlaw,
        "violations_found": nviol[0],
    })
    return ctx.finish(oblig)


def replay(ctx, path):
    case = json.load(open(path))["case"]
    common.build_impl("plain")
    print(json.dumps(case, indent=1)[:1200])
    if case.get("query") and os.path.exists(case.get("file", "")):
        r = zw.run_cases([zw.enc(case["query"], dw=case["file"], max=20)])[0]
        print("results:", len(r.results), json.dumps(r.d)[:600])
    return 0
