"""C07 — attribute values decode to the right type, value, sign and constant domain.

Proof: coq/props/Properties_C07.v (dw/Atval.v = at_value, handle_at_dependent_value,
handle_encoding of atval.cc): sign extension is two's complement for every
width and bit pattern; the signedness of DW_AT_const_value follows the encoding
of the peeled type; sdata/udata decide by form; enumerated attributes land in
their family; what is not interpreted is an error, never another value.
Correspondence: a generated unit holds one DIE per combination of attribute,
form, boundary value and type context (base types of every encoding, typedef /
cv chains, pointers, nullptr, enumerations with and without underlying type,
enumerators, structures); `value` of each attribute through the library driver
is compared with the extracted model's value, domain and class.
"""
import json
import os
import re
import subprocess

from vlib import common, zw, dwforest
from vlib.dwgen import Attr, Die, Unit, Forest, write_object, C, consts

FAM = {"DW_AT_language": "DW_LANG_", "DW_AT_inline": "DW_INL_", "DW_AT_encoding": "DW_ATE_", "DW_AT_accessibility": "DW_ACCESS_",
       "DW_AT_visibility": "DW_VIS_", "DW_AT_virtuality": "DW_VIRTUALITY_", "DW_AT_identifier_case": "DW_ID_",
       "DW_AT_calling_convention": "DW_CC_", "DW_AT_ordering": "DW_ORD_", "DW_AT_decimal_sign": "DW_DS_",
       "DW_AT_address_class": "DW_ADDR_", "DW_AT_endianity": "DW_END_", "DW_AT_defaulted": "DW_DEFAULTED_"}
WIDTH = {"DW_FORM_data1": 1, "DW_FORM_data2": 2, "DW_FORM_data4": 4, "DW_FORM_data8": 8}


def boundaries(w):
    b = 8 * w
    return sorted({0, 1, 2, (1 << (b - 1)) - 1, 1 << (b - 1), (1 << (b - 1)) + 1, (1 << b) - 2, (1 << b) - 1})


class Builder:
    def __init__(self):
        self.tests = []          # (die, attr, model line)
        self.kids = []

    def raw_text(self, a):
        f, v = a.form, a.value
        if f in WIDTH:
            return "D %d %d" % (WIDTH[f], v & ((1 << (8 * WIDTH[f])) - 1))
        if f == "DW_FORM_sdata":
            return "S %d" % v
        if f == "DW_FORM_udata":
            return "U %d" % v
        if f == "DW_FORM_implicit_const":
            return "I %d" % v
        if f in ("DW_FORM_string", "DW_FORM_strp", "DW_FORM_line_strp") or f.startswith("DW_FORM_strx"):
            return "STR %s" % bytes(v).hex()
        if f.startswith("DW_FORM_ref"):
            return "REF"                    # the offset is filled in after layout
        if f in ("DW_FORM_flag", "DW_FORM_flag_present"):
            return "F %d" % (1 if v else 0)
        if f == "DW_FORM_addr":
            return "A %d" % v
        if f == "DW_FORM_sec_offset":
            return "O %d" % v
        if f in ("DW_FORM_block1", "DW_FORM_block"):
            if v and isinstance(v[0], tuple):
                from vlib.dwgen import expr_layout
                return "B %s" % bytes(expr_layout(v)[1]).hex()
            return "B %s" % bytes(v).hex()
        if f == "DW_FORM_exprloc":
            return "E"
        return "X"

    def add(self, tag, attr, ctx="N", extra=None, parent=None):
        d = Die(tag, (extra or []) + [attr])
        (parent.children if parent is not None else self.kids).append(d)
        if parent is not None:
            parent.flag = True
        self.tests.append((d, attr, ctx))
        return d


def build(version, rot=0):
    """`rot` rotates the encodings over the base types: files of the same layout whose type DIEs at the same
    offsets mean different things"""
    B = Builder()
    def base(name, enc, size=4):
        at = [Attr("DW_AT_name", "DW_FORM_string", name), Attr("DW_AT_byte_size", "DW_FORM_data1", size)]
        if enc is not None:
            at.append(Attr("DW_AT_encoding", "DW_FORM_data1", C(enc)))
        d = Die("DW_TAG_base_type", at)
        B.kids.append(d)
        return d
    def ty(tag, target=None, name=None):
        at = []
        if name:
            at.append(Attr("DW_AT_name", "DW_FORM_string", name))
        if target is not None:
            at.append(Attr("DW_AT_type", "DW_FORM_ref4", target))
        d = Die(tag, at)
        B.kids.append(d)
        return d
    t = {}
    tnames = ["signed", "unsigned", "bool", "schar", "uchar", "utf", "float", "address", "decfloat"]
    tencs = ["DW_ATE_signed", "DW_ATE_unsigned", "DW_ATE_boolean", "DW_ATE_signed_char", "DW_ATE_unsigned_char", "DW_ATE_UTF", "DW_ATE_float",
             "DW_ATE_address", "DW_ATE_decimal_float"]
    tencs = tencs[rot % 9:] + tencs[:rot % 9]
    cof = {}
    for nm, enc in list(zip(tnames, tencs)) + [("noenc", None)]:
        t[nm] = base(nm.encode(), enc)
        cof[nm] = "N" if enc is None else "ENC %d" % C(enc)
    ctxs = [(n, cof[n]) for n in tnames + ["noenc"]]
    types = [(t[n], c) for n, c in ctxs]
    types.append((ty("DW_TAG_pointer_type", t["signed"]), "P"))
    types.append((ty("DW_TAG_ptr_to_member_type", t["signed"]), "P"))
    types.append((ty("DW_TAG_unspecified_type", None, b"decltype(nullptr)"), "NP"))
    types.append((ty("DW_TAG_structure_type", None, b"S"), "N"))
    td = ty("DW_TAG_typedef", t["signed"], b"td")
    types.append((td, cof["signed"]))
    types.append((ty("DW_TAG_const_type", ty("DW_TAG_volatile_type", ty("DW_TAG_typedef", t["unsigned"], b"tu"))), cof["unsigned"]))
    types.append((ty("DW_TAG_restrict_type", ty("DW_TAG_const_type", td)), cof["signed"]))
    types.append((None, "N"))
    # enumerations
    def enum(name, under, forms):
        at = [Attr("DW_AT_name", "DW_FORM_string", name), Attr("DW_AT_byte_size", "DW_FORM_data1", 4)]
        if under is not None:
            at.append(Attr("DW_AT_type", "DW_FORM_ref4", under))
        e = Die("DW_TAG_enumeration_type", at, [], flag=True)
        for i, f in enumerate(forms):
            e.children.append(Die("DW_TAG_enumerator", [Attr("DW_AT_name", "DW_FORM_string", b"e%d" % i), Attr("DW_AT_const_value", f, i)]))
        B.kids.append(e)
        return e
    enums = [(enum(b"eu", t["unsigned"], ["DW_FORM_data1"]), "EU %s 0 0" % cof["unsigned"][4:], cof["unsigned"]), (enum(b"es", td, ["DW_FORM_data1"]), "EU %s 0 0" % cof["signed"][4:], cof["signed"]),
             (enum(b"esd", None, ["DW_FORM_sdata", "DW_FORM_data1"]), "EF 1 0", "EP"), (enum(b"eud", None, ["DW_FORM_udata"]), "EF 0 1", "EP"),
             (enum(b"emix", None, ["DW_FORM_sdata", "DW_FORM_udata"]), "EF 1 1", "EP"), (enum(b"enone", None, ["DW_FORM_data2"]), "EF 0 0", "EP")]
    for e, vctx, _ in enums:
        types.append((e, vctx))
    e_enc = enum(b"eenc", None, ["DW_FORM_data1"])                      # an enumeration with an encoding of its own
    e_enc.attrs.append(Attr("DW_AT_encoding", "DW_FORM_data1", C("DW_ATE_unsigned")))
    e_tdu = enum(b"etd", ty("DW_TAG_typedef", ty("DW_TAG_const_type", t["uchar"]), b"tuc"), ["DW_FORM_sdata"])      # underlying type behind typedef and const
    e_ptr = enum(b"eptr", ty("DW_TAG_pointer_type", t["signed"]), ["DW_FORM_udata"])                                # underlying "type" without encoding
    for e in (e_enc, e_tdu, e_ptr):
        types.append((e, None))
        types.append((ty("DW_TAG_typedef", e, b"t" + bytes(e.attr("DW_AT_name").value)), None))
        enums.append((e, None, None))

    # further shapes of type chains; their context is whatever the model of get_type_die makes of them (None here)
    sub = ty("DW_TAG_subrange_type", t["schar"])
    types.append((sub, None))
    types.append((ty("DW_TAG_packed_type", ty("DW_TAG_typedef", sub, b"tsub")), None))
    types.append((ty("DW_TAG_typedef", ty("DW_TAG_pointer_type", td), b"tptr"), None))                       # typedef of a pointer
    types.append((ty("DW_TAG_pointer_type", ty("DW_TAG_const_type", t["uchar"])), None))                    # pointer to something signed or not
    types.append((ty("DW_TAG_const_type", None), None))                                                     # const void
    types.append((ty("DW_TAG_typedef", None, b"decltype(nullptr)"), None))                                  # a typedef of that name, of nothing
    types.append((ty("DW_TAG_volatile_type", ty("DW_TAG_unspecified_type", None, b"decltype(nullptr)")), None))
    types.append((ty("DW_TAG_typedef", ty("DW_TAG_structure_type", None, b"S2"), b"ts"), None))
    deep = t["bool"]
    for k in range(12):
        deep = ty(("DW_TAG_typedef", "DW_TAG_const_type", "DW_TAG_volatile_type", "DW_TAG_restrict_type")[k % 4], deep, b"deep%d" % k if k % 4 == 0 else None)
    types.append((deep, None))
    types.append((ty("DW_TAG_array_type", t["signed"]), None))                                              # not peeled: an array of signed is no signed
    types.append((ty("DW_TAG_typedef", ty("DW_TAG_reference_type", t["signed"]), b"tref"), None))

    # DW_AT_const_value: every type context x form x boundary value
    for T, ctx in types:
        tyat = [Attr("DW_AT_type", "DW_FORM_ref4", T)] if T is not None else []
        for f, w in WIDTH.items():
            for v in boundaries(w):
                B.add("DW_TAG_variable", Attr("DW_AT_const_value", f, v), ctx, tyat)
        for v in (0, 1, -1, 127, -128, 128, -129, (1 << 31) - 1, -(1 << 31), (1 << 63) - 1, -(1 << 63)):
            B.add("DW_TAG_variable", Attr("DW_AT_const_value", "DW_FORM_sdata", v), ctx, tyat)
        for v in (0, 1, 127, 128, 255, 256, (1 << 32) - 1, (1 << 63), (1 << 64) - 1):
            B.add("DW_TAG_variable", Attr("DW_AT_const_value", "DW_FORM_udata", v), ctx, tyat)
        for blk in (b"\xff", b"\x80\xff", b"\x01\x00\x00\x80", b"\xff" * 8, b"\x01\x02\x03", b"", b"\x7f"):
            B.add("DW_TAG_variable", Attr("DW_AT_const_value", "DW_FORM_block1", list(blk)), ctx, tyat)
        if version >= 5:
            for v in (0, -1, 200, -200, (1 << 40)):
                B.add("DW_TAG_variable", Attr("DW_AT_const_value", "DW_FORM_implicit_const", v), ctx, tyat)
    # enumerators
    for e, _, ectx in enums:
        for f, w in WIDTH.items():
            for v in boundaries(w):
                B.add("DW_TAG_enumerator", Attr("DW_AT_const_value", f, v), ectx, parent=e)
    # enumerated attributes, line/column, plain numbers, in every constant form
    for name in list(FAM) + ["DW_AT_decl_line", "DW_AT_call_line", "DW_AT_decl_column", "DW_AT_call_column", "DW_AT_byte_size", "DW_AT_bit_size",
                             "DW_AT_upper_bound", "DW_AT_lower_bound", "DW_AT_count", "DW_AT_high_pc", "DW_AT_alignment", "DW_AT_data_bit_offset",
                             "DW_AT_bit_stride", "DW_AT_byte_stride", "DW_AT_binary_scale", "DW_AT_decimal_scale", "DW_AT_stmt_list", "DW_AT_discr_value",
                             "DW_AT_GNU_odr_signature", "DW_AT_lo_user", "DW_AT_MIPS_fde", "DW_AT_description", "DW_AT_start_scope"]:
        for f, v in (("DW_FORM_data1", 1), ("DW_FORM_data1", 255), ("DW_FORM_data2", 3), ("DW_FORM_data2", 65535), ("DW_FORM_data4", 0x80000000),
                     ("DW_FORM_data8", (1 << 64) - 1), ("DW_FORM_udata", 2), ("DW_FORM_sdata", 2 if name in FAM or "line" in name or "column" in name else -2), ("DW_FORM_block1", [1, 2])):
            if name == "DW_AT_stmt_list":
                continue            # libdw validates the offset against .debug_line, which the generator does not write
            B.add("DW_TAG_variable", Attr(name, f, v), "N")
        if version >= 5:
            B.add("DW_TAG_variable", Attr(name, "DW_FORM_implicit_const", 5), "N")
            B.add("DW_TAG_variable", Attr(name, "DW_FORM_implicit_const", -5), "N")
    # strings, flags, addresses, references, locations
    for s in (b"", b"plain", b"high\xff\x80bytes", b"quote\"back\\slash", b"tab\tnew\nline"):
        B.add("DW_TAG_variable", Attr("DW_AT_name", "DW_FORM_string", s), "N")
        B.add("DW_TAG_variable", Attr("DW_AT_linkage_name", "DW_FORM_strp", s), "N")
        if version >= 5:
            # indexed strings (.debug_str_offsets) in every index width, and strings of the line table's pool
            for k, f5 in enumerate(("DW_FORM_strx1", "DW_FORM_strx2", "DW_FORM_strx3", "DW_FORM_strx4", "DW_FORM_strx", "DW_FORM_line_strp")):
                B.add("DW_TAG_variable", Attr(("DW_AT_name", "DW_AT_linkage_name", "DW_AT_producer")[k % 3], f5, s), "N")
    for f, v in (("DW_FORM_flag", True), ("DW_FORM_flag", False)) + ((("DW_FORM_flag_present", True),) if version >= 4 else ()):
        B.add("DW_TAG_variable", Attr("DW_AT_external", f, v), "N")
        B.add("DW_TAG_variable", Attr("DW_AT_declaration", f, v), "N")
    for v in (0, 1, 0x400000, (1 << 64) - 1):
        B.add("DW_TAG_subprogram", Attr("DW_AT_low_pc", "DW_FORM_addr", v), "N")
        B.add("DW_TAG_subprogram", Attr("DW_AT_entry_pc", "DW_FORM_addr", v), "N")
    for f in ("DW_FORM_ref4", "DW_FORM_ref1", "DW_FORM_ref2", "DW_FORM_ref8", "DW_FORM_ref_udata", "DW_FORM_ref_addr"):
        B.add("DW_TAG_variable", Attr("DW_AT_type", f, t["signed"]), "N")
        B.add("DW_TAG_variable", Attr("DW_AT_sibling" if False else "DW_AT_containing_type", f, t["unsigned"]), "N")
    # every attribute that holds a location description, in the form of its DWARF version
    for k, at in enumerate(("DW_AT_location", "DW_AT_data_member_location", "DW_AT_vtable_elem_location", "DW_AT_frame_base", "DW_AT_return_addr", "DW_AT_static_link",
                            "DW_AT_use_location", "DW_AT_segment", "DW_AT_data_location")):
        B.add("DW_TAG_member", Attr(at, "DW_FORM_exprloc" if version >= 4 else "DW_FORM_block1", [("DW_OP_plus_uconst", 8 + k)]), "N")
    if version >= 4:
        B.add("DW_TAG_variable", Attr("DW_AT_location", "DW_FORM_exprloc", [("DW_OP_addr", 0x1000)]), "N")
        B.add("DW_TAG_variable", Attr("DW_AT_frame_base", "DW_FORM_exprloc", [("DW_OP_call_frame_cfa",)]), "N")
    if version < 4:                  # from DWARF 4 on a block is not a location description (exprloc is)
        B.add("DW_TAG_member", Attr("DW_AT_data_member_location", "DW_FORM_block1", [("DW_OP_plus_uconst", 8)]), "N")
    B.add("DW_TAG_member", Attr("DW_AT_data_member_location", "DW_FORM_data1", 8), "N")
    root = Die("DW_TAG_compile_unit", [Attr("DW_AT_name", "DW_FORM_string", b"c07-v%d" % version)], B.kids, flag=True)
    return Unit(root, version), B.tests


def range_lists(rng, n):
    """range lists as items ("base", b) / ("pair", s, e) (offsets from the base in force, initially the unit's
    low_pc): proper ranges, empty entries first / in the middle / last, overlapping, adjacent, unsorted, repeated"""
    out = [[("pair", 0x1000, 0x1010), ("pair", 1, 1), ("pair", 0x2000, 0x2040)],                    # what ld leaves of a discarded function
           [("pair", 0x10, 0x10), ("pair", 0x20, 0x30)], [("pair", 0x20, 0x30), ("pair", 0x40, 0x40)], [("pair", 5, 5)], [],
           [("pair", 0x30, 0x40), ("pair", 0x10, 0x20), ("pair", 0x20, 0x30)], [("pair", 0x10, 0x30), ("pair", 0x20, 0x28), ("pair", 0x10, 0x30)],
           [("base", 0x700000), ("pair", 0, 8), ("pair", 8, 8), ("base", 0x10), ("pair", 1, 2), ("pair", 0x7000f0, 0x7000f8)],
           [("pair", 0x10, 0x20), ("pair", 0x7fffffffffff0000, 0x7fffffffffff0010)]]
    while len(out) < n:
        l = []
        for _ in range(rng.randint(1, 8)):
            r = rng.random()
            s = rng.choice([1, 0x10, 0x18, 0x20, 0x40, 0x100, 0x1000, rng.randrange(1, 0x3000)])
            if r < 0.12:
                l.append(("base", rng.choice([0, 0x10, 0x400000, 0x7f0000000000])))
            elif r < 0.35:
                l.append(("pair", s, s))
            else:
                l.append(("pair", s, s + rng.choice([1, 8, 0x10, 0x18, 0x100])))
        out.append(l)
    return out


def ranges_object(lists, version, low_pc, path):
    """one DIE per list with DW_AT_ranges pointing into .debug_ranges (DWARF <= 4) / .debug_rnglists (DWARF 5);
    returns [(die, resolved (start, end) pairs)]"""
    from vlib.dwgen import le, uleb
    sect, offs, resolved = [], [], []
    if version >= 5:
        sect = [0, 0, 0, 0] + le(5, 2) + [8, 0] + le(0, 4)
    for k, l in enumerate(lists):
        offs.append(len(sect))
        base, res = low_pc, []
        for it in l:
            if it[0] == "base":
                base = it[1]
                sect += ([5] + le(base, 8)) if version >= 5 else (le((1 << 64) - 1, 8) + le(base, 8))
            else:
                _, s_, e_ = it
                res.append(((base + s_) % (1 << 64), (base + e_) % (1 << 64)))
                if version >= 5:
                    kind = k % 3
                    if kind == 0:
                        sect += [4] + uleb(s_) + uleb(e_)                       # DW_RLE_offset_pair
                    elif kind == 1:
                        sect += [6] + le(base + s_, 8) + le(base + e_, 8)       # DW_RLE_start_end
                    else:
                        sect += [7] + le(base + s_, 8) + uleb(e_ - s_)          # DW_RLE_start_length
                else:
                    sect += le(s_, 8) + le(e_, 8)
        sect += [0] if version >= 5 else le(0, 8) + le(0, 8)
        resolved.append(res)
    if version >= 5:
        sect[0:4] = le(len(sect) - 4, 4)
    dies = [Die("DW_TAG_lexical_block", [Attr("DW_AT_ranges", "DW_FORM_sec_offset" if version >= 4 else "DW_FORM_data4", o)]) for o in offs]
    root = Die("DW_TAG_compile_unit", [Attr("DW_AT_name", "DW_FORM_string", b"ranges"), Attr("DW_AT_low_pc", "DW_FORM_addr", low_pc)], dies, flag=True)
    f = Forest([Unit(root, version)])
    f.extra_sections = {".debug_rnglists" if version >= 5 else ".debug_ranges": sect}
    write_object(f, path)
    return list(zip(dies, resolved))


def dom_ok(mdom, d, name):
    if mdom == "dec":
        return d == "dec"
    if mdom == "hex":
        return d == "hex"
    if mdom == "bool":
        return d == "bool"
    if mdom == "addr":
        return d == "Dwarf_Address"
    if mdom == "line":
        return d == "line number"
    if mdom == "column":
        return d == "column number"
    if mdom.startswith("fam:"):
        return d == FAM.get(name)
    return False


def canon_v(v):
    """a dumped value without its position"""
    t = v["t"]
    if t == "c":
        return ("c", v["v"], v["d"])
    if t == "s":
        return ("s", v["v"])
    if t == "q":
        return ("q", tuple(canon_v(x) for x in v["v"]))
    if t == "die":
        return ("die", v["off"])
    return (t,)


def run(ctx):
    oblig = common.prepare(ctx)
    if oblig is None:
        return ctx.finish(None)
    d = dwforest.workdir(ctx)
    evaluations = 0
    viol = {}
    hist = {}

    def bad(kind, what, case):
        viol[kind] = viol.get(kind, 0) + 1
        if viol[kind] <= 2 and sum(1 for k in viol) <= 8:
            ctx.violation(what, case)

    total = 0
    per_version = {}
    for version, big in ((2, False), (3, False), (4, False), (5, False), (4, True), (3, True)):
        # (DWARF 2, 3 and 4 units are laid out alike: the same offsets, other encodings; the last two are big-endian
        #  objects: fixed-size data and block-form constants are read in the byte order of the file)
        unit, tests = build(version, {2: 0, 3: 1, 4: 5, 5: 0}[version] + (2 if big else 0))
        # every value also read through two links (DW_AT_abstract_origin -> DW_AT_specification -> the DIE
        # that stores it): `@AT_x` must decode it in the context of the DIE that stores it
        readers = []
        for die, a, c in tests:
            if a.name in ("DW_AT_specification", "DW_AT_abstract_origin", "DW_AT_sibling", "DW_AT_declaration") or not a.name.startswith("DW_AT_"):
                readers.append(None)
                continue
            r1 = Die("DW_TAG_variable", [Attr("DW_AT_specification", "DW_FORM_ref4", die)])
            r2 = Die("DW_TAG_variable", [Attr("DW_AT_abstract_origin", "DW_FORM_ref4", r1)])
            unit.root.children += [r1, r2]
            readers.append(r2)
        f = Forest([unit])
        dwforest.fix_small_refs(f)
        path = os.path.join(d, "c07-v%d%s.o" % (version, "be" if big else ""))
        write_object(f, path, big=big)
        # the type context of every DW_AT_const_value comes from the model of get_type_die (dw/TypeCtx.v), fed the
        # type DIEs as laid out; the generator's own idea of it must agree (or the generator is wrong)
        tl = ["R"]
        for td in unit.root.walk():
            if td.tag in ("DW_TAG_base_type", "DW_TAG_typedef", "DW_TAG_const_type", "DW_TAG_volatile_type", "DW_TAG_restrict_type", "DW_TAG_pointer_type",
                          "DW_TAG_ptr_to_member_type", "DW_TAG_unspecified_type", "DW_TAG_structure_type", "DW_TAG_enumeration_type", "DW_TAG_subrange_type", "DW_TAG_packed_type"):
                ty, en, nm = td.attr("DW_AT_type"), td.attr("DW_AT_encoding"), td.attr("DW_AT_name")
                kids = ",".join("%d:%s" % (C(k.tag), C(k.attr("DW_AT_const_value").form) if k.attr("DW_AT_const_value") else "-") for k in td.children) or "-"
                tl.append("T %d %d %s %s %d %s" % (td.off, C(td.tag), ty.value.off if ty is not None else "-", en.value if en is not None else "-",
                                                  1 if nm is not None and bytes(nm.value) == b"decltype(nullptr)" else 0, kids))
        cv = [(die, a, c) for die, a, c in tests if a.name == "DW_AT_const_value"]
        for die, a, c in cv:
            if die.tag == "DW_TAG_enumerator":
                tl.append("E %d" % die.parent.off)
            else:
                ty = die.attr("DW_AT_type")
                tl.append("V %s" % (ty.value.off if ty is not None else "-"))
        rc, out, err = common.run([common.model_bin(), "tctx"], input="\n".join(tl) + "\n", timeout=300)
        mctx = out.split("\n")[:-1]
        if len(mctx) != len(cv):
            raise RuntimeError("zwmodel tctx: %d answers for %d (%s)" % (len(mctx), len(cv), err[-200:]))
        ctx_of = {}
        for (die, a, c), mc in zip(cv, mctx):
            if c is not None and mc != c:
                raise RuntimeError("type context of DIE %#x (%s): the generator says %r, the model of get_type_die %r" % (die.off, die.tag, c, mc))
            ctx_of[id(die)] = mc
        nctx = len(cv)
        B = Builder()
        mlines, qlines = [], []
        for die, a, c in tests:
            c = ctx_of.get(id(die), c)
            raw = B.raw_text(a)
            if big and raw.startswith("B"):
                raw = "B" + raw
            if raw == "REF":
                raw = "REF %d" % a.value.off
            mlines.append("%d %s | %s" % (C(a.name), raw, c))
            qlines.append(zw.enc("entry ?(offset == %d) attribute ?(label value == %d) [value]" % (die.off, C(a.name)), dw=path, t=30))
        rc, out, err = common.run([common.model_bin(), "atval"], input="\n".join(mlines) + "\n", timeout=300)
        mres = out.split("\n")[:-1]
        if len(mres) != len(mlines):
            raise RuntimeError("zwmodel atval: %d answers for %d" % (len(mres), len(mlines)))
        ires = zw.run_cases(qlines)
        if not big:
            per_version[version] = (path, tests, ires)
        # the same values through the two-link chains
        cq = [(i, zw.enc("entry ?(offset == %d) [@%s]" % (rd.off, tests[i][1].name[3:]), dw=path, t=30)) for i, rd in enumerate(readers) if rd is not None]
        cres = zw.run_cases([q for _, q in cq])
        for (i, _), rc in zip(cq, cres):
            die, a, c = tests[i]
            r = ires[i]
            if rc.compile_error is not None:
                continue                 # no such word (vendor attribute)
            evaluations += 1
            direct = ([canon_v(v) for v in r.results[0][0]["v"]] if r.results else None, bool(r.d.get("hard")))
            chained = ([canon_v(v) for v in rc.results[0][0]["v"]] if rc.results else None, bool(rc.d.get("hard")))
            if rc.crash or direct != chained:
                bad("chain:" + a.name, "%s (%s) = %s stored on a %s [type context %s, DWARF %d]: read through abstract_origin -> specification `@%s` gives %s, the attribute itself gives %s"
                    % (a.name, a.form, a.value.off if isinstance(a.value, Die) else a.value, die.tag, c, version, a.name[3:], rc.crash or str(chained)[:150], str(direct)[:150]),
                    {"attribute": a.name, "form": a.form, "context": c, "version": version, "die": die.off, "reader": readers[i].off, "file": path})
        for (die, a, c), m, r in zip(tests, mres, ires):
            evaluations += 1
            total += 1
            kind = m.split(" ")[0]
            hist[kind] = hist.get(kind, 0) + 1
            desc = "%s (%s) = %s on a %s [type context %s, DWARF %d]" % (a.name, a.form, a.value.off if isinstance(a.value, Die) else a.value, die.tag, c, version) + (" [big-endian file]" if big else "")
            case = {"attribute": a.name, "form": a.form, "value": str(a.value.off if isinstance(a.value, Die) else a.value), "context": c, "version": version,
                    "die": die.off, "file": path, "model": m}
            if r.crash:
                bad("crash", "evaluating %s crashes: %s" % (desc, r.crash), case)
                continue
            hard = r.d.get("hard")
            vals = r.results[0][0]["v"] if r.results else None
            diag = [e for e in r.d.get("events", []) if e[0] == "e"]
            if kind == "ERR":
                if hard is None and not diag and vals:
                    bad("silent", "%s is not interpreted by the model of atval.cc, but the implementation silently yields %s" % (desc, json.dumps(vals)[:150]), case)
                continue
            if hard is not None or vals is None:
                bad("error", "%s: the implementation fails (%s); expected %s" % (desc, hard or json.dumps(r.d)[:120], m), case)
                continue
            if kind == "CST":
                _, z, dom = m.split(" ")
                ok = len(vals) == 1 and vals[0]["t"] == "c" and int(vals[0]["v"]) == int(z) and dom_ok(dom, vals[0]["d"], a.name)
                if not ok:
                    bad("value:" + a.name, "%s: got %s; expected the constant %s in domain %s" % (desc, [(v.get("v"), v.get("d")) if v["t"] == "c" else v["t"] for v in vals], z, dom), case)
            elif kind == "STR":
                hx = m.split(" ")[1] if " " in m else ""
                if not (len(vals) == 1 and vals[0]["t"] == "s" and vals[0]["v"] == hx):
                    bad("string", "%s: got %s; expected the bytes %s" % (desc, json.dumps(vals)[:150], hx), case)
            elif kind == "REF":
                if not (len(vals) == 1 and vals[0]["t"] == "die" and vals[0]["off"] == int(m.split(" ")[1])):
                    bad("ref", "%s: got %s; expected the DIE at %s" % (desc, json.dumps(vals)[:150], m.split(" ")[1]), case)
            elif kind == "LOC":
                if not (len(vals) >= 1 and all(v["t"] == "T_LOCLIST_ELEM" for v in vals)):
                    bad("loc", "%s: got %s; expected location list elements" % (desc, json.dumps(vals)[:150]), case)
            elif kind == "BLOCK":
                hx = m.split(" ")[1] if " " in m else ""
                want = [int(hx[i:i + 2], 16) for i in range(0, len(hx), 2)]
                ok = len(vals) == 1 and vals[0]["t"] == "q" and [int(e["v"]) for e in vals[0]["v"]] == want and all(e["d"] == "hex" for e in vals[0]["v"])
                if not ok:
                    bad("block", "%s: got %s; expected the byte sequence %s" % (desc, json.dumps(vals)[:150], want), case)
    # what was learnt about one file says nothing about another: files laid out alike (type DIEs at the same offsets,
    # other encodings) queried in turn by one process, and opened together (three Dwarf values on one stack)
    vs = [v for v in (2, 3, 4) if v in per_version]
    pick = [i for i, (die, a, c) in enumerate(per_version[2][1]) if a.name == "DW_AT_const_value" and die.tag == "DW_TAG_variable" and
            ((a.form == "DW_FORM_data1" and a.value == 255) or (a.form == "DW_FORM_data2" and a.value == 0x8000) or (a.form == "DW_FORM_sdata" and a.value == -1))]
    if all(all(per_version[v][1][i][0].off == per_version[2][1][i][0].off and per_version[v][1][i][1].value == per_version[2][1][i][1].value for i in pick) for v in vs):
        order = [(v, i) for i in pick for v in vs] + [(v, i) for v in reversed(vs) for i in pick[:40]]
        xl = [zw.enc("entry ?(offset == %d) attribute ?(label value == %d) [value]" % (per_version[v][1][i][0].off, C("DW_AT_const_value")), dw=per_version[v][0], t=30) for v, i in order]
        xr = zw.run_cases(xl, chunk=len(xl))
        def cv(r):
            return ([canon_v(x) for x in r.results[0][0]["v"]] if r.results else None, bool(r.d.get("hard")), r.crash)
        for (v, i), r in zip(order, xr):
            evaluations += 1
            if cv(r) != cv(per_version[v][2][i]):
                die, a, c = per_version[v][1][i]
                bad("cross-file", "DW_AT_const_value (%s) = %s [type context %s] of DIE %#x in %s: queried after look-alike files in the same process it gives %s, on its own %s"
                    % (a.form, a.value, c, die.off, os.path.basename(per_version[v][0]), str(cv(r))[:120], str(cv(per_version[v][2][i]))[:120]),
                    {"attribute": a.name, "form": a.form, "context": c, "die": die.off, "file": per_version[v][0], "after": [per_version[w][0] for w in vs], "kind": "cross-file"})
        together = ",".join(per_version[v][0] for v in vs)
        tl = [zw.enc("(|DA DB DC| [(DA, DB, DC) entry ?(offset == %d) attribute ?(label value == %d) value])" % (per_version[2][1][i][0].off, C("DW_AT_const_value")), dw=together, t=30) for i in pick[:60]]
        for i, r in zip(pick[:60], zw.run_cases(tl)):
            evaluations += 1
            want = []
            for v in vs:
                w = cv(per_version[v][2][i])
                want += w[0] or []
            got = [canon_v(x) for x in r.results[0][0]["v"]] if r.results else None
            if got != want and not any(cv(per_version[v][2][i])[1] for v in vs):
                die, a, c = per_version[2][1][i]
                bad("together", "DW_AT_const_value (%s) = %s of the DIEs at %#x of %s opened together: %s; one file at a time: %s" % (a.form, a.value, die.off, together, str(got)[:120], str(want)[:120]),
                    {"attribute": a.name, "form": a.form, "die": die.off, "files": together, "kind": "together"})
    # DW_AT_ranges: the address set of the stored ranges (model: dw/Ranges.v on the resolved pairs)
    rrng = ctx.sub_rng("ranges")
    nr = 0
    for version, low_pc in ((2, 0), (3, 0x400000), (4, 0), (4, 0x1000), (5, 0), (5, 0x400000)):
        lists = range_lists(rrng, 30 if ctx.tier == "quick" else 200)
        if low_pc == 0:
            lists = [l for l in lists if not any(it[0] == "pair" and it[1] == 0 and it[2] == 0 for it in l)]
        path = os.path.join(d, "c07-ranges-v%d-%x.o" % (version, low_pc))
        rt = ranges_object(lists, version, low_pc, path)
        rc, out, err = common.run([common.model_bin(), "ranges"], input="".join(" ".join("%d %d" % p for p in res) + "\n" for _, res in rt), timeout=120)
        mres = out.split("\n")[:-1]
        if len(mres) != len(rt):
            raise RuntimeError("zwmodel ranges: %d answers for %d" % (len(mres), len(rt)))
        qs = [zw.enc("entry ?(offset == %d) [[@AT_ranges], [attribute ?AT_ranges value], [address]]" % die.off, dw=path, t=30) for die, _ in rt]
        for (die, res), m, l, r in zip(rt, mres, lists, zw.run_cases(qs)):
            evaluations += 1
            nr += 1
            want = [] if m == "-" else [tuple(x.split(":")) for x in m.split(",")]
            got = None
            if r.ok() and r.results:
                got = [[[tuple(str(y) for y in x) for x in v["v"]] if v["t"] == "a" else v["t"] for v in q["v"]] for q in r.results[0][0]["v"]]
            if got != [[want], [want], [want]]:
                bad("ranges", "DW_AT_ranges (DWARF %d, unit low_pc %#x) with the entries %s, i.e. the ranges %s: `@AT_ranges` / `attribute value` / `address` give %s; the stored ranges cover %s"
                    % (version, low_pc, l, [(hex(a), hex(b)) for a, b in res], got if got is not None else (r.crash or r.hard or json.dumps(r.d)[:100]), want),
                    {"version": version, "low_pc": low_pc, "entries": [list(x) for x in l], "die": die.off, "file": path, "kind": "ranges", "model": m})
    total += nr
    # location attributes: one element per range with the stored operations and operands
    from vlib import dwloc
    import importlib
    c17 = importlib.import_module("checks.C17")
    nops = 0
    for version in (3, 4):
        f, ltests = c17.build_loc_forest(version)
        path = os.path.join(d, "c07-loc-v%d.o" % version)
        write_object(f, path)
        for die, name, elements in ltests:
            evaluations += 1
            nops += dwloc.check_location(path, die.off, C(name), elements, lambda what, case: bad("loc", what, case), "%s of DIE %#x (DWARF %d)" % (name, die.off, version))
    total += nops
    # file names: DW_AT_decl_file / DW_AT_call_file index the unit's line table, whose entries are
    # numbered from 0 in DWARF 5; in every constant form; expected names from readelf's dump of the table
    ft = os.path.join(d, "filetable5.o")
    subprocess.run(["as", "-o", ft, os.path.join(common.VERIF, "vlib", "data", "filetable5.s")], check=True)
    raw = subprocess.run(["readelf", "--debug-dump=rawline", ft], stdout=subprocess.PIPE, stderr=subprocess.DEVNULL).stdout.decode("latin1")
    dirs, fnames, sect = {}, {}, None
    for line in raw.split("\n"):
        if "Directory Table" in line:
            sect = "d"
        elif "File Name Table" in line:
            sect = "f"
        elif "Line Number Statements" in line:
            sect = None
        m = re.match(r"\s*(\d+)\s+(?:(\d+)\s+)?\(indirect line string, offset: [0-9a-fx]+\): (.*)$", line)
        if m and sect == "d":
            dirs[int(m.group(1))] = m.group(3)
        elif m and sect == "f":
            fnames[int(m.group(1))] = (int(m.group(2)), m.group(3))
    def fname(i):
        dd, nm = fnames[i]
        return nm if nm.startswith("/") else dirs[dd] + "/" + nm
    want = {"d0": ("decl", 0), "d1": ("decl", 1), "d2": ("decl", 2), "w0": ("decl", 0), "w2": ("decl", 2), "c0": ("call", 0), "c1": ("call", 1)}
    r = zw.run_cases([zw.enc("entry [name, [@AT_decl_file], [@AT_call_file], [attribute ?AT_decl_file value], [attribute ?AT_call_file value]]", dw=ft)])[0]
    seen = {}
    for s_ in (r.results if r.ok() else []):
        v = s_[0]["v"]
        nm = bytes.fromhex(v[0]["v"]).decode()
        seen[nm] = [[(x["t"], bytes.fromhex(x["v"]).decode("latin1") if x["t"] == "s" else x.get("v")) for x in q["v"]] for q in v[1:5]]
    for nm, (kind, idx) in want.items():
        evaluations += 1
        total += 1
        exp = [("s", fname(idx))] if len(fnames) == 3 else None
        got = seen.get(nm)
        slot = 0 if kind == "decl" else 1
        if got is None or exp is None or got[slot] != exp or got[slot + 2] != exp:
            bad("file", "DW_AT_%s_file = %d on `%s` (DWARF 5, file table numbered from 0): `@AT_%s_file` / `attribute value` give %s; the line table's entry %d is %r"
                % (kind, idx, nm, kind, None if got is None else (got[slot], got[slot + 2]), idx, fname(idx) if len(fnames) == 3 else "?"),
                {"die": nm, "index": idx, "file": ft, "kind": kind})
    common.report_broken_obligations(ctx, oblig, bool(ctx.violations))
    ctx.cov.update({
        "evaluations": evaluations, "distinct_nontrivial": total,
        "rule": "four generated units (DWARF 2, 3, 4, 5), one DIE per combination: DW_AT_const_value x 24 type contexts (10 base types incl. every interpreted and uninterpreted encoding and one without encoding, typedef/const/volatile/restrict chains, pointer, pointer to member, decltype(nullptr), structure, no type, 6 enumerations with/without underlying type and with sdata/udata/mixed/plain enumerators) x forms data1/2/4/8 at 8 boundary values each, sdata (11 values), udata (9), block1 of length 0,1,2,3,4,8, implicit_const (DWARF 5); enumerators of each enumeration; 13 enumerated attributes, line/column and 19 numeric attributes (signed, unsigned, section offsets, vendor range, uninterpreted) x 9 form/value pairs; strings with quote/backslash/control/high bytes in string and strp (DWARF 5: strx1/2/3/4, strx, line_strp); flags; addresses; 6 reference forms; locations; DW_AT_ranges (range lists in .debug_ranges and in all three .debug_rnglists encodings, with base selections, empty entries in every position, overlapping / adjacent / unsorted / repeated ranges; read with @AT_ranges, attribute value and address); file names (decl_file / call_file 0, 1, 2 against a DWARF 5 line table, in data1, data2 and udata form); every one of these values also read with `@AT_x` through a two-link abstract_origin -> specification chain (must equal the attribute read where it is stored)",
        "samples": [], "model_classes": hist,
        "traces_validated_against_impl": evaluations, "violations_by_kind": viol,
    })
    return ctx.finish(oblig)


def replay(ctx, path):
    case = json.load(open(path))["case"]
    common.build_impl("plain")
    print(json.dumps(case, indent=1))
    if os.path.exists(case["file"]):
        r = zw.run_cases([zw.enc("entry ?(offset == %d) attribute ?(label value == %d) [value]" % (case["die"], consts()[case["attribute"]]), dw=case["file"])])[0]
        print(json.dumps(r.d)[:800])
    return 0
