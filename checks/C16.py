"""C16 — address sets behave as mathematical sets of addresses.

Proof: coq/props/Properties_C16.v over coq/cov/CovModel.v (model of coverage.cc
and of the address-set words).  Correspondence: harness/covdrv.cc (links
/repo/libzwerg/coverage.cc) vs the extracted model on exhaustively enumerated
operation sequences over a small universe, shifted to four base offsets, plus
random long sequences; the set semantics (Python sets) is evaluated on every
disagreement.  Word level through zwdrv.
"""
import itertools
import json

from vlib import common, zw

TOPB = (1 << 64)


def ranges(base, n, with_empty=True):
    out = []
    for s in range(base, base + n + 1):
        for l in range(0 if with_empty else 1, base + n - s + 1):
            out.append((s, l))
    return out


# ---- reference semantics: sets of addresses as normalised interval lists ----

def norm(iv):
    iv = sorted((a, b) for a, b in iv if a < b)
    out = []
    for a, b in iv:
        if out and a <= out[-1][1]:
            out[-1] = (out[-1][0], max(out[-1][1], b))
        else:
            out.append((a, b))
    return out


def i_union(x, y):
    return norm(x + y)


def i_inter(x, y):
    return norm([(max(a, c), min(b, d)) for a, b in x for c, d in y])


def i_diff(x, y):
    cur = list(x)
    for c, d in y:
        nxt = []
        for a, b in cur:
            nxt.append((a, min(b, c)))
            nxt.append((max(a, d), b))
        cur = [(a, b) for a, b in nxt if a < b]
    return norm(cur)


def i_mem(x, p):
    return any(a <= p < b for a, b in x)


def spec_run(tokens):
    """Reference: interval sets.  Returns (final set, outputs of r/c/o/i/q)."""
    cur = []
    outs = []
    i = 0
    while i < len(tokens):
        op = tokens[i]
        if op in "arcoiq":
            s, l = int(tokens[i + 1]), int(tokens[i + 2])
            i += 3
            x = norm([(s, s + l)])
            edge = "1" if (i_mem(cur, s) or i_mem(cur, s - 1)) else "0"
            if op == "a":
                cur = i_union(cur, x)
            elif op == "r":
                outs.append("1" if i_inter(cur, x) else "0")
                cur = i_diff(cur, x)
            if op in "cq":
                # l == 0: documented convention: inside or at the edge of a covered range
                outs.append(edge if l == 0 else ("1" if not i_diff(x, cur) else "0"))
            if op in "oq":
                outs.append(edge if l == 0 else ("1" if i_inter(cur, x) else "0"))
            if op in "iq":
                outs.append(show_set(i_inter(cur, x)))
        else:
            i += 1
    return cur, outs


def show_set(iv):
    if not iv:
        return "-"
    if isinstance(iv, set):
        iv = norm([(x, x + 1) for x in iv])
    return ",".join("%d:%d" % (a, b - a) for a, b in iv)


def run_both(lines):
    inp = "".join(l + "\n" for l in lines)
    rc1, o1, e1 = common.run([common.impl_bin("covdrv")], input=inp, timeout=3600)
    rc2, o2, e2 = common.run([common.model_bin(), "cov"], input=inp, timeout=3600)
    return rc1, o1.split("\n"), rc2, o2.split("\n"), e1, e2


def compare(ctx, lines, stats, kind):
    rc1, l1, rc2, l2, e1, e2 = run_both(lines)
    stats["evaluations"] += len(lines)
    if rc2 != 0:
        ctx.violation("model driver failed on cov cases", {"stderr": e2[-400:]}, no_input=True)
        return
    if rc1 != 0 or len(l1) != len(l2):
        k = max(min(len(l1), len(l2)) - 2, 0)
        ctx.violation("coverage.cc driver terminated abnormally (rc=%s)" % rc1,
                      {"ops": lines[min(k, len(lines) - 1)], "stderr": e1[-400:]})
        return
    if l1 == l2:
        return
    rep = 0
    for line, a, b in zip(lines, l1, l2):
        if a == b:
            continue
        stats["disagreements"] += 1
        # minimise: shortest prefix of the token list that still disagrees
        toks = line.split()
        case = {"ops": line, "impl": a, "model": b, "kind": kind}
        if "Q" not in toks and ";" not in toks and "+" not in toks and "-" not in toks and "&" not in toks:
            st, outs = spec_run(toks)
            case["spec_final"] = show_set(st)
            case["spec_outputs"] = outs
        key = minimise(line)
        case["min_ops"] = key
        if ctx.violation("coverage.cc disagrees with the set semantics on `%s`: impl `%s`, model `%s`" % (key, a[-120:], b[-120:]), case):
            rep += 1
        if rep >= 5:
            break


def minimise(line):
    """Delta-debug the op list (units: a/r/c/o/i/q triples) keeping impl != model."""
    toks = line.split()
    if ";" in toks or "Q" in toks or "+" in toks or "-" in toks or "&" in toks:
        units = None
    else:
        units = [toks[i:i + 3] for i in range(0, len(toks), 3)]
    if units is None:
        return line

    def differs(us):
        l = " ".join(" ".join(u) for u in us)
        rc1, o1, _ = common.run([common.impl_bin("covdrv")], input=l + "\n", timeout=60)
        rc2, o2, _ = common.run([common.model_bin(), "cov"], input=l + "\n", timeout=60)
        return o1 != o2
    changed = True
    while changed and len(units) > 1:
        changed = False
        for k in range(len(units)):
            cand = units[:k] + units[k + 1:]
            if differs(cand):
                units = cand
                changed = True
                break
    return " ".join(" ".join(u) for u in units)


def gen_exhaustive(base, n, depth, final_q):
    rs = ranges(base, n)
    alphabet = [("a", s, l) for s, l in rs] + [("r", s, l) for s, l in rs]
    for d in range(1, depth + 1):
        for seq in itertools.product(alphabet, repeat=d):
            yield " ".join("%s %d %d" % t for t in seq) + (" Q %d %d" % (base, n) if final_q else "")


def sparse_points():
    return [0, 1, 2, (1 << 63) - 1, (1 << 63), (1 << 63) + 1, (1 << 64) - 5, (1 << 64) - 4, (1 << 64) - 3]


def gen_sparse(depth, pts=None):
    """Sequences over a universe of far-apart addresses (ranges may span from
    one window into another), each followed by queries for every range."""
    pts = pts or sparse_points()
    rs = [(a, b - a) for a in pts for b in pts if b >= a]
    alphabet = [("a", s, l) for s, l in rs if l > 0] + [("r", s, l) for s, l in rs if l > 0]
    qs = " ".join("q %d %d" % r for r in rs)
    for d in range(1, depth + 1):
        for seq in itertools.product(alphabet, repeat=d):
            yield " ".join("%s %d %d" % t for t in seq) + " " + qs


def gen_random(rng, base, n, length):
    toks = []
    for _ in range(length):
        op = rng.choice("aaarrrcoi")
        s = base + rng.randint(0, n)
        l = rng.randint(0, base + n - s)
        if rng.random() < 0.3 and l > 2:
            l = rng.randint(0, 2)
        toks.append("%s %d %d" % (op, s, l))
    return " ".join(toks)


def gen_binary(rng, base, n):
    def cov():
        return " ".join("a %d %d" % (base + s, l) for s, l in
                        [(rng.randint(0, n), 0) for _ in range(0)] +
                        [(lambda s: (s, rng.randint(0, n - s)))(rng.randint(0, n)) for _ in range(rng.randint(0, 4))])
    return "%s %s %s ; Q %d %d" % (cov(), rng.choice("+-&"), cov(), base, n)


# ------------------------------------------------------------------ word level

def aset_expr(rs):
    """Zwerg expression building the union of ranges [(lo, hi)]"""
    if not rs:
        return "(0 0 aset)"
    e = "(%d %d aset)" % rs[0]
    for r in rs[1:]:
        e = "(%s %d %d aset add)" % (e, r[0], r[1])
    return e


def word_level(ctx, stats, count):
    rng = ctx.sub_rng("words")
    cases = []
    bases = [0, (1 << 32) - 4, (1 << 63) - 4, (1 << 64) - 12]
    for k in range(count):
        n = 8
        far = (k % 3 == 0)          # every third case mixes far-apart addresses in one set
        b0 = rng.choice(bases)

        def pt():
            return (rng.choice(bases) if far else b0) + rng.randint(0, n)

        def rr():
            return [(pt(), pt()) for _ in range(rng.randint(0, 3))]
        A, B = rr(), rr()
        sa = norm([(min(lo, hi), max(lo, hi)) for lo, hi in A])
        sb = norm([(min(lo, hi), max(lo, hi)) for lo, hi in B])
        cases.append((A, B, sa, sb, aset_expr(A), aset_expr(B), pt()))
    # sets of many runs (both operands beyond any small-size path): runs at a stride, the other set's runs inside
    # them, across them, next to them, equal to them
    for k in range(max(4, count // 25)):
        b0 = rng.choice(bases[:3])
        na, nb = rng.randint(65, 110), rng.randint(65, 110)
        A = [(b0 + 16 * i, b0 + 16 * i + rng.randint(1, 12)) for i in range(na)]
        mode = k % 4
        B = []
        for i in range(nb):
            lo, hi = A[i % na]
            if mode == 0:
                a_ = rng.randint(lo, hi - 1)
                B.append((a_, rng.randint(a_ + 1, hi)))                        # inside a run of A
            elif mode == 1:
                B.append((lo + rng.randint(-3, 3), hi + rng.randint(-2, 6)))      # across its ends
            elif mode == 2:
                B.append((hi, hi + rng.randint(1, 3)))                           # adjacent
            else:
                B.append((lo, hi) if rng.random() < 0.8 else (lo, hi + 1))        # (nearly) the same set
        B = [(max(0, lo), max(0, hi)) for lo, hi in B]
        rng.shuffle(B)
        sa = norm([(min(lo, hi), max(lo, hi)) for lo, hi in A])
        sb = norm([(min(lo, hi), max(lo, hi)) for lo, hi in B])
        cases.append((A, B, sa, sb, aset_expr(A), aset_expr(B), A[na // 2][0]))
    # sets that differ in one run's length only, by amounts that a narrower integer would lose (2^31, 2^32, 2^33,
    # 2^32 + 2^31, 2^63), at the low end and near the top of the address space
    for k in range(max(6, count // 20)):
        b0 = rng.choice([0, 0x1000, 1 << 33])
        base_runs = [(b0 + (1 << 36) * i, b0 + (1 << 36) * i + rng.randint(1, 9)) for i in range(rng.randint(1, 3))]
        j = rng.randrange(len(base_runs))
        delta = rng.choice([1 << 31, 1 << 32, 1 << 33, (1 << 32) + (1 << 31), 3 << 32, (1 << 35)])
        other = list(base_runs)
        other[j] = (other[j][0], other[j][1] + delta)
        if k % 3 == 0:
            base_runs, other = [(0, 0xffffffff)], [(0, (1 << 64) - 1)]
        sa = norm(base_runs)
        sb = norm(other)
        cases.append((base_runs, other, sa, sb, aset_expr(base_runs), aset_expr(other), base_runs[0][0]))
    qs, expect = [], []

    def card(iv):
        return sum(b - a for a, b in iv)
    for (A, B, sa, sb, ea, eb, x) in cases:
        def add(q, e):
            qs.append(q)
            expect.append(e)
        sx = [(x, x + 1)]
        add("%s %s add" % (ea, eb), ("set", i_union(sa, sb)))
        add("%s %s sub" % (ea, eb), ("set", i_diff(sa, sb)))
        add("%s %s overlap" % (ea, eb), ("set", i_inter(sa, sb)))
        add("%s %d add" % (ea, x), ("set", i_union(sa, sx)))
        add("%s %d sub" % (ea, x), ("set", i_diff(sa, sx)))
        add("%s %d ?contains" % (ea, x), ("count", 1 if i_mem(sa, x) else 0))
        add("%s %s ?contains" % (ea, eb), ("count", 1 if not i_diff(sb, sa) else 0))
        add("%s %s ?overlaps" % (ea, eb), ("count", 1 if i_inter(sb, sa) else 0))
        add("%s %s !overlaps" % (ea, eb), ("count", 0 if i_inter(sb, sa) else 1))
        add("%s ?empty" % ea, ("count", 1 if not sa else 0))
        if card(sa) < (1 << 64):
            add("%s length" % ea, ("ints", [card(sa)]))
        add("%s low" % ea, ("ints", [sa[0][0]] if sa else []))
        add("%s high" % ea, ("ints", [sa[-1][1]] if sa else []))
        add("%s range" % ea, ("runs", sa))
        if card(sa) <= 64:
            els = [p for a, b in sa for p in range(a, b)]
            add("%s elem" % ea, ("ints_pos", els))
            add("%s relem" % ea, ("ints_pos", els[::-1]))
        # the words that only look leave both sets as they were, in their places
        for pw, holds in (("?overlaps", bool(i_inter(sb, sa))), ("!overlaps", not i_inter(sb, sa)), ("?contains", not i_diff(sb, sa)), ("!contains", bool(i_diff(sb, sa))),
                          ("?eq", sa == sb), ("!eq", sa != sb), ("?lt", None)):
            if holds is None:
                continue
            add("%s %s %s sub" % (ea, eb, pw), ("set", i_diff(sa, sb)) if holds else ("count", 0))
            add("%s %s %s drop" % (ea, eb, pw), ("set", sa) if holds else ("count", 0))
        add("%s %s ?eq" % (ea, eb), ("count", 1 if sa == sb else 0))
        add("%s %s ?lt %s %s ?gt" % (ea, eb, ea, eb), ("count", 0))
        add("[%s %s (?lt 1, ?eq 2, ?gt 3)] length" % (ea, eb), ("ints", [1]))
        add("%s %s !ne" % (ea, eb), ("count", 1 if sa == sb else 0))
        add("[%s] ==  [%s]" % (ea, eb), ("count", 1 if sa == sb else 0))
    ress = zw.run_cases([zw.enc(q) for q in qs])

    def runs_of(iv):
        return [(a, b - a) for a, b in iv]
    for q, (kind, want), r in zip(qs, expect, ress):
        stats["evaluations"] += 1
        stats["word_cases"] += 1
        got_bad = None
        if not r.ok() or r.hard:
            got_bad = "crash/reject: " + json.dumps(r.d)[:200]
        else:
            try:
                if kind == "count":
                    if len(r.results) != want:
                        got_bad = "%d results" % len(r.results)
                elif kind == "set":
                    v = r.results[0][0]
                    got = [(int(a), int(b)) for a, b in v["v"]]
                    if len(r.results) != 1 or got != runs_of(want):
                        got_bad = str(got)
                    # rendering lists disjoint, non-adjacent, ascending non-empty runs
                    shown = v["show"]
                    exp_show = ", ".join("[%s, %s)" % (hexs(a), hexs(a + l)) for a, l in runs_of(want)) or "[)"
                    if shown != exp_show:
                        got_bad = "rendered %r, expected %r" % (shown, exp_show)
                elif kind == "ints":
                    got = [int(x[0]["v"]) for x in r.results]
                    if got != want:
                        got_bad = str(got)
                elif kind == "ints_pos":
                    got = [int(x[0]["v"]) for x in r.results]
                    pos = [x[0]["pos"] for x in r.results]
                    if got != want or pos != list(range(len(want))):
                        got_bad = "%s pos %s" % (got[:12], pos[:12])
                elif kind == "runs":
                    got = [[(int(a), int(b)) for a, b in x[0]["v"]] for x in r.results]
                    pos = [x[0]["pos"] for x in r.results]
                    if got != [[t] for t in runs_of(want)] or pos != list(range(len(got))):
                        got_bad = str(got)
            except Exception as e:  # malformed answer
                got_bad = "unexpected answer %s (%s)" % (json.dumps(r.d)[:200], e)
        if got_bad:
            ctx.violation("query `%s`: got %s, set semantics says %s %s" % (q, got_bad, kind, str(want)[:100]),
                          {"query": q, "got": got_bad, "want": str(want)[:300]})


def hexs(x):
    return "0" if x == 0 else hex(x)


def run(ctx):
    oblig = common.prepare(ctx)
    if oblig is None:
        return ctx.finish(None)
    stats = {"evaluations": 0, "disagreements": 0, "word_cases": 0}
    quick = ctx.tier == "quick"
    bases = [0, (1 << 32) - 3, (1 << 63) - 3, (1 << 64) - 2 - 5]
    n, depth = (5, 2) if quick else (5, 3)
    samples = []
    distinct = 0
    # corpus of minimised failures first
    corpus = [l.strip() for l in open(common.VERIF + "/corpus/C16.txt")] if os.path.exists(common.VERIF + "/corpus/C16.txt") else []
    if corpus:
        compare(ctx, corpus, stats, "corpus")
    for bi, base in enumerate(bases):
        lines = list(gen_exhaustive(base, n, depth, True))
        distinct += sum(1 for l in lines if l.count(" a ") + l.startswith("a") >= 2 or " r " in l)
        if bi == 0:
            samples.append(lines[len(lines) // 2])
        ctx.log("base %d: %d sequences (depth <= %d, universe %d) each followed by all queries" % (base, len(lines), depth, n))
        compare(ctx, lines, stats, "exhaustive")
    # deeper, no queries at base 0 (pure add/remove), quick: depth 3 over universe 4
    lines = list(gen_exhaustive(0, 4 if quick else 5, 3 if quick else 4, False)) if quick else list(gen_exhaustive(0, 4, 4, False))
    ctx.log("deep: %d add/remove sequences" % len(lines))
    compare(ctx, lines, stats, "deep")
    distinct += len(lines)
    lines = list(gen_sparse(2))
    if not quick:
        pts = [3, 4, (1 << 32), (1 << 63) - 2, (1 << 63) + 2, (1 << 64) - 3]
        lines += list(gen_sparse(3, pts))
    ctx.log("sparse: %d sequences over far-apart addresses, each followed by %d queries" % (len(lines), 45))
    compare(ctx, lines, stats, "sparse")
    distinct += len(lines)
    samples.append(lines[len(lines) // 3][:160])
    rng = ctx.sub_rng("random")
    rnd = []
    for _ in range(400 if quick else 4000):
        base = rng.choice(bases[:3] + [(1 << 64) - 2 - 12])
        rnd.append(gen_random(rng, base, 12, rng.choice([20, 60, 200])))
    for _ in range(2000 if quick else 20000):
        base = rng.choice(bases[:3] + [(1 << 64) - 2 - 8])
        rnd.append(gen_binary(rng, base, 8))
    samples.append(rnd[0][:200])
    samples.append(rnd[-1])
    compare(ctx, rnd, stats, "random")
    word_level(ctx, stats, 150 if quick else 1500)
    # however they were built: the address set of a DW_AT_ranges list (entries unsorted, nested, adjacent, empty)
    # equals the same set built with aset and add, and has its length, bounds and runs
    import importlib
    c07 = importlib.import_module("checks.C07")
    from vlib import dwforest
    d = dwforest.workdir(ctx)
    rrng = ctx.sub_rng("ranges")
    for version, low_pc in ((4, 0x1000), (5, 0x400000), (3, 0)):
        lists = [l for l in c07.range_lists(rrng, 40 if quick else 250) if not any(it[0] == "pair" and it[1] == 0 and it[2] == 0 for it in l)]
        path = os.path.join(d, "c16-ranges-v%d.o" % version)
        rt = c07.ranges_object(lists, version, low_pc, path)
        qs = []
        for die, res in rt:
            want = norm([(a, b) for a, b in res if a < b])
            e = aset_expr([(a, b) for a, b in res])
            qs.append(zw.enc("entry ?(offset == %d) (|E| [[?(E @AT_ranges == %s) 1], [?(%s == E address) 1], [E @AT_ranges length], [E address low], [E address high], [E @AT_ranges range length], [?(E @AT_ranges %s ?contains) ?(%s E @AT_ranges ?contains) 1]])"
                             % (die.off, e, e, e, e), dw=path, t=30))
        for (die, res), l, r in zip(rt, lists, zw.run_cases(qs)):
            stats["evaluations"] += 1
            want = norm([(a, b) for a, b in res if a < b])
            exp = [[1], [1], [sum(b - a for a, b in want)], [want[0][0]] if want else [], [want[-1][1]] if want else [], [b - a for a, b in want], [1]]
            got = [[int(x["v"]) for x in q["v"]] for q in r.results[0][0]["v"]] if r.ok() and r.results else (r.crash or r.hard or "nothing")
            if got != exp:
                stats["disagreements"] += 1
                if stats["disagreements"] <= 4:
                    ctx.violation("the address set of a DW_AT_ranges list with the ranges %s (DWARF %d): equal to the set built with aset/add, equal the other way round, length, low, high, lengths of the runs, contains both ways are %s; the set of those addresses gives %s"
                                  % ([(hex(a), hex(b)) for a, b in res], version, got, exp), {"file": path, "die": die.off, "entries": [list(x) for x in l], "kind": "ranges"})

    common.report_broken_obligations(ctx, oblig, bool(ctx.violations))
    ctx.cov.update({
        "evaluations": stats["evaluations"],
        "distinct_nontrivial": distinct,
        "rule": "operation sequences (add/remove of every range over a %d-address universe, every sequence up to depth %d, at base offsets 0, 2^32-3, 2^63-3 and 2^64-7, each followed by is_covered/is_overlap/intersect for every range of the universe; plus deeper add/remove-only sequences, random long sequences and add_all/remove_all/overlap of two random sets; at word level also pairs of sets of 65-110 runs each, one inside / across / next to / equal to the runs of the other; address sets read from DW_AT_ranges (unsorted, nested, adjacent entries) against the same set built with aset and add); non-trivial = contains at least two adds or a remove; each sequence is one run of coverage.cc and one of the extracted model, compared on every output and on the final vector" % (n, depth),
        "exhaustive": True,
        "samples": samples,
        "traces_validated_against_impl": stats["evaluations"],
        "word_level_queries": stats["word_cases"],
        "disagreements": stats["disagreements"],
    })
    return ctx.finish(oblig)


def replay(ctx, path):
    case = json.load(open(path))["case"]
    common.build_impl("plain")
    common.build_coq()
    common.build_model()
    if "query" in case:
        r = zw.run_cases([zw.enc(case["query"])])[0]
        print("implementation:", json.dumps(r.d)[:600], "| expected:", case.get("want"))
        return 0
    line = case.get("min_ops") or case["ops"]
    _, o1, _ = common.run([common.impl_bin("covdrv")], input=line + "\n")
    _, o2, _ = common.run([common.model_bin(), "cov"], input=line + "\n")
    print("ops  : " + line)
    print("impl : " + o1.strip())
    print("model: " + o2.strip())
    toks = line.split()
    if "Q" not in toks and ";" not in toks:
        st, outs = spec_run(toks)
        print("sets : " + " ".join(outs) + " = " + show_set(st))
    return 0 if o1 == o2 else 1


import os  # noqa: E402
