"""C02 — the raw view reports exactly the DIE tree stored in .debug_info.

Proof: coq/props/Properties_C02.v (dw/Forest.v: the stored forest and the rows
the raw view must report; pre-order lists every DIE of a well-formed forest
exactly once, parent/child are inverse, attributes are the stored ones).
Correspondence: forests known by construction (named edge shapes + random
ones, DWARF 2-5 headers) are written as objects by vlib/dwgen.py; what
`raw unit`, `raw entry`, `child`, `parent`, `attribute (label, form)`,
`?haschildren`, `root`, `unit`, `pos` report through the library driver is
compared, row for row, with the extracted model's rows for the same forest.
The repository's sample binaries are compared with binutils readelf (an
independent dumper): offsets, order, tags, parents, attribute names.
"""
import json
import os
import subprocess

from vlib import common, zw, dwforest, dwcheck


def run(ctx):
    oblig = common.prepare(ctx)
    if oblig is None:
        return ctx.finish(None)
    quick = ctx.tier == "quick"
    stats = {"evaluations": 0, "dies": 0}
    nviol = [0]

    def bad(what, case):
        nviol[0] += 1
        if nviol[0] <= 6:
            ctx.violation(what, case)

    inputs = dwcheck.build_inputs(ctx, 60 if quick else 500, imports=True, links=True)
    dwcheck.compare_views(ctx, inputs, ("raw",), dwcheck.ALL_FIELDS, bad, stats)
    dwcheck.compare_archives(ctx, inputs, ("raw",), dwcheck.ALL_FIELDS, bad, stats)
    # samples vs readelf
    nsamples = 0
    for p in dwforest.sample_files():
        rr, runits = dwcheck.readelf_rows(p)
        rows, units, err = dwforest.impl_rows(p, False)
        if err or rows is None:
            continue                   # not a DWARF-bearing file for the library either
        if not rr and not rows:
            continue
        nsamples += 1
        stats["evaluations"] += 1
        stats["dies"] += len(rows)
        case = {"input": os.path.basename(p), "file": p, "view": "raw"}
        sect = subprocess.run(["readelf", "-SW", p], stdout=subprocess.PIPE, stderr=subprocess.PIPE)
        linked = b"gnu_debugaltlink" in sect.stdout or b"zdebug" in sect.stdout or b" C " in sect.stdout
        if linked and len(rows) != len(rr):
            nsamples -= 1
            continue                   # readelf did not follow the link to the alternate file / cannot decompress
        if [r["off"] for r in rows] != [r["off"] for r in rr]:
            bad("raw entry of %s lists %d DIEs, readelf %d; first difference at %s" % (os.path.basename(p), len(rows), len(rr),
                next((hex(a["off"]) for a, b in zip(rows, rr) if a["off"] != b["off"]), "the end")), case)
            continue
        if units is not None and units != runits:
            bad("raw unit of %s lists %s, readelf %s" % (os.path.basename(p), units, runits), case)
        stack = []
        for a, b in zip(rows, rr):
            while len(stack) > b["depth"]:
                stack.pop()
            parent = stack[-1] if stack else None
            stack.append(b["off"])
            tn = dwcheck.name_to_num(b["tagname"])
            an = [dwcheck.name_to_num(x) for x in b["attrnames"]]
            if a["parent"] != parent:
                bad("%s: DIE %#x has parent %s, readelf nests it under %s" % (os.path.basename(p), a["off"], a["parent"], parent), case)
                break
            if tn is not None and a["tag"] != tn:
                bad("%s: DIE %#x has tag %d, readelf says %s" % (os.path.basename(p), a["off"], a["tag"], b["tagname"]), case)
                break
            if None not in an and [x[0] for x in a["attrs"]] != an:
                bad("%s: DIE %#x has attributes %s, readelf lists %s" % (os.path.basename(p), a["off"], [x[0] for x in a["attrs"]], b["attrnames"]), case)
                break
    # the raw view stays raw: what `parent`, `child`, `root`, `unit` hand back for a raw value is
    # again the stored tree (no integrated attributes, no inlined imports), and a unit seen through
    # `raw` / `cooked` conversions is the same unit at the same offset
    LAWS = [
        ("raw:parent-is-raw", "raw entry parent (|P| ?([P attribute label] != [P raw attribute label]), ?([P child offset] != [P raw child offset]))"),
        ("raw:child-is-raw", "raw entry child (|C| ?([C attribute label] != [C raw attribute label]), ?([C child offset] != [C raw child offset]))"),
        ("raw:root-is-raw", "raw entry root (|R| ?([R child offset] != [R raw child offset]))"),
        ("raw:unit-root-is-raw", "raw unit root (|R| ?([R child offset] != [R raw child offset]), ?([R attribute label] != [R raw attribute label]))"),
        ("raw:attribute-keeps-die", "raw entry (|D| D attribute (|A| ?([A label] != [A raw label])))"),
        ("unit:raw-conversion-keeps-offset", "unit (|U| ?((U raw offset) != (U offset)))"),
        ("unit:cooked-conversion-keeps-offset", "raw unit (|U| ?((U cooked offset) != (U offset)))"),
        ("unit:raw-conversion-keeps-root", "unit (|U| ?((U raw root offset) != (U root offset)))"),
        ("unit:of-entry-raw-conversion", "entry (|D| ?((D unit raw offset) != (D raw unit offset)))"),
        ("unit:raw-unit-entry-in-unit", "raw unit (|U| U entry ?(unit offset != U offset))"),
    ]
    nlaw = 0
    lawfiles = [(n, p) for n, _, p in inputs] + [(os.path.basename(p), p) for p in dwforest.sample_files()]
    for name, p in lawfiles:
        probe = zw.run_cases([zw.enc("[raw unit offset]", dw=p)])[0]
        if not probe.ok():
            continue
        counts = dwforest.law_counts(p, LAWS)
        for ln, q in LAWS:
            stats["evaluations"] += 1
            nlaw += 1
            if counts[ln] != 0:
                bad("on %s the law %s is broken: `%s` yields %s (must yield nothing)" % (name, ln, q, counts[ln]), {"input": name, "file": p, "law": ln, "query": q})
    common.report_broken_obligations(ctx, oblig, bool(ctx.violations))
    ctx.cov.update({
        "evaluations": stats["evaluations"], "distinct_nontrivial": stats["dies"],
        "law_evaluations": nlaw,
        "rule": "%d generated inputs (9 named shapes: empty units between/after units in DWARF 2-5, childless DIEs whose abbreviation claims children, 60-deep nesting, 40 units, repeated attribute names, nested/diamond/repeated imports, specification chains; random forests with 1-7 units, arity <= 4, depth <= 4, forms string/strp/data1/2/udata/sdata/flag/flag_present/ref1/ref4/ref_udata/ref_addr), every DIE compared on position, offset, tag, child flag, parent, children, attribute (name, form) list, root and unit with the model's rows; %d sample binaries compared with readelf on order, offsets, parents, tags and attribute names; zero-count laws on all of them: what parent/child/root/unit hand back for a raw value is raw again, raw/cooked conversions of a unit keep its offset and root" % (len(inputs), nsamples),
        "samples": [inputs[0][0], inputs[-1][0]],
        "traces_validated_against_impl": stats["dies"],
        "violations_found": nviol[0],
    })
    return ctx.finish(oblig)


def replay(ctx, path):
    case = json.load(open(path))["case"]
    print(json.dumps(case, indent=1)[:1500])
    print("re-run the check to regenerate the input (seeded):  ./check C02 --tier", json.load(open(path)).get("tier"))
    return 0
