"""C03 — names resolve lexically.

Proof: coq/props/Properties_C03.v (Scope.v = the documented scoping rules,
Den.v = what a read yields, Build.v = bindings.cc / build.cc).
Correspondence, on binder-heavy programs (all five binder forms, shadowing,
multi-yield let bodies, blocks with up-values at several depths, applied many
times) and deliberately ill-scoped ones:
  * accept/reject (and the kind of error) of the implementation's compiler vs
    the documented rules (Scope.well_scoped) and vs the model of build.cc;
  * results vs the engine model and vs the denotational specification.
"""
import json
import os

from vlib import common, zw, engine, zgen
from vlib.enginecheck import compare

FILL = ["1", "2", '"a"', "[1, 2]", "7 1 add", "(1, 2)", "dup", "drop 3"]


def templates(rng):
    """(program, comment) pairs around names; X/Y/Z are replaced by fillers"""
    T = [
        # well scoped
        "let A := E; A", "let A := (1, 2); A A add", "let A B := 1 2, 3 4; A B", "E (|A| A A)", "1 2 (|A B| B A)",
        "E [|A| A, A]", "1 ?(|A| A 1 ?eq) 5", "1 !(|A| A 2 ?eq) 5",
        "let A := 1; 2 [|A| A]", "let A := 1; ?(let A := 2; A 2 ?eq) A", "let A := 1; (2 (|A| A), A)",
        "let A := 1; (let B := A 1 add; B) A", "(let A := 1;) A", "let A := E; (A, A A) ", "let A := 1; [A, (|B| B A)]",
        "let A := 1; {A 1 add} (|F| F F)", "let A := 1; let B := 2; {A {B A add}} (|F| F (|G| G))",
        "(1, 2, 3) (|X| {X 10 add}) (|F| 5 F)", "{|X| X X add} (|F| (1, 2) F)", "let F := {|X| X 1 add}; 1 F F F",
        "let A := 1; {|X| {|Y| X Y A add add}} (|F| 10 F (|G| 100 G))",
        "let A := 1; let F := {A}; let A2 := 2; F", "(1, 2) (|V| let F := {V}; (3, 4) (|V2| F V2 add))",
        "let A := 1; (A || 2)", "let A := (1, 2); \"%( A %)-%( A %)\"", "let A := 1; (A)*", "1 (|A| (A 1 add ?(4 ?lt))* )",
        "let A := 1, 2; let B := A 10 add, A 20 add; A B", "let add := 5; add", "let A := 1; if (A 1 ?eq) then (A 1 add) else (A)",
        "E (|A| E (|B| E (|C| A B C)))", "{{{7}}} (|F| F (|G| G (|H| H)))", "let F := {1, 2}; [F]", "?{1} (|F| F)",
        "let X := 3; {X} (|F| let X2 := 4; F X2)", "let A := 1; {A} {A} (|F G| F G add)",
        # a builtin word's name bound after the word was used / after a block was compiled in the scope; names
        # spelt like the ones the documentation uses for the hidden operands of infix operators
        '[3, 4] let F := {1}; let length := 10; length', '[3, 4] length let length := 10; length', 'let F := {length}; [1, 2] let length := 7; length F',
        '[3, 4] (length, 1) let length := 10; length', '[5] elem pos let pos := 5; pos', '"a" let G := {dup}; let dup := "n"; dup G',
        '[1] (let length := 3; length) length', 'let add := 5; 1 2 add', '1 2 add let add := 5; add', '{add} (|F| let add := 5; 1 add 2 F)',
        'let .tmp1 := 1; ?(2 != .tmp1) .tmp1', 'let .tmp1 := 1; let .tmp2 := 2; (.tmp2 == 2) (.tmp1 == 1) .tmp1 .tmp2', 'let .tmp1 := 1; {(2 == .tmp1)} apply',
        'let .tmp1 := E; (E == .tmp1)', 'let .tmp2 := 1; (.tmp2 == (.tmp2 1 add))', '(|.tmp1| (1 < .tmp1) .tmp1)', 'let _a := 1; let .a := 2; (_a < .a) _a .a',
        # names across the splices of one format string (plain context, resolved last to first)
        '5 "%( A %)%( let A := 1; A %)"', 'let A := 5; "%( A %)%( let B := A; B %)"', '5 "%( A B add %)-%( let A := 1; A %)-%( let B := 2; B %)"',
        '5 "%( let A := 1; A %)" A', '5 "%( let A := 1; %)%( A %)"', '5 "%( let A := 1; A %)%( let A := 2; A %)"',
        '5 "%( let A := 1; A %)-%( let B := 2; B %)-%( A B add %)"', '(1, 2) "%( A %)%( let A := E; A %)"', '5 "%( [|A| A] %)%( A %)"', '5 "%( A %)%( (|A| A) %)"',
        # binders with an empty body: still a scope of their own
        "1 (|A|)", "1 2 (|A B|)", "let A := 1; 2 (|A|) A", "1 2 (|A|) (|A|)", "1 ?(|A|) 5", "1 !(|A|) 5", "1 [|A|]", "1 {|A|} apply",
        "let A := 1; 2 ?(|A|) A", "1 (|A| (|A|))",
        # ill scoped
        "A", "A let A := 1;", "[let A := 1;] A", "(1, let A := 1;) A", "(let A := 1; || 2) A", "?(let A := 1;) A", "!(let A := 1;) A",
        "(let A := 1;)? A", "if (1) then (let A := 1;) else (2) A", "1 (let A := 2; == 3) A", "(let A := 1;)* A", "let A := 1; let A := 2;",
        "(|A A| A)", "1 (|A| let A := 2;)", "let A := 1; (let A := 2;)", "{A}", "{|X| Y}", "let A := {B}; let B := 1;", "(|A| B)",
        "1 (|A|) A", "1 ?(|A|) A", "1 [|A|] drop A", "1 2 (|A B|) B", "1 {|A|} apply A",
        "let A := 1; {let A := 2; let A := 3;}", "E (|A| E) A", "[|A| A] A", "{let A := 1;} A", "let F := {|X| X}; X",
    ]
    out = []
    for t in T:
        q = t
        while "E" in q.replace("ELSE", ""):
            i = q.find("E")
            q = q[:i] + rng.choice(FILL) + q[i + 1:]
        out.append(q)
    return out


def nested_scopes(depth, rng=None, n=None):
    """ways of binding / rebinding / reading two names across `depth` nested applied blocks:
    per level a binding (none; let A / let B; parameter A / B of the block; a sub-scope `v (|A| ...)`
    / `(|B| ...)` opened inside the block), a read (none, A, B, both) placed after a let or parameter
    and BEFORE a sub-scope binder (so that a name can be captured and then shadowed), and at the
    innermost level a read of A, B or both; each binding has its own value, so what a read yields
    identifies the binding it resolved to.  All of them, or `n` drawn with `rng`."""
    import itertools as it
    binds = ["", "la", "lb", "pa", "pb", "sa", "sb"]
    reads = ["", "A", "B", "A B"]
    last = ["A", "B", "A B"]

    def make(bs, rs, fin):
        def level(l):
            v = 10 * l + (1 if bs[l].endswith("a") else 2)
            name = "A" if bs[l].endswith("a") else "B"
            rest = level(l + 1) if l < depth else fin
            if bs[l] == "both":
                body = ((rs[l] + " ") if l < depth else "") + rest
            elif bs[l].startswith("s"):
                body = "%s %d (|%s| %s)" % (rs[l] if l < depth else "", v, name, rest)
            else:
                body = ((rs[l] + " ") if l < depth else "") + rest
                if bs[l].startswith("l"):
                    body = "let %s := %d; %s" % (name, v, body)
            if l == 0:
                return ("let A := 1; let B := 2; " + body) if bs[0] == "both" else body
            if bs[l].startswith("p"):
                return "%d {|%s| %s} apply" % (v, name, body)
            return "{%s} apply" % body
        return " ".join(level(0).split())          # every read stays on the stack

    space = [[b for b in binds if not b.startswith("p")] + ["both", "both"]] + [binds] * depth      # "both": A and B bound outside every block
    if n is None:
        return [make(bs, rs, fin) for bs in it.product(*space) for rs in it.product(*([reads] * depth)) for fin in last]
    out = []
    for _ in range(n):
        out.append(make([rng.choice(sp) for sp in space], [rng.choice(reads) for _ in range(depth)], rng.choice(last)))
    return list(dict.fromkeys(out))


def run(ctx):
    oblig = common.prepare(ctx)
    if oblig is None:
        return ctx.finish(None)
    engine.observe_params()
    quick = ctx.tier == "quick"
    stats = {"evaluations": 0, "disagreements": 0, "results_hist": {}, "nontrivial": set()}
    rng = ctx.sub_rng("templates")
    progs = []
    for _ in range(3 if quick else 20):
        progs += templates(rng)
    # prefixes make `let` bodies and blocks run for several inputs
    progs += ["(10, 20) " + p for p in templates(rng)]
    # two names bound, rebound and read across nested applied blocks
    nrng = ctx.sub_rng("nested")
    progs += nested_scopes(1) + (nested_scopes(2, nrng, 900) if quick else nested_scopes(2) + nested_scopes(3, nrng, 8000))
    g = zgen.G(ctx.sub_rng("gen"), max_depth=3, illtyped=0.02)
    for _ in range(1200 if quick else 20000):
        progs.append(g.program())
    # random programs with names made ill-scoped by dropping a binder or duplicating one
    mut = ctx.sub_rng("mut")
    for _ in range(400 if quick else 6000):
        q = g.program()
        toks = q.split(" ")
        idx = [i for i, t in enumerate(toks) if t == "let" or t.startswith("(|") or t.startswith("[|")]
        if idx:
            i = mut.choice(idx)
            if mut.random() < 0.5:
                toks[i:i + 1] = []          # breaks the syntax or the scoping
            else:
                toks.insert(i, toks[i])
        progs.append(" ".join(toks))
    # the operands of an infix comparison are sub-expression contexts, each a scope of its own: `A op B`
    # against `?(let X1 := A; let X2 := B; X1 X2 ?w)` (bodies of `let` are scopes); both forms go through
    # the comparisons below, and the two must agree with each other
    OPERANDS = ["(let T := 7; T)", "(let T := 7; T 1 add)", "(T 2 add)", "(let U := T; U)", "((|T| T) 1 add)", "(let T := 9; let U := 1; T U add)", "T",
                "(let V := 1; V)", "(V)", "(let T := (1, 7); T)", "{let T := 8; T} apply"]
    ipairs = []
    for A in OPERANDS:
        for B in OPERANDS:
            for op, w in (("==", "?eq"), ("<", "?lt"), (">=", "?ge")) if quick else (("==", "?eq"), ("!=", "?ne"), ("<", "?lt"), (">", "?gt"), ("<=", "?le"), (">=", "?ge")):
                for pre, post in (("let T := 5; (5, 7) ", ""), ("let T := 7; {", "} apply T"), ("let T := 5; [", ", T]")):
                    ipairs.append(("%s(%s %s %s)%s" % (pre, A, op, B, post), "%s?(let X1 := %s; let X2 := %s; X1 X2 %s)%s" % (pre, A, B, w, post)))
    # ... and the user's own names may be spelt like anything, also like the names the documentation gives the
    # hidden operands
    DOTTED = [".tmp1", ".tmp2", "(.tmp1 2 add)", "{.tmp1} apply", "(.tmp2 .tmp1 sub)", "5", "(let .tmp3 := .tmp2; .tmp3)", "{.tmp2 {.tmp1} apply add} apply"]
    for A in DOTTED:
        for B in DOTTED:
            for op, w in (("==", "?eq"), ("<", "?lt"), ("!=", "?ne")):
                ipairs.append(("let .tmp1 := 5; let .tmp2 := 7; (5, 7) (%s %s %s)" % (A, op, B),
                               "let .tmp1 := 5; let .tmp2 := 7; (5, 7) ?(let X1 := %s; let X2 := %s; X1 X2 %s)" % (A, B, w)))
    progs += [x for pr in ipairs for x in pr]
    progs = list(dict.fromkeys(progs))

    # 1. accept / reject
    trees = zw.run_cases([zw.enc(q, m="tree") for q in progs])
    idx = [i for i, t in enumerate(trees) if t.d.get("sx")]
    scope = engine.run_model([trees[i].d["sx"] for i in idx], mode="scope")
    build = engine.run_model([trees[i].d["sx"] for i in idx], mode="run", fuel=5, limit=1)
    verdicts = {"OK": 0, "unbound": 0, "rebound": 0, "syntax": len(progs) - len(idx)}
    for i, sc, bm in zip(idx, scope, build):
        t = trees[i]
        stats["evaluations"] += 1
        if t.d.get("built"):
            impl = "OK"
        else:
            msg = t.d.get("build_error") or ""
            impl = "unbound" if "unbound name" in msg else "rebound" if "rebound" in msg else "other:" + msg[:60]
        verdicts[impl] = verdicts.get(impl, 0) + 1
        if impl != sc[0] and len(ctx.violations) < 6:
            ctx.violation("`%s`: the compiler says %s, the documented scoping rules say %s" % (progs[i], impl, sc[0]),
                          {"query": progs[i], "impl": impl, "doc": sc[0], "kind": "scope"})
        model = "OK" if not bm[0].startswith("REJECT") else bm[0].split(":")[1]
        if impl != model and len(ctx.violations) < 6:
            ctx.violation("`%s`: the compiler says %s, the model of build.cc says %s" % (progs[i], impl, model),
                          {"query": progs[i], "impl": impl, "model": model, "kind": "build"})

    # 2. results
    good = [progs[i] for i in idx if trees[i].d.get("built")]
    for k in range(0, len(good), 3000):
        compare(ctx, good[k:k + 3000], stats, "names")

    # 3. infix forms against their word forms
    ires = zw.run_cases([zw.enc(x) for pr in ipairs for x in pr])
    ibad = 0
    for k, (qa, qb) in enumerate(ipairs):
        ca, cb = engine.canon_impl(ires[2 * k]), engine.canon_impl(ires[2 * k + 1])
        stats["evaluations"] += 2
        if ca != cb:
            ibad += 1
            if ibad <= 3:
                ctx.violation("a binding crosses the boundary of an infix operand: `%s` gives %s, `%s` gives %s" % (qa, str(ca)[:100], qb, str(cb)[:100]),
                              {"query": qa, "rewritten": qb, "kind": "infix-operand"})

    common.report_broken_obligations(ctx, oblig, bool(ctx.violations))
    ctx.cov.update({
        "evaluations": stats["evaluations"],
        "distinct_nontrivial": len([q for q in good if ("let " in q or "(|" in q or "[|" in q or "{" in q)]),
        "rule": "programs built around names: ~60 templates (every binder form, shadowing, multi-yield let, blocks capturing 0-3 up-values at depths 1-3, applied 0/1/many times, read through names; 24 ill-scoped shapes incl. leaks out of every kind of context) with random fillers, each also behind a two-stack producer, + two names bound / rebound (let, parameter, or a sub-scope opened after the name was read) and read at every level of 1-3 nested applied blocks (each binding with its own value), + random nested programs with names and blocks, + random programs damaged by dropping/duplicating a binder, + infix comparisons whose operands bind, shadow and read names (in plain, block and capture contexts) against their word forms; non-trivial = compiles and contains a binder; accept/reject compared with the documented rules and with the model of build.cc, results with the engine model and the specification",
        "samples": progs[:3] + progs[130:132],
        "compiler_verdicts": verdicts,
        "traces_validated_against_impl": stats["evaluations"],
        "spec_comparison": {k[5:]: v for k, v in stats.items() if k.startswith("spec:")},
        "disagreements": stats["disagreements"],
    })
    return ctx.finish(oblig)


def replay(ctx, path):
    case = json.load(open(path))["case"]
    common.build_impl("plain")
    common.build_coq()
    common.build_model()
    engine.observe_params()
    q = case["query"]
    t = zw.run_cases([zw.enc(q, m="tree")])[0]
    print("query   :", q)
    print("compiler:", "accepts" if t.d.get("built") else (t.d.get("build_error") or t.d.get("compile_error")))
    if t.d.get("sx"):
        print("doc     :", engine.run_model([t.d["sx"]], mode="scope")[0][0])
        (_, ci, cm, sx), = engine.run_both([q])
        print("impl    :", ci[0], " ".join(ci[1])[:300])
        print("model   :", cm[0], " ".join(cm[1])[:300])
    return 0
