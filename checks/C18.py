"""C18 — ELF symbols are reported completely and faithfully.

Proof: coq/props/Properties_C18.v (dw/Symtab.v): st_info / st_other field
extraction and its round trip, every entry once in table order numbered from
zero, the family rule of type/binding constants (generic codes equal on every
machine, machine-specific codes never equal another machine's).
Correspondence: freshly assembled objects with generated symbol tables (every
type/binding/visibility combination the assembler offers, absolute, undefined,
common, section and file symbols, empty and long names, zero sizes), patched to
carry every type/binding code 0-15 and st_other upper bits, and re-labelled
with the machine codes of every family (x86-64, ARM, SPARC, PA-RISC, MIPS,
PPC64, AArch64): `symbol (pos, name, value, address, size, label, binding,
visibility)` through the driver against an independent struct-level ELF reader
(and readelf -sW), and the equality of every label/binding with every
STT_/STB_ word of the vocabulary against the model's family rule.  The sample
binaries (x86-64, ARM, MIPS, PPC64) likewise.
"""
import json
import os
import re
import subprocess

from vlib import common, zw, dwforest, elfsym

MACHINES = {"X86_64": 62, "ARM": 40, "SPARC": 2, "PARISC": 15, "MIPS": 8, "PPC64": 21, "AARCH64": 183, "SPARCV9": 43}


def gen_asm(rng, n):
    lines = ["\t.text", "\t.file \"gen.c\""]
    names = []
    types = ["function", "object", "tls_object", "notype", "gnu_indirect_function", "gnu_unique_object", "common"]
    for i in range(n):
        nm = rng.choice(["s%d" % i, "a_rather_long_symbol_name_%s_%d" % ("x" * rng.randint(10, 200), i), "_Z%dv" % i, "s.%d$x" % i])
        t = rng.choice(types)
        b = rng.choice([".globl", ".weak", ".local"])
        v = rng.choice([None, ".hidden", ".protected", ".internal"])
        if t == "gnu_unique_object":
            b = None
        if t == "common":
            lines.append("\t.comm %s,%d,%d" % (nm, rng.choice([1, 4, 64]), rng.choice([1, 4, 8])))
            names.append(nm)
            continue
        if b:
            lines.append("\t%s %s" % (b, nm))
        if v:
            lines.append("\t%s %s" % (v, nm))
        lines.append("\t.type %s, @%s" % (nm, t))
        if t == "tls_object":
            lines += ["\t.section .tdata,\"awT\",@progbits", "%s:" % nm, "\t.long %d" % i, "\t.size %s, %d" % (nm, rng.choice([0, 4])), "\t.text"]
        elif t in ("object", "gnu_unique_object"):
            lines += ["\t.data", "%s:" % nm, "\t.zero %d" % rng.choice([1, 8, 100]), "\t.size %s, %d" % (nm, rng.choice([0, 1, 8, 100])), "\t.text"]
        else:
            lines += ["%s:" % nm, "\tnop"] + (["\t.size %s, .-%s" % (nm, nm)] if rng.random() < 0.7 else [])
        names.append(nm)
    for i in range(3):
        lines.append("\t.set abs%d, %d" % (i, rng.choice([0, 1, 0x7fffffff, 0xdeadbeef])))
        lines.append("\t.globl abs%d" % i)
    lines.append("\tcall undefined_function")
    lines.append("\t.weak weak_undefined")
    lines.append("\t.quad weak_undefined")
    return "\n".join(lines) + "\n"


def readelf_syms(path):
    p = subprocess.run(["readelf", "-sW", path], stdout=subprocess.PIPE, stderr=subprocess.DEVNULL)
    out = []
    on = False
    for line in p.stdout.decode("latin1").split("\n"):
        if line.startswith("Symbol table"):
            on = "'.symtab'" in line
            continue
        if not on:
            continue
        m = re.match(r"\s*(\d+):\s+([0-9a-f]+)\s+(\d+|0x[0-9a-f]+)\s+(\S+)\s+(\S+)\s+(\S+)", line)
        if m and "Symbol table '.symtab'" not in line:
            out.append((int(m.group(1)), int(m.group(2), 16), int(m.group(3), 0)))
    return out


SYMQ = "symbol [pos, name, value, address, size, label, binding, visibility]"


def impl_syms(path):
    r = zw.run_cases([zw.enc(SYMQ, dw=path, max=1000000, t=60)])[0]
    if not r.ok() or r.d.get("hard"):
        return None, json.dumps(r.d)[:200]
    out = []
    for s in r.results:
        v = s[0]["v"]
        out.append({"pos": int(v[0]["v"]), "name": bytes.fromhex(v[1]["v"]), "value": int(v[2]["v"]), "address": int(v[3]["v"]), "size": int(v[4]["v"]),
                    "type": int(v[5]["v"]), "bind": int(v[6]["v"]), "vis": int(v[7]["v"]), "doms": (v[2]["d"], v[5]["d"], v[6]["d"], v[7]["d"])})
    return out, None


def family_words(voc):
    """STT_/STB_ words with (kind, code, family machine or 0)"""
    hdr = {}
    for m in re.finditer(r"^\s*#\s*define\s+(ST[TB]_[A-Za-z0-9_]+)\s+(0x[0-9a-fA-F]+|\d+)\b", open("/usr/include/elf.h").read(), re.M):
        hdr[m.group(1)] = int(m.group(2), 0)
    out = []
    for w in sorted(voc):
        m = re.match(r"^(STT|STB)_([A-Z0-9]+)_", w)
        if not re.match(r"^ST[TB]_", w) or w not in hdr:
            continue
        fam = 0
        if m and m.group(2) in ("ARM", "SPARC", "PARISC", "MIPS"):
            fam = MACHINES[m.group(2)]
        out.append((w, w[:3], hdr[w], fam))
    return out


def model_family(kind, machine):
    if kind == "STT":
        return machine if machine in (40, 15, 2) else 0
    return machine if machine == 8 else 0


def model_eq(f1, c1, f2, c2):
    k1 = (0, c1) if c1 < 10 else (f1, c1)
    k2 = (0, c2) if c2 < 10 else (f2, c2)
    return k1 == k2


WIDE = [0, 1, 0x7fffffff, 0x80000000, 0xffffffff, 0x100000000, 5 << 30, 0x7fffffffffffffff, 0x8000000000000000, 0xffffffff81000000, 0xfffffffffffffff8, 0xffffffffffffffff]


def run(ctx):
    oblig = common.prepare(ctx)
    if oblig is None:
        return ctx.finish(None)
    d = dwforest.workdir(ctx)
    rng = ctx.sub_rng("c18")
    quick = ctx.tier == "quick"
    evaluations = 0
    nsyms = 0
    viol = {}

    def bad(kind, what, case):
        viol[kind] = viol.get(kind, 0) + 1
        if viol[kind] <= 3:
            ctx.violation(what, case)

    voc = set(zw.run_cases(["@m=voc"])[0].d["words"])
    words = family_words(voc)
    files = []
    for k in range(2 if quick else 12):
        src = os.path.join(d, "sym%d.s" % k)
        with open(src, "w") as f:
            f.write(gen_asm(rng, 40 if quick else 120))
        base = os.path.join(d, "sym%d.o" % k)
        subprocess.run(["as", "-o", base, src], check=True)
        files.append((base, "assembled"))
        # patched copies: every type/binding code, st_other upper bits, other machines
        for mname, mcode in MACHINES.items():
            e = elfsym.Elf(base)
            syms = e.symbols()
            for i in range(1, len(syms)):
                if rng.random() < 0.6:
                    e.patch_symbol(i, info=(rng.randrange(16) << 4) | rng.randrange(16), other=(rng.choice([0, 0x20, 0x60, 0x80, 0xe0]) | rng.randrange(4)))
                # sizes and (for absolute symbols, which no loader moves) values across the whole 64-bit range
                if rng.random() < 0.4:
                    e.patch_symbol(i, size=rng.choice(WIDE))
                if syms[i]["shndx"] == 0xfff1 and rng.random() < 0.8:
                    e.patch_symbol(i, value=rng.choice(WIDE))
            e.set_machine(mcode)
            p = os.path.join(d, "sym%d-%s.o" % (k, mname))
            e.save(p)
            files.append((p, "patched-" + mname))
    for p in dwforest.sample_files():
        files.append((p, "sample"))
    # archives: one module per member; the symbols of all members, in member order, numbered through
    small = os.path.join(d, "small.s")
    with open(small, "w") as f:
        f.write("\t.text\n\t.globl only_one\n\t.type only_one, @function\nonly_one:\n\tnop\n\t.size only_one, .-only_one\n")
    subprocess.run(["as", "-o", os.path.join(d, "small.o"), small], check=True)
    archives = []
    for name, members in (("lib-big-small-big.a", ["sym0.o", "small.o", "sym1.o"]), ("lib-small-first.a", ["small.o", "sym1.o", "small.o", "sym0.o"])):
        ap = os.path.join(d, name)
        if os.path.exists(ap):
            os.unlink(ap)
        subprocess.run(["ar", "rcS", ap] + members, cwd=d, check=True)
        archives.append((ap, [os.path.join(d, m) for m in members]))
    for ap, members in archives:
        truth = []
        for m in members:
            truth += elfsym.Elf(m).symbols()
        got, err = impl_syms(ap)
        evaluations += 1
        case = {"file": ap, "kind": "archive", "members": members}
        if got is None:
            bad("read", "`symbol` fails on the archive %s: %s" % (os.path.basename(ap), err), case)
            continue
        if len(got) != len(truth):
            bad("count", "`symbol` yields %d symbols on the archive %s; its members hold %s = %d" % (len(got), os.path.basename(ap), [len(elfsym.Elf(m).symbols()) for m in members], len(truth)), case)
            continue
        for i, (g, t) in enumerate(zip(got, truth)):
            nsyms += 1
            want = {"pos": i, "name": t["name"], "value": t["value"], "size": t["size"], "type": t["type"], "bind": t["bind"], "vis": t["vis"]}
            diff = [k for k in want if g[k] != want[k]]
            if diff:
                bad("field:" + diff[0], "symbol %d (%r) of the archive %s: %s is %s; the member stores %s" % (i, t["name"][:40], os.path.basename(ap), diff[0], g[diff[0]], want[diff[0]]), dict(case, index=i))
                break
    # a linked shared object (ET_DYN: libdwfl loads it with a bias the symbol values must not show) and a
    # table with more than 65536 entries (index and position beyond 16 bits)
    so = os.path.join(d, "libsym.so")
    if subprocess.run(["ld", "-shared", "-o", so, os.path.join(d, "sym0.o")], stdout=subprocess.PIPE, stderr=subprocess.PIPE).returncode == 0:
        files.append((so, "shared-object"))
    bigs = os.path.join(d, "many.s")
    with open(bigs, "w") as f:
        f.write("\t.data\n" + "".join("\t.globl m%d\nm%d:\n\t.byte %d\n" % (i, i, i % 251) for i in range(66000)))
    subprocess.run(["as", "-o", os.path.join(d, "many.o"), bigs], check=True)
    files.append((os.path.join(d, "many.o"), "many-symbols"))
    machines_seen = set()
    for path, kind in files:
        try:
            e = elfsym.Elf(path)
        except Exception:
            continue
        truth = e.symbols()
        got, err = impl_syms(path)
        evaluations += 1
        case = {"file": path, "kind": kind, "machine": e.e_machine}
        if got is None:
            if truth and kind != "sample":
                bad("read", "`symbol` fails on %s (%s): %s" % (os.path.basename(path), kind, err), case)
            continue
        machines_seen.add(e.e_machine)
        if len(got) != len(truth):
            bad("count", "`symbol` yields %d symbols on %s; the table holds %d" % (len(got), os.path.basename(path), len(truth)), case)
            continue
        if kind in ("assembled", "sample"):
            rs = readelf_syms(path)
            if rs and [(r[1], r[2]) for r in rs[:len(truth)]] != [(t["value"], t["size"]) for t in truth][:len(rs)]:
                bad("reader", "the independent reader and readelf -sW disagree on %s" % os.path.basename(path), case)
        for i, (g, t) in enumerate(zip(got, truth)):
            nsyms += 1
            want = {"pos": i, "name": t["name"], "value": t["value"], "address": t["value"], "size": t["size"], "type": t["type"], "bind": t["bind"], "vis": t["vis"]}
            diff = [k for k in want if g[k] != want[k]]
            if diff:
                bad("field:" + diff[0], "symbol %d (%r) of %s: %s is %s; the entry stores %s" % (i, t["name"][:40], os.path.basename(path), diff[0], g[diff[0]], want[diff[0]]), dict(case, index=i))
                break
            if g["doms"][1] != "STT_" or g["doms"][2] != "STB_" or g["doms"][3] != "STV_":
                bad("domain", "symbol %d of %s: label/binding/visibility are in domains %s" % (i, os.path.basename(path), g["doms"]), case)
                break
        # the number the CLI prints in front of every symbol is its index in the table, from zero
        pr = subprocess.run([common.impl_bin("dwgrep"), path, "-e", "symbol"], stdout=subprocess.PIPE, stderr=subprocess.PIPE, timeout=300)
        nums = [int(m_.group(1)) for m_ in re.finditer(r"^(\d+):\t", pr.stdout.decode("latin1"), re.M)]
        evaluations += 1
        if nums != list(range(len(truth))):
            k0 = next((i for i, (a, b) in enumerate(zip(nums, range(len(truth)))) if a != b), min(len(nums), len(truth)))
            bad("index", "the CLI numbers the symbols of %s %s...; entry %d should be numbered %d (%d lines for %d entries)" % (os.path.basename(path), nums[max(0, k0 - 1):k0 + 2], k0, k0, len(nums), len(truth)), dict(case, index=k0))
        # symbols at different indices are different values (also 65536 entries apart)
        if len(truth) > 65536 + 2:
            rq = zw.run_cases([zw.enc("[symbol] (|L| L elem ?(pos == %d) (|A| L elem ?(pos == %d) ?(== A)))" % (a_, a_ + 65536), dw=path, t=120) for a_ in (0, 1, 7)])
            for a_, r_ in zip((0, 1, 7), rq):
                evaluations += 1
                if not r_.ok() or r_.results:
                    bad("index", "symbols %d and %d of %s compare equal" % (a_, a_ + 65536, os.path.basename(path)), dict(case, index=a_))
        # the family rule: which symbols equal which STT_/STB_ word
        qs = [zw.enc("[symbol ?(%s == %s) pos]" % ("label" if k == "STT" else "binding", w), dw=path, max=1000000) for w, k, c, f in words]
        rs = zw.run_cases(qs)
        for (w, k, c, f), r in zip(words, rs):
            evaluations += 1
            fam = model_family(k, e.e_machine)
            want = [i for i, t in enumerate(truth) if model_eq(fam, t["type"] if k == "STT" else t["bind"], f, c)]
            gotl = [int(x["v"]) for x in r.results[0][0]["v"]] if r.ok() and r.results else None
            if gotl != want:
                bad("family", "on %s (machine %d) the symbols whose %s equals %s are %s; by the family rule %s" % (os.path.basename(path), e.e_machine, "label" if k == "STT" else "binding", w, str(gotl)[:80], str(want)[:80]), dict(case, word=w))
    # a symbol that was copied (bound to a name, taken out of a sequence) is still that symbol: the CLI prints the
    # same lines - on archives the position of a symbol differs from its index in its member's table
    for path in [ap for ap, _ in archives] + [os.path.join(d, "sym0.o")]:
        outs = []
        for q in ("symbol", "symbol (|S| S)", "(|D| [D symbol] elem)", "(|D| let S := D symbol; S)", "symbol dup drop", "(|D| [D symbol] (|L| L elem (|S| S)))"):
            pr = subprocess.run([common.impl_bin("dwgrep"), path, "-e", q], stdout=subprocess.PIPE, stderr=subprocess.PIPE, timeout=300)
            outs.append((q, pr.stdout))
            evaluations += 1
        for q, o in outs[1:]:
            if o != outs[0][1]:
                la, lb = outs[0][1].decode("latin1").split("\n"), o.decode("latin1").split("\n")
                k0 = next((i for i, (x, y) in enumerate(zip(la, lb)) if x != y), min(len(la), len(lb)))
                bad("copy", "on %s `dwgrep -e '%s'` prints %r where `-e symbol` prints %r (line %d)" % (os.path.basename(path), q, lb[k0][:80] if k0 < len(lb) else None, la[k0][:80] if k0 < len(la) else None, k0),
                    {"file": path, "query": q, "kind": "copied-symbol"})
                break
    # files of different machines opened by one query: every symbol's type and binding are named in the family of
    # its own file, whatever was opened before it
    bymach = {}
    for pth, kind in files:
        if kind.startswith("patched-") or kind == "assembled":
            bymach.setdefault(kind, pth)
    mixes = [list(bymach.values()), list(reversed(list(bymach.values())))] + [[a_, b_] for a_ in list(bymach.values())[:3] for b_ in list(bymach.values())[-3:] if a_ != b_]
    RQ = 'dwopen symbol [pos, label, binding, visibility] "%s"'
    single = {}
    for pth in bymach.values():
        r_ = zw.run_cases([zw.enc('"%s" %s' % (pth, RQ), max=100000)], chunk=1)[0]
        single[pth] = [bytes.fromhex(x[0]["v"]).decode("latin1") for x in r_.results] if r_.ok() else None
    for mix in mixes:
        if any(single[p_] is None for p_ in mix):
            continue
        r_ = zw.run_cases([zw.enc("(%s) %s" % (", ".join('"%s"' % p_ for p_ in mix), RQ), max=1000000)], chunk=1)[0]
        evaluations += 1
        got = [bytes.fromhex(x[0]["v"]).decode("latin1") for x in r_.results] if r_.ok() else "fails: %s" % (r_.crash or r_.hard)
        want = [l for p_ in mix for l in single[p_]]
        if got != want:
            k0 = next((i for i, (x, y) in enumerate(zip(got, want)) if x != y), 0) if isinstance(got, list) else 0
            bad("mixed-machines", "`(%s) dwopen symbol ...` renders symbol %d as %s; opened alone its file gives %s" % (", ".join(os.path.basename(p_) for p_ in mix), k0, got[k0] if isinstance(got, list) and k0 < len(got) else got, want[k0] if k0 < len(want) else None),
                {"files": mix, "kind": "mixed-machines", "query": RQ})
    common.report_broken_obligations(ctx, oblig, bool(ctx.violations))
    ctx.cov.update({
        "evaluations": evaluations, "distinct_nontrivial": nsyms,
        "rule": "%d ELF files: freshly assembled objects (40/120 generated symbols each: function/object/tls/notype/ifunc/unique/common x global/weak/local x default/hidden/protected/internal, absolute, undefined, weak undefined, section and file symbols, long names), each also patched to random type/binding codes 0-15 with st_other upper bits set and re-labelled as %s; the sample binaries; a linked shared object (ET_DYN), an object with 66000 symbols, two ar archives of three and four members (one module per member, symbols of all members in order); every symbol compared on pos, name, value, address, size, type, binding, visibility with a struct-level reader (cross-checked with readelf -sW), and every file x every STT_/STB_ word (%d) on the family rule; copied symbols (bound, taken out of sequences) printed by the CLI on archives; files of different machines opened by one query, in several orders" % (len(files), "/".join(MACHINES), len(words)),
        "samples": [], "machines_seen": sorted(machines_seen), "traces_validated_against_impl": nsyms + evaluations, "violations_by_kind": viol,
    })
    return ctx.finish(oblig)


def replay(ctx, path):
    case = json.load(open(path))["case"]
    print(json.dumps(case, indent=1))
    return 0
