"""C10 — `*`/`+` yield each reachable stack exactly once per input and terminate.

Proof: coq/props/Properties_C10.v.
Correspondence: closure bodies are generated from explicit small graphs
(functional graphs with cycles, diamonds, self-loops, multi-yield nodes, bodies
using `,`, `||`, let and nested closures); the implementation's results for
`s E*`, `s E+`, several inputs in a row and nested closures are compared with
reachability computed directly on the graph (and with the engine model and the
specification); every query has a 3 s budget, exceeding it is a violation
because the reachable set is finite.
"""
import collections
import itertools
import json

from vlib import common, zw, engine
from vlib.enginecheck import compare


def body_of(graph, style, rng):
    """Zwerg expression mapping node n (an integer on TOS) to its successors"""
    edges = [(a, b) for a in sorted(graph) for b in graph[a]]
    if not edges:
        return "(|N| ?(1 2 ?eq))"
    if style == "alt":
        return "(|N| (%s))" % ", ".join("?(N %d ?eq) %d" % e for e in edges)
    if style == "capture":
        # successors via a captured sequence: no `,` directly in the closure body
        return "(|N| [%s] elem)" % ", ".join("?(N %d ?eq) %d" % e for e in edges)
    if style == "let":
        return "(|N| let S := (%s); S)" % ", ".join("?(N %d ?eq) %d" % e for e in edges)
    if style == "if":
        # nested if chain per node; multi successors through `,`
        expr = "?(1 2 ?eq)"
        for a in sorted(graph, reverse=True):
            succ = graph[a]
            s = "(%s)" % ", ".join(str(b) for b in succ) if succ else "?(1 2 ?eq)"
            expr = "if (N %d ?eq) then (%s) else (%s)" % (a, s, expr)
        return "(|N| %s)" % expr
    if style == "or":
        # per node: successors, `||` chain of guarded groups
        groups = []
        for a in sorted(graph):
            if graph[a]:
                groups.append("?(N %d ?eq) (%s)" % (a, ", ".join(str(b) for b in graph[a])))
        return "(|N| (%s))" % " || ".join(groups) if groups else "(|N| ?(1 2 ?eq))"
    raise ValueError(style)


def reach(graph, starts, plus):
    seen, work = [], []
    if plus:
        for s in starts:
            for b in graph.get(s, []):
                if b not in seen:
                    seen.append(b)
                    work.append(b)
    else:
        for s in starts:
            if s not in seen:
                seen.append(s)
                work.append(s)
    while work:
        a = work.pop()
        for b in graph.get(a, []):
            if b not in seen:
                seen.append(b)
                work.append(b)
    return sorted(seen)


def graphs(n):
    """all graphs on n nodes with out-degree <= 2 (as dict node -> successor list)"""
    choices = [[]] + [[b] for b in range(n)] + [[a, b] for a in range(n) for b in range(n) if a < b]
    for combo in itertools.product(choices, repeat=n):
        yield {i: list(c) for i, c in enumerate(combo)}


def ints_of(ci):
    out = []
    for e in ci[1]:
        if e.startswith("R[c:"):
            out.append(int(e[4:].split(":")[0]))
        elif e.startswith("R"):
            out.append(None)
    return out


def run(ctx):
    oblig = common.prepare(ctx)
    if oblig is None:
        return ctx.finish(None)
    engine.observe_params()
    quick = ctx.tier == "quick"
    rng = ctx.sub_rng("graphs")
    G = list(graphs(3))
    if quick:
        G = rng.sample(G, 90)
    # a few larger hand-made shapes: long cycle, diamond chain, binary tree with back edge
    big = [{0: [1], 1: [2], 2: [3], 3: [4], 4: [0]},
           {0: [1, 2], 1: [3], 2: [3], 3: [4, 5], 4: [6], 5: [6], 6: []},
           {0: [1, 2], 1: [3, 4], 2: [5, 6], 3: [], 4: [0], 5: [5], 6: [2]},
           {0: [0]}, {0: [1], 1: [0]}, {0: [], 1: [0]}]
    G += big
    styles = ["alt", "capture", "let", "if", "or"]
    cases = []
    for gi, g in enumerate(G):
        n = len(g)
        for st in (styles if (not quick or gi % 3 == 0 or gi >= len(G) - len(big)) else [styles[gi % len(styles)]]):
            b = body_of(g, st, rng)
            for s in range(min(n, 3)):
                cases.append(("%d %s*" % (s, b), reach(g, [s], False), g, "star/" + st))
                cases.append(("%d %s+" % (s, b), reach(g, [s], True), g, "plus/" + st))
            # several inputs in a row: each starts from a clean slate
            ins = list(range(min(n, 3)))
            exp = []
            for s in ins:
                exp += reach(g, [s], False)
            cases.append(("(%s) %s*" % (", ".join(map(str, ins)), b), sorted(exp), g, "multi/" + st))
            # the same closure in contexts whose sub-chain is re-fed for every input:
            # a let body, an OR branch, a nested closure body -- each input from a clean slate
            cases.append(("(%s) let R := %s*; R" % (", ".join(map(str, ins)), b), sorted(exp), g, "multi-let/" + st))
            cases.append(("(%s) (%s* || 99)" % (", ".join(map(str, ins)), b), sorted(exp), g, "multi-or/" + st))
            expp = []
            for s in ins:
                expp += reach(g, [s], True) or [99]
            cases.append(("(%s) (%s+ || 99)" % (", ".join(map(str, ins)), b), sorted(expp), g, "multi-or/" + st))
            # E+ == distinct stacks of E E*
            cases.append(("0 %s %s*" % (b, b), None, g, "EEstar/" + st))
            # E? == (E,)
            cases.append(("0 %s?" % b, sorted([0] + g.get(0, [])), g, "opt/" + st))
            # postfix operators stacked: E+? = (E+,), E*? = (E*,), E?* and E?+ close over E or nothing
            for s0 in range(min(n, 3)):
                cases.append(("%d %s+?" % (s0, b), sorted([s0] + reach(g, [s0], True)), g, "optplus/" + st))
                cases.append(("%d (%s+,)" % (s0, b), sorted([s0] + reach(g, [s0], True)), g, "optplus/" + st))
                cases.append(("%d %s*?" % (s0, b), sorted([s0] + reach(g, [s0], False)), g, "optstar/" + st))
                cases.append(("%d %s?*" % (s0, b), reach(g, [s0], False), g, "optstar/" + st))
                cases.append(("%d %s?+" % (s0, b), reach(g, [s0], False), g, "optplus/" + st))
            # the node below k other values that the body carries along unchanged (stacks up to 7 deep:
            # equality of stacks must look at every slot), and the node carried inside a closure value
            # (two instances of one block with different captured values are different stacks)
            if st == "alt" and (not quick or gi % 2 == 0 or gi >= len(G) - len(big)):
                sb = "(%s)" % ", ".join("?(N %d ?eq) %d" % (a, c) for a in sorted(g) for c in g[a]) if any(g.values()) else "?(1 2 ?eq)"
                for k in (1, 3, 4, 5, 6):
                    names = " ".join("J%d" % j for j in range(k))
                    junk = " ".join(str(100 + j) for j in range(k))
                    deep = "(|N %s| %s %s)" % (names, sb, names)
                    for s0 in range(min(n, 2)):
                        cases.append(("[%d %s %s* (|N %s| N)] elem" % (s0, junk, deep, names), reach(g, [s0], False), g, "deep%d/star" % k))
                        cases.append(("[%d %s %s+ (|N %s| N)] elem" % (s0, junk, deep, names), reach(g, [s0], True), g, "deep%d/plus" % k))
            # nested closure: (E*)* reaches the same set
            cases.append(("0 (%s*)*" % b, reach(g, [0], False), g, "nested/" + st))
            cases.append(("0 (%s+)*" % b, reach(g, [0], False), g, "nested/" + st))
            cases.append(("0 (%s*)+" % b, reach(g, [0], False), g, "nested/" + st))
    # the node carried inside a closure value, on graphs without cycles or confluence (equality of
    # closures is outside the documented order: only "different captured values = different stacks" is used)
    for g in ({0: [1], 1: [2], 2: [3], 3: []}, {0: [1, 2], 1: [3], 2: [4], 3: [], 4: []}, {0: [1], 1: [2, 3], 2: [], 3: [4], 4: []}):
        sb = "(%s)" % ", ".join("?(N %d ?eq) %d" % (a, c) for a in sorted(g) for c in g[a])
        cases.append(("[0 (|M| {M}) (apply (|N| %s) (|M| {M}))* apply] elem" % sb, reach(g, [0], False), g, "closure-carrier/star"))
        cases.append(("[0 (|M| {M}) (apply (|N| %s) (|M| {M}))+ apply] elem" % sb, reach(g, [0], True), g, "closure-carrier/plus"))
        cases.append(("let Z := 0; [{Z} (apply (|N| %s) (|M| {M}))* apply] elem" % sb, reach(g, [0], False), g, "closure-carrier/let"))
    qs = list(dict.fromkeys(c[0] for c in cases))
    runs = zw.run_cases([zw.enc(q, t=3, max=400) for q in qs])
    res = {q: engine.canon_impl(r) for q, r in zip(qs, runs)}
    evaluations = 0
    nontrivial = set()
    viol = 0
    kinds = collections.Counter()
    for q, exp, g, kind in cases:
        ci = res[q]
        evaluations += 1
        kinds[kind.split("/")[0]] += 1
        what = None
        if ci[0] == "HANG":
            what = "`%s` does not terminate within the budget although the reachable set is finite" % q
        elif ci[0] != "DONE":
            what = "`%s` ends with %s" % (q, ci[0])
        else:
            got = ints_of(ci)
            if kind.startswith("EEstar"):
                # compare with E+ on the same graph/style: distinct stacks of E E*
                plus_q = q.split(" ", 1)[0] + " " + q.split(" ", 1)[1].rsplit(" ", 1)[0].rsplit(" (|N|", 1)[0] + "+" \
                    if False else None
                exp2 = reach(g, [0], True)
                if sorted(set(got)) != exp2:
                    what = "`%s`: distinct stacks %s, but E+ must yield %s" % (q, sorted(set(got)), exp2)
            elif sorted(got) != exp:
                what = "`%s` yields %s, reachable set (each once) is %s" % (q, sorted(got), exp)
            if exp and len(exp) >= 3 and any(len(v) > 1 for v in g.values()):
                nontrivial.add(q)
        if what:
            viol += 1
            if viol <= 6:
                ctx.violation(what, {"query": q, "graph": {str(k): v for k, v in g.items()}, "expected": exp, "kind": kind})
    # ---- nodes that are values of other kinds: strings that agree up to an embedded NUL byte, or in a prefix, or
    # except for a high byte; sequences that differ late; constants that differ in their domain only
    ENCODINGS = [("nul-strings", lambda i: '"n\\x00%c"' % (97 + i), lambda i: ("s", (b"n\x00" + bytes([97 + i])).hex())),
                 ("prefix-strings", lambda i: '"%s"' % ("a" * (i + 1)), lambda i: ("s", (b"a" * (i + 1)).hex())),
                 ("high-bytes", lambda i: '"\\x%02x"' % (0x7e + i), lambda i: ("s", bytes([0x7e + i]).hex())),
                 ("long-sequences", lambda i: "[1, 1, 1, 1, 1, 1, 1, 1, 1, %d]" % i, lambda i: ("q", i)),
                 ("domains", lambda i: ["1", "true", "DW_AT_sibling", "DW_TAG_array_type", "DW_FORM_addr", "T_CONST", "0 0 aset type"][i], lambda i: ("c", i))]
    vgraphs = [{0: [1, 2], 1: [3], 2: [3], 3: [0]}, {0: [1], 1: [2], 2: [0, 3], 3: [3]}, {0: [0, 1], 1: [2], 2: [], 3: []}, {0: [1, 2, 3], 1: [], 2: [4], 3: [4], 4: [0]}]
    vq, vmeta = [], []
    for encn, lit, key in ENCODINGS:
        for g in vgraphs:
            body = "(|N| (%s))" % ", ".join("?(N %s ?eq) %s" % (lit(a), lit(b)) for a in sorted(g) for b in g[a])
            for form, plus in (("%s %s*", False), ("%s %s+", True), ("[%s %s*] length", False), ("(%s, %s) %s*", False)):
                if form.count("%s") == 3:
                    q = form % (lit(0), lit(3), body)
                    exp = sorted(reach(g, [0], False) + reach(g, [3], False))
                else:
                    q = form % (lit(0), body)
                    exp = reach(g, [0], plus)
                vq.append(q)
                vmeta.append((encn, g, q, exp, form))
    # the node at the bottom of a stack deeper than the cached type profile (four codes), nodes of different types
    MIXED = ['1', '"x"', '[1]', 'DW_AT_name', '2']
    for g in vgraphs:
        for fill in ("11 12 13 14", "11 12 13 14 15 16", '"a" 12 [] 14 15'):
            names = " ".join("F%d" % k for k in range(len(fill.split())))
            body = "(%s)" % ", ".join("?(N %s ?eq) %s" % (MIXED[a], MIXED[b]) for a in sorted(g) for b in g[a])
            for form, plus in (("%s %s (|N %s| %s %s)*", False), ("%s %s (|N %s| %s %s)+", True)):
                q = form % (MIXED[0], fill, names, body, names)
                vq.append(q)
                vmeta.append(("mixed-types-below", g, q, reach(g, [0], plus), "plain"))
    for (encn, g, q, exp, form), r in zip(vmeta, zw.run_cases([zw.enc(q, t=3, max=400) for q in vq])):
        evaluations += 1
        if r.crash or r.hard:
            got = "%s" % (r.crash or r.hard)
        elif form.startswith("["):
            got = [int(r.results[0][0]["v"])] if r.results else None
            exp = [len(exp)]
        else:
            got = len(r.results)
            exp = len(exp)
        if got != exp:
            viol += 1
            if viol <= 6:
                ctx.violation("`%s` yields %s; the reachable set (each value once per input) has %s" % (q, got, exp),
                              {"query": q, "graph": {str(k): v for k, v in g.items()}, "expected": exp, "kind": "values/" + encn})
    # ---- closures over DWARF values: units and DIEs are reached along imports, nested and repeated; two
    # routes to one DIE are two values (the model dw/Forest.v counts the routes), two units are two values
    # also when they start at the same offset (members of an archive)
    from vlib import dwforest
    import os
    import subprocess
    ndw = 0
    # (the forests are those where every value keeps the imports it was reached through: only partial units are
    #  imported - a DIE of a compile unit that is also imported exists with and without an import chain and the
    #  two are `==` by design, C09's known finding - and the DIEs of partial units are leaves - `child` of an
    #  imported DIE does not hand the chain on; elsewhere "distinct" is not settled)
    from vlib.dwgen import write_object
    dwd = dwforest.workdir(ctx)
    frng = ctx.sub_rng("flat-forests")
    inputs = []
    for k in range(14 if quick else 120):
        f_ = dwforest.flat_import_forest(frng)
        p_ = os.path.join(dwd, "flat%d.o" % k)
        write_object(f_, p_)
        inputs.append(("flat%d" % k, f_, p_))
    for name, f_ in dwforest.shaped_forests():
        if name in ("deep", "many-units", "hollow", "empty-units", "unit-kinds", "wide-dies", "unclosed-units"):
            p_ = os.path.join(dwd, name + ".o")
            write_object(f_, p_)
            inputs.append((name, f_, p_))
    models = dwforest.model_rows([f for _, f, _ in inputs])
    STEP = "(?(type == T_DWARF) unit, ?(type == T_CU) root, ?(type == T_DIE) child)"
    def dwq(path):
        return [("[%s*] length" % STEP, "all"), ("[(?(type == T_DWARF) entry)*] length", "entries"), ("[unit root child*] length", "kids"),
                ("[unit root child* offset]", "offsets"), ("[entry] (|L| [L elem parent* ?root]) length", "roots"), ("[entry (child+, child*)] length", "twice"),
                ("[%s+] length" % STEP, "plus")]
    def counts(path):
        rs = zw.run_cases([zw.enc(q, dw=path, t=30, max=10) for q, _ in dwq(path)])
        out = {}
        for (q, k), r in zip(dwq(path), rs):
            if not r.ok() or not r.results:
                out[k] = "fails: " + (str(r.crash or r.hard or r.d)[:120])
            elif k == "offsets":
                out[k] = sorted(int(v["v"]) for v in r.results[0][0]["v"])
            else:
                out[k] = int(r.results[0][0]["v"])
        return out
    def expected(ms):
        routes = sum(len(m["cooked"]) for m in ms)
        units = sum(len(m["cookedunits"]) for m in ms)
        nonroot = sum(1 for m in ms for r_ in m["cooked"] if r_["parent"] is not None)
        return {"all": 1 + units + routes, "entries": 1 + routes, "kids": routes, "offsets": sorted(r_["off"] for m in ms for r_ in m["cooked"]), "roots": routes,
                "plus": units + routes}
    def check_dw(name, path, ms, forest_desc):
        nonlocal ndw, viol
        got, want = counts(path), expected(ms)
        for k, w in want.items():
            ndw += 1
            if got[k] != w:
                viol += 1
                if viol <= 6:
                    q = [q_ for q_, k_ in dwq(path) if k_ == k][0]
                    ctx.violation("on the generated input %s `%s` gives %s; every unit once and every DIE once per route makes %s" % (name, q, str(got[k])[:160], str(w)[:160]),
                                  {"input": name, "file": path, "query": q, "expected": w, "forest": forest_desc, "kind": "dwarf/" + k})
    for (name, f, path), m in zip(inputs, models):
        check_dw(name, path, [m], dwforest.describe(f))
    # archives: the members' units all start at offset 0
    small = [(n_, p_, m_) for (n_, f_, p_), m_ in zip(inputs, models) if 2 <= len(m_["cooked"]) <= 40]
    arng = ctx.sub_rng("archives")
    for k in range(3 if quick else 12):
        if len(small) < 3:
            break
        members = arng.sample(small, arng.choice([2, 3]))
        ar = os.path.join(os.path.dirname(members[0][1]), "members%d.a" % k)
        if os.path.exists(ar):
            os.unlink(ar)
        if subprocess.run(["ar", "rcS", ar] + [p_ for _, p_, _ in members]).returncode == 0:
            got, want = counts(ar), expected([m_ for _, _, m_ in members])
            # (units of different members may show in any order: offsets are compared as multisets already)
            for kk in ("all", "entries", "kids", "roots", "plus", "offsets"):
                ndw += 1
                if got[kk] != want[kk]:
                    viol += 1
                    if viol <= 6:
                        q = [q_ for q_, k_ in dwq(ar) if k_ == kk][0]
                        ctx.violation("on an archive of %s `%s` gives %s; the members hold %s" % ([n_ for n_, _, _ in members], q, str(got[kk])[:160], str(want[kk])[:160]),
                                      {"input": "archive", "members": [p_ for _, p_, _ in members], "file": ar, "query": q, "expected": want[kk], "kind": "dwarf-archive/" + kk})
    stats = {"evaluations": 0, "disagreements": 0, "results_hist": {}, "nontrivial": set()}
    sample = qs if not quick else qs[::2]
    for k in range(0, len(sample), 3000):
        compare(ctx, sample[k:k + 3000], stats, "c10")
    common.report_broken_obligations(ctx, oblig, bool(ctx.violations))
    ctx.cov.update({
        "evaluations": evaluations + stats["evaluations"] + ndw,
        "dwarf_closure_counts": ndw,
        "distinct_nontrivial": len(nontrivial),
        "rule": "closure bodies generated from graphs (%d graphs: %s 3-node graphs with out-degree <= 2, plus 5-cycle, diamond chain, tree with back edges, self-loop, 2-cycle) in five encodings (`,` in the body, captured sequence + elem, let, if-chain, `||`), every start node, `*` and `+`, several inputs in a row, E E* vs E+, E? vs (E,), stacked postfix operators (E+?, (E+,), E*?, E?*, E?+), the node carried below 1-6 other values, or (acyclic graphs) inside a closure value, nesting ((E*)*, (E+)*, (E*)+); expected = reachability computed on the graph, each node exactly once per input; non-trivial = >= 3 reachable nodes and a multi-successor node; 3 s budget per query; programs also compared with the engine model and the specification; + graphs whose nodes are strings that agree up to an embedded NUL / in a prefix / except for a high byte, sequences that differ in their tenth element, constants that differ in their domain only; + closures over DWARF values on generated forests (nested, repeated and diamond imports of partial units) and on archives of them: unit/root/child closures from the Dwarf value, child* per unit, parent* per DIE against the number of units and routes the forest model counts" % (len(G), "all" if not quick else "a sample of"),
        "samples": [cases[0][0], cases[7][0], cases[-1][0]],
        "groups": dict(kinds), "violations_found": viol,
        "traces_validated_against_impl": stats["evaluations"],
        "spec_comparison": {k[5:]: v for k, v in stats.items() if k.startswith("spec:")},
    })
    return ctx.finish(oblig)


def replay(ctx, path):
    case = json.load(open(path))["case"]
    common.build_impl("plain")
    engine.observe_params()
    r = engine.canon_impl(zw.run_cases([zw.enc(case["query"], t=3, max=400)])[0])
    print("query   :", case["query"])
    print("graph   :", case.get("graph"))
    print("expected:", case.get("expected"))
    print("impl    :", r[0], ints_of(r))
    return 0
