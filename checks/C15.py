"""C15 — notation does not change meaning: sugar, layout and the simplifier.

Proof: coq/props/Properties_C15.v (Simplify.v = tree::simplify; its rewrite
steps preserve the specification).
Correspondence on the implementation:
  * every generated program is run with and without tree::simplify;
  * the simplifier's output tree is compared, tree for tree, with the model's
    simplify applied to the tree as parsed;
  * every program is rewritten by each applicable documented equivalence
    (layout/comments between tokens, redundant parentheses, "a"\\ "b", escapes,
    raw strings, %s/%d/%x/%o/%b vs %( %), E? vs (E,), if vs (?(C) A, !(C) B),
    ?(E) vs ([E] != []), infix vs ?(let ...)) and both sides must yield
    identical result streams.
"""
import json
import re

from vlib import common, zw, engine, zgen


def tokens(q):
    """split a program into lexical tokens (strings kept whole)"""
    out, i, n = [], 0, len(q)
    while i < n:
        c = q[i]
        if c.isspace():
            i += 1
        elif c == '"':
            j = i + 1
            depth = 0
            while j < n:
                if q[j] == "\\":
                    j += 2
                    continue
                if q.startswith("%(", j):
                    depth += 1
                elif q.startswith("%)", j):
                    depth -= 1
                elif q[j] == '"' and depth == 0:
                    break
                j += 1
            out.append(q[i:j + 1])
            i = j + 1
        else:
            j = i
            while j < n and not q[j].isspace() and q[j] != '"':
                j += 1
            out.append(q[i:j])
            i = j
    return out


def layout_variant(rng, q):
    seps = [" ", "  ", "\n", "\t", " \n ", " // line comment\n", " # hash comment\n", " /* block\n comment */ ", "\n\n", " /**/ ", " /***/ ", " /** x **/ ", " /* a * b */ "]
    toks = tokens(q)
    return "".join(t + rng.choice(seps) for t in toks)


def rewrites(rng, q):
    """(kind, rewritten program) for every applicable equivalence"""
    out = [("layout", layout_variant(rng, q)), ("layout", layout_variant(rng, q))]
    out.append(("parens", "(" + q + ")"))
    toks = tokens(q)
    # `()` is a no-op wherever a statement may stand
    for _ in range(2):
        t2 = list(toks)
        for _ in range(rng.randint(1, 4)):
            t2.insert(rng.randint(0, len(t2)), "()")
        cand = " ".join(t2)
        if not re.search(r"(let|:=|then|else|if|\|\||,|==|!=|<=|>=|<|>)\s*\(\)|\(\)\s*(:=|then|else|==|!=|<=|>=|<|>|\*|\+|\?)", cand):
            out.append(("nop", cand))
    # redundant parentheses around a plain word
    idx = [i for i, t in enumerate(toks) if re.fullmatch(r"[a-z?!][a-z_?!0-9]*|-?\d+|0x[0-9a-f]+", t) and t not in ("let", "if", "then", "else")]
    if idx:
        i = rng.choice(idx)
        out.append(("parens", " ".join(toks[:i] + ["(" + toks[i] + ")"] + toks[i + 1:])))
    # string forms
    for i, t in enumerate(toks):
        if t.startswith('"') and "%" not in t and "\\" not in t and len(t) > 3:
            body = t[1:-1]
            k = rng.randrange(1, len(body)) if len(body) > 1 else 1
            out.append(("continuation", " ".join(toks[:i] + ['"%s"\\ "%s"' % (body[:k], body[k:])] + toks[i + 1:])))
            esc = "".join("\\x%02x" % ord(ch) if rng.random() < 0.5 else ch for ch in body)
            out.append(("escape", " ".join(toks[:i] + ['"%s"' % esc] + toks[i + 1:])))
            octal = "".join("\\%03o" % ord(ch) if rng.random() < 0.5 else ch for ch in body)
            out.append(("escape", " ".join(toks[:i] + ['"%s"' % octal] + toks[i + 1:])))
            out.append(("raw", " ".join(toks[:i] + ['r"%s"' % body] + toks[i + 1:])))
            break
    # layout inside a splice: the embedded program is a program like any other
    if "%(" in q:
        out.append(("splice-layout", q.replace("%(", "%(\n", 1)))
        out.append(("splice-layout", q.replace("%)", " // c\n %)", 1)))
        out.append(("splice-layout", q.replace("%(", "%( /* c */\n\t", 1)))
    for d, ex in (("%s", "%( %)"), ("%d", "%( value %)"), ("%x", "%( value hex %)"), ("%o", "%( value oct %)"), ("%b", "%( value bin %)")):
        if d in q:
            out.append(("directive", q.replace(d, ex, 1)))
    return out


def sugar_pairs(rng, g):
    """pairs (kind, lhs, rhs) built from fresh sub-expressions"""
    P = rng.choice(["1", "(1, 2)", '(1, "a")', "[1, 2] elem", "1 2"])
    E, _ = g.sub(2, ["i"], [])
    E = E or "1"
    A, _ = g.sub(1, ["i"], [])
    A = A or "2"
    B, _ = g.sub(1, ["i"], [])
    B = B or "3"
    C, _ = g.sub(1, ["i"], [])
    C = C or "dup"
    op, w = rng.choice([("==", "?eq"), ("!=", "?ne"), ("<", "?lt"), (">", "?gt"), ("<=", "?le"), (">=", "?ge")])
    return [
        ("opt", "%s (%s)?" % (P, E), "%s ((%s),)" % (P, E)),
        ("if", "%s if (%s) then (%s) else (%s)" % (P, C, A, B), "%s (?(%s) (%s), !(%s) (%s))" % (P, C, A, C, B)),
        ("subx", "%s ?(%s 7)" % (P, E), "%s ([%s 7] != [])" % (P, E)),
        ("infix", "%s ((%s) %s (%s))" % (P, A, op, B), "%s ?(let X1 := %s; let X2 := %s; X1 X2 %s)" % (P, A, B, w)),
        ("fmt", '%s "<%%s>"' % P, '%s "<%%( %%)>"' % P),
        ("fmt", '%s ?(type T_CONST ?eq) "%%x:%%d:%%o:%%b" ' % (P + " dup dup dup"), '%s ?(type T_CONST ?eq) "%%( value hex %%):%%( value %%):%%( value oct %%):%%( value bin %%)"' % (P + " dup dup dup")),
    ]


def run(ctx):
    oblig = common.prepare(ctx)
    if oblig is None:
        return ctx.finish(None)
    engine.observe_params()
    quick = ctx.tier == "quick"
    # the uncapped twin used by the simplifier proof must be Den.v's text with the capped combinators replaced
    import subprocess as _sp
    import sys as _sys
    if _sp.run([_sys.executable, common.VERIF + "/tools/gen_denu.py", "--check"]).returncode != 0:
        ctx.violation("coq/zw/DenU.v is not what tools/gen_denu.py generates from coq/zw/Den.v: the theorem C15_simplify_preserves would be about another evaluator",
                      {"kind": "twin-drift"}, no_input=True)
    rng = ctx.sub_rng("rw")
    g = zgen.G(ctx.sub_rng("gen"), max_depth=3, illtyped=0.03)
    progs = [g.program() for _ in range(700 if quick else 8000)]
    progs += ["1 () () 2", "[(()) 1 () (2, 3)]", "() 1 () () 2 () 3 ()", "(() ()) 1", "1 (() 2 ()) () 3", '1 "x%dy" "%s%s"', '"a\\x41b" length', '"tab\\there"', '7 "%x %o %b %d"', '"" ""', '"%%"', '1 "a%( 2 %)b"', '"%( 1 2 add %)"', '(1, 2) "<%( dup 1 add %)|%( 7 %)>"', '"%( "in%( 3 %)ner" %)"', '(1, 2) dup "-%s-%( "<%( 1 %)>" %)"', '7 "%x|%( "a%( 2 %)b" %)|%d"', '1 "%s%( ("(") %)"']
    evaluations = 0
    nontrivial = set()
    kinds = {}
    viol = 0

    def bad(what, case):
        nonlocal viol
        viol += 1
        if viol <= 6:
            ctx.violation(what, case)

    # 1. simplifier on / off, and the simplifier's output vs the model's
    a = zw.run_cases([zw.enc(q, m="internal", t=3, max=engine.LIMIT) for q in progs])
    b = zw.run_cases([zw.enc(q, m="nosimp", t=3, max=engine.LIMIT) for q in progs])
    for q, ra, rb in zip(progs, a, b):
        ca, cb = engine.canon_impl(ra), engine.canon_impl(rb)
        evaluations += 2
        if ca[0] == "HANG" or cb[0] == "HANG":
            continue
        if ca != cb:
            bad("`%s` yields %s %s with tree::simplify and %s %s without" % (q[:200], ca[0], " ".join(ca[1])[:150], cb[0], " ".join(cb[1])[:150]),
                {"query": q, "kind": "simplify-on-off"})
        elif ca[0] == "DONE" and ca[1]:
            nontrivial.add(q)
    trees = zw.run_cases([zw.enc(q, m="tree") for q in progs])
    pairs = [(q, t.d["sx"], t.d["sx_simplified"]) for q, t in zip(progs, trees) if t.d.get("sx")]
    res = engine.run_model([x + "\t" + y for _, x, y in pairs], mode="simp")
    changed = 0
    for (q, x, y), r in zip(pairs, res):
        evaluations += 1
        changed += x != y
        if r[0] != "EQ":
            bad("tree::simplify of `%s` differs from the model's simplify: %s" % (q[:200], r[0]), {"query": q, "kind": "simplify-tree", "parsed": x, "simplified": y})

    # 2. documented equivalences
    cases = []
    for q in progs:
        if zgen and len(q) < 300:
            for kind, q2 in rewrites(rng, q):
                cases.append((kind, q, q2))
    for _ in range(150 if quick else 2000):
        for kind, l, r in sugar_pairs(rng, g):
            cases.append((kind, l, r))
    # if C then A else B = (?(C) A, !(C) B) also when C binds names: they stay inside C in all three places
    CONDS = ["(let X := 2; (== X))", "(let X := 2; let Y := 3; (== X))", "((|X| X 2 ?eq))", "(let X := dup; X 2 ?lt)", "(== 2)"]
    ARMS = ["0", "(let X := 7; X)", "X", "(let Y := 1; Y)", "(|X| X 1 add)", "(let X := 7; let Y := X; Y)"]
    for C in CONDS:
        for A in ARMS:
            for B in ARMS:
                cases.append(("if", "let X := 5; (1, 2, 3) if %s then %s else %s" % (C, A, B), "let X := 5; (1, 2, 3) (?(%s) %s, !(%s) %s)" % (C, A, C, B)))
    # infix assertions whose operands contain blocks that contain infix assertions (the sugar binds
    # the same two hidden names at every level: the innermost binding must win inside a block)
    OPERANDS = ["1", "({(3 == 3) 1} apply)", "({(1 == 2) 1, 2} apply)", "(2 {(|X| (X == 2) X)} apply)", "((1 == 1) 1)",
                "({{(4 > 3) 1} apply} apply)", "(3 (|Y| {(Y != 1) 1} apply))", "([{(2 >= 2) 1} apply] length)"]
    for A in OPERANDS:
        for B in OPERANDS:
            for op, w in (("==", "?eq"), ("!=", "?ne"), ("<", "?lt"), (">=", "?ge")):
                cases.append(("infix", "(1, 2) (%s %s %s) \"yes\"" % (A, op, B), "(1, 2) ?(let X1 := %s; let X2 := %s; X1 X2 %s) \"yes\"" % (A, B, w)))
    # E? is (E,): also when what E binds sits in a splice of a format string (plain context), in a sub-expression,
    # in a block, or nowhere; with the name bound again / read / left alone afterwards
    for E in ('"%( let A := 1; A %)"', '1 "%( let A := 2; %)x"', '"%( 1 (|A| A) %)"', '(let A := 1; A)', 'let A := 1; A', '"%s"', '{let A := 1; A} apply', '"%( "%( let A := 3; A %)" %)"', '7 (|A|)'):
        for rest in ("let A := 2; A", "A", "5", "let B := 2; B"):
            for pre in ("9", "(8, 9)"):
                cases.append(("optional", "%s (%s)? %s" % (pre, E, rest), "%s ((%s),) %s" % (pre, E, rest)))
    # raw strings: a backslash that ends a line (or precedes a tab) stands for itself, as the escape \\\\ does in a plain string
    NL, TAB, BS = chr(10), chr(9), chr(92)
    for raw, plain in (('r"a' + BS + NL + 'b"', '"a' + BS + BS + BS + 'nb"'), ('r"a' + BS + TAB + 'b"', '"a' + BS + BS + BS + 'tb"'),
                       ('r"' + BS + NL + '"', '"' + BS + BS + BS + 'n"'), ('"x"' + BS + ' r"a' + BS + NL + 'b"', '"xa' + BS + BS + BS + 'nb"'),
                       ('r"a' + BS + NL + 'b"' + BS + ' "c"', '"a' + BS + BS + BS + 'nbc"'), ('r"#define X ' + BS + NL + '  1"', '"#define X ' + BS + BS + BS + 'n  1"')):
        cases.append(("raw-backslash", raw, plain))
        cases.append(("raw-backslash", "[%s, %s length]" % (raw, raw), "[%s, %s length]" % (plain, plain)))
    # tokens delimit themselves: no whitespace is needed after an operator, `:=`, a bracket or a comma, also not
    # before a negative literal, a string or a bracket
    for op in ("==", "!=", "<", ">", "<=", ">=", "=~", "!~"):
        for B, strs in (("-1", False), ("-0x10", False), ("1", False), ("(-1)", False), ("[-1]", False), ('"-1"', True), ("-1 -2 add", False), ('"a.c"', True)):
            if (op in ("=~", "!~")) != strs and op in ("=~", "!~"):
                continue
            pre = '("-1", "abc", "a.c")' if strs else "(-1, -16, 1, -3)"
            cases.append(("compact", "%s (dup %s %s)" % (pre, op, B), "%s(dup %s%s)" % (pre, op, B)))
            cases.append(("compact", "%s (%s %s)" % (pre, op, B), "%s(%s%s)" % (pre, op, B)))
            cases.append(("compact", "%s [(%s %s)]" % (pre, op, B), "%s[(%s%s)]" % (pre, op, B)))
    for B in ("-1", "-0x10", "(-1,-2)", '"a"', "[-1,-2]", "-1 -1 add"):
        cases.append(("compact", "let X := %s ; X" % B, "let X:=%s;X" % B))
        cases.append(("compact", "let X Y := %s %s ; [ X , Y ]" % (B, B), "let X Y:=%s %s;[X,Y]" % (B, B)))
        cases.append(("compact", "( %s , %s ) ( |A| [ A , -1 ] )" % (B, B), "(%s,%s)(|A|[A,-1])" % (B, B)))
        cases.append(("compact", "1 ?( %s ) !( -1 0 ?eq ) ( -1 || -2 )" % B, "1?(%s)!(-1 0 ?eq)(-1||-2)" % B))
    # strings in splices in strings ... to depth 4, the innermost literal holding bytes that mean
    # something to the scanner elsewhere (brackets, also unbalanced; quote, backslash, splice
    # delimiters): the byte (where it can be written) and its \x / octal escapes are the same
    # literal at every depth, and the value is what was written
    expected = {}

    def nest(lit, d):
        return '"%s"' % lit if d == 0 else '"a%%( %s %%)b"' % nest(lit, d - 1)

    def hexed(v):
        return "".join("\\x%02x" % ord(ch) for ch in v)

    def octed(v):
        return "".join("\\%03o" % ord(ch) for ch in v)
    INNER = [(v, v) for v in ("(", ")", "[", "]", "{", "}", "((", ")(", "([{", "}])", "x(", "a b")]
    INNER += [('"', '\\"'), ("\\", "\\\\"), (") %) (", None), ("%( (", None), ("%)", None), ('")', None)]
    for depth in range(0, 5):
        for value, written in INNER:
            l = nest(written if written is not None else octed(value), depth)
            r = nest(hexed(value), depth)
            cases.append(("nested-escape", l, r))
            expected[l] = expected[r] = ("a" * depth + value + "b" * depth).encode("latin1").hex()
    qs = list(dict.fromkeys([c[1] for c in cases] + [c[2] for c in cases]))
    rr = zw.run_cases([zw.enc(q, t=3, max=engine.LIMIT) for q in qs])
    canon = {q: engine.canon_impl(r) for q, r in zip(qs, rr)}
    for kind, l, r in cases:
        cl, cr = canon[l], canon[r]
        evaluations += 2
        kinds[kind] = kinds.get(kind, 0) + 1
        if cl[0] == "HANG" or cr[0] == "HANG":
            continue
        if kind in ("if", "subx", "infix", "opt"):
            # the right-hand sides evaluate a sub-expression twice or exhaustively where the
            # left-hand side asks once / lazily: diagnostics (and exceptions raised after the
            # first result) may differ; the yielded stacks may not
            if cl[0] == "ABORT" or cr[0] == "ABORT":
                continue
            # (and a `,` fed several stacks interleaves its branches: compare as multisets)
            cl = (cl[0], sorted(e for e in cl[1] if e.startswith("R")))
            cr = (cr[0], sorted(e for e in cr[1] if e.startswith("R")))
        if kind == "nested-escape":
            want = ("DONE", ["R[s:%s:0]" % expected[l]])
            for q, c in ((l, cl), (r, cr)):
                if c != want:
                    bad("`%s` should yield the string %s; got %s %s" % (q, bytes.fromhex(expected[l]), c[0], " ".join(c[1])[:160]), {"query": q, "kind": kind, "expected_hex": expected[l]})
            continue
        if cl != cr:
            bad("equivalent notations differ (%s): `%s` -> %s %s ; `%s` -> %s %s" %
                (kind, l[:160], cl[0], " ".join(cl[1])[:120], r[:160], cr[0], " ".join(cr[1])[:120]),
                {"query": l, "rewritten": r, "kind": kind})

    common.report_broken_obligations(ctx, oblig, bool(ctx.violations))
    ctx.cov.update({
        "evaluations": evaluations,
        "distinct_nontrivial": len(nontrivial),
        "rule": "random nested programs (depth <= 3) + string-heavy ones, each (a) run with and without tree::simplify, (b) its simplified tree compared with the model's simplify of the parsed tree, (c) rewritten by every applicable equivalence (two random layouts with all three comment styles, parentheses, no whitespace at all where tokens delimit themselves (operators, `:=`, brackets, commas before negative literals / strings / brackets), string continuation, hex/octal escapes, raw strings, %s %d %x %o %b expansions) strings nested in splices to depth 4 whose innermost literal holds brackets / % / quotes written as bytes and as escapes (value checked), and generated sugar pairs (E? / (E,), if / ALT of assertions, ?(E) / capture, infix / let); non-trivial = terminates with at least one result",
        "samples": [cases[0][2][:200], cases[len(cases) // 2][2][:200], cases[-1][1], cases[-1][2]],
        "rewrite_kinds": kinds,
        "trees_changed_by_simplify": changed,
        "traces_validated_against_impl": len(progs) * 2 + len(cases),
        "violations_found": viol,
    })
    return ctx.finish(oblig)


def replay(ctx, path):
    case = json.load(open(path))["case"]
    common.build_impl("plain")
    for k in ("query", "rewritten"):
        if case.get(k):
            for mode in ("internal", "nosimp"):
                r = engine.canon_impl(zw.run_cases([zw.enc(case[k], m=mode)])[0])
                print("%-9s %-8s %s\n   -> %s %s" % (k, mode, case[k][:300], r[0], " ".join(r[1])[:400]))
    return 0
