"""C12 — a compiled query is a pure function of its input stack.

Proof: coq/props/Properties_C12.v (Api.v: each result set owns its state;
history projection theorem).
Correspondence (this is where shared state in the C++ would show): for
programs covering every stateful construct (and DWARF producers with caches),
histories of execute / pull / destroy over up to three live result sets on up
to three input stacks, over the query compiled once (A) and a second time (B),
with unrelated queries compiled and executed in between; every pull is compared
with a fresh parse-and-run of the program on that input in a fresh process;
input stacks are dumped before and after.  A static scan lists function-local
statics and mutable members of libzwerg against a reviewed allow-list.
"""
import json
import os
import re

from vlib import common, zw, engine, zgen

PROGRAMS = [
    "(1, 2) add", "(dup, 10 add, 20 add)", "[(1, 2, 3) add] elem", "(1 add ?(5 ?lt))*", "((1 add, 2 add) ?(6 ?lt))+",
    '"%s-%( (1, 2) %)"', "let A := (1, 2); A add", "(|A| (A, A 1 add) (|B| B A mul))", "if (1 ?gt) then (dup) else (1, 2)",
    "(1 ?lt 100 || 200, 300)", "{|X| X X add} (|F| F (1, 2) F add)", "?((1, 2) ?eq) \"yes\"", "[] swap [|A| A, A] add length",
    "1 2 3 4 `[9]", "1 2 3 4 ``[9]", "1 2 3 4 5 ```[]", "1 2 `[8] drop 5 6 ``[9]",
    "(\"abc\" elem, \"xyz\" relem) pos", "[1, 2, 3] (elem (== 2) || 7)", "(1, 2) (|A| [A, A (1 add ?(4 ?lt))*])",
    "(1, 0, 2) 10 swap div", "dup dup add mul",
    # sequence literals of the query extended by add (what one execution appends must not be there in the next), copies of
    # empty and non-empty sequences extended on one side
    "[] [7] add", "[1] [2] add length", "(1, 2) (|X| [] [X] add)", "[] dup [3] add swap length", "[] (|L| L [1] add L length)", "[[]] elem [5] add",
    "[1, 2] (|L| L [3] add length L length)", "let E := []; E [1] add E [2] add add", "[] [] add [3] add dup [4] add",
    # binders that take more values than a shallow stack has
    "let A B := 2; [A, B]", "let A B C := (1, 2) 3; [A, B, C]", "(|A B| [A, B])", "2 (|A B| A B add)", "let A B := dup; A B add", "[|A B| A, B]", "?(|A B| A B ?lt) 5",
]
DW_PROGRAMS = [
    "entry parent offset", "[entry] relem parent offset", "entry (|E| E parent (|P| P child (== E))) offset", "unit (|U| U entry parent offset)",
    "entry offset", "entry ?root name", "unit root child label", "entry (|E| [E child] length)", "entry attribute label",
    "entry ?(child) (|A| A child offset)", "[entry] length", "entry parent* offset", "symbol name", "entry @AT_name",
]
INPUTS = ["", "3", "7 2"]          # (the empty stack: many programs fail on it - what a failed execution leaves behind shows in the next)
DW_INPUTS = ["", "", ""]          # the Dwarf value alone (three separately opened values; each may be reused)
OTHERS = ["1 2 3 `[7]", "1 2 3 ``[7]", "(1, 2)*", "let X := 5; X", '"%( 1, 2 %)"', "1 2 3 4 ```[]", "{1} apply",
          # queries that are rejected, each for another reason (whatever the compiler noted about them must be gone)
          "1 123456789012345678901234567890 add", "1 0x1ffffffffffffffff", "(1", "let A := 1; let A := 2;", "B", '"%( 1 "', "08"]


def hexs(s):
    return s.encode().hex()


def gen_history(rng, n_sets, n_stacks, length, inputs=None, others=None):
    """random well-formed history; returns token list and, per result set, (query A/B, stack id)"""
    inputs = inputs or INPUTS
    OTHERS = others or globals()["OTHERS"]
    toks = [("s%d@%s=%s" % (j, hexs(inputs[j][0]), hexs(inputs[j][1]))) if isinstance(inputs[j], tuple) else ("s%d=%s" % (j, hexs(inputs[j]))) for j in range(n_stacks)]
    live, info = [], {}
    nxt = 0
    for _ in range(length):
        r = rng.random()
        if (not live and nxt < 6) or (r < 0.25 and len(live) < n_sets and nxt < 6):
            ab = rng.choice("ab")
            sj = rng.randrange(n_stacks)
            toks.append("e%d%ss%d" % (nxt, ab, sj))
            info[nxt] = (ab, sj)
            live.append(nxt)
            nxt += 1
        elif r < 0.80 and live:
            toks.append("p%d" % rng.choice(live))
        elif r < 0.88 and live:
            k = rng.choice(live)
            toks.append("d%d" % k)
            live.remove(k)
        elif r < 0.94:
            toks.append("c=" + hexs(rng.choice(OTHERS)))
        else:
            toks.append("x%d=%s" % (rng.randrange(100), hexs(rng.choice(OTHERS))))
    return toks, info


def static_scan():
    """function-local / file-level non-const static objects and mutable members in libzwerg"""
    found = []
    src = os.path.join(common.REPO, "libzwerg")
    pat = re.compile(r"^\s*static\s+(?!const\b|constexpr\b|inline\b)([^()]*?)\b(\w+)\s*(=|\{|;)")
    for fn in sorted(os.listdir(src)):
        if not re.search(r"\.(cc|hh|yy|ll)$", fn) or fn.startswith("test-") or fn == "dwgrep-gendoc.cc":
            continue
        guarded = 0        # depth inside #ifdef DWGREP_VERIF (the verification hooks are not part of the product)
        depth = []
        for n, line in enumerate(open(os.path.join(src, fn), errors="replace"), 1):
            l = line.strip()
            if re.match(r"#\s*if", l):
                depth.append("DWGREP_VERIF" in l)
                guarded += depth[-1]
                continue
            if re.match(r"#\s*endif", l) and depth:
                guarded -= depth.pop()
                continue
            if guarded:
                continue
            if re.match(r"mutable\b", l):
                found.append("%s: %s" % (fn, re.sub(r"\s+", " ", l)[:80]))
                continue
            m = pat.match(line)
            if m and " const " not in " " + m.group(1) + " " and "value_type const" not in line:
                found.append("%s: %s" % (fn, re.sub(r"\s+", " ", l)[:80]))
    return sorted(set(found))


ALLOW = None


def malformed_input(ctx):
    import subprocess
    d = os.path.join(common.BUILD, "dw", "C12-" + ctx.tier)
    os.makedirs(d, exist_ok=True)
    obj = os.path.join(d, "badabbrev.o")
    subprocess.run(["as", "-o", obj, os.path.join(common.VERIF, "vlib", "data", "badabbrev.s")], check=True)
    return obj


def purity_object(ctx):
    """two DWARF 4 units with different base addresses, each with a subprogram whose DW_AT_high_pc is an offset
    (libdw reads it by trial and error), a constant of an unnamed structure type in block form, and parameters
    whose location lists have several base-relative entries"""
    from vlib.dwgen import Attr, Die, Unit, Forest, write_object
    from vlib import dwloc
    lists = [[(0x0, 0x8, [("DW_OP_reg0",)]), (0x8, 0x10, [("DW_OP_reg1",)]), (0x10, 0x20, [("DW_OP_fbreg", -8)]), (0x20, 0x30, [("DW_OP_reg2",)])],
             [(0x4, 0xc, [("DW_OP_reg3",)]), (0xc, 0x1c, [("DW_OP_lit1",), ("DW_OP_stack_value",)]), (0x1c, 0x2c, [("DW_OP_reg4",)])],
             [(0x0, 0x10, [("DW_OP_reg5",)]), (0x10, 0x18, [("DW_OP_reg6",)]), (0x18, 0x28, [("DW_OP_reg7",)])],
             [(0x2, 0x6, [("DW_OP_reg8",)]), (0x6, 0xa, [("DW_OP_reg9",)]), (0xa, 0x1a, [("DW_OP_reg10",)]), (0x1a, 0x2a, [("DW_OP_reg11",)])]]
    offs, off = [], 0
    for entries in lists:
        offs.append(off)
        for b, e, o in entries:
            off += 8 + 8 + 2 + len(dwloc.expr_layout(o)[1])
        off += 16
    units = []
    for i, base in enumerate((0x10000, 0x20000)):
        st = Die("DW_TAG_structure_type", [Attr("DW_AT_byte_size", "DW_FORM_data1", 4)], [Die("DW_TAG_member", [Attr("DW_AT_name", "DW_FORM_string", b"a")])])
        kids = [st,
                Die("DW_TAG_variable", [Attr("DW_AT_name", "DW_FORM_string", b"s%d" % i), Attr("DW_AT_type", "DW_FORM_ref4", st),
                                        Attr("DW_AT_const_value", "DW_FORM_block1", [1 + i, 2, 3, 4])]),
                Die("DW_TAG_subprogram", [Attr("DW_AT_name", "DW_FORM_string", b"f%d" % i), Attr("DW_AT_low_pc", "DW_FORM_addr", base),
                                          Attr("DW_AT_high_pc", "DW_FORM_data4", 0x40)],
                    [Die("DW_TAG_formal_parameter", [Attr("DW_AT_name", "DW_FORM_string", b"p%d" % k), Attr("DW_AT_location", "DW_FORM_sec_offset", offs[2 * i + k])]) for k in (0, 1)])]
        units.append(Unit(Die("DW_TAG_compile_unit", [Attr("DW_AT_name", "DW_FORM_string", b"pure%d" % i), Attr("DW_AT_low_pc", "DW_FORM_addr", base)], kids, flag=True), 4))
    f = Forest(units)
    f.loc = lists
    d = os.path.join(common.BUILD, "dw", "C12-" + ctx.tier)
    os.makedirs(d, exist_ok=True)
    obj = os.path.join(d, "purity.o")
    write_object(f, obj)
    return obj


PURITY_PROGRAMS = ["entry @AT_const_value", "entry ?AT_high_pc high", "entry @AT_location address", 'entry @AT_location "%s"',
                   "entry (|E| [E high], [E @AT_const_value])", "entry @AT_location elem label", "entry ?AT_location (|E| [E @AT_location address])"]


def run(ctx):
    oblig = common.prepare(ctx)
    if oblig is None:
        return ctx.finish(None)
    quick = ctx.tier == "quick"
    rng = ctx.sub_rng("hist")
    files = [os.path.join(common.REPO, "tests", f) for f in ("a1.out", "dwz-partial2-1", "twocus", "y.o")]
    # a unit that cannot be walked to its end (undefined abbreviation code): whatever a failed
    # execution left behind in the caches of the Dwarf value must not show in the next one
    bad_obj = malformed_input(ctx)
    progs = [(p, None) for p in PROGRAMS]
    g = zgen.G(ctx.sub_rng("gen"), max_depth=2, illtyped=0.02)
    progs += [(g.program(), None) for _ in range(40 if quick else 400)]
    progs += [(p, f) for p in DW_PROGRAMS for f in (files if not quick else rng.sample(files, 2))]
    # what one execution asked libdw must not show in the next: errors left pending by calls that succeeded,
    # state that a walk keeps between its steps
    pure_obj = purity_object(ctx)
    progs += [(p, pure_obj) for p in PURITY_PROGRAMS]
    dw_others = ['"%s" dwopen entry ?AT_high_pc high' % pure_obj, '"%s" dwopen entry @AT_location address' % pure_obj, '"%s" dwopen entry @AT_const_value' % pure_obj,
                 '"%s" dwopen entry attribute value' % pure_obj, '"%s" dwopen entry @AT_decl_file' % pure_obj]
    progs += [(p, bad_obj) for p in ("entry parent offset", "entry [|E| E offset, E parent offset]", "entry offset", "raw entry parent offset",
                                     "[entry] length", "unit root child parent label", "entry (|E| E parent (|P| P child (== E))) offset")]

    # one compiled query over files of different machines (what the query learnt about one file must not show on the next)
    T_ = os.path.join(common.REPO, "tests")
    MIXF = [os.path.join(T_, n_) for n_ in ("y.o", "y-mips.o", "a1.out")]
    MIXP = ['symbol binding "%s"', 'symbol label "%s"', '[symbol (binding, label)] "%s"', "symbol ?(binding == STB_MIPS_SPLIT_COMMON) pos", "symbol binding", "symbol label", "symbol [label, binding, visibility]", 'symbol "%s"', "symbol (|S| [S label, S binding])", "entry label", "[symbol binding] length"]
    mixed = [(p_, "MIXED") for p_ in MIXP] if all(os.path.exists(x) for x in MIXF) else []
    # fresh runs: every (program, input) in its own process
    fresh_lines, fresh_key = [], []
    for p, f in progs + mixed:
        for j, inp in enumerate(INPUTS if f is None else DW_INPUTS):
            fresh_lines.append(zw.enc(p, inq=inp, dw=(MIXF[j] if f == "MIXED" else f), t=5, max=300))
            fresh_key.append((p, f, j))
    fresh = zw.run_cases(fresh_lines, chunk=1)
    ref = {}
    for key, r in zip(fresh_key, fresh):
        ref[key] = r

    hist_lines, meta = [], []
    for p, f in progs + mixed:
        for _ in range(3 if quick else 12):
            if f == "MIXED":
                order = rng.sample(range(3), 3)
                toks, info = gen_history(rng, 3, 3, rng.choice([10, 16, 30, 60]), [(MIXF[j_], "") for j_ in order], OTHERS)
                info = {k_: (ab_, order[sj_]) for k_, (ab_, sj_) in info.items()}       # stack id -> which file it was opened from
            else:
                toks, info = gen_history(rng, 3, 3, rng.choice([6, 10, 16, 30, 60]), None if f is None else DW_INPUTS, None if f is None else OTHERS + dw_others * 2)
            hist_lines.append(zw.enc(p, m="hist", script=",".join(toks), dw=(None if f == "MIXED" else f), t=10))
            meta.append((p, f, toks, info))
    # histories run many per process (so that statics / caches survive from one to the next)
    hres = zw.run_cases(hist_lines, jobs=4)
    evaluations = 0
    nontrivial = 0
    viol = 0
    samples = []
    for (p, f, toks, info), r in zip(meta, hres):
        if r.compile_error is not None and ref[(p, f, 0)].compile_error is None and not ref[(p, f, 0)].crash:
            viol += 1
            if viol <= 6:
                ctx.violation("`%s` compiles in a fresh process; after other histories in the same process it is rejected: %s" % (p, r.compile_error),
                              {"query": p, "script": toks, "file": f})
            continue
        if r.compile_error is not None or "input_error" in r.d:
            continue
        if r.crash and "timeout" in str(r.crash):
            continue            # a program whose evaluation does not finish in time says nothing about purity
        if "recompile_error" in r.d:
            viol += 1
            if viol <= 6:
                ctx.violation("`%s` compiled at the start of a history; compiled again later in the same process it is rejected: %s" % (p, r.d["recompile_error"]),
                              {"query": p, "script": toks, "file": f})
            continue
        if r.crash:
            viol += 1
            if viol <= 6:
                ctx.violation("history on `%s` crashes the library: %s" % (p, r.crash), {"query": p, "script": toks, "file": f})
            continue
        if r.d.get("stacks_modified"):
            viol += 1
            if viol <= 6:
                ctx.violation("history on `%s` modifies an input stack" % p, {"query": p, "script": toks, "file": f})
        seen = {}
        for k, item, errs in r.d["pulls"]:
            seen.setdefault(k, []).append((item, errs))
        for k, pulls in seen.items():
            ab, sj = info[k]
            fr = ref[(p, f, sj)]
            if not fr.ok():
                continue
            exp = [zw.canon_stack(s) for s in fr.results]
            got = []
            ended = False
            for item, errs in pulls:
                evaluations += 1
                if item is None:
                    ended = True
                    got.append(None)
                elif isinstance(item, dict):
                    got.append(("error", item.get("error")))
                else:
                    got.append(zw.canon_stack(item))
            if len(pulls) > 1 and len(seen) > 1:
                nontrivial += 1
            # compare prefix; after the end everything must be None
            bad = None
            for i, gval in enumerate(got):
                if fr.hard is not None and i >= len(exp):
                    if not (isinstance(gval, tuple) and gval and gval[0] == "error") and gval is not None:
                        bad = (i, gval, "error")
                    break
                want = exp[i] if i < len(exp) else None
                if fr.truncated and i >= len(exp):
                    break
                if gval != want:
                    bad = (i, gval, want)
                    break
            if bad:
                viol += 1
                if viol <= 6:
                    ctx.violation("`%s` (compiled as %s) on input `%s`: pull %d of result set %d gives %s, a fresh run gives %s" %
                                  (p, ab.upper(), (INPUTS if f is None else DW_INPUTS)[sj], bad[0], k, str(bad[1])[:160], str(bad[2])[:160]),
                                  {"query": p, "script": toks, "file": f, "input": (INPUTS if f is None else DW_INPUTS)[sj], "result_set": k})
        if len(samples) < 3:
            samples.append({"query": p, "script": ",".join(toks)[:300]})

    scan = static_scan()
    allow_path = os.path.join(common.VERIF, "checks", "C12_static_allow.txt")
    allow = [l.rstrip("\n") for l in open(allow_path)] if os.path.exists(allow_path) else []
    new_static = [s for s in scan if s not in allow]
    if new_static:
        ctx.violation("libzwerg gained process-wide mutable state that the model assumes away: " + "; ".join(new_static[:4]),
                      {"new_static_state": new_static}, no_input=True)
    common.report_broken_obligations(ctx, oblig, bool(ctx.violations))
    ctx.cov.update({
        "evaluations": evaluations,
        "distinct_nontrivial": nontrivial,
        "rule": "histories (random, length 6-30) of execute/pull/destroy over <= 3 live result sets and 3 input stacks, over the query compiled once and a second time, with unrelated queries (other backtick-bracket depths, closures, blocks) compiled/executed in between, %d programs (22 hand-picked covering every stateful construct, random ones, 14 DWARF producers on sample files and on a unit that cannot be walked to its end, 7 on a generated file whose values make libdw probe and keep state: offset-form high_pc, constants of unnamed structure types, multi-entry location lists in units with different base addresses; there the unrelated queries in between open that file and ask the same things); every pull compared with a fresh run in a fresh process; non-trivial = a result set pulled more than once while another one is live" % len(progs),
        "samples": samples,
        "traces_validated_against_impl": len(hist_lines),
        "programs": len(progs), "histories": len(hist_lines),
        "static_scan": scan,
    })
    return ctx.finish(oblig)


def replay(ctx, path):
    case = json.load(open(path))["case"]
    common.build_impl("plain")
    if "script" not in case:
        print(json.dumps(case, indent=1)[:2000])
        return 0
    r = zw.run_cases([zw.enc(case["query"], m="hist", script=",".join(case["script"]), dw=case.get("file"), t=10)])[0]
    print("query :", case["query"])
    print("script:", ",".join(case["script"]))
    print(json.dumps(r.d)[:3000])
    return 0
