"""C06 — cooked view = raw view with imports inlined and inherited attributes integrated.

Proof: coq/props/Properties_C06.v (dw/Forest.v: cooked_kids, cooked_attrs).
Correspondence: (a) generated forests with arbitrary acyclic import graphs
(nested, shared, repeated) and specification/abstract_origin chains (length
up to 20, both links on one DIE, repeated names, DW_AT_sibling and
DW_AT_declaration present): cooked children and cooked attribute (name, form)
lists of every DIE and the cooked unit list against the extracted model;
(b) the word pairs of the statement on every generated input and sample:
@AT_x vs attribute ?AT_x cooked value, ?AT_x vs attribute ?AT_x, name vs
@AT_name, ?TAG_x vs label, ?FORM_x vs form, ?OP_x vs operation labels.
"""
import json
import os

from vlib import common, zw, dwforest, dwcheck

AT = ["name", "decl_line", "decl_file", "byte_size", "external", "declaration", "const_value", "specification", "abstract_origin",
      "sibling", "type", "location", "language", "encoding", "low_pc", "object_pointer", "inline", "accessibility"]
TAG = ["compile_unit", "partial_unit", "imported_unit", "variable", "subprogram", "namespace", "lexical_block", "base_type", "structure_type", "member", "typedef"]
FORM = ["string", "strp", "data1", "data2", "data4", "udata", "sdata", "flag", "flag_present", "ref4", "ref_addr", "ref_udata", "exprloc", "addr", "sec_offset"]
OP = ["fbreg", "addr", "call_frame_cfa", "reg5", "breg7", "bregx", "plus_uconst", "piece", "stack_value", "lit0"]


def pairs(voc):
    out = []
    for x in AT:
        if "@AT_" + x in voc:
            out.append(("@AT_%s = attribute ?AT_%s cooked value" % (x, x), "entry [offset, [@AT_%s]]" % x, "entry [offset, [attribute ?AT_%s cooked value]]" % x))
            out.append(("?AT_%s iff attribute ?AT_%s" % (x, x), "entry ?AT_%s offset" % x, "entry ?(attribute ?AT_%s) offset" % x))
            out.append(("!AT_%s iff not attribute ?AT_%s" % (x, x), "entry !AT_%s offset" % x, "entry !(attribute ?AT_%s) offset" % x))
            out.append(("attribute ?AT_%s iff label == DW_AT_%s" % (x, x), "entry attribute ?AT_%s [offset, label]" % x, "entry attribute ?(label == DW_AT_%s) [offset, label]" % x))
    out.append(("name = @AT_name", "entry [offset, [name]]", "entry [offset, [@AT_name]]"))
    for x in TAG:
        if "?TAG_" + x in voc:
            out.append(("?TAG_%s iff label == DW_TAG_%s" % (x, x), "entry ?TAG_%s offset" % x, "entry ?(label == DW_TAG_%s) offset" % x))
            out.append(("!TAG_%s" % x, "entry !TAG_%s offset" % x, "entry !(label == DW_TAG_%s) offset" % x))
    for x in FORM:
        if "?FORM_" + x in voc:
            out.append(("?FORM_%s iff form == DW_FORM_%s" % (x, x), "entry attribute ?FORM_%s [offset, label]" % x, "entry attribute ?(form == DW_FORM_%s) [offset, label]" % x))
    for x in OP:
        if "?OP_" + x in voc:
            out.append(("?OP_%s on operations" % x, "entry attribute ?AT_location value elem ?OP_%s offset" % x,
                        "entry attribute ?AT_location value elem ?(label == DW_OP_%s) offset" % x))
    return out


def run(ctx):
    oblig = common.prepare(ctx)
    if oblig is None:
        return ctx.finish(None)
    quick = ctx.tier == "quick"
    stats = {"evaluations": 0, "dies": 0}
    nviol = [0]

    def bad(what, case):
        nviol[0] += 1
        if nviol[0] <= 6:
            ctx.violation(what, case)

    inputs = dwcheck.build_inputs(ctx, 50 if quick else 400, imports=True, links=True)
    dwcheck.compare_views(ctx, inputs, ("cooked",), ["off", "tag", "kids", "attrs"], bad, stats)
    # find_attribute against its model (dw/FindAttr.v; C06_atval_is_first_attribute ties that model to the producer's):
    # for every stored DIE and ten attribute names, which DIE `@AT_x` / `?AT_x` / the first `attribute ?AT_x` take it from
    FNAMES = [1, 3, 11, 28, 49, 59, 60, 63, 71, 0x2007]
    fmodels = dwforest.model_rows([f_ for _, f_, _ in inputs])
    fq = "raw entry (|E| [E offset, %s])" % ", ".join("[E cooked attribute ?(label value == %d)]" % x for x in FNAMES)
    for (name_, f_, path_), m_ in zip(inputs, fmodels):
        r_ = zw.run_cases([zw.enc(fq, dw=path_, t=60, max=20000)])[0]
        stats["evaluations"] += 1
        if not r_.ok():
            bad("`%s` on %s fails: %s" % (fq[:60], name_, str(r_.crash or r_.hard)[:100]), {"input": name_, "file": path_, "query": fq})
            continue
        for st in r_.results:
            v_ = st[0]["v"]
            off_ = int(v_[0]["v"])
            for x_, lst_ in zip(FNAMES, v_[1:]):
                got_ = (lst_["v"][0]["die"], lst_["v"][0]["form"]) if lst_["v"] else None
                want_ = m_["find"].get(off_, {}).get(x_)
                if got_ != want_:
                    bad("DIE %#x of %s, attribute name %#x: the first `attribute` of that name sits on DIE / has form %s; the model of find_attribute finds %s" % (off_, name_, x_, got_, want_),
                        {"input": name_, "file": path_, "die": off_, "attribute": x_, "kind": "find-attribute"})
                    break
    dwcheck.compare_archives(ctx, inputs, ("cooked",), ["off", "tag", "kids", "attrs"], bad, stats)
    voc = set(zw.run_cases(["@m=voc"])[0].d["words"])
    P = pairs(voc)
    files = [(n, p) for n, _, p in inputs] + [(os.path.basename(p), p) for p in dwforest.sample_files()]
    if quick:
        files = files[:30] + files[len(inputs):]
    npairs = 0
    for name, p in files:
        if len(ctx.violations) >= 6:
            break                     # enough to report; on a tree this broken every further file costs minutes
        probe = zw.run_cases([zw.enc("[entry] length", dw=p, t=30)])[0]
        if not probe.ok() or not probe.results:
            if probe.crash:
                bad("`[entry] length` on %s: %s" % (name, probe.crash), {"file": p, "query": "[entry] length"})
            continue
        cap = 40 * int(probe.results[0][0]["v"]) + 1000          # no pair yields more than a few values per DIE
        lines = []
        for _, a, b in P:
            lines += [zw.enc(a, dw=p, t=60, max=cap), zw.enc(b, dw=p, t=60, max=cap)]
        rs = zw.run_cases(lines)
        for k, (ln, a, b) in enumerate(P):
            ra, rb = rs[2 * k], rs[2 * k + 1]
            stats["evaluations"] += 2
            npairs += 1
            ca = [zw.canon_stack(s, False) for s in ra.results] if ra.ok() else "ERR " + json.dumps(ra.d)[:100]
            cb = [zw.canon_stack(s, False) for s in rb.results] if rb.ok() else "ERR " + json.dumps(rb.d)[:100]
            if ca != cb:
                diff = next((i for i, (x, y) in enumerate(zip(ca, cb)) if x != y), min(len(ca), len(cb))) if isinstance(ca, list) and isinstance(cb, list) else 0
                bad("on %s the pair `%s` differs: `%s` gives %s result(s), `%s` gives %s; first difference at result %d: %s vs %s" %
                    (name, ln, a, len(ca) if isinstance(ca, list) else ca, b, len(cb) if isinstance(cb, list) else cb, diff,
                     str(ca[diff])[:150] if isinstance(ca, list) and diff < len(ca) else "-", str(cb[diff])[:150] if isinstance(cb, list) and diff < len(cb) else "-"),
                    {"input": name, "file": p, "pair": ln, "query": a, "query2": b})
    common.report_broken_obligations(ctx, oblig, bool(ctx.violations))
    ctx.cov.update({
        "evaluations": stats["evaluations"], "distinct_nontrivial": stats["dies"],
        "rule": "%d generated inputs (named shapes: imports nested 3 deep / diamond / repeated, 21-long alternating specification and abstract_origin chain, a DIE with both links in either order, repeated names; random forests with links between any DIEs across units, DW_AT_sibling/declaration present) compared in cooked mode on children and attribute (name, form) lists of every DIE and on the unit list; %d word-pair comparisons (%d pairs x inputs and samples)" % (len(inputs), npairs, len(P)),
        "samples": [P[0][1], P[0][2], P[-1][1]],
        "traces_validated_against_impl": stats["dies"] + npairs,
        "violations_found": nviol[0],
    })
    return ctx.finish(oblig)


def replay(ctx, path):
    case = json.load(open(path))["case"]
    common.build_impl("plain")
    print(json.dumps(case, indent=1)[:1200])
    for k in ("query", "query2"):
        if case.get(k) and os.path.exists(case.get("file", "")):
            r = zw.run_cases([zw.enc(case[k], dw=case["file"], max=2000)])[0]
            print(case[k], "->", len(r.results), "results")
    return 0
