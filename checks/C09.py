"""C09 — comparison is one consistent total order; equality respects domains.

Proof: coq/props/Properties_C09.v over coq/val/Cmp.v.
Correspondence: every ordered pair of a value pool is compared by all twelve
word forms and six infix forms through the library (zwdrv) and by the
extracted model; the domain-address order the model is parameterised by is
observed on the running implementation first.  The laws (trichotomy,
symmetry, transitivity over all triples, duality, congruence) are also
checked directly on the implementation's table.
"""
import itertools
import json
import os

from vlib import common, zw

WORDS = ["?lt", "?eq", "?gt", "?ne", "?ge", "?le", "!lt", "!eq", "!gt", "!ne", "!ge", "!le"]
INFIX = ["<", "==", ">", "!=", ">=", "<="]


def pool(tier):
    csts = ["0", "1", "3", "-1", "-3", "0x3", "0x10", "03", "0b11", "18446744073709551615", "-9223372036854775808",
            "true", "false", "T_CONST", "T_STR", "T_SEQ",
            "DW_TAG_array_type", "DW_AT_sibling", "DW_FORM_addr", "DW_TAG_entry_point", "DW_AT_name", "DW_FORM_block2",
            "DW_TAG_member", "DW_LANG_C89", "DW_ATE_signed", "DW_OP_addr", "DW_INL_inlined",
            "STT_FUNC", "STT_ARM_TFUNC", "STT_SPARC_REGISTER", "STT_GNU_IFUNC", "STB_GLOBAL", "STB_MIPS_SPLIT_COMMON", "STV_HIDDEN",
            # the same number in the other internal representation (signed, yet not negative) and unsigned ones above 2^63
            "-0", "true value", "(6 -3 mod)", "(7 -3 mod)", "0x8000000000000000", "0x8000000000000001",
            "[5] elem pos", "3 hex", "3 value", "DW_AT_name value", "DW_AT_name hex",
            # constants of machine-specific ELF domains, as read from files (F1: ARM object, F2: MIPS object)
            "F1 symbol (pos == 1) label", "F1 symbol (pos == 9) label", "F1 symbol (pos == 0) binding",
            "F2 symbol (pos == 1) label", "F2 symbol (pos == 9) label", "F2 symbol (pos == 9) binding", "F2 symbol (pos == 0) binding",
            "F1 symbol (pos == 2) visibility"]
    strs = ['""', '"a"', '"ab"', '"b"', '"a\\x00"', '"a\\x00b"', '"\\xff"', '"\\x7f"', '"\\x80a"', '"z"', '"1"']
    seqs = ["[]", "[1]", "[3]", "[0x3]", "[1, 2]", "[2, 1]", '["a"]', "[[1]]", "[[]]", '[1, "a"]', '["a", 1]', "[DW_AT_name]",
            "[[1], [2]]", '["a", "b"]', '[[], 1]', '[1, []]', "[DW_TAG_entry_point]", "[1, 2, 3]",
            # long ones whose first difference (of type, of value) comes late
            "[1, 1, 1, 1, 1, 1, 1, 1, 1, 1]", '[1, 1, 1, 1, 1, 1, 1, 1, 1, "a"]', '[1, 1, 1, 1, 1, 1, 1, 1, "a", 0]', '[1, 1, 1, 1, 1, 1, 1, 1, 2, []]']
    asets = ["0 0 aset", "0 10 aset", "0 10 aset 20 30 aset add", "5 10 aset", "0 10 aset 20 31 aset add", "[0 10 aset]",
             # ranges far apart in the 64-bit address space (start or length differing by 2^62, 2^63 and more)
             "0x4000000000000001 0x4000000000000011 aset", "0x8000000000000002 0x8000000000000012 aset",
             "0 0xffffffffffffffff aset", "0xffffffff81000000 0xffffffff81000010 aset", "0 0x8000000000000005 aset"]
    p = csts + strs + seqs + asets
    if tier == "thorough":
        p += ["-0x8000000000000000", "DW_AT_decl_line", "DW_FORM_data1", "DW_OP_plus",
              "STT_OBJECT", "STB_LOCAL", "[[[1]]]", '"ab\\x00"', "[3, 3]", "[T_CONST]", "[true]", "[false]", "1 0 aset"]
    return p


def to_sexp(v, keyrank):
    t = v["t"]
    if t == "c":
        if v["ar"]:
            return "(c %s 1 0)" % v["v"]
        return "(c %s 0 %d)" % (v["v"], keyrank[v["k"]])
    if t == "s":
        return "(s %s)" % v["v"]
    if t == "q":
        return "(q %s)" % " ".join(to_sexp(x, keyrank) for x in v["v"])
    if t == "a":
        return "(a %s)" % " ".join("%s %s" % (a, b) for a, b in v["v"])
    raise ValueError("value not modelled: " + t)


def keys_in(v, acc):
    if v["t"] == "c":
        acc.add("ARITH" if v["ar"] else v["k"])
    elif v["t"] == "q":
        for x in v["v"]:
            keys_in(x, acc)


def first_cst_with_key(vals, key):
    for i, v in enumerate(vals):
        if v["t"] == "c" and ("ARITH" if v["ar"] else v["k"]) == key:
            return i
    return None


FILES = common.REPO + "/tests/y.o," + common.REPO + "/tests/y-mips.o"


def wrap(e):
    """pool expressions may refer to the two sample objects as F1 / F2"""
    return "(|F1 F2| %s)" % e


def pair_query(a, b):
    parts = ['(X Y %s "%s")' % (w, w) for w in WORDS] + ['((X %s Y) "%s")' % (o, o) for o in INFIX]
    return wrap("%s %s (|X Y| [%s])" % (a, b, ", ".join(parts)))


def run(ctx):
    oblig = common.prepare(ctx)
    if oblig is None:
        return ctx.finish(None)
    P = pool(ctx.tier)
    n = len(P)
    # one zwdrv invocation: value dumps, type codes, then all ordered pairs
    lines = [zw.enc(wrap(e), dw=FILES) for e in P]
    lines += [zw.enc(e) for e in ["T_CONST value", "T_STR value", "T_SEQ value", "T_ASET value"]]
    pairs = [(i, j) for i in range(n) for j in range(n)]
    lines += [zw.enc(pair_query(P[i], P[j]), dw=FILES) for i, j in pairs]
    ress = zw.run_cases(lines, chunk=10 ** 6, timeout=3000)
    vals = []
    for e, r in zip(P, ress[:n]):
        if not r.ok() or len(r.results) != 1 or len(r.results[0]) != 1:
            ctx.violation("pool expression `%s` does not evaluate to one value: %s" % (e, json.dumps(r.d)[:200]), {"query": e})
            return ctx.finish(oblig)
        vals.append(r.results[0][0])
    tcs = []
    for r in ress[n:n + 4]:
        tcs.append(int(r.results[0][0]["v"]))
    table = {}
    evaluations = 0
    for (i, j), r in zip(pairs, ress[n + 4:]):
        evaluations += 18
        if not r.ok() or r.hard or r.errors or len(r.results) != 1:
            ctx.violation("comparing `%s` with `%s` raised an error or crashed: %s" % (P[i], P[j], json.dumps(r.d)[:300]),
                          {"query": pair_query(P[i], P[j]), "a": P[i], "b": P[j]})
            table[(i, j)] = None
            continue
        got = set(bytes.fromhex(x["v"]).decode() for x in r.results[0][0]["v"])
        table[(i, j)] = got

    # ---- observe the domain-address order the model is parameterised by
    keys = set()
    for v in vals:
        keys_in(v, keys)
    keys = sorted(keys)
    rep = {k: first_cst_with_key(vals, k) for k in keys}
    rank = {}
    order_ok = True
    for k in keys:
        if rep[k] is None:
            continue
        smaller = 0
        for k2 in keys:
            if k2 != k and rep[k2] is not None:
                t = table.get((rep[k2], rep[k]))
                if t is not None and "?lt" in t:
                    smaller += 1
        rank[k] = smaller + 1
    if len(set(rank.values())) != len(rank):
        order_ok = False
        dup = [k for k in rank if list(rank.values()).count(rank[k]) > 1]
        ctx.violation("constants of different domains are not totally ordered: domains %s cannot be ranked consistently" % dup[:4],
                      {"domains": dup, "pool": [P[rep[k]] for k in dup]})
    # keys that only occur nested (no representative at top level) get fresh ranks
    nxt = max(rank.values(), default=0) + 1
    for k in keys:
        if k not in rank:
            rank[k] = nxt
            nxt += 1
    dec_rank = rank.get("ARITH", 0)
    keyrank = {k: r for k, r in rank.items()}

    # ---- model
    inp = "%d %d %d %d %d\n" % (dec_rank, tcs[0], tcs[1], tcs[2], tcs[3])
    inp += "".join(to_sexp(v, keyrank) + "\n" for v in vals)
    rc, out, err = common.run([common.model_bin(), "cmp"], input=inp, timeout=600)
    if rc != 0:
        ctx.violation("model driver failed", {"stderr": err[-400:]}, no_input=True)
        return ctx.finish(oblig)
    if len(set(tcs)) != 4:
        ctx.violation("value type codes are not distinct: %s" % tcs, {"tcodes": tcs}, no_input=True)
    model = {}
    for l in out.strip().split("\n"):
        f = l.split()
        model[(int(f[0]), int(f[1]))] = f[2:]
    cols = ["?lt", "?eq", "?gt", "?ne", "?ge", "?le"]
    neg = {"?lt": "!lt", "?eq": "!eq", "?gt": "!gt", "?ne": "!ne", "?ge": "!ge", "?le": "!le"}
    infix = {"?lt": "<", "?eq": "==", "?gt": ">", "?ne": "!=", "?ge": ">=", "?le": "<="}
    disagreements = 0
    reported = 0
    for (i, j) in pairs:
        t = table.get((i, j))
        if t is None:
            continue
        m = model[(i, j)]
        for c, w in enumerate(cols):
            want_pos = (m[c] == "1")
            want_neg = (m[c] == "0")
            obs = (w in t, neg[w] in t, infix[w] in t)
            if obs != (want_pos, want_neg, want_pos):
                disagreements += 1
                if reported < 8:
                    if ctx.violation("`%s` vs `%s`: %s/%s/(%s) hold=%s but the order says %s" %
                                     (P[i], P[j], w, neg[w], infix[w], obs, (want_pos, want_neg, want_pos)),
                                     {"a": P[i], "b": P[j], "word": w, "observed": sorted(t), "model": m,
                                      "query": pair_query(P[i], P[j])}):
                        reported += 1

    # ---- the laws, directly on the implementation's table
    def rel(i, j):
        t = table.get((i, j))
        if t is None:
            return None
        return ("L" if "?lt" in t else "") + ("E" if "?eq" in t else "") + ("G" if "?gt" in t else "")
    law_viol = 0

    def law(what, case):
        nonlocal law_viol
        if ctx.matches_known(case) is not None:
            ctx.violation(what, case)        # a listed finding: printed once, not counted against the cap
            return
        law_viol += 1
        if law_viol <= 6:
            ctx.violation(what, case)
    for i in range(n):
        if rel(i, i) != "E":
            law("`%s` is not equal to its own copy (%s)" % (P[i], rel(i, i)), {"a": P[i], "b": P[i], "law": "refl"})
        for j in range(n):
            r = rel(i, j)
            if r is None:
                continue
            if r not in ("L", "E", "G"):
                law("not exactly one of <, ==, > for `%s`, `%s`: %r" % (P[i], P[j], r), {"a": P[i], "b": P[j], "law": "trichotomy"})
            r2 = rel(j, i)
            if r2 is not None and {"L": "G", "G": "L", "E": "E"}.get(r) != r2:
                law("`%s` %s `%s` but reversed gives %s" % (P[i], r, P[j], r2), {"a": P[i], "b": P[j], "law": "duality"})
    triples = 0
    for i in range(n):
        for j in range(n):
            rij = rel(i, j)
            if rij not in ("L", "E"):
                continue
            for k in range(n):
                rjk = rel(j, k)
                if rjk not in ("L", "E"):
                    continue
                triples += 1
                rik = rel(i, k)
                want = "E" if (rij == "E" and rjk == "E") else "L"
                if rik is not None and rik != want:
                    law("transitivity fails: `%s` %s `%s` %s `%s` but first vs last is %s" % (P[i], rij, P[j], rjk, P[k], rik),
                        {"a": P[i], "b": P[j], "c": P[k], "law": "transitivity"})
    evaluations += triples

    # ---- DWARF values: DIEs reached through nested imports (their identity includes the chain of
    # imports), units, attributes: the same laws, checked by zero-count queries on generated forests
    from vlib import dwcheck, dwforest
    REFFORMS = "?(form (== DW_FORM_ref4, == DW_FORM_ref_addr, == DW_FORM_ref_udata, == DW_FORM_ref1, == DW_FORM_ref2, == DW_FORM_ref8, == DW_FORM_GNU_ref_alt))"
    DWLAWS = [
        ("die:reflexive", "[entry] (|L| L elem (|A| ?(A != A), ?(A < A), ?(A > A), !(A == A), (A dup ?ne), !(A dup ?eq)))"),
        ("die:exactly-one", "[entry] (|L| L elem (|A| L elem (|B| [?(A < B) 1, ?(A == B) 1, ?(A > B) 1] ?(length != 1))))"),
        ("die:duality", "[entry] (|L| L elem (|A| L elem (|B| (?(A < B) !(B > A)), (?(A > B) !(B < A)), (?(A == B) !(B == A)), (?(A != B) !(B != A)), (?(A <= B) !(B >= A)))))"),
        ("die:words-agree", "[entry] (|L| L elem (|A| L elem (|B| (?(A < B) !(A B ?lt)), (!(A < B) ?(A B ?lt)), (?(A == B) !(A B ?eq)), (!(A == B) ?(A B ?eq)), (?(A >= B) !(A B ?ge)))))"),
        # (triples of one and the same DIE along different routes: see die:routes-transitive)
        ("die:transitive", "[entry] (|L| L elem (|A| L elem (|B| ?(A <= B) L elem (|C| ?(B <= C) !(A <= C) !((A offset == B offset) (B offset == C offset))))))"),
        ("die:equal-means-same", "[entry] (|L| L elem (|A| L elem (|B| ?(A == B) ?((A offset) != (B offset)))))"),
        ("unit:exactly-one", "[unit] (|L| L elem (|A| L elem (|B| [?(A < B) 1, ?(A == B) 1, ?(A > B) 1] ?(length != 1))))"),
        ("attr:reflexive", "entry attribute (|A| ?(A != A), !(A == A), ?(A < A))"),
    ]
    DWLAWS += [
        # units that are equal are the same unit - also when the Dwarf value spans several files / sections
        # whose units start at the same offsets (a dwz alternate file, the members of an archive)
        ("unit:equal-means-same", "[(unit, entry ?TAG_imported_unit @AT_import unit, raw entry ?TAG_imported_unit @AT_import unit)] "
                                  "(|L| L elem (|A| L elem (|B| ?(A == B) (?((A root) != (B root)), ?([A entry offset] != [B entry offset])))))"),
        ("unit:all-exactly-one", "[(unit, entry ?TAG_imported_unit @AT_import unit)] (|L| L elem (|A| L elem (|B| [?(A < B) 1, ?(A == B) 1, ?(A > B) 1] ?(length != 1))))"),
        # the same DIE reached along two different chains of imports (A, C) and without any chain, as the target
        # of a reference (B): B equals both, they differ from each other (a DIE without an import chain matches
        # any context, by design: known finding)
        ("die:routes-transitive", "[entry] (|L| [entry attribute " + REFFORMS + " value ?(type == T_DIE)] (|R| L elem (|A| R elem ?(offset == A offset) (|B| ?(A == B) L elem ?(offset == A offset) (|C| ?(B == C) ?(A != C))))))"),
    ]
    dwin = [(nm, pth) for nm, _, pth in dwcheck.build_inputs(ctx, 6 if ctx.tier == "quick" else 40, imports=True, links=False)]
    # an archive of two generated objects (two modules, both with a unit at offset 0) and the dwz samples
    import subprocess as _sp
    ar_path = os.path.join(os.path.dirname(dwin[0][1]), "two-members.a")
    if os.path.exists(ar_path):
        os.unlink(ar_path)
    small = [pth for nm, pth in dwin if nm in ("hollow", "only-empty", "import-cu")][:2]
    if len(small) == 2 and _sp.run(["ar", "rcS", ar_path] + small).returncode == 0:
        dwin.append(("archive-of-two", ar_path))
    for smp in ("a1.out", "dwz-partial2-1", "dwz-partial3-1", "twocus"):
        dwin.append((smp, os.path.join(common.REPO, "tests", smp)))
    ndw = 0
    for nm, pth in dwin:
        sizes = zw.run_cases([zw.enc("[entry] length", dw=pth, t=60)])[0]
        if not sizes.ok() or not sizes.results:
            continue
        ndies = int(sizes.results[0][0]["v"])
        if ndies > 400:
            continue
        laws_here = [(ln, q) for ln, q in DWLAWS if ndies <= 45 or ln != "die:transitive"]    # that one is cubic in the number of DIEs
        counts = dwforest.law_counts(pth, laws_here)
        for ln, q in laws_here:
            evaluations += 1
            ndw += 1
            if counts[ln] != 0:
                law("on the generated forest %s the law %s is broken: `%s` yields %s (must yield nothing)" % (nm, ln, q, counts[ln]),
                    {"input": nm, "file": pth, "law": ln, "query": q})
    # ---- the other DWARF / ELF value types: values that are == show the same (location list entries and their
    # operations down to every operand, attributes, symbols however far apart in the table), exactly one of
    # <, ==, > holds, == is symmetric
    from vlib.dwgen import Attr as _Attr, Unit as _Unit, Forest as _Forest, Die as _Die, write_object as _wo
    from vlib import dwloc as _dwloc
    lists_ = [[(0x10, 0x20, [("DW_OP_bregx", 5, 8)]), (0x10, 0x20, [("DW_OP_bregx", 5, 16)]), (0x10, 0x20, [("DW_OP_bregx", 6, 8)]),
               (0x10, 0x20, [("DW_OP_bit_piece", 8, 0)]), (0x10, 0x20, [("DW_OP_bit_piece", 8, 4)]), (0x10, 0x28, [("DW_OP_bregx", 5, 8)]),
               (0x10, 0x20, [("DW_OP_bregx", 5, 8), ("DW_OP_deref",)]), (0x10, 0x20, [("DW_OP_fbreg", -8)]), (0x10, 0x20, [("DW_OP_fbreg", -16)])],
              [(0x10, 0x20, [("DW_OP_bregx", 5, 8)]), (0x30, 0x40, [("DW_OP_bit_piece", 8, 4), ("DW_OP_bit_piece", 8, 8)])]]
    offs_, off_ = [], 0
    for entries in lists_:
        offs_.append(off_)
        for b_, e_, o_ in entries:
            off_ += 8 + 8 + 2 + len(_dwloc.expr_layout(o_)[1])
        off_ += 16
    lroot = _Die("DW_TAG_compile_unit", [_Attr("DW_AT_name", "DW_FORM_string", b"locs"), _Attr("DW_AT_low_pc", "DW_FORM_addr", 0x1000)],
                 [_Die("DW_TAG_variable", [_Attr("DW_AT_name", "DW_FORM_string", b"l%d" % k), _Attr("DW_AT_location", "DW_FORM_sec_offset", o_)]) for k, o_ in enumerate(offs_)], flag=True)
    lf = _Forest([_Unit(lroot, 4)])
    lf.loc = lists_
    lpath = os.path.join(os.path.dirname(dwin[0][1]), "loc-entries.o")
    _wo(lf, lpath)
    many_s = os.path.join(os.path.dirname(dwin[0][1]), "many-syms.s")
    with open(many_s, "w") as fh:
        fh.write("\t.data\n" + "".join("m%d:\n\t.byte %d\n" % (i, i % 251) for i in range(66000)))
    many_o = many_s[:-2] + ".o"
    _sp.run(["as", "-o", many_o, many_s], check=True)
    KINDS = [("location list entries", "[entry @AT_location]", [lpath, os.path.join(common.REPO, "tests", "bitcount.o")]),
             ("location operations", "[entry @AT_location elem]", [lpath, os.path.join(common.REPO, "tests", "bitcount.o")]),
             ("attributes", "[entry attribute]", [lpath, os.path.join(common.REPO, "tests", "a1.out")]),
             ("symbols", "[symbol]", [os.path.join(common.REPO, "tests", "a1.out")]),
             ("symbols far apart in the table", "[symbol ?(pos == 7 || pos == 8 || pos == 65543 || pos == 65544 || pos == 65999)]", [many_o])]
    VLAWS = [("equal-shows-the-same", "L elem (|A| L elem (|B| ?(A == B) ?(\"%( A %)\" != \"%( B %)\")))"),
             ("equal-only-itself", "L elem (|A| L elem (|B| ?(A == B) ?(A pos != B pos)))"),
             ("exactly-one", "L elem (|A| L elem (|B| [?(A < B) 1, ?(A == B) 1, ?(A > B) 1] ?(length != 1)))"),
             ("symmetric", "L elem (|A| L elem (|B| (?(A == B) !(B == A)), (?(A < B) !(B > A))))")]
    for kind_, src_, files_ in KINDS:
        for f_ in files_:
            # (operations of different entries of one attribute's list are == when they sit at the same offset of their
            #  expressions: value_loclist_op::cmp looks at attribute and offset only - an equivalence, noted in DESIGN)
            laws_ = [("%s:%s" % (kind_, ln), "%s (|L| %s)" % (src_, q)) for ln, q in VLAWS if not (kind_ == "location operations" and ln.startswith("equal-"))]
            counts = dwforest.law_counts(f_, laws_)
            for ln, q in laws_:
                evaluations += 1
                ndw += 1
                if counts[ln] != 0:
                    law("on %s the law %s is broken: `%s` yields %s (must yield nothing)" % (os.path.basename(f_), ln, q, counts[ln]),
                        {"input": os.path.basename(f_), "file": f_, "law": ln, "query": q})
    # ---- value_die::cmp against its model (val/DieCmp.v): all pairs of the DIEs that `entry` (every DIE with
    # the imports it was reached through), `entry child` (only the imports met while listing the children) and
    # `raw entry` (raw: no imports) hand out on generated forests; the routes are known by construction
    def die_lists(forest):
        ent, kid = [], []
        def kids(dd, chain):
            for c_ in dd.children:
                a_ = c_.attr("DW_AT_import") if c_.tag == "DW_TAG_imported_unit" else None
                if a_ is not None and isinstance(a_.value, _Die):
                    yield from kids(a_.value, [c_.off] + chain)
                else:
                    yield c_, chain
        def walk(dd, chain):
            ent.append((dd.off, 0, chain))
            for c_, ch_ in kids(dd, []):
                kid.append((c_.off, 0, ch_))
            for c_, ch_ in kids(dd, chain):
                walk(c_, ch_)
        for u_ in forest.units:
            if u_.root is not None and u_.root.tag != "DW_TAG_partial_unit":
                walk(u_.root, [])
        rawl = [(dd.off, 1, []) for dd in forest.dies()]
        return ent, kid, rawl
    drng = ctx.sub_rng("diecmp")
    dd_ = os.path.dirname(dwin[0][1])
    dforests = [("imports", dict(dwforest.shaped_forests())["imports"]), ("import-cu", dict(dwforest.shaped_forests())["import-cu"])]
    dforests += [("dflat%d" % k, dwforest.flat_import_forest(drng)) for k in range(6 if ctx.tier == "quick" else 40)]
    dforests += [("drand%d" % k, dwforest.random_forest(drng, imports=True, links=False)) for k in range(4 if ctx.tier == "quick" else 30)]
    MATQ = "(|D| [D entry, D entry child, D raw entry]) (|L| [L elem (|A| L elem (|B| (?(A < B) 0, ?(A == B) 1, ?(A > B) 2)))])"
    npairs = 0
    for nm, f_ in dforests:
        dwforest.fix_small_refs(f_)
        pth = os.path.join(dd_, "diecmp-" + nm + ".o")
        _wo(f_, pth)
        ent, kid, rawl = die_lists(f_)
        # what `child` hands out, with which imports: from the model of the producer (dw/ChildIter.v; the theorem
        # C06_child_producer_is_the_expansion says it is the in-place expansion); the walk above must agree with it
        mrow_ = dwforest.model_rows([f_])[0]
        ment = [(o_, 0, ch_) for (o_, ch_) in mrow_.get("entries", [])]
        if ment != ent:
            law("on the generated forest %s the DIEs that the model of the cooked entry producer hands out (%s...) are not those of the expansion walked here (%s...)" % (nm, ment[:6], ent[:6]),
                {"input": nm, "file": pth, "law": "die:entry-producer-model", "query": "entry"})
            continue
        mk_ = mrow_.get("kids", {})
        mkid = [(o_, 0, ch_) for (off_, _, _) in ent for (o_, ch_) in mk_.get(off_, [])]
        if mkid != kid:
            law("on the generated forest %s the children that the model of the cooked child producer hands out (%s...) are not those of the expansion walked here (%s...)" % (nm, mkid[:6], kid[:6]),
                {"input": nm, "file": pth, "law": "die:child-producer-model", "query": "entry child"})
            continue
        allv = ent + kid + rawl
        if len(allv) > 160:
            continue
        r = zw.run_cases([zw.enc(MATQ, dw=pth, t=120, max=10)])[0]
        rc_, out_, err_ = common.run([common.model_bin(), "diecmp"], input=";".join("%d %d %s" % (o, rw, ",".join(str(c) for c in ch) or "-") for o, rw, ch in allv) + "\n", timeout=120)
        want = out_.strip()
        got = "".join(str(v["v"]) for v in r.results[0][0]["v"]) if r.ok() and r.results else None
        evaluations += len(allv) ** 2
        npairs += len(allv) ** 2
        if got != want:
            where = ""
            if got is not None and len(got) == len(want):
                k_ = next(i for i in range(len(got)) if got[i] != want[i])
                a_, b_ = allv[k_ // len(allv)], allv[k_ % len(allv)]
                lab = lambda x, i: "%s DIE %#x (imports %s)" % ("entry" if i < len(ent) else "entry child" if i < len(ent) + len(kid) else "raw", x[0], [hex(c) for c in x[2]])
                where = ": %s against %s is %s, the model of value_die::cmp says %s" % (lab(a_, k_ // len(allv)), lab(b_, k_ % len(allv)), "<=>"[int(got[k_])], "<=>"[int(want[k_])])
            else:
                where = ": %s results for %d values (%s)" % (None if got is None else len(got), len(allv), (r.crash or r.hard or "")[:80] if got is None else "not exactly one of <, ==, > for some pair")
            law("on the generated forest %s the comparison of DIEs differs from the model%s" % (nm, where), {"input": nm, "file": pth, "law": "die:model", "query": MATQ})
    # ---- infix forms = word forms also when an operand binds names (each operand is a scope of its own)
    BINDERS = ["(let T := 7; T)", "(let T := 7; T 1 add)", "(T 2 add)", "(let U := T; U)", "((|T| T) 1 add)", "(let T := 9; let U := 1; T U add)"]
    bq = []
    for A in BINDERS:
        for B in BINDERS:
            for op, w in zip(INFIX, ["?lt", "?eq", "?gt", "?ne", "?ge", "?le"]):
                bq.append(("let T := 5; (1, 2) (%s %s %s)" % (A, op, B), "let T := 5; (1, 2) ?(let X1 := %s; let X2 := %s; X1 X2 %s)" % (A, B, w)))
    br = zw.run_cases([zw.enc(x) for pr in bq for x in pr])
    for i, (qa, qb) in enumerate(bq):
        ra, rb = br[2 * i], br[2 * i + 1]
        evaluations += 2
        ca = (ra.compile_error, [zw.canon_stack(x) for x in ra.results]) if not ra.crash else ("crash", ra.crash)
        cb = (rb.compile_error, [zw.canon_stack(x) for x in rb.results]) if not rb.crash else ("crash", rb.crash)
        if ca != cb:
            law("the infix form `%s` and its word form `%s` differ: %s vs %s" % (qa, qb, str(ca)[:120], str(cb)[:120]), {"query": qa, "rewritten": qb, "law": "infix-word"})

    # ---- the integers underneath (int.cc): every boundary value in BOTH internal representations
    # (unsigned; signed, also when not negative), all ordered pairs, the six comparison operators
    # against the exact integer comparison (= CmpM on two arithmetic constants)
    from checks import C08 as c08
    lat = c08.lattice()
    istats = {"evaluations": 0, "disagreements": 0}
    before = len(ctx.violations)
    c08.compare_batch(ctx, lat, "cmp-lattice", istats, only={"lt", "gt", "le", "ge", "eq", "ne"})
    evaluations += len(lat) * len(lat) * 6

    common.report_broken_obligations(ctx, oblig, bool(ctx.violations))
    nontriv = sum(1 for (i, j) in pairs if vals[i]["t"] == vals[j]["t"] and i != j)
    ctx.cov.update({
        "evaluations": evaluations,
        "distinct_nontrivial": nontriv,
        "rule": "all ordered pairs of a %d-value pool (integers in every arithmetic domain, bool, slot-type, DW_*/ELF families with equal and different numbers incl. machine-specific STT/STB, strings with NUL/high bytes/prefixes, nested and heterogeneous sequences, address sets), each compared with 12 word forms and 6 infix forms in one query; non-trivial = the two values are distinct pool entries of the same type; all triples checked for transitivity on the implementation's table; every pair compared with the extracted model; DIEs reached through nested imports, units and attributes of generated forests under the same laws (zero-count queries); all pairs of the DIE values that entry / entry child / raw entry hand out on generated forests (nested, repeated, diamond imports) against the model of value_die::cmp; infix vs word forms with operands that bind names; + int.cc's six comparison operators on all ordered pairs of %d boundary operands (each value in both internal representations, signed and unsigned)" % (n, len(lat)),
        "exhaustive": True,
        "samples": [{"query": pair_query(P[1], P[5]), "holds": sorted(table.get((1, 5)) or [])},
                    {"a": P[2], "b": P[20], "holds": sorted(table.get((2, 20)) or [])}],
        "traces_validated_against_impl": len(pairs),
        "pool_size": n, "domain_keys": len(keys), "type_codes": tcs, "triples_checked": triples,
        "disagreements": disagreements, "law_violations": law_viol,
        "dwarf_law_evaluations": ndw, "die_pairs_against_model": npairs, "infix_word_pairs_with_binding_operands": len(bq),
    })
    return ctx.finish(oblig)


def replay(ctx, path):
    case = json.load(open(path))["case"]
    common.build_impl("plain")
    qs = []
    if "c" in case:
        qs = [pair_query(case["a"], case["b"]), pair_query(case["b"], case["c"]), pair_query(case["a"], case["c"])]
    elif "a" in case:
        qs = [pair_query(case["a"], case["b"]), pair_query(case["b"], case["a"])]
    elif "query" in case:
        qs = [case["query"]]
    for q, r in zip(qs, zw.run_cases([zw.enc(q, dw=FILES) for q in qs])):
        hold = [bytes.fromhex(x["v"]).decode() for x in r.results[0][0]["v"]] if r.results else r.d
        print(q.split(" (|X Y|")[0], "->", hold)
    return 0
