"""C19 — the command line honours its grep-like contract.

Proof: coq/props/Properties_C19.v (cli/Cli.v = main () of dwgrep/dwgrep.cc after
option parsing, with the library as an oracle): exit status, -q, -c, header
rule, -s, and the argument odometer enumerating every combination exactly
once in row-major order.
Correspondence: the built dwgrep binary is run over option sets x queries x
file lists x -a/--a lists; for every combination of argument values the
library driver (zwdrv) says what the query yields and whether it raises; the
extracted model turns that into the expected stdout records, driver messages
and exit status, which are compared with what the binary did.  Equivalent
spellings (-e / -f FILE / -f - / positional; -a X / --a '"X"') must behave
identically.
"""
import itertools
import json
import os
import subprocess
import tempfile
from concurrent.futures import ThreadPoolExecutor

from vlib import common, zw

T = os.path.join(common.REPO, "tests")
V1, V2 = os.path.join(T, "a1.out"), os.path.join(T, "enum.o")
BAD = "/nonexistent/missing.o"
NONELF = os.path.join(common.REPO, "README.md")

RAISE = '"/nonexistent/x" dwopen'
DIES = '"%s" dwopen entry ?TAG_pointer_type' % V1
DIE_RENDER = {}          # offset -> (full dump, header form) as the CLI prints that DIE
FILE_RENDER = {}         # (file, kind, offset) -> what the CLI prints for that DIE / unit alone
QUERIES = [
    ("one", "1 drop 7"),
    ("many", "(1, 2, 3)"),
    ("multi", '1 "b"'),
    ("none", "?(1 == 2)"),
    ("seq", '[1, "a\\"b"] "x"'),
    ("keep", "1 drop"),                                        # yields the incoming stack (raises on an empty one)
    ("raise0", RAISE),
    ("raise2", "(1, 2, %s, 3)" % RAISE),
    ("soft", "(1 0 div, 5)"),                                  # library diagnostic, no exception
    ("tos", 'dup "%s"'),                                       # needs a value: raises on the empty stack
    ("pick", "if ?(dup 2 ?eq) then (%s) else (dup dup)" % RAISE),  # raises for the combination whose TOS is 2
    ("some", "?(dup 1 ?eq)"),                                  # yields only for the combination whose TOS is 1
    ("dwpos", "?(type == T_DWARF) pos"),                                          # the position of the file among those that could be opened
    ("dwfirst", "?(type == T_DWARF) ?0 entry ?root name"),
    ("units-and-dies", "?(type == T_DWARF) entry ?root (|E| (E unit, E, E unit, E child ?(pos == 0)))"),   # what one record looks like does not depend on the records before it
    ("compile", ")("),
    ("unknown", "nosuchword"),
]
FILESETS = [[], [V1], [V1, V2], [BAD], [V1, BAD, V2], [NONELF], [BAD, NONELF], [V2, V2, V1], [BAD, V1, V2], [NONELF, V2, BAD, V1]]
# (flag, text, the Zwerg expression whose yields are the values, or None = does not compile)
ARGSETS = [
    [],
    [("-a", "x")],
    [("--a", "(1, 2)")],
    [("--a", "(1, 2)"), ("-a", 'y"z')],
    [("--a", "(1, 2, 3)"), ("--a", '("p", "q")')],
    [("--a", "1 drop ?(1 == 2)")],                             # yields no value
    [("--a", "(1, 2)"), ("--a", "?(1 == 2)"), ("-a", "w")],
    [("--a", ")(")],                                           # does not compile
    [("--a", "2")],
    [("--a", "[1, 2]")],
    [("--a", "7"), ("--a", "(1, 2)")],                         # single-valued first, multi-valued later
    [("-a", "x"), ("--a", "(1, 2, 3)"), ("-a", "z")],
    [("--a", "(DW_TAG_const_type, DW_AT_name)")],              # named constants and other radices: the header has their brief form
    [("--a", "(0x10, 0o7, 0b11, 5)"), ("--a", "(STT_FUNC, true, [DW_FORM_data1, 0x1f])")],
    [("--a", DIES)],                                           # values that are DIEs (header rendered into a string first)
    [("--a", "(1, 2)"), ("--a", DIES)],
]
OPTSETS = ["".join(c) for k in range(0, 6) for c in itertools.combinations("qscHh", k)]
# -h wins over -H in whichever order they are given
OPTSETS += [o.replace("Hh", "hH") for o in OPTSETS if "Hh" in o] + ["hqH", "hcHs"]


def arg_expr(flag, text):
    if flag == "-a":
        return '"' + "".join("\\x%02x" % b for b in text.encode()) + '"'
    return text


def render(v, brief=False):
    t = v["t"]
    if t == "c":
        return v["brief"] if brief and "brief" in v else v["show"]      # headers and sequence elements: the brief form (no family / radix prefix)
    if t == "s":
        b = bytes.fromhex(v["v"])
        if not brief:
            return b.decode("latin1")
        return ESC[b]
    if t == "q":
        return "[" + ", ".join(render(e, True) for e in v["v"]) + "]"
    if t == "dwarf":
        return v["show"]
    return "<?%s>" % t


ESC = {}


def collect_strings(v, acc):
    if v["t"] == "s":
        acc.add(bytes.fromhex(v["v"]))
    elif v["t"] == "q":
        for e in v["v"]:
            collect_strings(e, acc)


class Interner:
    def __init__(self):
        self.ids = {}
        self.full = {}
        self.header = {}

    def get(self, v, dwfile=None):
        if v["t"] == "dwarf":
            full, hdr = v["show"], v["show"][len('<Dwarf "'):-2]
        elif v["t"] in ("die", "cu") and dwfile is not None:
            # a DIE / unit among the results: what the CLI prints for it when it prints nothing else
            k = (dwfile, v["t"], v["off"])
            if k not in FILE_RENDER:
                q = ("entry ?(offset == %d)" if v["t"] == "die" else "unit ?(offset == %d)") % v["off"]
                FILE_RENDER[k] = run_cli([dwfile, "-e", q])[1].rstrip("\n")
            full = hdr = FILE_RENDER[k]
        elif v["t"] == "die":
            full, hdr = DIE_RENDER[v["off"]]
        else:
            full, hdr = render(v), render(v, True)
        k = (full, hdr, v.get("idx"))        # (the same file named twice is two values: they differ in position)
        if k not in self.ids:
            i = len(self.ids) + 1
            self.ids[k] = i
            self.full[i], self.header[i] = full, hdr
        return self.ids[k]


def run_cli_fifo(pre, post, text, fifo):
    """the query read through a named pipe (not seekable)"""
    import threading
    if not os.path.exists(fifo):
        os.mkfifo(fifo)

    def feed():
        try:
            fd = os.open(fifo, os.O_WRONLY)
            os.write(fd, text)
            os.close(fd)
        except OSError:
            pass
    t = threading.Thread(target=feed, daemon=True)
    t.start()
    r = run_cli(pre + ["-f", fifo] + post)
    if t.is_alive():
        # the binary never opened the pipe: unblock the writer
        try:
            fd = os.open(fifo, os.O_RDONLY | os.O_NONBLOCK)
            t.join(2)
            os.close(fd)
        except OSError:
            pass
    return r


def run_cli(argv, stdin=None):
    p = subprocess.run([common.impl_bin("dwgrep")] + argv, input=stdin, stdout=subprocess.PIPE, stderr=subprocess.PIPE, timeout=60)
    return p.returncode, p.stdout.decode("latin1"), p.stderr.decode("latin1")


def driver_lines(err):
    return [l for l in err.split("\n") if l.startswith("dwgrep: ")]


def run(ctx):
    oblig = common.prepare(ctx)
    if oblig is None:
        return ctx.finish(None)
    quick = ctx.tier == "quick"
    rng = ctx.sub_rng("c19")
    evaluations = 0
    viol = {}

    def bad(kind, what, case):
        viol[kind] = viol.get(kind, 0) + 1
        if viol[kind] <= 3:
            ctx.violation(what, case)

    # ---- library oracle: which files open, what each argument yields
    fopen = {}
    for f in {f for fs in FILESETS for f in fs}:
        r = zw.run_cases([zw.enc("1", dw=f)])[0]
        fopen[f] = "input_error" not in r.d and not r.crash
    argvals = {}
    exprs = sorted({arg_expr(f, t) for a in ARGSETS for f, t in a})
    for e, r in zip(exprs, zw.run_cases([zw.enc(e) for e in exprs])):
        if r.d.get("reject") or r.d.get("hard") or r.crash or "events" not in r.d:
            argvals[e] = None
        else:
            argvals[e] = [s[0] for s in r.results]       # TOS of each yielded stack
    # how the CLI prints the DIEs that occur as argument values: the full dump from a plain run of
    # the binary (value rendering is C20's subject), the header form is `[offset] tag`
    for e, vs in argvals.items():
        for k, v in enumerate(vs or []):
            if v["t"] == "die" and v["off"] not in DIE_RENDER:
                rc_, out_, err_ = run_cli(["-e", "[%s] elem ?(pos == %d)" % (e, k)])
                lab = zw.run_cases([zw.enc("[%s] elem ?(pos == %d) label" % (e, k))])[0].results[0][0]["show"]
                DIE_RENDER[v["off"]] = (out_.rstrip("\n"), "[%x] %s" % (v["off"], lab[len("DW_TAG_"):] if lab.startswith("DW_TAG_") else lab))
    # combinations and their executions
    configs = [(q, fs, a) for q in range(len(QUERIES)) for fs in range(len(FILESETS)) for a in range(len(ARGSETS))]
    lib_cases, lib_keys = [], []
    for q, fs, a in configs:
        files = [f for f in FILESETS[fs] if fopen[f]]
        vals = [argvals[arg_expr(f, t)] for f, t in ARGSETS[a]]
        if any(v is None for v in vals):
            continue
        lists = ([list(range(len(files)))] if FILESETS[fs] else []) + [list(range(len(v))) for v in vals]
        if FILESETS[fs] and not files:
            continue
        for combo in itertools.product(*lists):
            key = (q, fs, a, combo)
            c = list(combo)
            dwpos = c[0] if FILESETS[fs] else 0                # the CLI numbers the files it could open
            dw = files[c.pop(0)] if FILESETS[fs] else None
            inq = " ".join("[%s] elem ?(pos == %d)" % (arg_expr(f, t), k) for (f, t), k in zip(ARGSETS[a], c))
            kw = {}
            if dw:
                kw["dw"] = dw
                kw["dwpos"] = dwpos
            if inq:
                kw["inq"] = inq
            lib_keys.append(key)
            lib_cases.append(zw.enc(QUERIES[q][1], **kw))
    lib = dict(zip(lib_keys, zw.run_cases(lib_cases)))
    strings = set()
    for r in lib.values():
        for s in r.results:
            for v in s:
                collect_strings(v, strings)
    for vs in argvals.values():
        for v in vs or []:
            collect_strings(v, strings)
    sl = sorted(strings)
    from checks.C20 import model_lines
    for b, m in zip(sl, model_lines(["e " + b.hex() for b in sl])):
        ESC[b] = bytes.fromhex(m).decode("latin1")
    compiles = {}
    for i, (_, q) in enumerate(QUERIES):
        r = zw.run_cases([zw.enc(q, m="tree")])[0]
        compiles[i] = bool(r.d.get("sx")) and r.d.get("built") is not False

    # ---- model expectations
    intern = Interner()
    def dwval(f, idx=None):
        return {"t": "dwarf", "show": '<Dwarf "%s">' % f, "idx": idx}
    invs = [(o, q, fs, a) for o in OPTSETS for (q, fs, a) in configs]
    if quick:
        # every (query, files, arguments) configuration under two random option sets
        invs = [(o, q, fs, a) for (q, fs, a) in configs for o in rng.sample(OPTSETS, 2)]
        invs += [(o, q, fs, a) for k_, (q, fs, a) in enumerate(configs) if k_ % 7 == 0 for o in ("hH", "chH")]
    mlines = []
    for o, q, fs, a in invs:
        vals = [argvals[arg_expr(f, t)] for f, t in ARGSETS[a]]
        parse_ok = compiles[q] and all(v is not None for v in vals)
        files = [f for f in FILESETS[fs] if fopen[f]]
        fidx = [i for i, f in enumerate(FILESETS[fs]) if fopen[f]]
        ftxt = ",".join("%d:%s" % (i + 1, intern.get(dwval(f, i)) if fopen[f] else "-") for i, f in enumerate(FILESETS[fs]))
        atxt = ";".join("a" + ",".join(str(intern.get(v)) for v in vs) for vs in vals) if parse_ok else ""
        ex = []
        if parse_ok and not (FILESETS[fs] and not files):
            lists = ([list(range(len(files)))] if FILESETS[fs] else []) + [list(range(len(v))) for v in vals]
            for combo in itertools.product(*lists):
                r = lib[(q, fs, a, combo)]
                c = list(combo)
                cur = ([intern.get(dwval(files[c[0]], fidx[c.pop(0)]))] if FILESETS[fs] else []) + [intern.get(vs[k]) for vs, k in zip(vals, c)]
                recs = []
                for s in r.results:
                    recs.append("r" + ".".join(str(intern.get(v, files[combo[0]] if FILESETS[fs] and QUERIES[q][0] == "units-and-dies" else None)) for v in s))
                raised = 1 if (r.d.get("hard") or r.d.get("input_error")) else 0
                ex.append("%s:%d:%s" % (".".join(map(str, cur)), raised, "|".join(recs)))
        if parse_ok and not vals and not FILESETS[fs]:
            pass
        mlines.append("opts=%s parse=%d files=%s args=%s exec=%s" % (o, 1 if parse_ok else 0, ftxt, atxt, "/".join(ex)))
    rc, out, err = common.run([common.model_bin(), "cli"], input="\n".join(mlines) + "\n", timeout=600)
    mres = out.split("\n")[:-1]
    if len(mres) != len(mlines):
        raise RuntimeError("zwmodel cli: %d answers for %d cases: %s" % (len(mres), len(mlines), err[:300]))

    def expected(line):
        f = dict(kv.split("=", 1) for kv in line.split(" "))
        txt = ""
        for it in [x for x in f["out"].split(",") if x]:
            if it[0] == "H":
                ids = [int(x) for x in it[1:].split(".") if x]
                txt += (",".join(intern.header[i] for i in ids) if ids else "<no-file>") + ":\n"
            elif it == "S":
                txt += "---\n"
            elif it[0] == "V":
                txt += intern.full[int(it[1:])] + "\n"
            elif it[0] == "C":
                h, n = it[1:].rsplit(":", 1)
                if h != "-":
                    ids = [int(x) for x in h[1:].split(".") if x]
                    txt += (",".join(intern.header[i] for i in ids) if ids else "<no-file>") + ":"
                txt += n + "\n"
        errs = []
        for it in [x for x in f["err"].split(",") if x]:
            if it[0] == "O":
                errs.append(("open", int(it[1:])))
            elif it[0] == "X":
                ids = [int(x) for x in it[1:].split(".") if x]
                errs.append(("exec", ",".join(intern.header[i] for i in ids) if ids else "<no-file>"))
            else:
                errs.append(("fatal", None))
        return int(f["status"]), txt, errs

    # ---- run the binary
    def argv_for(o, q, fs, a, form="e"):
        argv = ["-" + c for c in o]
        for f, t in ARGSETS[a]:
            argv += [f, t]
        if form == "e":
            argv += ["-e", QUERIES[q][1]] + FILESETS[fs]
        elif form == "pos":
            argv += ["--", QUERIES[q][1]] + FILESETS[fs]
        return argv

    def one(inv):
        return run_cli(argv_for(*inv))
    with ThreadPoolExecutor(max_workers=int(common.NPROC)) as ex:
        got = list(ex.map(one, invs))
    hist = {}
    for inv, line, (rc, out, err) in zip(invs, mres, got):
        o, q, fs, a = inv
        evaluations += 1
        case = {"argv": argv_for(*inv), "query": QUERIES[q][0]}
        if line == "FUEL":
            bad("fuel", "the model ran out of fuel", case)
            continue
        st, txt, errs = expected(line)
        hist["status%d" % st] = hist.get("status%d" % st, 0) + 1
        if rc != st:
            bad("status", "`dwgrep %s` exits with %d; the contract says %d" % (" ".join(map(repr, case["argv"])), rc, st), dict(case, expected_status=st, got_status=rc))
        if out != txt:
            bad("stdout", "`dwgrep %s` writes %r to stdout; expected %r" % (" ".join(map(repr, case["argv"])), out[:300], txt[:300]), dict(case, expected_stdout=txt, got_stdout=out))
        dl = driver_lines(err)
        okerr = len(dl) == len(errs)
        if okerr:
            for l, (k, x) in zip(dl, errs):
                if k == "open":
                    okerr &= l.startswith("dwgrep: %s: " % FILESETS[fs][x - 1])
                elif k == "exec":
                    okerr &= l.startswith("dwgrep: %s: " % x)
        if not okerr:
            bad("stderr", "`dwgrep %s` reports %r on stderr; expected driver messages %r" % (" ".join(map(repr, case["argv"])), dl[:6], errs[:6]), dict(case, expected_stderr=errs, got_stderr=dl))
        if "q" in o and out:
            bad("quiet", "`dwgrep %s` writes to stdout under -q: %r" % (" ".join(map(repr, case["argv"])), out[:100]), case)

    # ---- equivalent spellings
    tmpd = tempfile.mkdtemp(prefix="c19-", dir=common.BUILD)
    eq = rng.sample(invs, 150 if quick else 1500)
    for k, inv in enumerate(eq):
        o, q, fs, a = inv
        base = run_cli(argv_for(*inv))
        qf = os.path.join(tmpd, "q%d.zw" % (k % 16))
        with open(qf, "w") as f:
            f.write(QUERIES[q][1])
        opts = ["-" + c for c in o]
        aa = [x for f, t in ARGSETS[a] for x in (f, t)]
        variants = {
            "-f FILE": run_cli(opts + aa + ["-f", qf] + FILESETS[fs]),
            "-f -": run_cli(opts + aa + ["-f", "-"] + FILESETS[fs], stdin=QUERIES[q][1].encode()),
            "-f /dev/stdin (a pipe)": run_cli(opts + aa + ["-f", "/dev/stdin"] + FILESETS[fs], stdin=QUERIES[q][1].encode()),
            "-f FIFO": run_cli_fifo(opts + aa, FILESETS[fs], QUERIES[q][1].encode(), os.path.join(tmpd, "fifo%d" % (k % 16))),
            "positional": run_cli(opts + aa + ["--", QUERIES[q][1]] + FILESETS[fs]),
            "files first": run_cli(FILESETS[fs] + opts + aa + ["-e", QUERIES[q][1]]),
            "--a for -a": run_cli(opts + [x for f, t in ARGSETS[a] for x in (("--a", arg_expr(f, t)) if f == "-a" else (f, t))] + ["-e", QUERIES[q][1]] + FILESETS[fs]),
            "long options": run_cli([{"q": "--quiet", "s": "--no-messages", "c": "--count", "H": "--with-filename", "h": "--no-filename"}[c] for c in o] + aa + ["--expr", QUERIES[q][1]] + FILESETS[fs]),
            "long options (--silent for -q, unambiguous prefixes)": run_cli([{"q": "--silent", "s": "--no-mess", "c": "--cou", "H": "--with-f", "h": "--no-f"}[c] for c in o] + aa + ["--exp", QUERIES[q][1]] + FILESETS[fs]),
            "long options with =": run_cli([{"q": "--sil", "s": "--no-messages", "c": "--count", "H": "--with-filename", "h": "--no-filename"}[c] for c in o] + aa + ["--expr=" + QUERIES[q][1]] + FILESETS[fs]),
        }
        for name, r in variants.items():
            evaluations += 1
            if name == "--a for -a":
                same = (r[0], r[1]) == (base[0], base[1]) and len(driver_lines(r[2])) == len(driver_lines(base[2]))
            else:
                same = r == base
            if not same:
                bad("spelling", "`dwgrep %s` and its spelling with %s differ: (%d, %r) vs (%d, %r)" %
                    (" ".join(map(repr, argv_for(*inv))), name, base[0], base[1][:120], r[0], r[1][:120]), {"argv": argv_for(*inv), "variant": name})
    for f in os.listdir(tmpd):
        os.unlink(os.path.join(tmpd, f))
    os.rmdir(tmpd)

    common.report_broken_obligations(ctx, oblig, bool(ctx.violations))
    ctx.cov.update({
        "evaluations": evaluations,
        "distinct_nontrivial": len(invs),
        "rule": "option subsets of {-q,-s,-c,-H,-h} (all 32) x %d queries (0/1/many results, multi-value stacks, compile errors, exceptions after 0 and 2 results, an exception for one combination only, library diagnostics) x %d file lists (none, valid, unreadable, non-ELF, repeated) x %d -a/--a lists (0-3 values each, a value-less one, one that does not compile, DIE-valued ones); %s of the %d invocations; each compared on stdout, driver lines of stderr and exit status with the extracted model fed by the library driver's per-combination results; a sample re-run in 10 equivalent spellings (incl. the query read from a pipe and from a FIFO)" % (len(QUERIES), len(FILESETS), len(ARGSETS), "%d (every query/files/arguments configuration under two random option sets)" % len(invs) if quick else "all", len(OPTSETS) * len(configs)),
        "samples": [argv_for(*invs[0]), argv_for(*invs[len(invs) // 2])],
        "status_histogram": hist,
        "traces_validated_against_impl": evaluations,
        "violations_by_kind": viol,
    })
    return ctx.finish(oblig)


def replay(ctx, path):
    case = json.load(open(path))["case"]
    common.build_impl("plain")
    rc, out, err = run_cli(case["argv"])
    print("argv  :", case["argv"])
    print("status:", rc, " expected:", case.get("expected_status"))
    print("stdout:", repr(out[:600]))
    print("expect:", repr(case.get("expected_stdout", "")[:600]))
    print("stderr:", repr(err[:600]))
    return 0
