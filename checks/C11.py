"""C11 — core words on integers, strings and sequences do what the documentation says.

Proof: coq/props/Properties_C11.v (Words.v, Profile.v).
Correspondence: every core word is applied to operand tuples from a value pool
at stack depths 0-6, reached through different push/pop/drop histories, on the
hooked build (the stack's cached type profile is re-derived after every
push/pop/drop and must match); results are compared with the extracted model
of the words and with direct list/byte-string semantics computed here.
"""
import itertools
import json

from vlib import common, zw, engine
from vlib.enginecheck import compare

INTS = ["0", "1", "-1", "7", "0x10", "010", "0b101", "18446744073709551615", "-9223372036854775808"]
STRS = ['""', '"a"', '"ab"', '"aba"', '"b\\x00a"', '"\\xff\\x80"', '"abab"']
SEQS = ["[]", "[1]", "[1, 2]", "[2, 1, 2]", '["a", 1]', "[[1], [1, 2]]", '["a", "b", "a"]', "[1, 2, 1, 2]"]
OTHER = ["{1}", "T_CONST", "true"]
WORDS1 = ["length", "elem", "relem", "?empty", "!empty", "value", "hex", "dec", "oct", "bin", "type", "pos", "dup", "drop",
          "?0", "!0", "?1", "elem pos", "relem pos", "[elem] length", "[relem]", "elem type"]
WORDS2 = ["add", "?find", "!find", "?starts", "!starts", "?ends", "!ends", "swap", "over", "?eq", "?lt", "sub", "mul", "div", "mod"]
WORDS3 = ["rot"]


def histories(depth_target, rng):
    """different ways of reaching a stack of `depth_target` junk values below the operands"""
    junk = ['"j"', "9", "[9]"]
    base = [rng.choice(junk) for _ in range(depth_target)]
    variants = [" ".join(base)]
    # overshoot and come back: push extra then drop/pop
    extra = [rng.choice(junk) for _ in range(rng.randint(1, 4))]
    variants.append(" ".join(base + extra) + " drop" * len(extra))
    # reach through backtick-bracket drop (stack::drop) and swaps
    if depth_target >= 1:
        variants.append(" ".join(base + extra) + " " + "`" * len(extra) + "[] drop")
        variants.append(" ".join(base + [extra[0]]) + " swap drop" if depth_target >= 1 else "")
    if depth_target >= 2:
        variants.append(" ".join(base) + " swap swap")
    return [v.strip() for v in variants if v.strip() or depth_target == 0]


def pybytes(lit):
    return eval("b" + lit)     # the pool uses only escapes Python shares with Zwerg


def expect_str(word, a, b=None):
    """independent byte-string semantics for a few words; returns expected result count or None"""
    if word == "?find":
        return 1 if b in a else 0
    if word == "!find":
        return 0 if b in a else 1
    if word == "?starts":
        return 1 if a.startswith(b) else 0
    if word == "!starts":
        return 0 if a.startswith(b) else 1
    if word == "?ends":
        return 1 if a.endswith(b) else 0
    if word == "!ends":
        return 0 if a.endswith(b) else 1
    return None


def run(ctx):
    oblig = common.prepare(ctx)
    if oblig is None:
        return ctx.finish(None)
    engine.observe_params()
    quick = ctx.tier == "quick"
    rng = ctx.sub_rng("c11")
    pool = INTS + STRS + SEQS + OTHER
    progs = []
    direct = []          # (query, expected count) from the byte-string model
    depths = [0, 1, 2, 3, 4, 5, 6]
    for w in WORDS1:
        for a in pool:
            d = rng.choice(depths)
            for h in histories(d, rng)[: (2 if quick else 5)]:
                progs.append(("%s %s %s" % (h, a, w)).strip())
    for w in WORDS2:
        pairs = list(itertools.product(pool, pool))
        if quick:
            pairs = rng.sample(pairs, 150)
        for a, b in pairs:
            if a == "{1}" and b == "{1}" and w in ("?eq", "?lt"):
                continue       # comparing closures is outside the documented vocabulary (C09)
            d = rng.choice(depths)
            h = rng.choice(histories(d, rng))
            q = ("%s %s %s %s" % (h, a, b, w)).strip()
            progs.append(q)
            if a in STRS and b in STRS:
                e = expect_str(w, pybytes(a), pybytes(b))
                if e is not None:
                    direct.append((q, e))
    for a, b, c in rng.sample(list(itertools.product(pool, pool, pool)), 60):
        progs.append("%s %s %s %s rot" % (rng.choice(histories(rng.choice(depths), rng)), a, b, c))
    # the same operands at every depth 0..6: behaviour must not depend on what is below
    for w, ops in (("add", '"ab" "c"'), ("elem", "[1, 2]"), ("length", '"abc"'), ("?find", '"abab" "ba"'), ("relem pos", '"xyz"')):
        for d in depths:
            for h in histories(d, rng):
                progs.append(("%s %s %s" % (h, ops, w)).strip())
    # operands that carry a position (they come out of `elem`): every operation numbers its own results afresh
    for w in WORDS1:
        for a in pool:
            progs.append("[%s, %s] elem %s" % (a, a, w))
    for w in WORDS2:
        for a, b in rng.sample(list(itertools.product(pool, pool)), 60 if quick else 300):
            if a.lstrip("(").startswith("{") and b.lstrip("(").startswith("{") and w[1:] in ("eq", "ne", "lt", "gt", "le", "ge"):
                continue            # two closures have no documented order (they compare by where they live)
            progs.append("[%s, %s] elem %s %s" % (a, a, b, w))
            progs.append("%s [%s, %s] elem %s" % (b, a, a, w))
    # ... systematically within each family (where the words do real work): both operand orders,
    # every pair, the positioned operand being the 2nd result of `elem` (position 1)
    for fam, words in ((STRS, ["add", "?find", "?starts", "?ends", "?eq", "swap", "over"]),
                       (SEQS, ["add", "?find", "?starts", "?ends", "?eq", "swap", "over"]),
                       (INTS, ["add", "sub", "mul", "div", "mod", "?eq", "?lt"])):
        for w in words:
            for a, b in itertools.product(fam, fam):
                progs.append("[0, %s] elem ?1 %s %s" % (a, b, w))
                progs.append("%s [0, %s] elem ?1 %s" % (a, b, w))
                if not quick:
                    progs.append("[0, %s] elem ?1 [0, 0, %s] elem ?2 %s" % (a, b, w))
    # ?find / ?starts / ?ends on every haystack up to length 4 and needle up to length 3 over two
    # symbols (self-overlapping needles, failed partial matches), as sequences and as strings
    import itertools as _it
    seqpairs = []
    for hl in range(0, 5):
        for h in _it.product((1, 2), repeat=hl):
            for nl in range(0, 4):
                for nd in _it.product((1, 2), repeat=nl):
                    seqpairs.append((list(h), list(nd)))
    if quick:
        seqpairs = [pr for k, pr in enumerate(seqpairs) if len(pr[0]) >= 3 or k % 3 == 0]
    def contains(h, nd):
        return any(h[i:i + len(nd)] == nd for i in range(len(h) - len(nd) + 1))
    for h, nd in seqpairs:
        for w, f in (("?find", contains), ("?starts", lambda a, b: a[:len(b)] == b), ("?ends", lambda a, b: len(b) == 0 or a[-len(b):] == b)):
            direct.append(("%s %s %s" % (str(h), str(nd), w), 1 if f(h, nd) else 0))
            hs, ns = "".join("ab"[x - 1] for x in h), "".join("ab"[x - 1] for x in nd)
            direct.append(('"%s" "%s" %s' % (hs, ns, w), 1 if f(h, nd) else 0))
    # the same over alphabets whose two symbols carry the same number in different constant domains (elements are
    # the same when `==` says so, not when their numbers agree), and with the needle written in another radix
    for (x, y), (x2, y2) in ((("1", "true"), ("1", "true")), (("DW_AT_sibling", "DW_TAG_array_type"), ("DW_AT_sibling", "DW_TAG_array_type")),
                             (("1", "DW_AT_sibling"), ("1", "DW_AT_sibling")), (("T_CONST", "T_CONST value"), ("T_CONST", "T_CONST value")),
                             (("1", "2"), ("0x1", "0b10")), (("DW_FORM_addr", "STT_OBJECT"), ("DW_FORM_addr", "STT_OBJECT")), (('"a"', "1"), ('"a"', "1"))):
        for h, nd in seqpairs:
            if len(h) > 3 or len(nd) > 2 or (quick and (len(h) + len(nd)) % 2 == 0 and len(nd) != 1):
                continue
            for w, f in (("?find", contains), ("?starts", lambda a, b: a[:len(b)] == b), ("?ends", lambda a, b: len(b) == 0 or a[-len(b):] == b)):
                hq = "[%s]" % ", ".join((x, y)[k - 1] for k in h)
                nq = "[%s]" % ", ".join((x2, y2)[k - 1] for k in nd)
                direct.append(("%s %s %s" % (hq, nq, w), 1 if f(h, nd) else 0))
                direct.append(("%s %s !%s" % (hq, nq, w[1:]), 0 if f(h, nd) else 1))
    progs = list(dict.fromkeys(progs))
    stats = {"evaluations": 0, "disagreements": 0, "results_hist": {}, "nontrivial": set()}
    for k in range(0, len(progs), 3000):
        compare(ctx, progs[k:k + 3000], stats, "c11")
    # direct byte-string expectations
    rr = zw.run_cases([zw.enc(q) for q, _ in direct])
    dviol = 0
    for (q, e), r in zip(direct, rr):
        stats["evaluations"] += 1
        if r.crash or len(r.results) != e:
            dviol += 1
            if dviol <= 4:
                ctx.violation("`%s` holds %s time(s); the byte-string model says %d" % (q, "?" if r.crash else len(r.results), e),
                              {"query": q, "expected_results": e})
    # ?match / =~ against the documented meaning ("The whole string has to match"); the regex
    # engine itself is an oracle, so only literal / trivially anchored cases are used
    mcases = [("foobar", "foobar", 1), ("foobar", "f.*r", 1), ("foobar", "oba", 0), ("foobar", "foo", 0), ("", "", 1), ("abc", "b", 0), ("abc", ".*b.*", 1)]
    mq = ['"%s" "%s" ?match' % (h, n) for h, n, _ in mcases] + ['("%s" =~ "%s")' % (h, n) for h, n, _ in mcases]
    mr = zw.run_cases([zw.enc(q) for q in mq])
    for q, r, (h, n, e) in zip(mq, mr, mcases + mcases):
        stats["evaluations"] += 1
        if r.crash or len(r.results) != e:
            ctx.violation("`%s` holds %s time(s); the documentation (whole string has to match) says %d" % (q, "?" if r.crash else len(r.results), e),
                          {"query": q, "expected_results": e})
    # one place, several patterns in a row - valid, broken, the same broken one again, the valid one again: each is
    # judged on its own (results and diagnostics of the run = those of the patterns one at a time)
    PSEQS = [('"a.c"', '"("', '"("'), ('"("', '"a.c"', '"("', '"("', '"a.c"'), ('"a.c"', '"["', '"["', '"abc"'), ('"x"', '"("', '"("'), ('"abc"', '"a{2"', '"a{2"', '"a{2"', '".*"'),
             ('".*"', '"*"', '"*"'), ('"a.c"', '"a.c"', '"("', '"a.c"'), ('"(a|"', '"(a|"', '"abc"')]
    pq = []
    for ps in PSEQS:
        for hay in ('"abc"', '"("', '""'):
            for w in ("?match", "!match"):
                pq.append(("%s (%s) %s" % (hay, ", ".join(ps), w), ["%s %s %s" % (hay, p_, w) for p_ in ps]))
            pq.append(("(%s) (|P| (%s =~ P) P)" % (", ".join(ps), hay), ["%s (|P| (%s =~ P) P)" % (p_, hay) for p_ in ps]))
    allq = [q for q, parts in pq] + sorted({x for _, parts in pq for x in parts})
    pres = {q: engine.canon_impl(r) for q, r in zip(allq, zw.run_cases([zw.enc(q) for q in allq]))}
    import collections as _c
    for q, parts in pq:
        stats["evaluations"] += 1
        whole = pres[q]
        want = _c.Counter(e for p_ in parts for e in pres[p_][1])
        if whole[0] != "DONE" or any(pres[p_][0] != "DONE" for p_ in parts):
            continue
        if _c.Counter(whole[1]) != want:
            ctx.violation("`%s` yields %s; its patterns one at a time yield %s" % (q, " ".join(whole[1])[:200], " | ".join(" ".join(pres[p_][1]) for p_ in parts)[:300]),
                          {"query": q, "parts": parts, "kind": "pattern-sequence"})
    # history independence, checked on the implementation directly
    groups = {}
    rr2 = zw.run_cases([zw.enc(q) for q in progs[-300:]])
    # constants that come out of DWARF / ELF data (location operations are created "brief", names of tags,
    # attributes, forms, symbol types; offsets, addresses): the radix words and %-directives give what they
    # give for the plain number
    from vlib import dwconst
    dwbad = []
    stats["evaluations"] += dwconst.check_files(dwconst.default_files(ctx.tier == "quick"), lambda what, case: dwbad.append((what, case)), ctx.tier == "quick")
    for what, case in dwbad[:4]:
        ctx.violation(what, case)
    common.report_broken_obligations(ctx, oblig, bool(ctx.violations))
    ctx.cov.update({
        "evaluations": stats["evaluations"],
        "distinct_nontrivial": len(stats["nontrivial"]) + len(direct),
        "rule": "every core word (22 unary forms, 15 binary, rot) applied to operands from a %d-value pool (boundary integers in each radix, strings with NUL/high bytes/repeats, nested and heterogeneous sequences, a closure, named constants) on stacks of depth 0-6 built by different push/pop/drop histories (plain pushes, overshoot-and-drop, backtick-bracket drop, swaps); each query on the hooked build (profile re-derived after every push/pop/drop) compared with the extracted model of the words and with the specification; string predicates also with Python bytes semantics; ?find/?starts/?ends on all haystacks of length <= 4 and needles of length <= 3 over two symbols, as sequences and as strings, against list semantics, also over alphabets of equal-numbered constants of different domains and needles in another radix" % len(pool),
        "samples": [progs[0], progs[len(progs) // 2], progs[-1]],
        "traces_validated_against_impl": stats["evaluations"],
        "direct_bytestring_checks": len(direct),
        "spec_comparison": {k[5:]: v for k, v in stats.items() if k.startswith("spec:")},
        "impl_status_histogram": {k[7:]: v for k, v in stats.items() if k.startswith("status:")},
    })
    return ctx.finish(oblig)


def replay(ctx, path):
    case = json.load(open(path))["case"]
    common.build_impl("plain")
    common.build_coq()
    common.build_model()
    engine.observe_params()
    (_, ci, cm, sx), = engine.run_both([case["query"]])
    print("query:", case["query"])
    print("impl :", ci[0], " ".join(ci[1])[:400])
    print("model:", cm[0], " ".join(cm[1])[:400])
    return 0 if engine.agree(ci, cm) else 1
