"""C13 — no memory error, undefined behaviour, leak or broken state lifecycle on any run.

Proof: coq/props/Properties_C13.v (mem/Scon.v): the layout of operator states
(reserve / add_union, the alignment bit trick) and the lifecycle automaton of
the state area: an accepted history never has two overlapping live states,
uses and destroys only constructed states, and -- ending with the destruction
of the area -- destroys every state exactly as often as it constructed it.
Correspondence / run-time evidence:
  * the DWGREP_VERIF hook in scon keeps a shadow map of live states and aborts
    on any violation; every other check runs on that build;
  * the hook's event log of this check's corpus is replayed through the
    extracted automaton: every state area must be accepted;
  * the same corpus runs on the ASan+UBSan build with a LeakSanitizer check
    after every case: programs that compile, programs that are rejected,
    programs failing at run time inside sub-expressions, result sets abandoned
    after every number of pulls, DWARF and symbol queries.
The absence of memory errors in the real code is run-time evidence, not a
theorem (the model cannot exhibit them).
"""
import glob
import json
import os

from vlib import common, zw, zgen, dwforest
import importlib

FAILING = ['?([1,2] elem drop drop)', '1 ?((2,3) drop drop drop)', '!(drop)', '(1, 2) (drop drop == 1)', '[1, 2] (|A| A elem ?(drop drop drop))',
           '{drop drop} apply', '1 {(2, 3) drop drop drop} apply', '"%( drop %)"', '(1, 2, "/nonexistent/x" dwopen, 3)', '?("/nonexistent/x" dwopen)',
           '[(1, 2) ?("/nonexistent/x" dwopen)]', 'let A := (1, drop drop); A', 'if (drop) then 1 else 2', '(1, 2)* drop drop', '1 (drop drop)+',
           '[1, 2, 3] elem ?(pos == 1) "%( drop drop %)"', '1 2 ?(add (3, drop drop drop))']
MANY = ['(1, 2, 3, 4, 5, 6)', '[1, 2, 3] elem (10, 20)', '(1, 2) {(|A| A, A 1 add)} apply', '"abc" elem', '1 (dup 1 add ?(dup 6 ?lt))*',
        '(1, 2, 3) "%( dup, dup 1 add %)"', '[(1, 2, 3) {1 add}] elem apply', '(1, 2, 3) ?(dup 2 ?ne) [dup, dup]']
REFFORMS = "?(form (== DW_FORM_ref4, == DW_FORM_ref_addr, == DW_FORM_ref_udata, == DW_FORM_ref1, == DW_FORM_ref2, == DW_FORM_ref8, == DW_FORM_GNU_ref_alt))"
# one overloaded word fed operands that select different overloads, one after the other
MIXED1 = ['"abc"', "[1, 2, 3]", '""', "[[]]", "5", "0 0x10 aset", "[]", '"x"']
WORDS1 = ["length", "elem", "relem", "?empty", "!empty", "value", "type", "pos", "hex", "label", "name", "offset", "address", "low", "high", "dup add"]
DWMIX = ["entry (attribute, @AT_location elem, @AT_location) label", "(entry, entry attribute) label", "(entry, unit, entry attribute) offset",
         "(entry, unit) root offset", "(entry, symbol) name", "(entry attribute, entry) (name, label)", "(symbol, entry @AT_location) address",
         "(entry, symbol, unit) ?(label)", "entry (@AT_type, child)*", "[entry (@AT_type, child, parent)* offset] length",
         # the same DIE reached with and without a chain of imports, compared both ways round
         "entry (|D| D attribute " + REFFORMS + " value ?(type == T_DIE) (|T| entry (|E| (T == E), (E == T), (T < E), (E < T))))",
         "entry (|D| D @AT_type (|T| (T == D), (D == T), (T != D)))"]
DWQ = ["entry", "raw entry " + dwforest.ROW_QUERY, "entry " + dwforest.ROW_QUERY, "entry attribute [label, form, [value]]", "[unit entry child parent root]",
       "entry abbrev [code, [attribute label]]", "abbrev entry", "symbol [name, label, binding, visibility, size, address]",
       "entry attribute ?AT_location value elem [label, [value]]", "entry ?(child) (|D| D child ?(parent != D))", "entry @AT_name", "entry name",
       "entry attribute value ?(type == T_DIE) parent*"]


_SYN = {}


def rejected_by_exception(q, msg):
    """Is this rejection one that reaches zw_query_parse as an exception thrown
    inside a lexer rule / parser action (the known leak), rather than through
    bison's own error recovery?  Everything but a plain `syntax error` is; and a
    `syntax error` is when the outer token stream parses (model of the scanner
    and grammar, outer level only): then it was raised by the nested parse of an
    embedded expression, inside the string rule of the outer lexer."""
    if msg is None:
        return False
    if msg != "syntax error":
        return True
    b = q.encode("latin1") if isinstance(q, str) else bytes(q)
    if b"%(" not in b:
        return False
    return _embedded_error(b, 0)


def _embedded_error(b, depth):
    """does some embedded expression of `b` (at any nesting) fail to lex/parse on its own?
    (Lexer.analyse_deep gives those priority: they are met while the string is being lexed)"""
    if b not in _SYN:
        c14 = importlib.import_module("checks.C14")
        _SYN[b] = c14.model_syn([b])[0]
    verdict, toks = (_SYN[b] + ("",))[:2]
    if depth > 0 and verdict != "OK":
        return True
    for t in toks.split(" "):
        if t.startswith("STR:"):
            for piece in t[4:].split(","):
                if piece.startswith("S") and _embedded_error(bytes.fromhex(piece[1:]), depth + 1):
                    return True
    return False


def corpus(ctx, quick):
    rng = ctx.sub_rng("c13")
    g = zgen.G(ctx.sub_rng("gen"), max_depth=3, illtyped=0.1)
    cases = []            # (query, kw)
    for _ in range(400 if quick else 4000):
        cases.append((g.program(), {}))
    # names captured, shadowed and read across nested applied blocks (closure environments)
    c03 = importlib.import_module("checks.C03")
    for q in c03.nested_scopes(2, ctx.sub_rng("scopes"), 1000 if quick else 8000):
        cases.append((q, {}))
    for w in WORDS1:
        for _ in range(3 if quick else 12):
            ops = [rng.choice(MIXED1) for _ in range(rng.randint(2, 5))]
            cases.append(("(%s) %s" % (", ".join(ops), w), {}))
            cases.append(("[(%s) %s]" % (", ".join(ops), w), {}))
    for a, b in (('"a" "b"', "[1] [2]"), ("1 2", '"a" "b"'), ("[1] [2]", "0 4 aset 8 12 aset"), ("0 4 aset 2 9 aset", "1 2"), ('"ab" "b"', '[1, 2] [2]')):
        for w in ("add", "?find", "?starts", "?ends", "?eq", "sub", "?overlaps", "?contains", "overlap"):
            cases.append(("(%s, %s, %s) %s" % (a, b, a, w), {}))
    for q in FAILING:
        cases.append((q, {}))
    # one occurrence of a pattern-taking word that sees several patterns (what it keeps of one must go when the next comes)
    for q in ('"abc" ("a", "b", "c$") ?match', '("abc", "xyz") (|S| ("a", "z", ".", "a") (|P| S P ?match))', '["a", "b", "c"] elem (|P| "abc" P ?match)',
              '"abc" ("a", "x") !match', '("abc", "xbz") (|S| ("a.c", "x.z") (|P| (S =~ P)))', '"a.c" ("a", ".", "c") ?find', '("ab", "cd", "ab") (|P| "abcd" P ?match) "x"'):
        cases.append((q, {}))
    # several result sets of one query open at once, pulled in turn, abandoned, the query destroyed first
    c12 = importlib.import_module("checks.C12")
    hrng = ctx.sub_rng("histories")
    for q in MANY + ['(1, 2) (|A| [A, A 1 add] elem)', '{|X| X 1 add} (|F| (1, 2, 3) F F)', '(1, 0, 2) 10 swap div', '1 (1 add ?(5 ?lt))* (|A| (A, A))']:
        for _ in range(2 if quick else 10):
            # (in between: queries that compile, or are rejected by the grammar; rejections through exceptions leak - known finding)
            toks, _info = c12.gen_history(hrng, 3, 2, hrng.choice([8, 14, 24]), ["", "7"], c12.OTHERS[:7] + ["(1", "1 2 )"])
            if hrng.random() < 0.5:
                toks.insert(hrng.randrange(2, len(toks) + 1), "k")
            cases.append((q, {"m": "hist", "script": ",".join(toks)}))
    for q in MANY:
        for k in range(0, 7):
            cases.append((q, {"abandon": k}))
    c14 = importlib.import_module("checks.C14")
    bs = c14.gen_cases(ctx, True)
    for b in (rng.sample(bs, 1200) if quick else bs):
        cases.append((b, {}))
    files = ([os.path.join(common.REPO, "tests", n) for n in ("a1.out", "nullptr.o", "defaulted.o", "dwz-partial3-1", "y.o", "haschildren_childless", "testfile_const_type")]
             if quick else dwforest.sample_files())
    for f in files:
        for q in DWMIX:
            cases.append((q, {"dw": f, "max": 5000}))
        for q in DWQ:
            cases.append((q, {"dw": f, "max": 5000}))
            cases.append((q, {"dw": f, "abandon": 3}))
    return cases


def run(ctx):
    oblig = common.prepare(ctx)
    if oblig is None:
        return ctx.finish(None)
    quick = ctx.tier == "quick"
    ok, log = common.build_impl("san")
    if not ok:
        ctx.violation("the sanitizer build fails", {"log": log[-1500:]}, no_input=True)
        return ctx.finish(oblig)
    cases = corpus(ctx, quick)
    evaluations = 0
    viol = {}

    def bad(kind, what, case):
        viol[kind] = viol.get(kind, 0) + 1
        if viol[kind] <= 4:
            ctx.violation(what, case)

    lines = [zw.enc(q, t=5, **dict({"max": 200}, **kw)) for q, kw in cases]
    # (1) hooked build with the event log, replayed through the extracted automaton
    tdir = os.path.join(common.BUILD, "scon-trace-" + ctx.tier)
    os.makedirs(tdir, exist_ok=True)
    for f in glob.glob(os.path.join(tdir, "t.*")):
        os.unlink(f)
    os.environ["DWGREP_VERIF_SCON_TRACE"] = os.path.join(tdir, "t")
    try:
        plain = zw.run_cases(lines)
    finally:
        del os.environ["DWGREP_VERIF_SCON_TRACE"]
    for (q, kw), r in zip(cases, plain):
        evaluations += 1
        if r.crash and "timeout" not in str(r.crash):
            bad("hook", "running %r (%s) on the hooked build dies: %s" % (q if isinstance(q, str) else bytes(q), kw, r.crash), {"query": q if isinstance(q, str) else bytes(q).decode("latin1"), "kw": kw, "kind": "hooked-build-dies"})
    areas = 0
    verdicts = {}
    for f in sorted(glob.glob(os.path.join(tdir, "t.*"))):
        text = open(f).read()
        if not text.endswith("\n"):
            # a driver killed at its time limit leaves a half-written last record
            text = text[:text.rfind("\n") + 1]
        rc, out, err = common.run([common.model_bin(), "scon"], input=text, timeout=600)
        for l in out.split("\n")[:-1]:
            aid, n, v = l.split(" ", 2)
            areas += 1
            key = v.split(" ")[0]
            verdicts[key] = verdicts.get(key, 0) + 1
            if key not in ("ACCEPT", "UNFINISHED"):
                bad("lifecycle", "the lifecycle automaton rejects the history of state area %s (%s events): %s" % (aid, n, v), {"trace": f, "area": aid, "verdict": v, "kind": "lifecycle"})
        os.unlink(f)
    # (2) sanitizers
    san = zw.run_cases(lines, flavour="san", timeout=7200)
    leaks_known = 0
    suspects = set()
    for i, ((q, kw), r) in enumerate(zip(cases, san)):
        evaluations += 1
        qq = q if isinstance(q, str) else bytes(q).decode("latin1")
        if r.crash and "timeout" not in str(r.crash):
            bad("sanitizer", "running %r (%s) on the ASan/UBSan build dies: %s" % (qq, kw, r.crash), {"query": qq, "kw": kw, "kind": "sanitizer-report"})
        elif r.d.get("leak"):
            # LeakSanitizer reports memory once it is unreachable, which may be a few cases after
            # the one that lost it: re-run the candidates one per process
            window = range(max(0, i - 6), i + 1)
            def by_exc(j):
                return rejected_by_exception(cases[j][0], san[j].d.get("compile_error"))
            if any(by_exc(j) for j in window):
                leaks_known += 1
                j = next(j for j in reversed(window) if by_exc(j))
                qj = cases[j][0] if isinstance(cases[j][0], str) else bytes(cases[j][0]).decode("latin1")
                ctx.violation("LeakSanitizer: %r is rejected through an exception (%s) and leaks the partial parse" % (qj, san[j].d.get("compile_error")),
                              {"query": qj, "kind": "leak-rejected-by-exception"})
            else:
                suspects.update(window)
    sl = sorted(suspects)
    single = zw.run_cases([lines[i] for i in sl], flavour="san", chunk=1)      # one process per case, in parallel
    for i, r in zip(sl, single):
        if not r.d.get("leak"):
            continue
        q, kw = cases[i]
        qq = q if isinstance(q, str) else bytes(q).decode("latin1")
        msg = r.d.get("compile_error")
        by_exception = rejected_by_exception(q, msg)
        if by_exception:
            leaks_known += 1
        kind = "leak-rejected-by-exception" if by_exception else "leak"
        bad("leak:" + kind, "LeakSanitizer: running %r (%s) leaks memory%s" % (qq, kw, " (rejected: %s)" % msg if msg else ""), {"query": qq, "kw": kw, "kind": kind})
    common.report_broken_obligations(ctx, oblig, bool(ctx.violations))
    ctx.cov.update({
        "evaluations": evaluations, "distinct_nontrivial": len(cases),
        "rule": "%d executions on the hooked build (shadow map of live operator states; event log of %d state areas replayed through the extracted lifecycle automaton) and on the ASan+UBSan build with a LeakSanitizer check after every case: generated programs (closures, loops, captures), names captured / shadowed / read across nested applied blocks, overloaded words fed operands of different types one after the other (core values, DWARF values), the same DIE with and without an import chain compared both ways round, %d programs failing at run time inside sub-expressions/closures/splices, result sets abandoned after 0-6 pulls, histories with up to three result sets of one query open at once (pulled in turn, destroyed in any order, the query destroyed first), pattern-taking words that see several patterns at one place, byte strings from C14's generator (rejected and accepted), DWARF/abbrev/location/symbol queries on sample binaries, complete and abandoned" % (len(cases), areas, len(FAILING)),
        "samples": [], "lifecycle_verdicts": verdicts, "known_leaks_seen": leaks_known,
        "traces_validated_against_impl": areas, "violations_by_kind": viol,
        "not_a_theorem": "absence of memory errors / undefined behaviour / leaks in the C++ is sanitizer evidence on the executed corpus, not proved",
    })
    return ctx.finish(oblig)


def replay(ctx, path):
    case = json.load(open(path))["case"]
    print(json.dumps(case, indent=1)[:1200])
    if "query" in case:
        common.build_impl("san")
        r = zw.run_cases([zw.enc(case["query"].encode("latin1"), **case.get("kw", {}))], flavour="san")[0]
        print(json.dumps(r.d)[:600])
    return 0
