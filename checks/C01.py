"""C01 — each construct acts on every input stack independently (stream semantics).

Proof: coq/props/Properties_C01.v over the engine model coq/zw/Engine.v.
Correspondence: programs (exhaustively enumerated small ones + random nested
ones, each also behind multi-yield producers) are parsed by the implementation,
the tree it built is handed to the extracted engine model, and both result
streams are compared event by event (values, domains, positions, diagnostics,
order).  A hang of one side only is a disagreement.
"""
import json
import os
import random
import re

from vlib import common, zw, engine, zgen

CORPUS = os.path.join(common.VERIF, "corpus", "C01.txt")


from vlib.enginecheck import compare as _compare, shrink, disagrees, spec_agree, order_fixed  # noqa: E402,F401


def compare(ctx, queries, stats, kind):
    """once six violations are on record the remaining batches would only add time"""
    if len(ctx.violations) >= 6:
        stats["skipped_after_violations"] = stats.get("skipped_after_violations", 0) + len(queries)
        return
    _compare(ctx, queries, stats, kind)


def run(ctx):
    oblig = common.prepare(ctx)
    if oblig is None:
        return ctx.finish(None)
    engine.observe_params()
    quick = ctx.tier == "quick"
    stats = {"evaluations": 0, "disagreements": 0, "results_hist": {}, "nontrivial": set()}
    samples = []
    if os.path.exists(CORPUS):
        corpus = [l.rstrip("\n") for l in open(CORPUS) if l.strip() and not l.startswith("#")]
        compare(ctx, corpus, stats, "corpus")
        samples.append(corpus[0])
    ex = list(zgen.exhaustive(3 if quick else 4))
    ctx.log("exhaustive: %d programs up to size %d" % (len(ex), 3 if quick else 4))
    for i in range(0, len(ex), 3000):
        compare(ctx, ex[i:i + 3000], stats, "exhaustive")
    samples.append(ex[len(ex) // 2])
    nrand = 2500 if quick else 40000
    gstats = {}
    ALLQ = []
    for depth, share in ((2, 0.4), (3, 0.4), (4, 0.2)):
        g = zgen.G(ctx.sub_rng("gen%d" % depth), max_depth=depth)
        qs = [g.program() for _ in range(int(nrand * share))]
        ALLQ.extend(qs)
        samples.append(qs[0])
        for i in range(0, len(qs), 3000):
            compare(ctx, qs[i:i + 3000], stats, "random-depth%d" % depth)
        for k, v in g.stats.items():
            gstats[k] = gstats.get(k, 0) + v
    # wide constructs: ALT / OR lists, sequence literals, splices and statement lists around the sizes at which a
    # mask, a small table or a counter would run out (31 .. 34, 63 .. 66, 129, 257), fed several stacks
    wides = []
    for n in (31, 32, 33, 34, 63, 64, 65, 66, 129, 257):
        nums = ", ".join(str(i) for i in range(n))
        wides += ["(%s)" % nums, "(100, 200, 300) (%s) add" % nums, "[%s] length" % nums, "(7, 8) [%s] elem ?(pos == %d)" % (nums, n - 1),
                  "(1, 2) (|A| (%s) A add) ?(%d ?gt)" % (nums, n - 1), "(%s) ?(%d ?eq)" % (nums, n - 1),
                  "(1, 2) (%s)" % " || ".join("?(%d ?eq) %d" % (n + 5, i) for i in range(n - 1)) + " || 99",
                  "(1, %d) (%s)" % (n - 1, " || ".join("?(%d ?eq) \"b%d\"" % (i, i) for i in range(n))),
                  "(5, 6) " + " ".join("1 add" for _ in range(n)), "(5, 6) \"%s\"" % "".join("%%( %d %%)" % (i % 10) for i in range(min(n, 66))),
                  "(1, 2) (%s)" % ", ".join("(%d, %d)" % (i, i + 1000) for i in range(n)),
                  "[(1, 2) (%s)] length" % ", ".join("%d" % i if i % 2 else "?(1 2 ?eq)" for i in range(n))]
    compare(ctx, wides, stats, "wide")
    samples.append(wides[1][:120])
    # the property itself, on the implementation alone (also for words the engine model does not
    # interpret, e.g. ?match): feeding E the stacks a, b, c one after the other yields what E yields
    # for a, for b and for c - as a multiset (a `,` inside E may interleave what it yields for
    # different inputs), and no input is lost
    import collections
    srng = ctx.sub_rng("stream")
    INPUTS = ['"ab"', '"cd"', '"ax"', '"c"', "1", "2", "[1, 2]", '"foobar"', '"f("']
    ES = ['(=~ ("a.", "c."))', '(!~ ("a.", "c."))', '(|S| S ("a.", "c.", "a.") ?match S)', '(|S| ("a.", "c.", "(") (|P| S P ?match P))',
          '(|S| S ("^a", "x$") ?match)', '(|S| ("ab", S) "a" ?find)', '(|S| S S ?starts)', '(|S| (S, S "x" add, S) (=~ "x"))',
          '(|S| [S ("a", "c") ?find] length)', '(|S| S ("a.", "c.") !match)', 'dup (=~ ("b", "d"))', '(|S| "abcd" (S, "b", S) ?match)']
    g2 = zgen.G(ctx.sub_rng("streamgen"), max_depth=2)
    ES += [g2.program() for _ in range(60 if quick else 1200)]
    sq, smeta = [], []
    for E in ES:
        for _ in range(2 if quick else 4):
            ins = [srng.choice(INPUTS) for _ in range(srng.randint(2, 4))]
            sq.append("(%s) %s" % (", ".join(ins), E))
            smeta.append((E, ins))
    singles = sorted({(E, i) for E, ins in smeta for i in ins})
    sres = zw.run_cases([zw.enc(q, t=3, max=engine.LIMIT) for q in sq] + [zw.enc("%s %s" % (i, E), t=3, max=engine.LIMIT) for E, i in singles])
    single = {k: engine.canon_impl(r) for k, r in zip(singles, sres[len(sq):])}
    nstream = 0
    for (E, ins), q, r in zip(smeta, sq, sres):
        whole = engine.canon_impl(r)
        parts = [single[(E, i)] for i in ins]
        if whole[0] != "DONE" or any(p[0] != "DONE" for p in parts):
            continue                                   # an exception ends the whole run: nothing to decompose
        nstream += 1
        stats["evaluations"] += 1
        want = collections.Counter(e for p in parts for e in p[1])
        got = collections.Counter(whole[1])
        if want != got and len(ctx.violations) < 6:
            ctx.violation("`%s` yields %s, but for its inputs one at a time `%s` yields %s" % (q, " ".join(whole[1])[:200], E, " | ".join(" ".join(p[1]) for p in parts)[:300]),
                          {"query": q, "kind": "stream-decomposition", "body": E, "inputs": ins})
    # the hypothesis of the theorems, evaluated on what the builder makes of every program:
    # the chain (and every block body) is in its constructed state (QuietM.quietb, reflected by quietb_quiet)
    allq = list(dict.fromkeys(ex + ALLQ))
    trees = zw.run_cases([zw.enc(q, m="tree") for q in allq])
    pairs = [(q, t.d["sx_simplified"]) for q, t in zip(allq, trees) if t.d.get("sx_simplified") and t.d.get("built") is not False]
    qres = engine.run_model([sx for _, sx in pairs], mode="quiet")
    qhist = {}
    for (q, sx), r in zip(pairs, qres):
        k = {"EQ": "quiet, no format op (C01_every_program_forgets)", "OK": "quiet, with format ops (C01_every_program_forgets_any)", "NE": "NOT quiet"}.get(r[0], r[0])
        qhist[k] = qhist.get(k, 0) + 1
        if r[0] == "NE":
            ctx.violation("the chain built for `%s` is not in its constructed state: the hypothesis of C01_engine_forgets does not hold for it" % q[:200], {"query": q, "kind": "not-quiet"})
    common.report_broken_obligations(ctx, oblig, bool(ctx.violations))
    ctx.cov.update({
        "built_chains_quiet": qhist, "stream_decompositions": nstream,
        "evaluations": stats["evaluations"],
        "distinct_nontrivial": len(stats["nontrivial"]),
        "rule": "programs over the core constructs: every term up to a size bound over a 13-word alphabet with the constructors cat, `,`, `||`, [ ], ?( ), !( ), infix ==, let, E?, bounded E*, %( %) — each alone and behind a two-stack producer — plus random nested programs (depth 2-4, typed generation, 5% ill-typed) behind multi-yield producers; non-trivial = terminates with >= 2 results and contains a multi-stack construct; each program is parsed by the implementation, its tree is run by the extracted engine model, event streams compared in order; + on the implementation alone: (a, b, c) E against a E, b E, c E as multisets (pattern-taking words with varying patterns, random bodies)",
        "samples": samples[:5],
        "traces_validated_against_impl": stats["evaluations"],
        "impl_status_histogram": {k[7:]: v for k, v in stats.items() if k.startswith("status:")},
        "results_per_program_histogram": stats["results_hist"],
        "generator_choices": dict(sorted(gstats.items())),
        "disagreements": stats["disagreements"],
        "programs_skipped_after_six_violations": stats.get("skipped_after_violations", 0),
        "spec_comparison": {k[5:]: v for k, v in stats.items() if k.startswith("spec:")},
    })
    return ctx.finish(oblig)


def replay(ctx, path):
    case = json.load(open(path))["case"]
    common.build_impl("plain")
    common.build_coq()
    common.build_model()
    engine.observe_params()
    for q in [case.get("query")]:
        (_, ci, cm, sx), = engine.run_both([q])
        print("query:", q)
        print("tree :", sx)
        print("impl :", ci[0], " ".join(ci[1]))
        print("model:", cm[0], " ".join(cm[1]))
        return 0 if engine.agree(ci, cm) else 1
