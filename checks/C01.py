"""C01 — each construct acts on every input stack independently (stream semantics).

Proof: coq/props/Properties_C01.v over the engine model coq/zw/Engine.v.
Correspondence: programs (exhaustively enumerated small ones + random nested
ones, each also behind multi-yield producers) are parsed by the implementation,
the tree it built is handed to the extracted engine model, and both result
streams are compared event by event (values, domains, positions, diagnostics,
order).  A hang of one side only is a disagreement.
"""
import json
import os
import random
import re

from vlib import common, zw, engine, zgen

CORPUS = os.path.join(common.VERIF, "corpus", "C01.txt")


def shrink(q, still_bad, budget=40):
    """greedy token-deletion shrinking that keeps the program parseable and bad"""
    toks = q.split(" ")
    changed = True
    tries = [0]

    def bad(c):
        tries[0] += 1
        return tries[0] <= budget and still_bad(c)
    still = bad
    while changed and len(toks) > 1 and tries[0] < budget:
        changed = False
        for i in range(len(toks)):
            cand = toks[:i] + toks[i + 1:]
            c = " ".join(cand)
            if c.count("(") == c.count(")") and c.count("[") == c.count("]") and c.count('"') % 2 == 0 and c.strip():
                if still(c):
                    toks = cand
                    changed = True
                    break
    return " ".join(toks)


def disagrees(q):
    (_, ci, cm, _), = engine.run_both([q])
    if ci[0].startswith("REJECT") and cm[0].startswith("REJECT"):
        return False
    return not engine.agree(ci, cm)


def order_fixed(sx):
    """The documentation fixes the order of results unless a `,` can be fed
    more than one stack (then the branches' results interleave)."""
    if not sx:
        return True
    multi = sx.count("(ALT") + sx.count("(STAR") + sx.count("(PLUS") + sx.count("x656c656d)") + sx.count("x72656c656d)")
    return not (sx.count("(ALT") >= 1 and multi >= 2)


def spec_agree(ci, cd, sx):
    """implementation vs the denotational specification"""
    if ci[0] == "HANG" or cd[0] == "HANG":
        return True, "diverge"
    if ci[0] != cd[0]:
        return False, "status"
    if ci[0] == "ABORT":
        return True, "abort"          # what precedes an exception depends on scheduling
    if ci[1] == cd[1]:
        return True, "exact"
    if not order_fixed(sx):
        # order unspecified: positions (numbering in yield order) are unspecified too
        if "x706f73)" in sx or "pred_pos" in bytes.fromhex("".join(re.findall(r"BUILTIN x([0-9a-f]*)", sx))).decode("latin1"):
            return True, "skipped-pos-dependent"
        strip = lambda evs: sorted(re.sub(r":\d+(?=[ \],]|$)", ":_", e) for e in evs)
        if strip(ci[1]) == strip(cd[1]):
            return True, "permutation"
    return False, "results"


def compare(ctx, queries, stats, kind, max_report=6):
    res = engine.run_both(queries)
    # the specification on the same trees
    idx = [i for i, r in enumerate(res) if r[3]]
    dens = engine.run_model([res[i][3] for i in idx], fuel=150, mode="den")
    for i, cd in zip(idx, dens):
        q, ci, cm, sx = res[i]
        if ci[0].startswith("REJECT") or ci[0].startswith("CRASH"):
            continue
        okk, how = spec_agree(ci, cd, sx)
        stats["spec:" + how] = stats.get("spec:" + how, 0) + 1
        if not okk and len(ctx.violations) < 6:
            ctx.violation("`%s`: implementation %s %s, documented meaning %s %s" % (
                q[:300], ci[0], " ".join(ci[1])[:200], cd[0], " ".join(cd[1])[:200]),
                {"query": q, "impl": list(ci), "spec": list(cd), "kind": kind + "/spec"})
    # a model HANG against an implementation that finished: retry with more fuel
    retry = [i for i, (q, ci, cm, sx) in enumerate(res) if cm[0] == "HANG" and ci[0] != "HANG" and sx]
    if retry:
        again = engine.run_model([res[i][3] for i in retry], fuel=engine.FUEL * 10, limit=engine.LIMIT)
        for i, cm in zip(retry, again):
            res[i] = (res[i][0], res[i][1], cm, res[i][3])
    reported = 0
    for q, ci, cm, sx in res:
        stats["evaluations"] += 1
        stats["status:" + ci[0].split(":")[0]] = stats.get("status:" + ci[0].split(":")[0], 0) + 1
        nres = sum(1 for e in ci[1] if e.startswith("R"))
        stats["results_hist"][min(nres, 9)] = stats["results_hist"].get(min(nres, 9), 0) + 1
        if ci[0] == "DONE" and nres >= 2 and any(k in q for k in (",", "||", "*", "+", "elem", "let", "%(")):
            stats["nontrivial"].add(q)
        if not engine.agree(ci, cm):
            stats["disagreements"] += 1
            if reported < max_report and len(ctx.violations) < 6:
                small = shrink(q, disagrees) if len(q) < 400 else q
                (_, si, sm, _), = engine.run_both([small])
                case = {"query": small, "original": q, "impl": list(si), "model": list(sm), "kind": kind}
                what = "`%s`: implementation %s %s, engine model %s %s" % (
                    small, si[0], " ".join(si[1])[:200], sm[0], " ".join(sm[1])[:200])
                if ctx.violation(what, case):
                    reported += 1


def run(ctx):
    oblig = common.prepare(ctx)
    if oblig is None:
        return ctx.finish(None)
    engine.observe_params()
    quick = ctx.tier == "quick"
    stats = {"evaluations": 0, "disagreements": 0, "results_hist": {}, "nontrivial": set()}
    samples = []
    if os.path.exists(CORPUS):
        corpus = [l.rstrip("\n") for l in open(CORPUS) if l.strip() and not l.startswith("#")]
        compare(ctx, corpus, stats, "corpus")
        samples.append(corpus[0])
    ex = list(zgen.exhaustive(3 if quick else 4))
    ctx.log("exhaustive: %d programs up to size %d" % (len(ex), 3 if quick else 4))
    for i in range(0, len(ex), 3000):
        compare(ctx, ex[i:i + 3000], stats, "exhaustive")
    samples.append(ex[len(ex) // 2])
    nrand = 2500 if quick else 40000
    gstats = {}
    for depth, share in ((2, 0.4), (3, 0.4), (4, 0.2)):
        g = zgen.G(ctx.sub_rng("gen%d" % depth), max_depth=depth)
        qs = [g.program() for _ in range(int(nrand * share))]
        samples.append(qs[0])
        for i in range(0, len(qs), 3000):
            compare(ctx, qs[i:i + 3000], stats, "random-depth%d" % depth)
        for k, v in g.stats.items():
            gstats[k] = gstats.get(k, 0) + v
    common.report_broken_obligations(ctx, oblig, bool(ctx.violations))
    ctx.cov.update({
        "evaluations": stats["evaluations"],
        "distinct_nontrivial": len(stats["nontrivial"]),
        "rule": "programs over the core constructs: every term up to a size bound over a 13-word alphabet with the constructors cat, `,`, `||`, [ ], ?( ), !( ), infix ==, let, E?, bounded E*, %( %) — each alone and behind a two-stack producer — plus random nested programs (depth 2-4, typed generation, 5% ill-typed) behind multi-yield producers; non-trivial = terminates with >= 2 results and contains a multi-stack construct; each program is parsed by the implementation, its tree is run by the extracted engine model, event streams compared in order",
        "samples": samples[:5],
        "traces_validated_against_impl": stats["evaluations"],
        "impl_status_histogram": {k[7:]: v for k, v in stats.items() if k.startswith("status:")},
        "results_per_program_histogram": stats["results_hist"],
        "generator_choices": dict(sorted(gstats.items())),
        "disagreements": stats["disagreements"],
        "spec_comparison": {k[5:]: v for k, v in stats.items() if k.startswith("spec:")},
    })
    return ctx.finish(oblig)


def replay(ctx, path):
    case = json.load(open(path))["case"]
    common.build_impl("plain")
    common.build_coq()
    common.build_model()
    engine.observe_params()
    for q in [case.get("query")]:
        (_, ci, cm, sx), = engine.run_both([q])
        print("query:", q)
        print("tree :", sx)
        print("impl :", ci[0], " ".join(ci[1]))
        print("model:", cm[0], " ".join(cm[1]))
        return 0 if engine.agree(ci, cm) else 1
