"""C04 — assertions and sub-expression contexts never disturb the surrounding stack.

Proof: coq/props/Properties_C04.v (over the specification Den.v).
Correspondence / metamorphic checks on the implementation, for producers P of
several stacks (different depths and types) and generated sub-expressions E
(pushing, popping, failing, multi-yielding):
  * results(P ?(E)) + results(P !(E)) == results(P)      (as multisets)
  * every result of P ?(E), P !(E), P (E1 op E2), P ?w, P !w is a result of P
  * ?w and !w never both hold; they partition P's results unless w fails
  * P let X := E;  yields only stacks of P;  P [E] = one sequence on a stack of P
and the same programs are compared with the engine model / specification.
"""
import collections
import json

from vlib import common, zw, engine, zgen
from vlib.enginecheck import compare

PRODUCERS = ['1', '1 "a"', '(1, 2)', '(1, "a", [1, 2])', '1 2 (3, 4)', '[1, 2, 3] elem', '"ab" [1] (7, 8)',
             '(1, 2) (|A| A A 1 add)', '[] "x"', '(1 2, 3)']
PWORDS = ["?eq", "!eq", "?lt", "!lt", "?gt", "!gt", "?ne", "!ne", "?ge", "!ge", "?le", "!le",
          "?empty", "!empty", "?find", "!find", "?starts", "!starts", "?ends", "!ends", "?0", "!0", "?1", "!1"]
PAIR = {"?eq": "!eq", "?lt": "!lt", "?gt": "!gt", "?ne": "!ne", "?ge": "!ge", "?le": "!le", "?empty": "!empty",
        "?find": "!find", "?starts": "!starts", "?ends": "!ends", "?0": "!0", "?1": "!1"}


def stacks(ci):
    """multiset of result stacks, positions erased"""
    import re
    return collections.Counter(re.sub(r":\d+(?=[ \],]|$)", ":_", e) for e in ci[1] if e.startswith("R"))


def run(ctx):
    oblig = common.prepare(ctx)
    if oblig is None:
        return ctx.finish(None)
    engine.observe_params()
    quick = ctx.tier == "quick"
    g = zgen.G(ctx.sub_rng("gen"), max_depth=2, illtyped=0.15)
    rng = ctx.sub_rng("pick")
    nE = 250 if quick else 4000
    cases = []     # (kind, P, queries...)
    for _ in range(nE):
        P = rng.choice(PRODUCERS)
        E, _ = g.sub(2, [], [])
        E = E or "1"
        E2, _ = g.sub(1, [], [])
        E2 = E2 or "2"
        op = rng.choice(["==", "!=", "<", ">", "<=", ">="])
        cases.append(("subx", P, ["%s" % P, "%s ?(%s)" % (P, E), "%s !(%s)" % (P, E)]))
        cases.append(("infix", P, ["%s" % P, "%s (%s %s %s)" % (P, E, op, E2)]))
        cases.append(("let", P, ["%s" % P, "%s let V9 := %s;" % (P, E)]))
        cases.append(("capture", P, ["%s" % P, "%s [%s]" % (P, E)]))
    for P in PRODUCERS:
        for w, nw in PAIR.items():
            cases.append(("word", P, [P, "%s %s" % (P, w), "%s %s" % (P, nw)]))
    # sub-expressions that are user-defined words (names bound to blocks with every kind of stack
    # effect: consuming, replacing, reordering, multi-yield, none) alone or with literals / values
    DEFS = "let W1 := {dup add}; let W2 := {drop 7}; let W3 := {}; let W4 := {swap}; let W5 := {drop drop}; let W6 := {(1, 2)}; let V := 5;"
    WEXPR = ["W1", "W2", "W3", "W4", "W5", "W6", "V", "V W1", "W1 W1", "1 W4", "W2 W1", "W6 W1", "V W6", "W3 1", "W4 W2"]
    for P in PRODUCERS:
        PP = "%s %s" % (DEFS, P)
        for E in WEXPR:
            cases.append(("let", PP, [PP, "%s let V9 := %s;" % (PP, E)]))
            cases.append(("subx", PP, [PP, "%s ?(%s)" % (PP, E), "%s !(%s)" % (PP, E)]))
            E2 = rng.choice(WEXPR)
            op = rng.choice(["==", "!=", "<", ">", "<=", ">="])
            cases.append(("infix", PP, [PP, "%s (%s %s %s)" % (PP, E, op, E2)]))
    # `let` whose whole body is one literal: numbers, sequences, plain strings - and strings with directives, which
    # take what they render from the stack (of the let's own sub-expression context)
    LITS = ['"%s"', '"%d-%s"', '"%( dup add %)"', '"<%( drop 1 %)>"', '"plain"', '"%%"', "7", "[]", "0x10", '"%x%o"', '"%( %)"', 'r"%s"', '"%s"\\ "-%s"']
    for P in PRODUCERS:
        for E in LITS:
            cases.append(("let", P, [P, "%s let V9 := %s;" % (P, E)]))
            cases.append(("let", P, ["%s 5" % P, "%s let V9 := %s; 5" % (P, E)]))
            cases.append(("subx", P, [P, "%s ?(%s)" % (P, E), "%s !(%s)" % (P, E)]))
    # assertion words whose evaluation itself can fail (malformed patterns): neither form may hold
    unmodelled = set()
    PATS = ['"b"', '"^a.c$"', '"a("', '"[a"', '"a{2"', '"a\\\\"', '"(a|"', '"*a"']
    for pat in PATS:
        for hay in ('"abc"', '""'):
            P = "%s %s" % (hay, pat)
            grp = [P, "%s ?match" % P, "%s !match" % P]
            cases.append(("word", P, grp))
            unmodelled.update(grp[1:])
            for P0 in ("1", "(1, 2)"):
                grp = [P0, "%s (%s =~ %s)" % (P0, hay, pat), "%s (%s !~ %s)" % (P0, hay, pat)]
                cases.append(("word", P0, grp))
                unmodelled.update(grp[1:])
    qs = [q for c in cases for q in c[2]]
    uniq = list(dict.fromkeys(qs))
    runs = zw.run_cases([zw.enc(q, t=3, max=200) for q in uniq])
    res = {q: engine.canon_impl(r) for q, r in zip(uniq, runs)}
    evaluations = 0
    nontrivial = set()
    viol = 0
    kinds = collections.Counter()

    def bad(what, case):
        nonlocal viol
        viol += 1
        if viol <= 6:
            ctx.violation(what, case)
    for kind, P, q in cases:
        rs = [res[x] for x in q]
        if any(r[0] != "DONE" for r in rs):
            kinds[kind + ":skipped(" + ",".join(r[0] for r in rs) + ")"] += 1
            continue
        evaluations += len(q)
        kinds[kind] += 1
        base = stacks(rs[0])
        if kind == "subx":
            yes, no = stacks(rs[1]), stacks(rs[2])
            if yes + no != base:
                bad("`%s` and `%s` do not partition the results of `%s`: %s + %s vs %s" % (q[1], q[2], q[0], dict(yes), dict(no), dict(base)),
                    {"query": q[1], "neg": q[2], "producer": q[0]})
            if sum(yes.values()) and sum(no.values()):
                nontrivial.add(q[1])
        elif kind == "word":
            yes, no = stacks(rs[1]), stacks(rs[2])
            errs = sum(1 for e in rs[1][1] if e == "E")
            if (yes & no) or (yes + no) - base:
                bad("`%s` / `%s`: both hold, or a result is not a result of `%s`" % (q[1], q[2], q[0]), {"query": q[1], "neg": q[2], "producer": q[0]})
            if sum((base - (yes + no)).values()) != errs:
                bad("`%s` / `%s` leave out %d stacks of `%s` but reported %d errors" % (q[1], q[2], sum((base - (yes + no)).values()), q[0], errs),
                    {"query": q[1], "neg": q[2], "producer": q[0]})
            if sum(yes.values()) and sum(no.values()):
                nontrivial.add(q[1])
        elif kind == "infix":
            got = stacks(rs[1])
            if got - base:
                bad("`%s` yields a stack that `%s` does not: %s" % (q[1], q[0], dict(got - base)), {"query": q[1], "producer": q[0]})
            if sum(got.values()):
                nontrivial.add(q[1])
        elif kind == "let":
            got = stacks(rs[1])
            if set(got) - set(base):
                bad("`%s` disturbs the stack: yields %s, `%s` yields %s" % (q[1], dict(got), q[0], dict(base)), {"query": q[1], "producer": q[0]})
            if sum(got.values()):
                nontrivial.add(q[1])
        elif kind == "capture":
            # every result = one sequence on top of a stack of P, one per stack of P
            import re
            below = collections.Counter()
            okk = True
            for e in rs[1][1]:
                if not e.startswith("R["):
                    continue
                m = re.match(r"R\[q:\[.*?\]:\d+ ?(.*)\]$", e) if "q:[" in e[:5] else None
                if not e.startswith("R[q:["):
                    okk = False
            n_out = sum(1 for e in rs[1][1] if e.startswith("R"))
            if not okk or n_out != sum(base.values()):
                bad("`%s`: not exactly one captured sequence per stack of `%s`" % (q[1], q[0]), {"query": q[1], "producer": q[0]})
            nontrivial.add(q[1])
    # every ?w / !w pair of the vocabulary (DWARF tags, attributes, forms, location operators in long
    # and short spelling, ?root, ?haschildren ...) on the values it applies to, taken from sample files:
    # the two forms partition the values (none in both, none in neither)
    import os
    voc = set(zw.run_cases(["@m=voc"])[0].d["words"])
    vpairs = sorted(w for w in voc if w.startswith("?") and ("!" + w[1:]) in voc and w not in PAIR)
    T = os.path.join(common.REPO, "tests")
    BASES = [("DIE", "entry", os.path.join(T, "nontrivial-types.o")), ("attribute", "entry attribute", os.path.join(T, "nontrivial-types.o")),
             ("location operation", "entry @AT_location elem", os.path.join(T, "bitcount.o")),
             ("location operation", "entry @AT_location elem", os.path.join(T, "testfile_const_type")),
             ("location list element", "entry @AT_location", os.path.join(T, "bitcount.o")),
             ("symbol", "symbol", os.path.join(T, "y.o")), ("tag constant", "entry label", os.path.join(T, "a1.out")),
             ("form constant", "entry attribute form", os.path.join(T, "a1.out")), ("address set", "entry @AT_location address", os.path.join(T, "bitcount.o"))]
    # location expressions in which an operation occurs once, twice, three times (and not at all)
    from vlib.dwgen import Attr as _A, Die as _D, Unit as _U, Forest as _F, write_object as _wo
    from vlib import dwforest as _dwf
    exprs = [[("DW_OP_reg3",), ("DW_OP_piece", 8), ("DW_OP_reg4",), ("DW_OP_piece", 8)], [("DW_OP_lit1",), ("DW_OP_lit1",), ("DW_OP_plus",)],
             [("DW_OP_lit1",), ("DW_OP_lit1",), ("DW_OP_lit1",), ("DW_OP_plus",), ("DW_OP_plus",)], [("DW_OP_dup",), ("DW_OP_dup",), ("DW_OP_dup",), ("DW_OP_drop",)],
             [("DW_OP_breg5", 0), ("DW_OP_breg5", 8), ("DW_OP_plus",)], [("DW_OP_fbreg", -8)], [("DW_OP_piece", 4)], []]
    lroot = _D("DW_TAG_compile_unit", [_A("DW_AT_name", "DW_FORM_string", b"repeats")],
               [_D("DW_TAG_variable", [_A("DW_AT_name", "DW_FORM_string", b"r%d" % k), _A("DW_AT_location", "DW_FORM_exprloc", e)]) for k, e in enumerate(exprs)], flag=True)
    rep_path = os.path.join(_dwf.workdir(ctx), "repeats.o")
    _wo(_F([_U(lroot, 4)]), rep_path)
    rep_words = sorted(w for w in vpairs if w in {sp + n for sp in ("?OP_", "?DW_OP_") for n in ("reg3", "piece", "lit1", "plus", "dup", "drop", "breg5", "fbreg", "reg4", "deref")})
    if quick:
        vsel = [w for k, w in enumerate(vpairs) if k % 3 == ctx.seed % 3 or not w.startswith(("?DW_", "?AT_", "?TAG_", "?FORM_", "?OP_", "?DW"))] + \
               [w for w in vpairs if w.startswith(("?DW_OP_", "?OP_"))][::2]
        vsel = sorted(set(vsel))
    else:
        vsel = vpairs
    vq, vmeta = [], []
    for what, base, f in BASES + [("location list element (operations repeated)", "entry @AT_location", rep_path), ("location operation", "entry @AT_location elem", rep_path)]:
        if not os.path.exists(f):
            continue
        for w in (rep_words if f == rep_path else vsel):
            vq.append(zw.enc("[%s] length" % base, dw=f))
            vq.append(zw.enc("[%s %s] length" % (base, w), dw=f))
            vq.append(zw.enc("[%s !%s] length" % (base, w[1:]), dw=f))
            vmeta.append((what, base, f, w))
    vr = zw.run_cases(vq)
    vpairs_run = 0
    for k, (what, base, f, w) in enumerate(vmeta):
        rb, ry, rn = vr[3 * k], vr[3 * k + 1], vr[3 * k + 2]
        if rb.ok() and (ry.crash or rn.crash) and "timeout" not in str(ry.crash or rn.crash):
            bad("`%s` / `!%s` on the values of `%s` (%s) kills the library: %s" % (w, w[1:], base, os.path.basename(f), ry.crash or rn.crash),
                {"query": "%s %s" % (base, w), "neg": "%s !%s" % (base, w[1:]), "producer": base, "file": f})
            continue
        if not (rb.ok() and ry.ok() and rn.ok() and rb.results and ry.results and rn.results):
            continue
        nb, ny, nn = (int(r.results[0][0]["v"]) for r in (rb, ry, rn))
        ey = sum(1 for e in ry.d.get("events", []) if e[0] == "e")
        evaluations += 3
        vpairs_run += 1
        if ey == 0 and ny + nn != nb:
            bad("`%s` holds for %d and `!%s` for %d of the %d values of `%s` on %s: they do not partition them" % (w, ny, w[1:], nn, nb, base, os.path.basename(f)),
                {"query": "%s %s" % (base, w), "neg": "%s !%s" % (base, w[1:]), "producer": base, "file": f})
        elif ey and (ny or nn) and ny + nn + ey < nb:
            bad("`%s` / `!%s` on `%s` (%s): %d + %d hold, %d errors, %d values" % (w, w[1:], base, os.path.basename(f), ny, nn, ey, nb),
                {"query": "%s %s" % (base, w), "neg": "%s !%s" % (base, w[1:]), "producer": base, "file": f})
    # every assertion word of the vocabulary as a bare word on two-value stacks of every type pair
    # (incl. address sets and closures that carry positions): what it lets through is the incoming
    # stack, value for value and position for position; ?w and !w never both hold
    corewords = sorted(w for w in voc if w.startswith("?") and ("!" + w[1:]) in voc and not w.startswith(("?DW_", "?AT_", "?TAG_", "?FORM_", "?OP_", "?ATE_", "?LANG_", "?STT_", "?STB_", "?STV_")))
    VALS = ['1', '"ab"', '[1, 2]', '0 0x100 aset', '0x10 0x20 aset', '0 4 aset 8 12 aset add', '"a"', '[]', '[{10}, {20}, {30}] elem', '[[7], [8]] elem', '"xyz" elem']
    tq, tmeta = [], []
    for a in VALS:
        for b in VALS:
            P2 = "%s %s" % (a, b)
            full = not quick or ("aset" in a and "aset" in b) or a == b        # quick: half of the words on pairs of different kinds
            for w in (corewords if full else [w for k, w in enumerate(corewords) if (k + len(tq)) % 2 == 0]):
                tq += [P2, "%s %s" % (P2, w), "%s !%s" % (P2, w[1:])]
                tmeta.append((P2, w))
    tu = list(dict.fromkeys(tq))
    def rich(r):
        """as engine.canon_impl, but values of the other types (address sets, ...) with their contents"""
        st, evs = engine.canon_impl(r)
        if st != "DONE":
            return (st, evs)
        return (st, ["R[" + " ".join(engine.canon_value(v) if v["t"] in ("c", "s", "q", "clo") else "%s:%s:%d" % (v["t"], json.dumps(v.get("v", v.get("show")), sort_keys=True), v.get("pos", 0))
                                     for v in e[1]) + "]" for e in r.events if e[0] == "r"])
    tres = {q: rich(r) for q, r in zip(tu, zw.run_cases([zw.enc(q, t=3, max=200) for q in tu]))}
    for P2, w in tmeta:
        rb, ry, rn = tres[P2], tres["%s %s" % (P2, w)], tres["%s !%s" % (P2, w[1:])]
        if rb[0] != "DONE" or ry[0] != "DONE" or rn[0] != "DONE":
            continue
        evaluations += 3
        base_ = collections.Counter(e for e in rb[1] if e.startswith("R"))
        yes_ = collections.Counter(e for e in ry[1] if e.startswith("R"))
        no_ = collections.Counter(e for e in rn[1] if e.startswith("R"))
        both = (yes_ & no_) if P2.count("{") < 2 else None        # (two closures have no order: documented exception)
        if (yes_ - base_) or (no_ - base_) or both:
            bad("`%s %s` / `!%s`: what gets through is not the incoming stack (values, positions), or both hold: %s / %s vs %s"
                % (P2, w, w[1:], dict(yes_), dict(no_), dict(base_)), {"query": "%s %s" % (P2, w), "neg": "%s !%s" % (P2, w[1:]), "producer": P2})
    # sub-expression contexts keep positions too: closures and sequences that came out of `elem`
    for P2 in ('[{10}, {20}, {30}] elem', '[[7], [8], [9]] elem', '"abc" elem', '[1, 2, 3] elem', '[{10}, {20}] elem 5'):
        for ctxq in ("let X9 := 7;", "?(1)", "!(1 2 ?eq)", "(1 == 1)", "[7] drop", "(|A9| A9)", "dup drop"):
            if ctxq == "(|A9| A9)" and "{" in P2 and P2.endswith("elem"):
                continue        # a name bound to a closure applies it
            tq2 = ["[%s pos]" % P2, "[%s %s pos]" % (P2, ctxq)]
            r1, r2 = (engine.canon_impl(r) for r in zw.run_cases([zw.enc(q) for q in tq2]))
            evaluations += 2
            if r1 != r2:
                bad("`%s` changes positions: `%s` gives %s, `%s` gives %s" % (ctxq, tq2[0], " ".join(r1[1])[:120], tq2[1], " ".join(r2[1])[:120]),
                    {"query": tq2[1], "producer": tq2[0]})
    # the same programs against engine model and specification
    stats = {"evaluations": 0, "disagreements": 0, "results_hist": {}, "nontrivial": set()}
    allq = [x for x in uniq if x not in unmodelled]        # the regex engine is not modelled
    for k in range(0, len(allq), 3000):
        compare(ctx, allq[k:k + 3000], stats, "c04")
    common.report_broken_obligations(ctx, oblig, bool(ctx.violations))
    ctx.cov.update({
        "evaluations": evaluations + stats["evaluations"],
        "distinct_nontrivial": len(nontrivial),
        "rule": "metamorphic groups (P; P ?(E); P !(E)), (P; P (E1 op E2)), (P; P let X := E;), (P; P [E]) for 10 producers of several stacks of mixed depth/type and random sub-expressions E (15% ill-typed, i.e. failing), and (P; P ?w; P !w) for every assertion word (incl. ?match/!match and =~/!~ on well-formed and malformed patterns), every other ?w/!w pair of the vocabulary (DWARF tags/attributes/forms/location operators in both spellings, ?root, ?haschildren, ...) on DIEs, attributes, location operations, symbols and constants of sample files, and sub-expressions that are user-defined words (names bound to blocks that consume, replace, reorder, multiply or leave the stack) in let / ?( ) / !( ) / infix; non-trivial = both the positive and the negative form hold for some stack (or the construct yields); each group checked on the implementation's results, and every program also compared with the engine model and the specification",
        "samples": [cases[0][2], cases[1][2], cases[-1][2]],
        "groups": dict(kinds),
        "metamorphic_violations": viol, "vocabulary_pairs_on_dwarf_values": vpairs_run,
        "traces_validated_against_impl": stats["evaluations"],
        "spec_comparison": {k[5:]: v for k, v in stats.items() if k.startswith("spec:")},
        "not_covered": "DWARF stacks (P = DWARF traversals) are exercised by C05/C06 law queries",
    })
    return ctx.finish(oblig)


def replay(ctx, path):
    case = json.load(open(path))["case"]
    common.build_impl("plain")
    engine.observe_params()
    for k in ("producer", "query", "neg"):
        if case.get(k):
            r = engine.canon_impl(zw.run_cases([zw.enc(case[k])])[0])
            print("%-9s %s\n          -> %s %s" % (k, case[k], r[0], " ".join(r[1])[:400]))
    return 0
