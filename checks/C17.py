"""C17 — location lists, their operations and abbreviations are consistent with the DIEs.

Proof: coq/props/Properties_C17.v (dw/Loc.v): signed operands survive libdw's
unsigned words, every operand class reports its stored operands, length /
elem / relem / ?OP_x laws on an element, abbreviation lookup and matching.
Correspondence: generated units with location expressions covering every
operand class at boundary values (exprloc, DWARF 2/3 blocks, .debug_loc lists
with several ranges), abbreviation tables shared between non-adjacent units,
DW_FORM_indirect attributes: elements, ranges, offsets, opcodes, operands,
abbreviation (code, tag, children flag, attribute list, offset) of every DIE and
the list of tables against the generator's ground truth and the model's operand
decoding; law queries on the sample binaries.
"""
import json
import os

from vlib import common, zw, dwforest, dwloc
from vlib.dwgen import Attr, Die, Unit, Forest, write_object, C, consts


def build_loc_forest(version):
    ops = dwloc.all_ops() + dwloc.signed_fixed()
    kids, tests = [], []
    form = "DW_FORM_exprloc" if version >= 4 else "DW_FORM_block1"
    # one variable per small group of operations (block1 holds at most 255 bytes)
    # ... under each of the attributes that hold location descriptions, in turn
    LOCATS = ["DW_AT_location", "DW_AT_data_member_location", "DW_AT_vtable_elem_location", "DW_AT_frame_base", "DW_AT_return_addr", "DW_AT_static_link",
              "DW_AT_use_location", "DW_AT_segment", "DW_AT_data_location"]
    for i in range(0, len(ops), 6):
        grp = ops[i:i + 6]
        at = LOCATS[(i // 6) % len(LOCATS)]
        d = Die("DW_TAG_variable", [Attr("DW_AT_name", "DW_FORM_string", b"v%d" % i), Attr(at, form, grp)])
        kids.append(d)
        tests.append((d, at, [(0, (1 << 64) - 1, grp)]))
    # values given in place: blocks whose length needs one and two LEB128 bytes
    for n in ((1, 4, 127) if version < 4 else (1, 4, 127, 128, 130, 300, 16384)):
        blk = bytes((7 * k + n) & 0xff for k in range(n))
        grp = [("DW_OP_implicit_value", blk), ("DW_OP_piece", n)] if n != 4 else [("DW_OP_lit1",), ("DW_OP_implicit_value", blk), ("DW_OP_stack_value",)]
        d = Die("DW_TAG_variable", [Attr("DW_AT_name", "DW_FORM_string", b"iv%d" % n), Attr("DW_AT_location", form if n < 200 or version >= 4 else "DW_FORM_block", grp)])
        kids.append(d)
        tests.append((d, "DW_AT_location", [(0, (1 << 64) - 1, grp)]))
    # an expression without any operation (a variable optimised away): one element of length 0
    d = Die("DW_TAG_variable", [Attr("DW_AT_name", "DW_FORM_string", b"gone"), Attr("DW_AT_location", form, [])])
    kids.append(d)
    tests.append((d, "DW_AT_location", [(0, (1 << 64) - 1, [])]))
    d = Die("DW_TAG_subprogram", [Attr("DW_AT_frame_base", form, [("DW_OP_call_frame_cfa",)])])
    kids.append(d)
    tests.append((d, "DW_AT_frame_base", [(0, (1 << 64) - 1, [("DW_OP_call_frame_cfa",)])]))
    root = Die("DW_TAG_compile_unit", [Attr("DW_AT_name", "DW_FORM_string", b"loc%d" % version), Attr("DW_AT_low_pc", "DW_FORM_addr", 0x1000)], kids, flag=True)
    f = Forest([Unit(root, version)])
    if version in (3, 4):
        # location lists in .debug_loc: several ranges per attribute
        lists = [[(0x10, 0x20, [("DW_OP_reg5",)]), (0x20, 0x48, [("DW_OP_fbreg", -24), ("DW_OP_deref",)]), (0x100, 0x101, [("DW_OP_bregx", 70, -9), ("DW_OP_stack_value",)])],
                 [(0, 4, [("DW_OP_lit0",), ("DW_OP_stack_value",)])],
                 # an empty expression in the middle of a list, and one at its end
                 [(0x10, 0x20, [("DW_OP_reg0",)]), (0x20, 0x30, []), (0x30, 0x40, [("DW_OP_lit1",), ("DW_OP_stack_value",)])],
                 [(0x50, 0x60, [("DW_OP_reg1",)]), (0x60, 0x70, [])]]
        f.loc = lists
        off = 0
        for k, entries in enumerate(lists):
            d = Die("DW_TAG_formal_parameter", [Attr("DW_AT_name", "DW_FORM_string", b"p%d" % k),
                                                Attr("DW_AT_location", "DW_FORM_sec_offset" if version >= 4 else "DW_FORM_data4", off)])
            root.children.append(d)
            tests.append((d, "DW_AT_location", [(0x1000 + b, 0x1000 + e, o) for b, e, o in entries]))
            for b, e, o in entries:
                off += 8 + 8 + 2 + len(dwloc.expr_layout(o)[1])
            off += 16
    return f, tests


def build_loclists_forest():
    """DWARF 5: location lists in .debug_loclists, every kind of entry, the default location first / in the middle /
    last.  Returns (forest, [(die, attribute name, [(low, high, ops)])])"""
    from vlib.dwgen import le, uleb
    low_pc = 0x1000
    e1, e2, e3, e4 = [("DW_OP_reg5",)], [("DW_OP_fbreg", -24), ("DW_OP_deref",)], [("DW_OP_lit1",), ("DW_OP_stack_value",)], [("DW_OP_breg7", 8)]
    ALL = (0, (1 << 64) - 1)
    lists = [[("pair", 0x10, 0x20, e1), ("default", e2), ("startlen", 0x1040, 0x10, e3)],
             [("default", e1), ("pair", 0x10, 0x20, e2)],
             [("pair", 0x10, 0x20, e1), ("startend", 0x2000, 0x2010, e4), ("default", e3)],
             [("base", 0x8000), ("pair", 0x4, 0x8, e2), ("default", []), ("pair", 0x8, 0x18, e1), ("startlen", 0x9000, 0x1, e3)],
             [("default", e4)], [("pair", 0x0, 0x4, e1)]]
    sect = [0, 0, 0, 0] + le(5, 2) + [8, 0] + le(0, 4)
    offs, expect = [], []
    for l in lists:
        offs.append(len(sect))
        base, exp = low_pc, []
        for it in l:
            ex = dwloc.expr_layout(it[-1])[1] if it[0] != "base" else None
            if it[0] == "pair":
                sect += [4] + uleb(it[1]) + uleb(it[2]) + uleb(len(ex)) + ex
                exp.append((base + it[1], base + it[2], it[3]))
            elif it[0] == "default":
                sect += [5] + uleb(len(ex)) + ex
                exp.append((ALL[0], ALL[1], it[1]))
            elif it[0] == "startend":
                sect += [7] + le(it[1], 8) + le(it[2], 8) + uleb(len(ex)) + ex
                exp.append((it[1], it[2], it[3]))
            elif it[0] == "startlen":
                sect += [8] + le(it[1], 8) + uleb(it[2]) + uleb(len(ex)) + ex
                exp.append((it[1], it[1] + it[2], it[3]))
            elif it[0] == "base":
                sect += [6] + le(it[1], 8)
                base = it[1]
        sect += [0]
        expect.append(exp)
    sect[0:4] = le(len(sect) - 4, 4)
    dies = [Die("DW_TAG_formal_parameter", [Attr("DW_AT_name", "DW_FORM_string", b"q%d" % k), Attr("DW_AT_location", "DW_FORM_sec_offset", o)]) for k, o in enumerate(offs)]
    root = Die("DW_TAG_compile_unit", [Attr("DW_AT_name", "DW_FORM_string", b"loclists"), Attr("DW_AT_low_pc", "DW_FORM_addr", low_pc)], dies, flag=True)
    f = Forest([Unit(root, 5)])
    f.extra_sections = {".debug_loclists": sect}
    return f, [(d, "DW_AT_location", exp) for d, exp in zip(dies, expect)]


def build_abbrev_forest(rng):
    """tables shared between non-adjacent units, DW_FORM_indirect, many codes"""
    def unit(i, version, share=None):
        kids = []
        for k in range(rng.randint(1, 6)):
            at = [Attr("DW_AT_name", rng.choice(["DW_FORM_string", "DW_FORM_strp"]), b"n%d_%d" % (i, k))]
            if rng.random() < 0.5:
                at.append(Attr("DW_AT_decl_line", "DW_FORM_data1", k, indirect=rng.random() < 0.5))
            if rng.random() < 0.3:
                at.append(Attr("DW_AT_byte_size", "DW_FORM_udata", 300, indirect=True))
            d = Die(rng.choice(["DW_TAG_variable", "DW_TAG_base_type", "DW_TAG_namespace"]), at)
            if rng.random() < 0.3:
                d.flag = True
            kids.append(d)
        u = Unit(Die("DW_TAG_compile_unit", [Attr("DW_AT_name", "DW_FORM_string", b"u%d" % i)], kids, flag=True), version, share)
        return u
    a = unit(0, 4)
    b = unit(1, 5)
    c = unit(2, 4, share=a)           # A, B, A: shared by non-adjacent units
    d = unit(3, 3)
    e = unit(4, 4, share=a)
    g = unit(5, 5, share=b)
    f = Forest([a, b, c, d, e, g])
    # where the three tables lie in .debug_abbrev is independent of the order in which units use them
    f.abbrev_order = rng.choice([[0, 1, 2], [2, 1, 0], [1, 0, 2], [1, 2, 0], [2, 0, 1], [0, 2, 1]])
    return f


def run(ctx):
    oblig = common.prepare(ctx)
    if oblig is None:
        return ctx.finish(None)
    d = dwforest.workdir(ctx)
    rng = ctx.sub_rng("c17")
    quick = ctx.tier == "quick"
    evaluations = 0
    nviol = [0]

    def bad(what, case):
        nviol[0] += 1
        if nviol[0] <= 8:
            ctx.violation(what, case)

    nops = 0
    for version in (2, 3, 4, 5, "5-loclists"):
        if version == "5-loclists":
            f, tests = build_loclists_forest()
            version = 5
            path = os.path.join(d, "loc-v5-loclists.o")
        else:
            f, tests = build_loc_forest(version)
            path = os.path.join(d, "loc-v%d.o" % version)
        write_object(f, path)
        for die, name, elements in tests:
            evaluations += 1
            nops += dwloc.check_location(path, die.off, C(name), elements, bad, "%s of DIE %#x (DWARF %d)" % (name, die.off, version))
        # ?OP_x holds on an element iff some operation has that opcode
        voc = set(zw.run_cases(["@m=voc"])[0].d["words"])
        names = sorted({op[0][len("DW_OP_"):] for _, _, els in tests for _, _, ops in els for op in ops})
        qs = [n for n in names if "?OP_" + n in voc]
        rs = zw.run_cases([zw.enc("[entry attribute ?(form != DW_FORM_data1) value ?(type == T_LOCLIST_ELEM) ?OP_%s (|E| E address low value)]" % n, dw=path) for n in qs])
        for n, r in zip(qs, rs):
            evaluations += 1
            want = sum(1 for _, _, els in tests for _, _, ops in els if any(op[0] == "DW_OP_" + n for op in ops))
            got = len(r.results[0][0]["v"]) if r.ok() and r.results else None
            if got != want:
                bad("?OP_%s holds on %s location elements of the DWARF %d unit; %d elements contain that operation" % (n, got, version, want), {"file": path, "op": n})

    # abbreviations
    nabb = 0
    for k in range(3 if quick else 25):
        f = build_abbrev_forest(rng)
        dwforest.fix_small_refs(f)
        path = os.path.join(d, "abbrev%d.o" % k)
        write_object(f, path)
        r = zw.run_cases([zw.enc("raw entry [offset, abbrev [code, label value, [?haschildren 1], [attribute [label value, form value]], offset value], [raw attribute form value]]", dw=path, max=100000)])[0]
        evaluations += 1
        case = {"file": path, "input": "abbrev%d" % k}
        if not r.ok():
            bad("abbrev of the DIEs of generated input %d fails: %s" % (k, json.dumps(r.d)[:200]), case)
            continue
        dies = f.dies()
        if len(r.results) != len(dies):
            bad("abbrev: %d DIEs reported, %d stored" % (len(r.results), len(dies)), case)
            continue
        for s, die in zip(r.results, dies):
            nabb += 1
            v = s[0]["v"]
            owner = die.unit.share or die.unit
            got = (int(v[1]["v"][0]["v"]), int(v[1]["v"][1]["v"]), bool(v[1]["v"][2]["v"]), [tuple(int(x["v"]) for x in e["v"]) for e in v[1]["v"][3]["v"]], int(v[1]["v"][4]["v"]))
            want = (die.abbrev, C(die.tag), die.flag, [(C(a.name), C(a.abbrev_form())) for a in die.attrs], owner.abbrev_entry_offsets[die.abbrev])
            if got != want:
                bad("DIE %#x: abbrev reports (code, tag, children, attributes, offset) = %s; its abbreviation is %s" % (die.off, got, want), case)
            rawforms = [int(x["v"]) for x in v[2]["v"]]
            if rawforms != [C(a.form) for a in die.attrs]:
                bad("DIE %#x: raw attribute forms %s, stored (behind DW_FORM_indirect where used) %s" % (die.off, rawforms, [C(a.form) for a in die.attrs]), case)
        # the list of tables: each once, with every abbreviation once
        r = zw.run_cases([zw.enc("[abbrev [offset value, [entry [code, offset value]]]]", dw=path)])[0]
        evaluations += 1
        owners = []
        for u in f.units:
            o = u.share or u
            if o not in owners:
                owners.append(o)
        want = [[o.abbrev_off, [[c, o.abbrev_entry_offsets[c]] for c, _, _, _ in o.abbrevs]] for o in owners]
        got = [[int(t["v"][0]["v"]), [[int(x["v"]) for x in e["v"]] for e in t["v"][1]["v"]]] for t in r.results[0][0]["v"]] if r.ok() and r.results else None
        if got != want:
            bad("`abbrev` lists the tables %s; the file holds %s" % (str(got)[:300], str(want)[:300]), case)

    # what is known about one file's abbreviations says nothing about another's: the generated inputs (tables at
    # the same offsets, other attribute lists) and two sample files asked in turn by one process must answer as
    # each does on its own
    turn_files = [os.path.join(d, "abbrev%d.o" % k) for k in range(3 if quick else 25)] + [os.path.join(common.REPO, "tests", n) for n in ("a1.out", "twocus", "nullptr.o")]
    turn_files = [p_ for p_ in turn_files if os.path.exists(p_)]
    TQ = ["[unit root abbrev [attribute [label, form]]]", "[abbrev entry (pos == 0) [attribute label]]", "[raw entry abbrev attribute label] length", "[entry (pos == 1) abbrev attribute form]"]
    alone = {}
    for p_ in turn_files:
        for q_, r_ in zip(TQ, zw.run_cases([zw.enc(q_, dw=p_, t=60) for q_ in TQ], chunk=1)):
            alone[(p_, q_)] = ([zw.canon_stack(x, False)[0] for x in r_.results], bool(r_.hard), r_.crash)
    order = [(p_, q_) for q_ in TQ for p_ in turn_files] + [(p_, q_) for p_ in reversed(turn_files) for q_ in TQ[:2]]
    turn = zw.run_cases([zw.enc(q_, dw=p_, t=60) for p_, q_ in order], chunk=len(order))
    for (p_, q_), r_ in zip(order, turn):
        evaluations += 1
        got = ([zw.canon_stack(x, False)[0] for x in r_.results], bool(r_.hard), r_.crash)
        if got != alone[(p_, q_)]:
            bad("`%s` on %s, asked after the same of other files in one process, gives %s; on its own %s" % (q_, os.path.basename(p_), str(got)[:200], str(alone[(p_, q_)])[:200]),
                {"file": p_, "query": q_, "after": [os.path.basename(x) for x in turn_files], "kind": "abbrev-across-files"})
    # laws on the sample binaries
    LAWS = [("abbrev-label", "raw entry (|D| ?((D abbrev label) != (D label)))"),
            ("abbrev-haschildren", "raw entry (|D| (?(D ?haschildren) !(D abbrev ?haschildren), !(D ?haschildren) ?(D abbrev ?haschildren)))"),
            ("abbrev-attribute-names", "raw entry (|D| ?([D abbrev attribute label] != [D attribute label]))"),
            ("abbrev-forms", "raw entry (|D| ?([D abbrev attribute form ?(!= DW_FORM_indirect)] != [D attribute form]))"),
            ("loc-length", "entry attribute ?(form == DW_FORM_exprloc || form == DW_FORM_sec_offset) ?(label == DW_AT_location || label == DW_AT_frame_base) value (|E| ?((E length) != ([E elem] length)))"),
            ("loc-relem", "entry attribute ?(form == DW_FORM_exprloc) value (|E| ?([E elem offset] length != [E relem offset] length))")]
    nlaw = 0
    for p in dwforest.sample_files():
        probe = zw.run_cases([zw.enc("[raw unit offset]", dw=p)])[0]
        if not probe.ok():
            continue
        counts = dwforest.law_counts(p, LAWS)
        for ln, q in LAWS:
            evaluations += 1
            nlaw += 1
            if counts[ln] != 0 and not (isinstance(counts[ln], str) and ln.startswith("loc")):
                bad("on %s the law %s is broken: `%s` yields %s" % (os.path.basename(p), ln, q, counts[ln]), {"file": p, "law": ln, "query": q})
    common.report_broken_obligations(ctx, oblig, bool(ctx.violations))
    ctx.cov.update({
        "evaluations": evaluations, "distinct_nontrivial": nops + nabb,
        "rule": "4 generated units (DWARF 2-5) with %d stored operations: every operand class (none, addr, 1/2/4/8-byte unsigned and signed, ULEB, SLEB, register+offset, bregx, bit_piece) at boundary operands, as exprloc / block1, as .debug_loc lists with 1-3 ranges and as DWARF 5 .debug_loclists (offset pairs, start/end, start/length, base selection, the default location first / in the middle / last), values given in place with blocks of 1 to 16384 bytes, expressions without any operation (alone, in the middle and at the end of a list): range, length, offset, opcode, operands (vs the model's decoding), elem/relem numbering, ?OP_x per opcode; abbreviations of every DIE and the table list on %d generated inputs with tables shared A,B,A,-,A,B, placed in .debug_abbrev in any order, and DW_FORM_indirect; %d law evaluations on the sample binaries" % (nops, 3 if quick else 25, nlaw),
        "samples": [], "traces_validated_against_impl": nops + nabb + nlaw, "violations_found": nviol[0],
    })
    return ctx.finish(oblig)


def replay(ctx, path):
    case = json.load(open(path))["case"]
    print(json.dumps(case, indent=1)[:1500])
    return 0
