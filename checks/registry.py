"""What each check claims (feeds MANIFEST.json via tools/gen_manifest.py)."""

HOOK_COMMITS = []

NOT_CLAIMED = {}

CHECKS = {
    "C08": {
        "technique": "Coq proof (IntModel.v = int.cc clause for clause; theorems: each operator is the exact Z operation or an error) + differential correspondence int.cc vs extracted model",
        "text": "Proved in Coq for ALL operand pairs and both internal representations: add/sub/mul/div/mod/unary minus of the model of int.cc return the exact integer (floor division, remainder with the divisor's sign) whenever it lies in [-2^63, 2^64-1] and an error otherwise (mod never errs except on 0), the six comparisons equal the order on Z, and results do not depend on the signed/unsigned representation of the operands. The model is tied to /repo by running int.cc (linked from the working tree) and the extracted model on a 570-operand boundary lattice exhaustively (all ordered pairs x 12 operations) plus random operands, and `A B op` queries with literals in every radix through the library.",
        "note": "Trusted: Coq kernel, extraction (ExtrOcamlBasic), the hand-written correspondence between IntModel.v and int.cc (checked by differential execution, not proved), literal parsing is covered by the word-level comparison only (stoull idealised).",
    },
}
