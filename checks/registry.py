"""What each check claims (feeds MANIFEST.json via tools/gen_manifest.py)."""

HOOK_COMMITS = []

NOT_CLAIMED = {}

CHECKS = {
    "C08": {
        "technique": "Coq proof (IntModel.v = int.cc clause for clause; theorems: each operator is the exact Z operation or an error) + differential correspondence int.cc vs extracted model",
        "text": "Proved in Coq for ALL operand pairs and both internal representations: add/sub/mul/div/mod/unary minus of the model of int.cc return the exact integer (floor division, remainder with the divisor's sign) whenever it lies in [-2^63, 2^64-1] and an error otherwise (mod never errs except on 0), the six comparisons equal the order on Z, and results do not depend on the signed/unsigned representation of the operands. The model is tied to /repo by running int.cc (linked from the working tree) and the extracted model on a 570-operand boundary lattice exhaustively (all ordered pairs x 12 operations) plus random operands, and `A B op` queries with literals in every radix through the library.",
        "note": "Trusted: Coq kernel, extraction (ExtrOcamlBasic), the hand-written correspondence between IntModel.v and int.cc (checked by differential execution, not proved), literal parsing is covered by the word-level comparison only (stoull idealised).",
    },
    "C16": {
        "technique": "Coq proof (CovModel.v = coverage.cc: binary search, add = union, canonical form, comparison) + exhaustive differential correspondence coverage.cc vs extracted model",
        "text": "Proved in Coq, for all vectors satisfying the representation invariant (ascending, disjoint, non-adjacent, non-empty runs below 2^64-1) and all arguments: coverage::find returns the split point; add and add_all are set union and keep the invariant; two invariant vectors denoting the same set are identical, hence comparison answers 'equal' exactly for equal sets however they were built. remove/intersect/is_covered/is_overlap and the word layer are modelled and tied to the code but their set-theoretic theorems are not yet proved (partial): for those the claim rests on the exhaustive correspondence (every add/remove sequence up to a depth over a small universe at four base offsets incl. straddling 2^32, 2^63 and the top of the address space, every query on every state, far-apart sparse universes, random long sequences, add_all/remove_all/overlap, and the Zwerg words through the library against interval-set semantics).",
        "note": "Trusted: Coq kernel, extraction, hand-written correspondence between CovModel.v and coverage.cc (checked by differential execution). Arguments with start+length > 2^64-1 wrap in the code and are outside the claim.",
    },
    "C09": {
        "technique": "Coq proof (Cmp.v = constant::operator<, value::cmp, comparison_result; theorem: the comparison words form a lawful total preorder) + all-pairs/all-triples correspondence on a value pool",
        "text": "Proved in Coq for ALL constants, strings, sequences (any nesting) and address sets: exactly one of <, ==, > holds without error (also across types), == is an equivalence, < is transitive and antisymmetric, A<B iff B>A, equal values are interchangeable under < (strict weak order), the aliases are complements, arithmetic domains compare by value, constants with different domain keys are never equal, strings compare bytewise, sequences by length first. The domain-address order and the type codes are parameters of the model; the check observes them on the running implementation, then compares every ordered pair of a ~80-value pool (18 comparison forms each) with the extracted model and checks all triples for transitivity directly on the implementation's results.",
        "note": "Trusted: Coq kernel, extraction, the hand-written correspondence between Cmp.v and the C++ (differential). Closures are excluded (as the property says). DWARF values (DIEs/attributes/units) are not in the pool; their comparison is exercised by C05's laws only.",
    },
}
