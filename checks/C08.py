"""C08 — integer arithmetic is exact over [-2^63, 2^64-1] or reports an error.

Proof: coq/props/Properties_C08.v (model coq/int/IntModel.v of int.cc).
Correspondence: harness/intdrv.cc (links /repo/libzwerg/int.cc) vs the
extracted model on a boundary lattice (all ordered pairs, both internal
representations) and random operands; the specification (exact Z arithmetic)
is evaluated on every disagreement.  The word level (`A B add` …, literals) is
compared through the dwgrep library driver for a sample.
"""
import json
import os
import subprocess

from vlib import common, zw

W = 1 << 64
H = 1 << 63

COLS = ["add", "sub", "mul", "div", "mod", "neg", "lt", "gt", "le", "ge", "eq", "ne"]


def reprs(z):
    """internal representations {m_u, m_sign} denoting the integer z"""
    if z < 0:
        return [((z + W) % W, 1)]
    if z < H:
        return [(z, 0), (z, 1)]
    return [(z, 0)]


def lattice():
    vals = set()
    for k in range(0, 65):
        for d in (-1, 0, 1):
            for s in (1, -1):
                vals.add(s * ((1 << k) + d))
    for z in (0, 1, -1, 2, -2, H - 1, H, H + 1, -H, -H + 1, -H + 2, W - 1, W - 2, W - 3, 3, -3, 10, -10, 7, -7):
        vals.add(z)
    vals = sorted(v for v in vals if -H <= v < W)
    ops = []
    for v in vals:
        ops += reprs(v)
    return ops


def random_operands(rng, n):
    ops = []
    for _ in range(n):
        bits = rng.randint(0, 64)
        z = rng.getrandbits(bits) if bits else 0
        if rng.random() < 0.25:
            z = (1 << bits) - 1 - rng.getrandbits(max(bits - 8, 0)) if bits else 0
        if rng.random() < 0.4:
            z = -z
        if z < -H or z >= W:
            z = z % H
        ops.append(rng.choice(reprs(z)))
    return ops


def ival(op):
    u, s = op
    return u - W if (s and u >= H) else u


def spec_line(a, b):
    x, y = ival(a), ival(b)

    def rng(z):
        return str(z) if -H <= z < W else "E"
    out = [rng(x + y), rng(x - y), rng(x * y)]
    out.append("E" if y == 0 else rng(x // y))          # Python // is floor division
    out.append("E" if y == 0 else rng(x % y))           # Python % takes the divisor's sign
    out.append(rng(-x))
    out += [str(int(c)) for c in (x < y, x > y, x <= y, x >= y, x == y, x != y)]
    return out


def feed(ops):
    return "%d\n" % len(ops) + "".join("%d %d\n" % o for o in ops)


def compare_batch(ctx, ops, tag, stats, only=None):
    inp = feed(ops)
    rc1, out1, err1 = common.run([common.impl_bin("intdrv")], input=inp, timeout=600)
    rc2, out2, err2 = common.run([common.model_bin(), "int"], input=inp, timeout=1200)
    if rc2 != 0:
        ctx.violation("model driver failed", {"stderr": err2[-500:]}, no_input=True)
        return
    l1 = out1.split("\n")
    l2 = out2.split("\n")
    n = len(ops)
    stats["evaluations"] += n * n * len(COLS)
    if rc1 != 0 or len(l1) != len(l2):
        # the implementation crashed / aborted: find the first missing pair
        k = min(len(l1), len(l2)) - 1
        i, j = divmod(max(k, 0), n)
        ctx.violation("int.cc driver terminated abnormally (rc=%s) around pair %s" % (rc1, (i, j)),
                      {"a": ops[i], "b": ops[min(j, n - 1)], "stderr": err1[-500:]})
        return
    if out1 == out2:
        return
    reported = 0
    for a_line, b_line in zip(l1, l2):
        if a_line == b_line:
            continue
        f1 = a_line.split()
        f2 = b_line.split()
        i, j = int(f1[0]), int(f1[1])
        spec = spec_line(ops[i], ops[j])
        for c, name in enumerate(COLS):
            impl_v, model_v, spec_v = f1[2 + c], f2[2 + c], spec[c]
            if only is not None and name not in only:
                continue
            if impl_v != model_v:
                stats["disagreements"] += 1
                case = {"op": name, "a": {"u": ops[i][0], "signed": ops[i][1], "ival": ival(ops[i])},
                        "b": {"u": ops[j][0], "signed": ops[j][1], "ival": ival(ops[j])},
                        "impl": impl_v, "model": model_v, "spec": spec_v,
                        "key": "%s %d %d" % (name, ival(ops[i]), ival(ops[j])) if name != "neg" else "neg %d" % ival(ops[i])}
                if name == "neg":
                    case["b"] = None
                if reported < 5:
                    what = ("int.cc %s(%d%s) = %s but the exact result is %s" % (name, ival(ops[i]),
                            "" if name == "neg" else ", %d" % ival(ops[j]), impl_v, spec_v))
                    if ctx.violation(what, case):
                        reported += 1
        if reported >= 5:
            break


def nontrivial(op):
    return abs(ival(op)) >= (1 << 62)


def word_level(ctx, stats, n):
    """`A B op` through the library (value-cst.cc, literal parsing, rendering)."""
    rng = ctx.sub_rng("words")
    lat = lattice()
    cases = []
    for _ in range(n):
        a, b = rng.choice(lat), rng.choice(lat)
        op = rng.choice(["add", "sub", "mul", "div", "mod"])
        cases.append((ival(a), ival(b), op))
    # every pair of the values at which something changes (zero, the units, the ends of both ranges), all five words
    S = [0, 1, -1, 2, -2, 3, H - 1, H, H + 1, -H, -H + 1, W - 1, W - 2, (1 << 32), -(1 << 32)]
    cases += [(a, b, op) for a in S for b in S for op in ("add", "sub", "mul", "div", "mod")]

    def lit(z):
        m = abs(z)
        body = {0: "%d" % m, 1: "0x%x" % m, 2: "0o%o" % m, 3: "0b" + bin(m)[2:], 4: ("0%o" % m if m else "0")}[rng.randrange(5)]
        return ("-" if z < 0 else "") + body
    qs = ["%s %s %s value" % (lit(a), lit(b), op) for a, b, op in cases]
    ress = zw.run_cases([zw.enc(q) for q in qs])
    for (a, b, op), q, r in zip(cases, qs, ress):
        stats["evaluations"] += 1
        stats["word_cases"] += 1
        z = {"add": lambda: a + b, "sub": lambda: a - b, "mul": lambda: a * b,
             "div": lambda: None if b == 0 else a // b, "mod": lambda: None if b == 0 else a % b}[op]()
        want = "ERR" if (z is None or not (-H <= z < W)) else str(z)
        if not r.ok():
            got = "CRASH/REJECTED " + json.dumps(r.d)[:200]
        elif r.results:
            got = r.results[0][0]["v"] if len(r.results) == 1 and len(r.results[0]) == 1 else "MANY"
        else:
            got = "ERR" if r.errors else "NOTHING"
        if str(got) != want:
            ctx.violation("query `%s` gives %s, exact result is %s" % (q, got, want),
                          {"query": q, "got": got, "want": want, "key": "%s %d %d" % (op, a, b)})


FMT = {"dec": lambda z: str(z), "hex": lambda z: ("-" if z < 0 else "") + ("0x%x" % abs(z) if z else "0"),
       "oct": lambda z: ("-" if z < 0 else "") + ("0%o" % abs(z) if z else "0"),
       "bin": lambda z: ("-" if z < 0 else "") + ("0b" + bin(abs(z))[2:] if z else "0")}


def render_level(ctx, stats, n):
    """the result of an operation as the user sees it, in every radix: `A B op hex "%s"` ..."""
    rng = ctx.sub_rng("render")
    lat = sorted({ival(o) for o in lattice()})
    qs, meta = [], []
    for _ in range(n):
        a, b = rng.choice(lat), rng.choice(lat)
        op = rng.choice(["add", "sub", "mul"])
        z = {"add": a + b, "sub": a - b, "mul": a * b}[op]
        if not (-H <= z < W):
            continue
        r = rng.choice(["dec", "hex", "oct", "bin"])
        qs.append('%d %d %s %s "%%s"' % (a, b, op, r))
        meta.append((z, r))
    for z in lat:                                   # and every lattice value itself
        for r in ("hex", "oct", "bin"):
            qs.append('%d %s "%%s"' % (z, r))
            meta.append((z, r))
    for q, (z, r), res in zip(qs, meta, zw.run_cases([zw.enc(q) for q in qs])):
        stats["evaluations"] += 1
        got = bytes.fromhex(res.results[0][0]["v"]).decode("latin1") if res.ok() and len(res.results) == 1 else None
        if got != FMT[r](z):
            ctx.violation("query `%s` renders %r; the exact result %d in that radix is %r" % (q, got, z, FMT[r](z)),
                          {"query": q, "got": got, "want": FMT[r](z), "key": "render %s %d" % (r, z)})


def literal_history(ctx, stats):
    """literals parsed one after the other in ONE process: a rejected out-of-range literal must not
    change what the next literals mean"""
    good = ["18446744073709551615", "0xffffffffffffffff", "01777777777777777777777", "0b" + "1" * 64, "-9223372036854775808", "9223372036854775807", "0", "255"]
    bad = ["18446744073709551616", "0x10000000000000000", "99999999999999999999999", "-9223372036854775809"]
    seq = []
    for b in bad:
        seq += good + [b] + good
    res = zw.run_cases([zw.enc(t) for t in seq], chunk=10 ** 6)
    for t, r in zip(seq, res):
        stats["evaluations"] += 1
        if t in good:
            want = int(t, 0) if not t.startswith("0") or t in ("0",) or t[1] in "xb" else int(t, 8)
            ok = r.compile_error is None and len(r.results) == 1 and int(r.results[0][0]["v"]) == want
            if not ok:
                ctx.violation("literal `%s`, parsed after other literals in the same process, should denote %d; got %s" % (t, want, json.dumps(r.d)[:160]),
                              {"query": t, "history": seq[:seq.index(t) + 1][-6:], "key": "literal-history " + t})
        elif r.compile_error is None:
            ctx.violation("out-of-range literal `%s` was accepted" % t, {"query": t, "key": "literal " + t})


def compare_level(ctx, stats, n):
    """`A B ?lt` ... through the library (value_cst::cmp, constant::operator<): all six comparisons
    agree with mathematical order; pairs from the lattice, and every negative lattice value against
    the unsigned number with the same 64-bit pattern (2^64 apart), written in the same radix and in
    different ones"""
    rng = ctx.sub_rng("cmpwords")
    lat = sorted({ival(o) for o in lattice()})
    pairs = [(a, a + W) for a in lat if a < 0 and a + W < W] + [(a + W, a) for a in lat if a < 0 and a + W < W]
    pairs += [(a, a) for a in lat[::7]]
    while len(pairs) < n:
        pairs.append((rng.choice(lat), rng.choice(lat)))
    forms = ["%d", "0x%x", "0%o", "0b{0:b}"]

    def lit(z, form):
        m = abs(z)
        if form == "0%o" and m == 0:
            form = "%d"
        return ("-" if z < 0 else "") + (form.format(m) if "{" in form else form % m)
    words = [("?lt", lambda a, b: a < b), ("?gt", lambda a, b: a > b), ("?le", lambda a, b: a <= b),
             ("?ge", lambda a, b: a >= b), ("?eq", lambda a, b: a == b), ("?ne", lambda a, b: a != b)]
    qs, meta = [], []
    for k, (a, b) in enumerate(pairs):
        fa = forms[k % 4]
        fb = fa if k % 2 == 0 else forms[(k // 4) % 4]
        q = "%s %s [%s]" % (lit(a, fa), lit(b, fb), ", ".join('?(%s) "%s"' % (w, w) for w, _ in words))
        qs.append(q)
        meta.append((a, b))
    for (a, b), q, r in zip(meta, qs, zw.run_cases([zw.enc(q) for q in qs])):
        stats["evaluations"] += 6
        stats["compare_cases"] = stats.get("compare_cases", 0) + 1
        want = sorted(w for w, f in words if f(a, b))
        got = sorted(bytes.fromhex(x["v"]).decode() for x in r.results[0][0]["v"]) if r.ok() and len(r.results) == 1 else None
        if got != want:
            ctx.violation("query `%s`: the comparisons that hold are %s; by mathematical order of %d and %d they are %s" % (q, got, a, b, want),
                          {"query": q, "got": got, "want": want, "key": "cmp %d %d" % (a, b)})


def literal_level(ctx, stats):
    """Integer literals at and beyond the range boundaries, every prefix:
    in range -> exactly that value in the prefix's domain; out of range -> the
    query is rejected (never a wrapped value)."""
    mags = set()
    for k in (1, 8, 31, 32, 33, 62, 63, 64, 65):
        for d in (-2, -1, 0, 1, 2):
            if (1 << k) + d >= 0:
                mags.add((1 << k) + d)
    mags |= {0, 1, 7, 8, 9, 10, 255, 10 ** 19, 10 ** 20, (1 << 64) * 3 + 5, (1 << 63) * 3}
    cases = []
    for m in sorted(mags):
        for neg in (False, True):
            for form, dom in (("%d", "dec"), ("0x%x", "hex"), ("0X%X", "hex"), ("0o%o", "oct"), ("0%o", "oct"), ("0b{0:b}", "bin"), ("0B{0:b}", "bin")):
                if form == "0%o" and m == 0:
                    continue   # "00" is octal zero, "0" decimal zero: covered below
                text = ("-" if neg else "") + (form.format(m) if "{" in form else form % m)
                cases.append((text, -m if neg else m, dom))
    cases += [("0", 0, "dec"), ("00", 0, "oct"), ("-0", 0, "dec"), ("0x0", 0, "hex")]
    ress = zw.run_cases([zw.enc(t) for t, _, _ in cases])
    for (text, z, dom), r in zip(cases, ress):
        stats["evaluations"] += 1
        stats["literal_cases"] = stats.get("literal_cases", 0) + 1
        inr = -H <= z < W
        if r.crash or r.contract:
            ctx.violation("literal `%s`: driver reports %s" % (text, r.d), {"query": text, "key": "literal " + text})
        elif inr:
            ok = (r.compile_error is None and len(r.results) == 1 and len(r.results[0]) == 1
                  and r.results[0][0]["t"] == "c" and int(r.results[0][0]["v"]) == z and r.results[0][0]["d"] == dom)
            if not ok:
                ctx.violation("literal `%s` should denote %d in domain %s, got %s" % (text, z, dom, json.dumps(r.d)[:200]),
                              {"query": text, "want": [z, dom], "key": "literal " + text})
        else:
            if r.compile_error is None:
                got = r.results[0][0]["v"] if r.results and r.results[0] else "nothing"
                ctx.violation("out-of-range literal `%s` (= %d) was accepted and yields %s" % (text, z, got),
                              {"query": text, "want": "rejected", "got": got, "key": "literal " + text})


def run_check(ctx):
    oblig = common.prepare(ctx)
    if oblig is None:
        return ctx.finish(None)
    stats = {"evaluations": 0, "disagreements": 0, "word_cases": 0}
    lat = lattice()
    ctx.log("lattice: %d operands (%d ordered pairs x %d columns)" % (len(lat), len(lat) ** 2, len(COLS)))
    compare_batch(ctx, lat, "lattice", stats)
    nrand = 330 if ctx.tier == "quick" else 1000
    rounds = 1 if ctx.tier == "quick" else 4
    rnd_all = []
    for r in range(rounds):
        rnd = random_operands(ctx.sub_rng("rand%d" % r), nrand)
        rnd_all += rnd
        compare_batch(ctx, rnd, "random%d" % r, stats)
    # mixed: lattice x random
    mix = lat[::3] + random_operands(ctx.sub_rng("mix"), 150)
    compare_batch(ctx, mix, "mix", stats)
    if os.path.exists(common.impl_bin("zwdrv")):
        word_level(ctx, stats, 3000 if ctx.tier == "quick" else 30000)
        literal_level(ctx, stats)
        compare_level(ctx, stats, 1500 if ctx.tier == "quick" else 15000)
        render_level(ctx, stats, 1500 if ctx.tier == "quick" else 15000)
        literal_history(ctx, stats)

    found_input = bool(ctx.violations)
    common.report_broken_obligations(ctx, oblig, found_input)

    allops = lat + rnd_all + mix
    distinct_pairs_nontrivial = len({(ival(a), ival(b)) for a in lat for b in lat if nontrivial(a) or nontrivial(b)})
    hist = {}
    for o in allops:
        z = abs(ival(o))
        k = "0" if z == 0 else "<2^%d" % (((z.bit_length() + 15) // 16) * 16)
        hist[k] = hist.get(k, 0) + 1
    ctx.cov.update({
        "evaluations": stats["evaluations"],
        "distinct_nontrivial": distinct_pairs_nontrivial,
        "rule": "operand pairs (as integers) of the boundary lattice with an operand of magnitude >= 2^62; the lattice is run exhaustively (all ordered pairs x 12 operations, every non-negative value < 2^63 in both {m_u,m_sign} representations), plus all ordered pairs of random operands and a lattice x random mix; each pair is one call of int.cc's operator and one evaluation of the extracted Coq model, compared on the denoted integer / error flag",
        "exhaustive": False,
        "samples": [{"a": lat[7], "b": lat[-3], "spec(add,sub,mul,div,mod,neg,lt,gt,le,ge,eq,ne)": spec_line(lat[7], lat[-3])},
                    {"a": rnd_all[0], "b": rnd_all[1], "spec": spec_line(rnd_all[0], rnd_all[1])}],
        "traces_validated_against_impl": stats["evaluations"],
        "operand_magnitude_histogram": hist,
        "lattice_operands": len(lat), "random_operands": len(rnd_all),
        "word_level_queries": stats["word_cases"],
        "literal_queries": stats.get("literal_cases", 0),
        "disagreements": stats["disagreements"],
    })
    return ctx.finish(oblig)


def run(ctx):  # noqa: F811  (entry point used by ./check)
    return run_check(ctx)


def replay(ctx, path):
    case = json.load(open(path))["case"]
    ok, log = common.build_impl("plain")
    common.build_coq()
    common.build_model()
    if "query" in case:
        rc, out, err = common.run([common.impl_bin("zwdrv"), "run"], input=case["query"] + "\n", timeout=60)
        print("implementation:", out.strip(), "| expected:", case.get("want"))
        return 0
    ops = [(case["a"]["u"], case["a"]["signed"])]
    if case.get("b"):
        ops.append((case["b"]["u"], case["b"]["signed"]))
    else:
        ops.append(ops[0])
    inp = feed(ops) + "P 0 1\n"
    _, o1, _ = common.run([common.impl_bin("intdrv")], input=inp)
    _, o2, _ = common.run([common.model_bin(), "int"], input=inp)
    _, o3, _ = common.run([common.model_bin(), "int", "--spec"], input=inp)
    print("columns: i j " + " ".join(COLS))
    print("impl : " + o1.strip())
    print("model: " + o2.strip())
    print("spec : " + o3.strip())
    return 0 if o1 == o3 else 1
