(* The driver's loop visits every combination of argument values exactly once,
   in row-major order, and its exit status / output obey the grep-like
   contract -- for every option set, argument lists and library behaviour. *)
From Coq Require Import NArith List Bool Arith Lia.
From Dwgrep Require Import Cli.
Import ListNotations.

(* ------------------------------------------------------------------ *)
(* 1. the odometer                                                     *)

(* all index vectors, row-major: the last position varies fastest *)
Fixpoint all_idx (sizes : list nat) : list (list nat) :=
  match sizes with
  | [] => [[]]
  | n :: ns => flat_map (fun i => map (cons i) (all_idx ns)) (seq 0 n)
  end.

Definition zeros (sizes : list nat) : list nat := map (fun _ => O) sizes.

(* [Steps sizes a l]: starting at a, bump walks exactly through l and then stops *)
Inductive Steps (sizes : list nat) : list nat -> list (list nat) -> Prop :=
| StLast a : bump sizes a = None -> Steps sizes a [a]
| StNext a b l : bump sizes a = Some b -> Steps sizes b l -> Steps sizes a (a :: l).

Lemma bump_length sizes : forall idx idx', length idx = length sizes ->
  bump sizes idx = Some idx' -> length idx' = length sizes.
Proof.
  induction sizes as [|n ns IH]; intros [|i t] idx' L H; cbn [bump length] in *; try discriminate.
  destruct (bump ns t) as [t'|] eqn:B.
  - inversion H; subst. cbn [length]. f_equal. apply (IH t); [lia|exact B].
  - destruct (Nat.ltb (S i) n); [|discriminate]. inversion H; subst. cbn [length]. rewrite map_length. lia.
Qed.

Lemma Steps_length sizes a l : Steps sizes a l -> length a = length sizes ->
  Forall (fun x => length x = length sizes) l.
Proof.
  induction 1 as [a H|a b l H S IH]; intros L.
  - constructor; [exact L|constructor].
  - constructor; [exact L|]. apply IH. eapply bump_length; eauto.
Qed.

Lemma zeros_of_same_length {A} (t : list A) (ns : list nat) :
  length t = length ns -> map (fun _ => O) t = zeros ns.
Proof.
  revert ns. induction t as [|x t IH]; intros [|n ns] L; cbn in *; try discriminate; auto.
  f_equal. apply IH. lia.
Qed.

(* one block: the first position stays at i while the rest walks through l',
   then the walk continues with L (the later blocks) *)
Lemma Steps_block n ns i t l' L :
  Steps ns t l' -> length t = length ns ->
  (if Nat.ltb (S i) n then Steps (n :: ns) (S i :: zeros ns) L else L = []) ->
  Steps (n :: ns) (i :: t) (map (cons i) l' ++ L).
Proof.
  intros S. revert L. induction S as [a H|a b l H S IH]; intros L Len HL.
  - cbn [map app]. destruct (Nat.ltb (S i) n) eqn:E.
    + apply StNext with (b := S i :: zeros ns); [|exact HL].
      cbn [bump]. rewrite H, E. rewrite (zeros_of_same_length a ns Len). reflexivity.
    + subst L. apply StLast. cbn [bump]. rewrite H, E. reflexivity.
  - cbn [map app]. apply StNext with (b := i :: b).
    + cbn [bump]. rewrite H. reflexivity.
    + apply IH; [eapply bump_length; eauto|exact HL].
Qed.

Lemma Steps_nonempty sizes a l : Steps sizes a l -> l <> [].
Proof. destruct 1; discriminate. Qed.

Lemma zeros_length ns : length (zeros ns) = length ns.
Proof. apply map_length. Qed.

(* blocks i, i+1, ..., n-1 *)
Lemma Steps_blocks n ns A : Steps ns (zeros ns) A ->
  forall k i, i + S k = n ->
  Steps (n :: ns) (i :: zeros ns) (flat_map (fun j => map (cons j) A) (seq i (S k))).
Proof.
  intros SA. induction k as [|k IH]; intros i E.
  - cbn [seq flat_map]. apply Steps_block; [exact SA|apply zeros_length|].
    assert (Nat.ltb (S i) n = false) as F by (apply Nat.ltb_ge; lia). rewrite F. reflexivity.
  - change (seq i (S (S k))) with (i :: seq (S i) (S k)). cbn [flat_map].
    apply Steps_block; [exact SA|apply zeros_length|].
    assert (Nat.ltb (S i) n = true) as T by (apply Nat.ltb_lt; lia). rewrite T.
    apply IH. lia.
Qed.

Theorem odometer_walk sizes : Forall (fun n => 0 < n) sizes ->
  Steps sizes (zeros sizes) (all_idx sizes).
Proof.
  induction 1 as [|n ns Hn F IH].
  - apply StLast. reflexivity.
  - cbn [all_idx zeros map]. destruct n as [|k]; [lia|].
    apply (Steps_blocks (S k) ns (all_idx ns) IH k 0). lia.
Qed.

Lemma all_idx_length sizes : length (all_idx sizes) = product sizes.
Proof.
  induction sizes as [|n ns IH]; [reflexivity|].
  cbn [all_idx product fold_right]. fold (product ns). rewrite <- IH.
  generalize (all_idx ns) as A. intros A. generalize 0 as s.
  induction n as [|n IHn]; intros s; cbn [seq flat_map]; [reflexivity|].
  rewrite app_length, map_length, IHn. cbn. reflexivity.
Qed.

(* ------------------------------------------------------------------ *)
(* 2. the main loop is a fold over the walk                            *)

Section Loop.
Variable o : opts.
Variable with_header first_is_file : bool.
Variable args : list (list val).
Variable exec : list val -> exec_res.

Definition step_on (idx : list nat) (st : lstate) : lstate * bool :=
  let cur := pick args idx in
  run_one o with_header (header_from first_is_file args cur) (exec cur) st.

(* what the loop computes over a list of index vectors *)
Fixpoint fold_run (l : list (list nat)) (st : lstate) : outcome :=
  match l with
  | [] => mkout (l_out st) (l_err st) (if l_errors st then 2%N else if l_match st then 0%N else 1%N)
  | idx :: l' =>
    let '(st', stop) := step_on idx st in
    if stop then mkout [] (l_err st') 0%N else fold_run l' st'
  end.

Lemma main_loop_fold idx l : Steps (map (@length val) args) idx l ->
  forall fuel st, length l <= fuel ->
  main_loop fuel o with_header first_is_file args exec idx st = Some (fold_run l st).
Proof.
  induction 1 as [a H|a b l H S IH]; intros fuel st Hf; (destruct fuel as [|f]; [cbn in Hf; lia|]).
  - cbn [main_loop fold_run]. unfold step_on.
    destruct (run_one o with_header (header_from first_is_file args (pick args a)) (exec (pick args a)) st) as [st' stop].
    destruct stop; [reflexivity|]. rewrite H. reflexivity.
  - cbn [main_loop fold_run]. unfold step_on.
    destruct (run_one o with_header (header_from first_is_file args (pick args a)) (exec (pick args a)) st) as [st' stop].
    destruct stop; [reflexivity|]. rewrite H. apply IH. cbn in Hf. lia.
Qed.

End Loop.

(* the whole program, once the query compiles and some file opened (or none was named) *)
Definition effective_args (files : list (N * fileres)) (args : list (list val)) : list (list val) :=
  match files with [] => args | _ => opened files :: args end.

Definition header_on (o : opts) (args' : list (list val)) : bool :=
  if o_nohdr o then false else o_withhdr o || Nat.ltb 1 (product (map (@length val) args')).

Definition initial_errors (o : opts) (files : list (N * fileres)) : list err_item :=
  if o_nomsg o then [] else open_errors files.

Theorem cli_is_fold o files args exec :
  let args' := effective_args files args in
  Forall (fun a => a <> []) args' ->
  cli o true files args exec =
  Some (fold_run o (header_on o args') (negb (match files with [] => true | _ => false end)) args' exec
                 (all_idx (map (@length val) args')) (mkls [] (initial_errors o files) false false)).
Proof.
  intros args' NE. unfold cli. cbn [negb].
  assert (P : Forall (fun n => 0 < n) (map (@length val) args')).
  { apply Forall_map. eapply Forall_impl; [|exact NE]. intros a Ha. destruct a; [congruence|cbn; lia]. }
  assert (Hop : files <> [] -> opened files <> []).
  { intros Hf. unfold args', effective_args in NE. destruct files; [congruence|]. inversion NE; assumption. }
  destruct files as [|f0 fs].
  - cbn [negb andb]. unfold args', effective_args in *.
    pose proof (all_idx_length (map (@length val) args)) as AL.
    pose proof (odometer_walk _ P) as W.
    destruct (Nat.eqb (product (map (@length val) args)) 0) eqn:Z.
    + apply Nat.eqb_eq in Z. pose proof (Steps_nonempty _ _ _ W) as NE'. rewrite Z in AL. destruct (all_idx (map (@length val) args)); [congruence|discriminate AL].
    + unfold header_on, initial_errors. cbn [open_errors flat_map].
      replace (map (fun _ : list val => 0) args) with (zeros (map (@length val) args)) by (unfold zeros; rewrite map_map; reflexivity).
      rewrite (main_loop_fold o _ false args exec _ _ W); [|rewrite AL; lia].
      destruct (o_nomsg o); reflexivity.
  - unfold args', effective_args in *. clear args'.
    assert (opened (f0 :: fs) <> []) as ON by (apply Hop; discriminate).
    cbn [negb andb].
    destruct (opened (f0 :: fs)) as [|v0 vs] eqn:EO; [congruence|]. rewrite <- EO in *.
    cbn [negb andb].
    pose proof (all_idx_length (map (@length val) (opened (f0 :: fs) :: args))) as AL.
    pose proof (odometer_walk _ P) as W.
    destruct (Nat.eqb (product (map (@length val) (opened (f0 :: fs) :: args))) 0) eqn:Z.
    + apply Nat.eqb_eq in Z. pose proof (Steps_nonempty _ _ _ W) as NE'.
      rewrite Z in AL. destruct (all_idx (map (@length val) (opened (f0 :: fs) :: args))); [congruence|discriminate AL].
    + unfold header_on, initial_errors.
      replace (map (fun _ : list val => 0) (opened (f0 :: fs) :: args))
        with (zeros (map (@length val) (opened (f0 :: fs) :: args))) by (unfold zeros; rewrite map_map; reflexivity).
      rewrite (main_loop_fold o _ true _ exec _ _ W); [|rewrite AL; lia].
      reflexivity.
Qed.

(* ------------------------------------------------------------------ *)
(* 3. the contract, over any list of combinations                      *)

Definition ex_results (x : exec_res) : list record := match x with ExecRes r _ => r end.
Definition ex_raised (x : exec_res) : bool := match x with ExecRes _ b => b end.
Definition has_results (x : exec_res) : bool := negb (match ex_results x with [] => true | _ => false end).

Section Contract.
Variable o : opts.
Variable wh fif : bool.
Variable args : list (list val).
Variable exec : list val -> exec_res.

Let at_ (idx : list nat) : exec_res := exec (pick args idx).
Let hdr (idx : list nat) : list val := header_from fif args (pick args idx).
Let final (st : lstate) : N := if l_errors st then 2%N else if l_match st then 0%N else 1%N.

(* without -q: 2 iff some execution raised, else 0 iff some result, else 1;
   nothing stops the loop early *)
Theorem status_without_quiet l : o_quiet o = false -> forall st,
  status (fold_run o wh fif args exec l st) =
  if l_errors st || existsb (fun i => ex_raised (at_ i)) l then 2%N
  else if l_match st || existsb (fun i => has_results (at_ i)) l then 0%N else 1%N.
Proof.
  intros Q. induction l as [|i l IH]; intros st.
  - cbn [fold_run existsb status]. rewrite !orb_false_r. reflexivity.
  - cbn [fold_run existsb]. unfold step_on, run_one. subst at_. cbn beta.
    destruct (exec (pick args i)) as [rs rz] eqn:E. rewrite Q. cbn [andb negb].
    rewrite IH. cbn [l_errors l_match]. unfold has_results, ex_raised, ex_results. rewrite ?E.
    rewrite andb_true_r, !orb_assoc. reflexivity.
Qed.

(* with -q: nothing on stdout; 0 exactly when some combination has a result *)
Theorem quiet_stdout l : o_quiet o = true -> forall st, l_out st = [] ->
  stdout (fold_run o wh fif args exec l st) = [].
Proof.
  intros Q. induction l as [|i l IH]; intros st O.
  - cbn. exact O.
  - cbn [fold_run]. unfold step_on, run_one. destruct (exec (pick args i)) as [rs rz]. rewrite Q. cbn [andb].
    destruct rs as [|r rs]; cbn [negb]; [|reflexivity].
    apply IH. cbn [l_out]. rewrite O. rewrite orb_true_r. cbn [negb andb]. destruct (o_count o); reflexivity.
Qed.

Theorem quiet_status l : o_quiet o = true -> forall st, l_errors st = false -> l_match st = false ->
  status (fold_run o wh fif args exec l st) = if existsb (fun i => has_results (at_ i)) l then 0%N else 1%N.
Proof.
  intros Q. induction l as [|i l IH]; intros st E M.
  - cbn. rewrite E, M. reflexivity.
  - cbn [fold_run existsb]. unfold step_on, run_one. subst at_. cbn beta. unfold has_results, ex_results.
    destruct (exec (pick args i)) as [rs rz]. rewrite Q. cbn [andb].
    destruct rs as [|r rs]; cbn [negb orb]; [|reflexivity].
    apply IH; cbn [l_errors l_match]; rewrite ?E, ?M; cbn; rewrite ?andb_false_r; reflexivity.
Qed.

(* -c: one count line per combination, the number of records of that combination *)
Theorem count_stdout l : o_quiet o = false -> o_count o = true -> forall st,
  stdout (fold_run o wh fif args exec l st) =
  l_out st ++ map (fun i => OutCount (if wh then Some (hdr i) else None) (N.of_nat (length (ex_results (at_ i))))) l.
Proof.
  intros Q C. induction l as [|i l IH]; intros st.
  - cbn. rewrite app_nil_r. reflexivity.
  - cbn [fold_run map]. unfold step_on, run_one. subst at_ hdr. cbn beta. unfold ex_results.
    destruct (exec (pick args i)) as [rs rz] eqn:E. rewrite Q, C. cbn [andb orb negb].
    rewrite IH. cbn [l_out]. unfold ex_results. rewrite ?E. rewrite <- app_assoc. reflexivity.
Qed.

(* without -c: the records of every combination, in order, each one stack per record *)
Theorem plain_stdout l : o_quiet o = false -> o_count o = false -> forall st,
  stdout (fold_run o wh fif args exec l st) =
  l_out st ++ flat_map (fun i => flat_map (print_record wh (hdr i)) (ex_results (at_ i))) l.
Proof.
  intros Q C. induction l as [|i l IH]; intros st.
  - cbn. rewrite app_nil_r. reflexivity.
  - cbn [fold_run flat_map]. unfold step_on, run_one. subst at_ hdr. cbn beta. unfold ex_results.
    destruct (exec (pick args i)) as [rs rz] eqn:E. rewrite Q, C. cbn [andb orb negb].
    rewrite IH. cbn [l_out]. unfold ex_results. rewrite ?E. rewrite app_nil_r, <- app_assoc. reflexivity.
Qed.

(* so the count printed under -c is the number of records printed without it *)
Corollary count_matches_records i : length (flat_map (print_record false (hdr i)) (ex_results (at_ i)))
  = (fold_right (fun r n => length r + (if Nat.ltb 1 (length r) then 1 else 0) + n) 0 (ex_results (at_ i)))%nat.
Proof.
  induction (ex_results (at_ i)) as [|r rs IH]; [reflexivity|].
  cbn [flat_map fold_right]. rewrite app_length, IH. unfold print_record. cbn [app].
  rewrite app_length, map_length. destruct (Nat.ltb 1 (length r)); cbn [length]; lia.
Qed.

(* driver messages: one per raising combination, none under -s *)
Theorem stderr_messages l : o_quiet o = false -> forall st,
  stderr (fold_run o wh fif args exec l st) =
  l_err st ++ (if o_nomsg o then [] else
               flat_map (fun i => if ex_raised (at_ i) then [ErrExec (hdr i)] else []) l).
Proof.
  intros Q. induction l as [|i l IH]; intros st.
  - cbn. destruct (o_nomsg o); rewrite app_nil_r; reflexivity.
  - cbn [fold_run flat_map]. unfold step_on, run_one. subst at_ hdr. cbn beta. unfold ex_raised.
    destruct (exec (pick args i)) as [rs rz] eqn:E. rewrite Q. cbn [andb].
    rewrite IH. cbn [l_err]. unfold ex_raised. rewrite ?E.
    destruct (o_nomsg o); destruct rz; cbn [negb andb app]; rewrite <- ?app_assoc, ?app_nil_r; reflexivity.
Qed.

End Contract.

(* -s changes neither stdout nor the exit status *)
Theorem nomsg_transparent q c H h wh fif args exec l : forall st1 st2,
  l_out st1 = l_out st2 -> l_errors st1 = l_errors st2 -> l_match st1 = l_match st2 ->
  let r1 := fold_run (mkopts q false c H h) wh fif args exec l st1 in
  let r2 := fold_run (mkopts q true c H h) wh fif args exec l st2 in
  stdout r1 = stdout r2 /\ status r1 = status r2.
Proof.
  induction l as [|i l IH]; intros st1 st2 O E M.
  - cbn. rewrite O, E, M. auto.
  - cbn [fold_run]. unfold step_on, run_one. cbn [o_quiet o_nomsg o_count].
    destruct (exec (pick args i)) as [rs rz].
    destruct (q && negb match rs with [] => true | _ => false end); [cbn; auto|].
    apply IH; cbn [l_out l_errors l_match]; congruence.
Qed.

(* the header rule *)
Theorem header_rule o args' :
  header_on o args' = true <-> o_nohdr o = false /\ (o_withhdr o = true \/ 1 < product (map (@length val) args')).
Proof.
  unfold header_on. destruct (o_nohdr o); [split; [discriminate|intros [? _]; discriminate]|].
  rewrite orb_true_iff, Nat.ltb_lt. tauto.
Qed.

(* pick on the row-major enumeration is the cartesian product, last argument fastest *)
Fixpoint combos (args : list (list val)) : list (list val) :=
  match args with
  | [] => [[]]
  | a :: rest => flat_map (fun v => map (cons v) (combos rest)) a
  end.

Lemma seq_nth_map (a : list val) : map (fun i => nth i a 0%N) (seq 0 (length a)) = a.
Proof.
  induction a as [|x a IH]; [reflexivity|]. cbn [length seq map nth]. f_equal.
  rewrite <- seq_shift, map_map. exact IH.
Qed.

Lemma map_flat_map {A B C} (h : B -> C) (f : A -> list B) l :
  map h (flat_map f l) = flat_map (fun x => map h (f x)) l.
Proof. induction l as [|x l IH]; cbn; [reflexivity|]. rewrite map_app, IH. reflexivity. Qed.

Lemma flat_map_map' {A B C} (g : A -> B) (f : B -> list C) l :
  flat_map f (map g l) = flat_map (fun x => f (g x)) l.
Proof. induction l as [|x l IH]; cbn; [reflexivity|]. rewrite IH. reflexivity. Qed.

Theorem row_major args : map (pick args) (all_idx (map (@length val) args)) = combos args.
Proof.
  induction args as [|a rest IH]; [reflexivity|].
  cbn [map all_idx combos].
  transitivity (flat_map (fun v => map (cons v) (combos rest)) (map (fun i => nth i a 0%N) (seq 0 (length a))));
    [|rewrite seq_nth_map; reflexivity].
  rewrite map_flat_map, flat_map_map'. apply flat_map_ext. intros i.
  rewrite map_map. cbn [pick]. rewrite <- IH, map_map. reflexivity.
Qed.
