(* The command-line driver: main () of dwgrep/dwgrep.cc after option parsing.
   The library is an oracle here: [exec] says, for the stack built from one
   combination of argument values, which result stacks the query yields and
   whether an exception ends the execution after them.  Values and file names
   are opaque identifiers; their rendering is C20's concern.  No proofs here. *)
From Coq Require Import NArith List Bool.
Import ListNotations.
Local Open Scope N_scope.

Module CliM.

Record opts := mkopts {
  o_quiet : bool;      (* -q: verbosity = -1 *)
  o_nomsg : bool;      (* -s *)
  o_count : bool;      (* -c *)
  o_withhdr : bool;    (* -H *)
  o_nohdr : bool       (* -h *)
}.

Definition val := N.
Definition record := list val.                       (* one yielded stack, TOS first *)
Inductive exec_res := ExecRes (results : list record) (raised : bool).

Inductive fileres := FOpen (v : val) | FBad.

Inductive out_item :=
| OutHeader (h : list val)                           (* `header:` and a newline; [] is <no-file> *)
| OutSep                                             (* --- *)
| OutVal (v : val)                                   (* a value in full format, newline *)
| OutCount (h : option (list val)) (n : N).          (* [header:]count newline *)

Inductive err_item :=
| ErrOpen (file : N)                                 (* dwgrep: FILE: cannot open *)
| ErrExec (h : list val)                             (* dwgrep: HEADER: what *)
| ErrFatal.                                          (* dwgrep: what  (query does not compile, bad argument) *)

Record outcome := mkout { stdout : list out_item; stderr : list err_item; status : N }.

(* ---- the argument odometer: arg_its and the "bump argument list" loop ---- *)

(* one step from the right: Some next index vector, or None when every
   position wrapped around (the loop's `next' stays false) *)
Fixpoint bump (sizes idx : list nat) : option (list nat) :=
  match sizes, idx with
  | n :: ns, i :: is_ =>
    match bump ns is_ with
    | Some is' => Some (i :: is')
    | None => if Nat.ltb (S i) n then Some (S i :: map (fun _ => O) is_) else None
    end
  | _, _ => None
  end.

Fixpoint pick (args : list (list val)) (idx : list nat) : list val :=
  match args, idx with
  | a :: args', i :: idx' => nth i a 0 :: pick args' idx'
  | _, _ => []
  end.

Definition product (sizes : list nat) : nat := fold_right Nat.mul 1%nat sizes.

(* header lambda: the first argument is always shown when files were given,
   the others when they have several values *)
Fixpoint header_from (first_is_file : bool) (args : list (list val)) (cur : list val) : list val :=
  match args, cur with
  | a :: args', v :: cur' =>
    (if first_is_file || Nat.ltb 1 (length a) then [v] else []) ++ header_from false args' cur'
  | _, _ => []
  end.

(* printing one yielded stack *)
Definition print_record (with_header : bool) (h : list val) (r : record) : list out_item :=
  (if with_header then [OutHeader h] else []) ++
  (if Nat.ltb 1 (length r) then [OutSep] else []) ++ map OutVal r.

Record lstate := mkls { l_out : list out_item; l_err : list err_item; l_errors : bool; l_match : bool }.

(* one pass of the main loop for the combination [cur].  Returns the new state
   and whether main returns 0 on the spot (-q and a result). *)
Definition run_one (o : opts) (with_header : bool) (h : list val) (x : exec_res) (st : lstate) : lstate * bool :=
  match x with
  | ExecRes results raised =>
    if o_quiet o && negb (match results with [] => true | _ => false end)
    then (st, true)
    else
      let printed := if o_count o || o_quiet o then [] else flat_map (print_record with_header h) results in
      let count_line :=
          if o_count o && negb (o_quiet o)
          then [OutCount (if with_header then Some h else None) (N.of_nat (length results))] else [] in
      let errs := if raised && negb (o_nomsg o) then [ErrExec h] else [] in
      (mkls (l_out st ++ printed ++ count_line) (l_err st ++ errs)
            (l_errors st || (raised && negb (o_quiet o)))
            (l_match st || negb (match results with [] => true | _ => false end)), false)
  end.

Fixpoint main_loop (fuel : nat) (o : opts) (with_header first_is_file : bool) (args : list (list val))
         (exec : list val -> exec_res) (idx : list nat) (st : lstate) : option outcome :=
  match fuel with
  | O => None                                        (* cannot happen: see odometer theorems *)
  | S f =>
    let cur := pick args idx in
    let h := header_from first_is_file args cur in
    let '(st', stop) := run_one o with_header h (exec cur) st in
    if stop then Some (mkout [] (l_err st') 0)
    else match bump (map (@length val) args) idx with
         | Some idx' => main_loop f o with_header first_is_file args exec idx' st'
         | None => Some (mkout (l_out st') (l_err st')
                               (if l_errors st' then 2 else if l_match st' then 0 else 1))
         end
  end.

Definition opened (files : list (N * fileres)) : list val :=
  flat_map (fun f => match snd f with FOpen v => [v] | FBad => [] end) files.
Definition open_errors (files : list (N * fileres)) : list err_item :=
  flat_map (fun f => match snd f with FOpen _ => [] | FBad => [ErrOpen (fst f)] end) files.

Definition cli (o : opts) (parse_ok : bool) (files : list (N * fileres)) (args : list (list val))
           (exec : list val -> exec_res) : option outcome :=
  if negb parse_ok then Some (mkout [] [ErrFatal] 2)
  else
    let oerrs := if o_nomsg o then [] else open_errors files in
    let have_files := negb (match files with [] => true | _ => false end) in
    if have_files && (match opened files with [] => true | _ => false end)
    then Some (mkout [] oerrs 1)                     (* "Done before we started." *)
    else
      let args' := if have_files then opened files :: args else args in
      let iterations := product (map (@length val) args') in
      if Nat.eqb iterations 0 then Some (mkout [] oerrs 1)    (* an argument without values: nothing to run *)
      else
        let with_header := if o_nohdr o then false else o_withhdr o || Nat.ltb 1 iterations in
        main_loop (S iterations) o with_header have_files args' exec (map (fun _ => O) args')
                  (mkls [] oerrs false false).

End CliM.
Export CliM.
