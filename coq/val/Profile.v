(* Model of the cached type profile of class stack (libzwerg/stack.hh) and of
   selector matching (selector.hh): the overload dispatch looks only at this
   32-bit word.  Type codes are 8-bit, non-zero. *)
From Coq Require Import ZArith List Bool Lia.
Import ListNotations.
Local Open Scope Z_scope.

Module ProfileM.

Definition W32 : Z := 4294967296.

(* stacks as lists of type codes, TOS first *)
Definition codes := list Z.

(* stack::push: m_profile <<= 8; m_profile |= code *)
Definition p_push (p c : Z) : Z := (p * 256) mod W32 + c.

(* stack::pop: m_profile >>= 8; if (size >= W) m_profile |= code (get (W - 1)) << 24.
   `rest` is the stack after the pop *)
Definition p_pop (p : Z) (rest : codes) : Z :=
  p / 256 + (if Nat.leb 4 (length rest) then nth 3 rest 0 * 16777216 else 0).

(* stack::drop: recomputed from the top four slots *)
Definition p_recompute (s : codes) : Z :=
  nth 0 s 0 + nth 1 s 0 * 256 + nth 2 s 0 * 65536 + nth 3 s 0 * 16777216.

(* what the profile is supposed to be: the codes of the top four values *)
Definition prof (s : codes) : Z := p_recompute s.

Definition wf_codes (s : codes) : Prop := Forall (fun c => 0 < c < 256) s.

(* selector built from k types (last = TOS), all non-zero: imprint + full mask;
   matches (profile) = (profile & mask) == imprint *)
Definition sel_imprint (types_tos_first : codes) : Z := p_recompute (firstn 4 types_tos_first).
Definition sel_matches (types_tos_first : codes) (profile : Z) : bool :=
  profile mod (256 ^ Z.of_nat (length types_tos_first)) =? sel_imprint types_tos_first.

End ProfileM.
Export ProfileM.
