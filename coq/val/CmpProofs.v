(* Proofs about Cmp.v: comparison is one consistent total (pre)order. *)
From Coq Require Import ZArith NArith List Bool Lia.
From Dwgrep Require Import CovModel CovProofs Cmp.
Import ListNotations.
Local Open Scope Z_scope.

(* A three-way comparison is *lawful* when it behaves like the comparison of a
   total preorder: reflexive, antisymmetric in the CompOpp sense, transitive,
   and Eq is a congruence for Lt. *)
Record lawful {A} (C : A -> A -> comparison) : Prop := {
  law_refl : forall a, C a a = Eq;
  law_sym : forall a b, C a b = CompOpp (C b a);
  law_lt_trans : forall a b c, C a b = Lt -> C b c = Lt -> C a c = Lt;
  law_eq_trans : forall a b c, C a b = Eq -> C b c = Eq -> C a c = Eq;
  law_eq_lt : forall a b c, C a b = Eq -> C b c = Lt -> C a c = Lt;
  law_lt_eq : forall a b c, C a b = Lt -> C b c = Eq -> C a c = Lt
}.

Lemma lawful_gt_trans {A} (C : A -> A -> comparison) : lawful C ->
  forall a b c, C a b = Gt -> C b c = Gt -> C a c = Gt.
Proof.
  intros L a b c H1 H2.
  rewrite (law_sym C L) in H1, H2 |- *.
  destruct (C b a) eqn:E1; try discriminate. destruct (C c b) eqn:E2; try discriminate.
  rewrite (law_lt_trans C L c b a E2 E1). reflexivity.
Qed.

(* lexicographic combination *)
Definition lexi {A} (C1 C2 : A -> A -> comparison) (a b : A) : comparison :=
  match C1 a b with Eq => C2 a b | o => o end.

Lemma lawful_lexi {A} (C1 C2 : A -> A -> comparison) : lawful C1 -> lawful C2 -> lawful (lexi C1 C2).
Proof.
  intros L1 L2. unfold lexi. split.
  - intros a. rewrite (law_refl C1 L1). apply (law_refl C2 L2).
  - intros a b. rewrite (law_sym C1 L1 a b). destruct (C1 b a); cbn; auto. apply (law_sym C2 L2).
  - intros a b c.
    destruct (C1 a b) eqn:E1; try discriminate; destruct (C1 b c) eqn:E2; try discriminate; intros H1 H2.
    + rewrite (law_eq_trans C1 L1 _ _ _ E1 E2). eapply (law_lt_trans C2 L2); eauto.
    + rewrite (law_eq_lt C1 L1 _ _ _ E1 E2). reflexivity.
    + rewrite (law_lt_eq C1 L1 _ _ _ E1 E2). reflexivity.
    + rewrite (law_lt_trans C1 L1 _ _ _ E1 E2). reflexivity.
  - intros a b c.
    destruct (C1 a b) eqn:E1; try discriminate; destruct (C1 b c) eqn:E2; try discriminate; intros H1 H2.
    rewrite (law_eq_trans C1 L1 _ _ _ E1 E2). eapply (law_eq_trans C2 L2); eauto.
  - intros a b c.
    destruct (C1 a b) eqn:E1; try discriminate; destruct (C1 b c) eqn:E2; try discriminate; intros H1 H2.
    + rewrite (law_eq_trans C1 L1 _ _ _ E1 E2). eapply (law_eq_lt C2 L2); eauto.
    + rewrite (law_eq_lt C1 L1 _ _ _ E1 E2). reflexivity.
  - intros a b c.
    destruct (C1 a b) eqn:E1; try discriminate; destruct (C1 b c) eqn:E2; try discriminate; intros H1 H2.
    + rewrite (law_eq_trans C1 L1 _ _ _ E1 E2). eapply (law_lt_eq C2 L2); eauto.
    + rewrite (law_lt_eq C1 L1 _ _ _ E1 E2). reflexivity.
Qed.

(* comparison through a key function *)
Lemma lawful_on {A B} (f : A -> B) (C : B -> B -> comparison) : lawful C -> lawful (fun a b => C (f a) (f b)).
Proof. intros L. split; intros; [apply (law_refl C L) | apply (law_sym C L) | eapply (law_lt_trans C L); eauto
  | eapply (law_eq_trans C L); eauto | eapply (law_eq_lt C L); eauto | eapply (law_lt_eq C L); eauto]. Qed.

Lemma lawful_Z : lawful Z.compare.
Proof.
  split; intros.
  - apply Z.compare_refl.
  - apply Z.compare_antisym.
  - rewrite Z.compare_lt_iff in *. lia.
  - rewrite Z.compare_eq_iff in *. lia.
  - rewrite Z.compare_eq_iff in H. rewrite Z.compare_lt_iff in *. lia.
  - rewrite Z.compare_eq_iff in H0. rewrite Z.compare_lt_iff in *. lia.
Qed.

Lemma lawful_N : lawful N.compare.
Proof.
  split; intros.
  - apply N.compare_refl.
  - apply N.compare_antisym.
  - rewrite N.compare_lt_iff in *. lia.
  - rewrite N.compare_eq_iff in *. lia.
  - rewrite N.compare_eq_iff in H. rewrite N.compare_lt_iff in *. lia.
  - rewrite N.compare_eq_iff in H0. rewrite N.compare_lt_iff in *. lia.
Qed.

Lemma lawful_nat : lawful Nat.compare.
Proof.
  split; intros.
  - apply Nat.compare_refl.
  - apply Nat.compare_antisym.
  - rewrite Nat.compare_lt_iff in *. lia.
  - rewrite Nat.compare_eq_iff in *. lia.
  - rewrite Nat.compare_eq_iff in H. rewrite Nat.compare_lt_iff in *. lia.
  - rewrite Nat.compare_eq_iff in H0. rewrite Nat.compare_lt_iff in *. lia.
Qed.

(* -------------------------------------------------------------- constants *)

(* compare via operator< is the lexicographic comparison on (key, value) *)
Lemma cst_compare_lex d a b :
  compare_lt (cst_lt d) a b = lexi (fun x y => N.compare (ckey d x) (ckey d y)) (fun x y => Z.compare (cv x) (cv y)) a b.
Proof.
  unfold compare_lt, cst_lt, lexi.
  destruct (N.compare_spec (ckey d a) (ckey d b)) as [E|L|G].
  - rewrite E, N.eqb_refl.
    destruct (Z.compare_spec (cv a) (cv b)) as [E'|L'|G'].
    + rewrite E', Z.ltb_irrefl. reflexivity.
    + apply Z.ltb_lt in L'. rewrite L'. reflexivity.
    + assert (X : (cv a <? cv b) = false) by (apply Z.ltb_ge; lia). rewrite X.
      apply Z.ltb_lt in G'. rewrite G'. reflexivity.
  - assert (X : N.eqb (ckey d a) (ckey d b) = false) by (apply N.eqb_neq; lia). rewrite X.
    apply N.ltb_lt in L. rewrite L. reflexivity.
  - assert (X : N.eqb (ckey d a) (ckey d b) = false) by (apply N.eqb_neq; lia). rewrite X.
    assert (X' : N.eqb (ckey d b) (ckey d a) = false) by (apply N.eqb_neq; lia). rewrite X'.
    assert (Y : N.ltb (ckey d a) (ckey d b) = false) by (apply N.ltb_ge; lia). rewrite Y.
    apply N.ltb_lt in G. rewrite G. reflexivity.
Qed.

Theorem cst_lawful d : lawful (compare_lt (cst_lt d)).
Proof.
  assert (L : lawful (lexi (fun x y => N.compare (ckey d x) (ckey d y)) (fun x y => Z.compare (cv x) (cv y)))).
  { apply lawful_lexi; [apply (lawful_on (ckey d)), lawful_N | apply (lawful_on cv), lawful_Z]. }
  destruct L as [R S T E EL LE].
  split; intros; rewrite ?cst_compare_lex in *; eauto.
Qed.

(* arithmetic domains compare by value; constants with different keys are never equal *)
Lemma cst_eq_iff d a b : compare_lt (cst_lt d) a b = Eq <-> ckey d a = ckey d b /\ cv a = cv b.
Proof.
  rewrite cst_compare_lex. unfold lexi.
  destruct (N.compare_spec (ckey d a) (ckey d b)) as [E|L|G].
  - rewrite Z.compare_eq_iff. tauto.
  - split; [discriminate | intros [X _]; lia].
  - split; [discriminate | intros [X _]; lia].
Qed.

Lemma cst_arith_by_value d a b : arith a = true -> arith b = true ->
  compare_lt (cst_lt d) a b = Z.compare (cv a) (cv b).
Proof.
  intros Ha Hb. rewrite cst_compare_lex. unfold lexi, ckey. rewrite Ha, Hb, N.compare_refl. reflexivity.
Qed.

(* ------------------------------------------------- lexicographic list order *)

Fixpoint list_lex {A} (C : A -> A -> comparison) (a b : list A) : comparison :=
  match a, b with
  | [], [] => Eq
  | [], _ :: _ => Lt
  | _ :: _, [] => Gt
  | x :: a', y :: b' => match C x y with Eq => list_lex C a' b' | o => o end
  end.

(* the laws, for one fixed first argument (what a structural induction on the
   first argument can carry) *)
Definition laws_at {A} (C : A -> A -> comparison) (x : A) : Prop :=
  C x x = Eq /\
  (forall y, C x y = CompOpp (C y x)) /\
  (forall y z, C x y = Lt -> C y z = Lt -> C x z = Lt) /\
  (forall y z, C x y = Eq -> C y z = Eq -> C x z = Eq) /\
  (forall y z, C x y = Eq -> C y z = Lt -> C x z = Lt) /\
  (forall y z, C x y = Lt -> C y z = Eq -> C x z = Lt).

Lemma lawful_of_laws_at {A} (C : A -> A -> comparison) : (forall x, laws_at C x) -> lawful C.
Proof.
  intros H. split; intros a; destruct (H a) as (R & S & T & E & EL & LE); eauto.
Qed.

Lemma laws_at_of_lawful {A} (C : A -> A -> comparison) : lawful C -> forall x, laws_at C x.
Proof. intros [R S T E EL LE] x. split; [|split; [|split; [|split; [|split]]]]; eauto. Qed.

Lemma list_lex_laws_at {A} (C : A -> A -> comparison) (l : list A) :
  Forall (laws_at C) l -> laws_at (list_lex C) l.
Proof.
  induction l as [|x l IH]; intros HF.
  - split; [|split; [|split; [|split; [|split]]]].
    + reflexivity.
    + intros [|y m]; reflexivity.
    + intros [|y m] [|z n]; cbn; auto; discriminate.
    + intros [|y m] [|z n]; cbn; auto; discriminate.
    + intros [|y m] [|z n]; cbn; auto; discriminate.
    + intros [|y m] [|z n]; cbn; auto; try discriminate.
  - inversion HF as [|? ? Hx Hl]; subst. specialize (IH Hl).
    destruct Hx as (R & S & T & E & EL & LE). destruct IH as (R' & S' & T' & E' & EL' & LE').
    split; [|split; [|split; [|split; [|split]]]].
    + cbn. rewrite R. exact R'.
    + intros [|y m]; cbn; auto. rewrite (S y). destruct (C y x); cbn; auto.
    + intros [|y m] [|z n]; cbn; auto; try discriminate.
      try (destruct (C x y); discriminate).
      destruct (C x y) eqn:E1; try discriminate; destruct (C y z) eqn:E2; try discriminate; intros H1 H2.
      * rewrite (E _ _ E1 E2). eauto.
      * rewrite (EL _ _ E1 E2). reflexivity.
      * rewrite (LE _ _ E1 E2). reflexivity.
      * rewrite (T _ _ E1 E2). reflexivity.
    + intros [|y m] [|z n]; cbn; auto; try discriminate.
      try (destruct (C x y); discriminate).
      destruct (C x y) eqn:E1; try discriminate; destruct (C y z) eqn:E2; try discriminate; intros H1 H2.
      rewrite (E _ _ E1 E2). eauto.
    + intros [|y m] [|z n]; cbn; auto; try discriminate.
      try (destruct (C x y); discriminate).
      destruct (C x y) eqn:E1; try discriminate; destruct (C y z) eqn:E2; try discriminate; intros H1 H2.
      * rewrite (E _ _ E1 E2). eauto.
      * rewrite (EL _ _ E1 E2). reflexivity.
    + intros [|y m] [|z n]; cbn; auto; try discriminate.
      try (destruct (C x y); discriminate).
      destruct (C x y) eqn:E1; try discriminate; destruct (C y z) eqn:E2; try discriminate; intros H1 H2.
      * rewrite (E _ _ E1 E2). eauto.
      * rewrite (LE _ _ E1 E2). reflexivity.
Qed.

Lemma lawful_list_lex {A} (C : A -> A -> comparison) : lawful C -> lawful (list_lex C).
Proof.
  intros L. apply lawful_of_laws_at. intros l. apply list_lex_laws_at.
  apply Forall_forall. intros x _. apply laws_at_of_lawful; auto.
Qed.

Lemma bytes_cmp_lex a : forall b, bytes_cmp a b = list_lex N.compare a b.
Proof. induction a as [|x a IH]; intros [|y b]; cbn; auto. rewrite IH. reflexivity. Qed.

(* strings compare bytewise (lexicographic on unsigned bytes, prefix first) *)
Theorem str_lawful : lawful bytes_cmp.
Proof.
  pose proof (lawful_list_lex N.compare lawful_N) as [R S T E EL LE].
  split; intros; rewrite ?bytes_cmp_lex in *; eauto.
Qed.

(* address sets: size, then (start, length) pairs lexicographically *)
Definition rng_cmp (r q : CovM.rng) : comparison :=
  match Z.compare (fst r) (fst q) with Eq => Z.compare (snd r) (snd q) | o => o end.

Lemma lawful_rng : lawful rng_cmp.
Proof.
  apply (lawful_lexi (fun r q => Z.compare (fst r) (fst q)) (fun r q => Z.compare (snd r) (snd q)));
    [apply (lawful_on fst), lawful_Z | apply (lawful_on snd), lawful_Z].
Qed.

Lemma cmp_ranges_lex a : forall b, length a = length b -> cmp_ranges a b = list_lex rng_cmp a b.
Proof.
  induction a as [|x a IH]; intros [|y b] L; cbn in *; try discriminate; auto.
  unfold rng_cmp, rstart, rlen. destruct (fst x ?= fst y); auto. destruct (snd x ?= snd y); auto.
Qed.

Definition aset_cmp (a b : cov) : comparison :=
  lexi (fun a b => Nat.compare (length a) (length b)) (list_lex rng_cmp) a b.

Lemma w_cmp_lex a b : w_cmp a b = aset_cmp a b.
Proof.
  unfold w_cmp, aset_cmp, lexi. destruct (Nat.compare_spec (length a) (length b)); auto.
  apply cmp_ranges_lex; auto.
Qed.

Theorem aset_lawful : lawful w_cmp.
Proof.
  assert (L : lawful aset_cmp).
  { apply lawful_lexi; [apply (lawful_on (@length _)), lawful_nat | apply lawful_list_lex, lawful_rng]. }
  destruct L as [R S T E EL LE].
  split; intros; rewrite ?w_cmp_lex in *; eauto.
Qed.

(* ------------------------------------------------------------------ values *)

Section ValueInd.
  Variable P : value -> Prop.
  Hypothesis Hcst : forall c, P (VCst c).
  Hypothesis Hstr : forall s, P (VStr s).
  Hypothesis Hseq : forall l, Forall P l -> P (VSeq l).
  Hypothesis Haset : forall c, P (VAset c).
  Hypothesis Hop : forall t i, P (VOpaque t i).
  Fixpoint value_ind' (v : value) : P v :=
    match v with
    | VCst c => Hcst c
    | VStr s => Hstr s
    | VSeq l => Hseq l ((fix go (l : list value) : Forall P l :=
                           match l with [] => Forall_nil P | x :: t => Forall_cons x (value_ind' x) (go t) end) l)
    | VAset c => Haset c
    | VOpaque t i => Hop t i
    end.
End ValueInd.

(* constructor rank, used only to make the comparison total in the proofs *)
Definition crank (v : value) : N :=
  match v with VCst _ => 0 | VStr _ => 1 | VSeq _ => 2 | VAset _ => 3 | VOpaque _ _ => 4 end%N.

(* total version of value::cmp *)
Fixpoint tcmp (d : N) (tc : tcodes) (a b : value) {struct a} : comparison :=
  match a, b with
  | VCst x, VCst y => compare_lt (cst_lt d) x y
  | VStr s, VStr t => bytes_cmp s t
  | VSeq l, VSeq m =>
    match Nat.compare (length l) (length m) with
    | Eq =>
      match list_lex N.compare (map (tcode tc) l) (map (tcode tc) m) with
      | Eq =>
        (fix go (l m : list value) {struct l} : comparison :=
           match l, m with
           | [], [] => Eq
           | [], _ :: _ => Lt
           | _ :: _, [] => Gt
           | x :: l', y :: m' => match tcmp d tc x y with Eq => go l' m' | o => o end
           end) l m
      | o => o
      end
    | o => o
    end
  | VAset c, VAset e => w_cmp c e
  | VOpaque t i, VOpaque t' i' => match N.compare t t' with Eq => N.compare i i' | o => o end
  | _, _ => N.compare (crank a) (crank b)
  end.

Lemma tcmp_seq d tc l m :
  tcmp d tc (VSeq l) (VSeq m) =
  lexi (fun l m => Nat.compare (length l) (length m))
       (lexi (fun l m => list_lex N.compare (map (tcode tc) l) (map (tcode tc) m))
             (list_lex (tcmp d tc))) l m.
Proof.
  cbn [tcmp]. unfold lexi. destruct (length l ?= length m)%nat; auto.
  destruct (list_lex N.compare (map (tcode tc) l) (map (tcode tc) m)); auto.
  clear. revert m. induction l as [|x l IH]; intros [|y m]; cbn [list_lex]; auto.
  destruct (tcmp d tc x y); auto.
Qed.

Lemma tcmp_crank d tc a b : crank a <> crank b -> tcmp d tc a b = N.compare (crank a) (crank b).
Proof. destruct a, b; cbn; intros H; try reflexivity; congruence. Qed.

(* laws for the sequence case from laws of the elements *)
Lemma seq_laws_at d tc l : Forall (laws_at (tcmp d tc)) l ->
  laws_at (lexi (fun l m => Nat.compare (length l) (length m))
                (lexi (fun l m => list_lex N.compare (map (tcode tc) l) (map (tcode tc) m))
                      (list_lex (tcmp d tc)))) l.
Proof.
  intros HF.
  pose proof (list_lex_laws_at (tcmp d tc) l HF) as (R3 & S3 & T3 & E3 & EL3 & LE3).
  pose proof (lawful_on (@length value) Nat.compare lawful_nat) as [R1 S1 T1 E1 EL1 LE1].
  pose proof (lawful_on (map (tcode tc)) (list_lex N.compare) (lawful_list_lex _ lawful_N)) as [R2 S2 T2 E2 EL2 LE2].
  unfold lexi. split; [|split; [|split; [|split; [|split]]]].
  - rewrite R1, R2. exact R3.
  - intros m. rewrite (S1 l m). destruct (length m ?= length l)%nat; cbn; auto.
    rewrite (S2 l m). destruct (list_lex N.compare (map (tcode tc) m) (map (tcode tc) l)); cbn; auto.
  - intros m n.
    destruct (length l ?= length m)%nat eqn:A1; try discriminate; destruct (length m ?= length n)%nat eqn:A2; try discriminate.
    + rewrite (E1 _ _ _ A1 A2).
      destruct (list_lex N.compare (map (tcode tc) l) (map (tcode tc) m)) eqn:B1; try discriminate;
        destruct (list_lex N.compare (map (tcode tc) m) (map (tcode tc) n)) eqn:B2; try discriminate; intros H1 H2.
      * rewrite (E2 _ _ _ B1 B2). eauto.
      * rewrite (EL2 _ _ _ B1 B2). reflexivity.
      * rewrite (LE2 _ _ _ B1 B2). reflexivity.
      * rewrite (T2 _ _ _ B1 B2). reflexivity.
    + intros _ _. rewrite (EL1 _ _ _ A1 A2). reflexivity.
    + intros _ _. rewrite (LE1 _ _ _ A1 A2). reflexivity.
    + intros _ _. rewrite (T1 _ _ _ A1 A2). reflexivity.
  - intros m n.
    destruct (length l ?= length m)%nat eqn:A1; try discriminate; destruct (length m ?= length n)%nat eqn:A2; try discriminate.
    rewrite (E1 _ _ _ A1 A2).
    destruct (list_lex N.compare (map (tcode tc) l) (map (tcode tc) m)) eqn:B1; try discriminate;
      destruct (list_lex N.compare (map (tcode tc) m) (map (tcode tc) n)) eqn:B2; try discriminate; intros H1 H2.
    rewrite (E2 _ _ _ B1 B2). eauto.
  - intros m n.
    destruct (length l ?= length m)%nat eqn:A1; try discriminate; destruct (length m ?= length n)%nat eqn:A2; try discriminate.
    + rewrite (E1 _ _ _ A1 A2).
      destruct (list_lex N.compare (map (tcode tc) l) (map (tcode tc) m)) eqn:B1; try discriminate;
        destruct (list_lex N.compare (map (tcode tc) m) (map (tcode tc) n)) eqn:B2; try discriminate; intros H1 H2.
      * rewrite (E2 _ _ _ B1 B2). eauto.
      * rewrite (EL2 _ _ _ B1 B2). reflexivity.
    + intros _ _. rewrite (EL1 _ _ _ A1 A2). reflexivity.
  - intros m n.
    destruct (length l ?= length m)%nat eqn:A1; try discriminate; destruct (length m ?= length n)%nat eqn:A2; try discriminate.
    + rewrite (E1 _ _ _ A1 A2).
      destruct (list_lex N.compare (map (tcode tc) l) (map (tcode tc) m)) eqn:B1; try discriminate;
        destruct (list_lex N.compare (map (tcode tc) m) (map (tcode tc) n)) eqn:B2; try discriminate; intros H1 H2.
      * rewrite (E2 _ _ _ B1 B2). eauto.
      * rewrite (LE2 _ _ _ B1 B2). reflexivity.
    + intros _ _. rewrite (LE1 _ _ _ A1 A2). reflexivity.
Qed.

Definition opq_cmp (a b : N * N) : comparison :=
  match N.compare (fst a) (fst b) with Eq => N.compare (snd a) (snd b) | o => o end.

Lemma lawful_opq : lawful opq_cmp.
Proof.
  apply (lawful_lexi (fun a b => N.compare (fst a) (fst b)) (fun a b => N.compare (snd a) (snd b)));
    [apply (lawful_on fst), lawful_N | apply (lawful_on snd), lawful_N].
Qed.

Lemma tcmp_opq d tc t i t' i' : tcmp d tc (VOpaque t i) (VOpaque t' i') = opq_cmp (t, i) (t', i').
Proof. reflexivity. Qed.

Local Opaque compare_lt bytes_cmp w_cmp opq_cmp.

Ltac mixed := cbn; intros; try discriminate; try reflexivity; auto.

Theorem tcmp_laws_at d tc : forall a, laws_at (tcmp d tc) a.
Proof.
  induction a as [c|s|l IH|c|t i] using value_ind'.
  - (* constants *)
    destruct (cst_lawful d) as [R S T E EL LE].
    split; [|split; [|split; [|split; [|split]]]].
    + cbn. apply R.
    + intros [y|y|y|y|y y']; mixed; try apply S.
    + intros [y|y|y|y|y y'] [z|z|z|z|z z']; mixed; eapply T; eauto.
    + intros [y|y|y|y|y y'] [z|z|z|z|z z']; mixed; eapply E; eauto.
    + intros [y|y|y|y|y y'] [z|z|z|z|z z']; mixed; eapply EL; eauto.
    + intros [y|y|y|y|y y'] [z|z|z|z|z z']; mixed; eapply LE; eauto.
  - (* strings *)
    destruct str_lawful as [R S T E EL LE].
    split; [|split; [|split; [|split; [|split]]]].
    + cbn. apply R.
    + intros [y|y|y|y|y y']; mixed; try apply S.
    + intros [y|y|y|y|y y'] [z|z|z|z|z z']; mixed; eapply T; eauto.
    + intros [y|y|y|y|y y'] [z|z|z|z|z z']; mixed; eapply E; eauto.
    + intros [y|y|y|y|y y'] [z|z|z|z|z z']; mixed; eapply EL; eauto.
    + intros [y|y|y|y|y y'] [z|z|z|z|z z']; mixed; eapply LE; eauto.
  - (* sequences *)
    destruct (seq_laws_at d tc l IH) as (R & S & T & E & EL & LE).
    split; [|split; [|split; [|split; [|split]]]].
    + rewrite tcmp_seq. apply R.
    + intros [y|y|y|y|y y']; try (mixed; fail). rewrite !tcmp_seq. apply S.
    + intros [y|y|y|y|y y'] [z|z|z|z|z z']; try (mixed; fail). rewrite !tcmp_seq. apply T.
    + intros [y|y|y|y|y y'] [z|z|z|z|z z']; try (mixed; fail). rewrite !tcmp_seq. apply E.
    + intros [y|y|y|y|y y'] [z|z|z|z|z z']; try (mixed; fail). rewrite !tcmp_seq. apply EL.
    + intros [y|y|y|y|y y'] [z|z|z|z|z z']; try (mixed; fail). rewrite !tcmp_seq. apply LE.
  - (* address sets *)
    destruct aset_lawful as [R S T E EL LE].
    split; [|split; [|split; [|split; [|split]]]].
    + cbn. apply R.
    + intros [y|y|y|y|y y']; mixed; try apply S.
    + intros [y|y|y|y|y y'] [z|z|z|z|z z']; mixed; eapply T; eauto.
    + intros [y|y|y|y|y y'] [z|z|z|z|z z']; mixed; eapply E; eauto.
    + intros [y|y|y|y|y y'] [z|z|z|z|z z']; mixed; eapply EL; eauto.
    + intros [y|y|y|y|y y'] [z|z|z|z|z z']; mixed; eapply LE; eauto.
  - (* opaque *)
    destruct lawful_opq as [R S T E EL LE].
    split; [|split; [|split; [|split; [|split]]]].
    + rewrite tcmp_opq. apply R.
    + intros [y|y|y|y|y y']; try (mixed; fail). rewrite !tcmp_opq. apply S.
    + intros [y|y|y|y|y y'] [z|z|z|z|z z']; try (mixed; fail). rewrite !tcmp_opq. apply T.
    + intros [y|y|y|y|y y'] [z|z|z|z|z z']; try (mixed; fail). rewrite !tcmp_opq. apply E.
    + intros [y|y|y|y|y y'] [z|z|z|z|z z']; try (mixed; fail). rewrite !tcmp_opq. apply EL.
    + intros [y|y|y|y|y y'] [z|z|z|z|z z']; try (mixed; fail). rewrite !tcmp_opq. apply LE.
Qed.

Theorem tcmp_lawful d tc : lawful (tcmp d tc).
Proof. apply lawful_of_laws_at, tcmp_laws_at. Qed.

(* the total order used by the comparison words: type code (reversed, as
   comparison_result does), then value *)
Definition ttop (d : N) (tc : tcodes) (a b : value) : comparison :=
  lexi (fun a b => N.compare (tcode tc b) (tcode tc a)) (tcmp d tc) a b.

Theorem ttop_lawful d tc : lawful (ttop d tc).
Proof.
  apply lawful_lexi; [|apply tcmp_lawful].
  pose proof lawful_N as [R S T E EL LE].
  split; intros.
  - apply R.
  - apply S.
  - eapply T; eauto.
  - eapply E; eauto.
  - eapply LE; eauto.
  - eapply EL; eauto.
Qed.

(* ------------------------------------------------ model = total comparison *)

Definition tcodes_distinct (tc : tcodes) : Prop :=
  NoDup [tc_cst tc; tc_str tc; tc_seq tc; tc_aset tc].

Lemma same_tcode_same_ctor tc a b : tcodes_distinct tc ->
  comparable a = true -> comparable b = true -> tcode tc a = tcode tc b -> crank a = crank b.
Proof.
  unfold tcodes_distinct. intros ND Ca Cb E.
  inversion ND as [|? ? N1 ND1]; subst. inversion ND1 as [|? ? N2 ND2]; subst.
  inversion ND2 as [|? ? N3 ND3]; subst. cbn in N1, N2, N3.
  destruct a, b; cbn in *; try discriminate; try reflexivity; exfalso; intuition congruence.
Qed.

Lemma types_cmp_lex tc l : forall m, length l = length m ->
  types_cmp tc l m = list_lex N.compare (map (tcode tc) l) (map (tcode tc) m).
Proof.
  induction l as [|x l IH]; intros [|y m] L; cbn in *; try discriminate; auto.
  destruct (tcode tc x ?= tcode tc y)%N; auto.
Qed.

Lemma list_lex_N_eq a : forall b, list_lex N.compare a b = Eq -> a = b.
Proof.
  induction a as [|x a IH]; intros [|y b]; cbn; try discriminate; auto.
  destruct (N.compare_spec x y) as [Exy| |]; try discriminate. intros Hl. f_equal; auto.
Qed.

Lemma vcmp_tcmp d tc : tcodes_distinct tc -> forall a b,
  comparable a = true -> comparable b = true -> tcode tc a = tcode tc b ->
  vcmp d tc a b = Some (tcmp d tc a b).
Proof.
  intros ND. induction a as [c|s|l IH|c|t i] using value_ind'; intros b Ca Cb E;
    pose proof (same_tcode_same_ctor tc _ _ ND Ca Cb E) as K; destruct b; cbn in K; try discriminate;
    try reflexivity.
  cbn [vcmp tcmp].
  destruct (Nat.compare_spec (length l) (length l0)) as [L|L|L]; try reflexivity.
  rewrite (types_cmp_lex tc l l0 L).
  destruct (list_lex N.compare (map (tcode tc) l) (map (tcode tc) l0)) eqn:TY; try reflexivity.
  apply list_lex_N_eq in TY.
  cbn [comparable] in Ca, Cb. clear E K L.
  revert l0 Cb TY. induction l as [|x l IHl]; intros [|y m] Cb TY; cbn in TY; try discriminate; try reflexivity.
  inversion IH as [|? ? Hx Hl]; subst. injection TY as T1 T2.
  cbn [forallb] in Ca, Cb. apply andb_true_iff in Ca as [Cx Cl]. apply andb_true_iff in Cb as [Cy Cm].
  rewrite (Hx y Cx Cy T1). destruct (tcmp d tc x y); try reflexivity. apply IHl; auto.
Qed.

Theorem cmp_top_total d tc a b : tcodes_distinct tc ->
  comparable a = true -> comparable b = true -> cmp_top d tc a b = Some (ttop d tc a b).
Proof.
  intros ND Ca Cb. unfold cmp_top, ttop, lexi.
  destruct (N.compare_spec (tcode tc b) (tcode tc a)) as [E|L|G].
  - rewrite E, N.ltb_irrefl. apply vcmp_tcmp; auto.
  - apply N.ltb_lt in L. rewrite L. reflexivity.
  - assert (X : N.ltb (tcode tc b) (tcode tc a) = false) by (apply N.ltb_ge; lia). rewrite X.
    apply N.ltb_lt in G. rewrite G. reflexivity.
Qed.

(* ------------------------------------------------- statements about the words *)

Section Words.
  Variables (d : N) (tc : tcodes).
  Hypothesis ND : tcodes_distinct tc.
  Let ok (v : value) := comparable v = true.

  Lemma words_of_ttop a b : ok a -> ok b ->
    w_lt d tc a b = Some (match ttop d tc a b with Lt => true | _ => false end) /\
    w_eq d tc a b = Some (match ttop d tc a b with Eq => true | _ => false end) /\
    w_gt d tc a b = Some (match ttop d tc a b with Gt => true | _ => false end).
  Proof.
    intros Ha Hb. unfold w_lt, w_eq, w_gt. rewrite (cmp_top_total d tc a b ND Ha Hb).
    destruct (ttop d tc a b); cbn; auto.
  Qed.

  Theorem words_trichotomy a b : ok a -> ok b ->
    (w_lt d tc a b = Some true /\ w_eq d tc a b = Some false /\ w_gt d tc a b = Some false) \/
    (w_lt d tc a b = Some false /\ w_eq d tc a b = Some true /\ w_gt d tc a b = Some false) \/
    (w_lt d tc a b = Some false /\ w_eq d tc a b = Some false /\ w_gt d tc a b = Some true).
  Proof.
    intros Ha Hb. destruct (words_of_ttop a b Ha Hb) as (-> & -> & ->).
    destruct (ttop d tc a b); auto.
  Qed.

  Theorem words_eq_refl a : ok a -> w_eq d tc a a = Some true.
  Proof.
    intros Ha. destruct (words_of_ttop a a Ha Ha) as (_ & -> & _).
    rewrite (law_refl _ (ttop_lawful d tc)). reflexivity.
  Qed.

  Theorem words_eq_sym a b : ok a -> ok b -> w_eq d tc a b = Some true -> w_eq d tc b a = Some true.
  Proof.
    intros Ha Hb. destruct (words_of_ttop a b Ha Hb) as (_ & -> & _). destruct (words_of_ttop b a Hb Ha) as (_ & -> & _).
    rewrite (law_sym _ (ttop_lawful d tc) b a). destruct (ttop d tc a b); cbn; auto; discriminate.
  Qed.

  Theorem words_eq_trans a b c : ok a -> ok b -> ok c ->
    w_eq d tc a b = Some true -> w_eq d tc b c = Some true -> w_eq d tc a c = Some true.
  Proof.
    intros Ha Hb Hc. destruct (words_of_ttop a b Ha Hb) as (_ & -> & _).
    destruct (words_of_ttop b c Hb Hc) as (_ & -> & _). destruct (words_of_ttop a c Ha Hc) as (_ & -> & _).
    destruct (ttop d tc a b) eqn:E1; try discriminate. destruct (ttop d tc b c) eqn:E2; try discriminate.
    rewrite (law_eq_trans _ (ttop_lawful d tc) _ _ _ E1 E2). auto.
  Qed.

  Theorem words_lt_trans a b c : ok a -> ok b -> ok c ->
    w_lt d tc a b = Some true -> w_lt d tc b c = Some true -> w_lt d tc a c = Some true.
  Proof.
    intros Ha Hb Hc. destruct (words_of_ttop a b Ha Hb) as (-> & _ & _).
    destruct (words_of_ttop b c Hb Hc) as (-> & _ & _). destruct (words_of_ttop a c Ha Hc) as (-> & _ & _).
    destruct (ttop d tc a b) eqn:E1; try discriminate. destruct (ttop d tc b c) eqn:E2; try discriminate.
    rewrite (law_lt_trans _ (ttop_lawful d tc) _ _ _ E1 E2). auto.
  Qed.

  Theorem words_lt_antisym a b : ok a -> ok b -> w_lt d tc a b = Some true -> w_lt d tc b a = Some false.
  Proof.
    intros Ha Hb. destruct (words_of_ttop a b Ha Hb) as (-> & _ & _). destruct (words_of_ttop b a Hb Ha) as (-> & _ & _).
    rewrite (law_sym _ (ttop_lawful d tc) b a). destruct (ttop d tc a b); cbn; auto; discriminate.
  Qed.

  Theorem words_lt_gt_dual a b : ok a -> ok b -> w_lt d tc a b = w_gt d tc b a.
  Proof.
    intros Ha Hb. destruct (words_of_ttop a b Ha Hb) as (-> & _ & _). destruct (words_of_ttop b a Hb Ha) as (_ & _ & ->).
    rewrite (law_sym _ (ttop_lawful d tc) b a). destruct (ttop d tc a b); cbn; auto.
  Qed.

  (* == is a congruence for <: a strict *weak* order, what std::set needs *)
  Theorem words_eq_lt_compat a b c : ok a -> ok b -> ok c ->
    w_eq d tc a b = Some true ->
    w_lt d tc a c = w_lt d tc b c /\ w_lt d tc c a = w_lt d tc c b.
  Proof.
    intros Ha Hb Hc. destruct (words_of_ttop a b Ha Hb) as (_ & -> & _).
    destruct (words_of_ttop a c Ha Hc) as (-> & _ & _). destruct (words_of_ttop b c Hb Hc) as (-> & _ & _).
    destruct (words_of_ttop c a Hc Ha) as (-> & _ & _). destruct (words_of_ttop c b Hc Hb) as (-> & _ & _).
    pose proof (ttop_lawful d tc) as L.
    destruct (ttop d tc a b) eqn:E1; try discriminate. intros _.
    assert (E1' : ttop d tc b a = Eq) by (rewrite (law_sym _ L), E1; auto).
    assert (X : ttop d tc a c = ttop d tc b c).
    { destruct (ttop d tc b c) eqn:E2.
      - eapply (law_eq_trans _ L); eauto.
      - eapply (law_eq_lt _ L); eauto.
      - rewrite (law_sym _ L a c). rewrite (law_sym _ L b c) in E2.
        destruct (ttop d tc c b) eqn:E3; try discriminate.
        rewrite (law_lt_eq _ L c b a E3 E1'). auto. }
    assert (Y : ttop d tc c a = ttop d tc c b).
    { rewrite (law_sym _ L c a), (law_sym _ L c b), X. auto. }
    rewrite X, Y. auto.
  Qed.

  (* aliases of init.cc: ?ge is !lt, ?le is !gt, ?ne is !eq *)
  Theorem words_aliases a b :
    w_ge d tc a b = onot (w_lt d tc a b) /\ w_le d tc a b = onot (w_gt d tc a b) /\
    w_ne d tc a b = onot (w_eq d tc a b).
  Proof. repeat split; reflexivity. Qed.

  Theorem words_cross_type_no_error a b : ok a -> ok b -> cmp_top d tc a b <> None.
  Proof. intros Ha Hb. rewrite (cmp_top_total d tc a b ND Ha Hb). discriminate. Qed.

  Theorem words_arith_by_value x y : arith x = true -> arith y = true ->
    w_lt d tc (VCst x) (VCst y) = Some (cv x <? cv y) /\ w_eq d tc (VCst x) (VCst y) = Some (cv x =? cv y).
  Proof.
    intros Hx Hy. unfold w_lt, w_eq, cmp_top. cbn [tcode]. rewrite N.ltb_irrefl. cbn [vcmp holds].
    rewrite (cst_arith_by_value d x y Hx Hy).
    destruct (Z.compare_spec (cv x) (cv y)) as [E|L|G].
    - rewrite E, Z.ltb_irrefl, Z.eqb_refl. auto.
    - assert (X : (cv x =? cv y) = false) by (apply Z.eqb_neq; lia). apply Z.ltb_lt in L. rewrite L, X. auto.
    - assert (X : (cv x =? cv y) = false) by (apply Z.eqb_neq; lia).
      assert (Y : (cv x <? cv y) = false) by (apply Z.ltb_ge; lia). rewrite X, Y. auto.
  Qed.

  Theorem words_unrelated_never_equal x y : ckey d x <> ckey d y ->
    w_eq d tc (VCst x) (VCst y) = Some false.
  Proof.
    intros K. unfold w_eq, cmp_top. cbn [tcode]. rewrite N.ltb_irrefl. cbn [vcmp holds].
    destruct (compare_lt (cst_lt d) x y) eqn:E; auto.
    apply cst_eq_iff in E. tauto.
  Qed.

  Theorem words_seq_length_first l m : (length l < length m)%nat ->
    w_lt d tc (VSeq l) (VSeq m) = Some true.
  Proof.
    intros L. unfold w_lt, cmp_top. cbn [tcode]. rewrite N.ltb_irrefl. cbn [vcmp].
    apply Nat.compare_lt_iff in L. rewrite L. reflexivity.
  Qed.
End Words.
