(* Model of value comparison: constant::operator< (constant.cc),
   value_cst/value_str/value_seq/value_aset ::cmp and comparison_result
   (builtin-cmp.cc).  No proofs in this file.

   Domain objects are compared by address in the C++; the model abstracts a
   domain to the data the comparison looks at: `arith` (safe_arith ()) and
   `enc`, the rank of most_enclosing (value) in the address order (>= 1).
   The correspondence check observes that order on the running implementation
   and feeds the ranks to the model. *)
From Coq Require Import ZArith NArith List Bool.
From Dwgrep Require Import CovModel.
Import ListNotations.
Local Open Scope Z_scope.

Module CmpM.

(* a constant: value + what operator< needs to know about its domain *)
Record cst := mkcst { cv : Z; arith : bool; enc : N }.

(* the ordering key: all arithmetic domains share one key (that of `dec`,
   whose rank among the domains is `dec_rank`); a named constant is keyed by
   the most enclosing domain of its value *)
Definition ckey (dec_rank : N) (c : cst) : N := if arith c then dec_rank else enc c.

(* bool constant::operator< (constant that) const *)
Definition cst_lt (dec_rank : N) (a b : cst) : bool :=
  let ka := ckey dec_rank a in
  let kb := ckey dec_rank b in
  if N.eqb ka kb then Z.ltb (cv a) (cv b) else N.ltb ka kb.

(* template compare (a, b): less / greater / equal from operator< *)
Definition compare_lt {A} (lt : A -> A -> bool) (a b : A) : comparison :=
  if lt a b then Lt else if lt b a then Gt else Eq.

Inductive value :=
| VCst (c : cst)
| VStr (bytes : list N)                (* std::string, compared as unsigned bytes *)
| VSeq (l : list value)
| VAset (c : cov)
| VOpaque (ty : N) (id : N).           (* closures etc.: never compared structurally *)

(* value_type codes (assigned at static-initialisation time in the C++) *)
Record tcodes := mktc { tc_cst : N; tc_str : N; tc_seq : N; tc_aset : N }.

Definition tcode (tc : tcodes) (v : value) : N :=
  match v with
  | VCst _ => tc_cst tc
  | VStr _ => tc_str tc
  | VSeq _ => tc_seq tc
  | VAset _ => tc_aset tc
  | VOpaque ty _ => ty
  end.

(* std::string::compare: lexicographic on unsigned bytes, a proper prefix is less *)
Fixpoint bytes_cmp (a b : list N) : comparison :=
  match a, b with
  | [], [] => Eq
  | [], _ :: _ => Lt
  | _ :: _, [] => Gt
  | x :: a', y :: b' => match N.compare x y with Eq => bytes_cmp a' b' | o => o end
  end.

(* compare_sequences with the type comparison: first position where the two
   element types differ *)
Fixpoint types_cmp (tc : tcodes) (a b : list value) : comparison :=
  match a, b with
  | x :: a', y :: b' =>
    match N.compare (tcode tc x) (tcode tc y) with Eq => types_cmp tc a' b' | o => o end
  | _, _ => Eq
  end.

(* value::cmp for two values of the same type; None = cmp_result::fail *)
Fixpoint vcmp (dec_rank : N) (tc : tcodes) (a b : value) {struct a} : option comparison :=
  match a, b with
  | VCst x, VCst y => Some (compare_lt (cst_lt dec_rank) x y)
  | VStr s, VStr t => Some (bytes_cmp s t)
  | VSeq l, VSeq m =>
    match Nat.compare (length l) (length m) with
    | Eq =>
      match types_cmp tc l m with
      | Eq =>
        (fix go (l m : list value) {struct l} : option comparison :=
           match l, m with
           | x :: l', y :: m' =>
             match vcmp dec_rank tc x y with
             | Some Eq => go l' m'
             | r => r
             end
           | _, _ => Some Eq
           end) l m
      | o => Some o
      end
    | o => Some o
    end
  | VAset c, VAset d => Some (w_cmp c d)
  | _, _ => None
  end.

(* comparison_result (builtin-cmp.cc): A is below TOS, B is TOS; the result
   is the relation of A to B.  Different types: decided by the type codes. *)
Definition cmp_top (dec_rank : N) (tc : tcodes) (a b : value) : option comparison :=
  let ta := tcode tc b in            (* va = stk.get (0) = B *)
  let tb := tcode tc a in            (* vb = stk.get (1) = A *)
  if N.ltb ta tb then Some Lt
  else if N.ltb tb ta then Some Gt
  else vcmp dec_rank tc a b.

(* the assertion words; None = pred_result::fail (neither ?w nor !w holds) *)
Definition holds (want : comparison) (r : option comparison) : option bool :=
  match r with
  | None => None
  | Some c => Some (match c, want with Eq, Eq | Lt, Lt | Gt, Gt => true | _, _ => false end)
  end.
Definition w_eq d tc a b := holds Eq (cmp_top d tc a b).
Definition w_lt d tc a b := holds Lt (cmp_top d tc a b).
Definition w_gt d tc a b := holds Gt (cmp_top d tc a b).
Definition onot (o : option bool) : option bool :=
  match o with Some x => Some (negb x) | None => None end.
(* init.cc: ?ne = !eq, ?ge = !lt, ?le = !gt; infix forms alias the same builtins *)
Definition w_ne d tc a b := onot (w_eq d tc a b).
Definition w_ge d tc a b := onot (w_lt d tc a b).
Definition w_le d tc a b := onot (w_gt d tc a b).

(* values that can be compared: no opaque parts *)
Fixpoint comparable (v : value) : bool :=
  match v with
  | VOpaque _ _ => false
  | VSeq l => forallb comparable l
  | _ => true
  end.

End CmpM.
Export CmpM.
