From Coq Require Import ZArith List Bool Lia ZifyBool.
From Dwgrep Require Import Profile.
Import ListNotations.
Local Open Scope Z_scope.
Ltac Zify.zify_post_hook ::= Z.div_mod_to_equations.

Lemma wf_inv c s : wf_codes (c :: s) -> 0 < c < 256 /\ wf_codes s.
Proof. intros H. inversion H; auto. Qed.

(* push keeps the invariant *)
Theorem push_profile c s : wf_codes (c :: s) -> p_push (prof s) c = prof (c :: s).
Proof.
  intros H. apply wf_inv in H as [Hc Hs].
  unfold p_push, prof, p_recompute, W32.
  destruct s as [|a [|b [|d [|e r]]]]; cbn [nth];
    repeat match goal with H : wf_codes (_ :: _) |- _ => apply wf_inv in H as [? H] end; lia.
Qed.

(* pop keeps the invariant *)
Theorem pop_profile c s : wf_codes (c :: s) -> p_pop (prof (c :: s)) s = prof s.
Proof.
  intros H. apply wf_inv in H as [Hc Hs].
  unfold p_pop, prof, p_recompute.
  destruct s as [|a [|b [|d [|e r]]]]; cbn [nth length Nat.leb];
    repeat match goal with H : wf_codes (_ :: _) |- _ => apply wf_inv in H as [? H] end; lia.
Qed.

(* drop recomputes: trivially the invariant *)
Theorem drop_profile n s : p_recompute (skipn n s) = prof (skipn n s).
Proof. reflexivity. Qed.

(* any history of pushes and pops: the cached word is the profile of the stack *)
Inductive sop := Push (c : Z) | Pop | Drop (n : nat).

Fixpoint run_ops (ops : list sop) (st : codes * Z) : option (codes * Z) :=
  match ops with
  | [] => Some st
  | Push c :: r => run_ops r (c :: fst st, p_push (snd st) c)
  | Pop :: r =>
    match fst st with
    | [] => None
    | _ :: rest => run_ops r (rest, p_pop (snd st) rest)
    end
  | Drop n :: r =>
    if Nat.leb n (length (fst st)) then run_ops r (skipn n (fst st), p_recompute (skipn n (fst st))) else None
  end.

Lemma wf_skipn n : forall s, wf_codes s -> wf_codes (skipn n s).
Proof. induction n as [|n IH]; intros [|c s] H; cbn; auto. apply wf_inv in H as [_ H]. auto. Qed.

Theorem profile_invariant ops : forall s p s' p',
  wf_codes s -> p = prof s ->
  Forall (fun o => match o with Push c => 0 < c < 256 | _ => True end) ops ->
  run_ops ops (s, p) = Some (s', p') -> wf_codes s' /\ p' = prof s'.
Proof.
  induction ops as [|o ops IH]; intros s p s' p' Hs Hp Hops H; cbn [run_ops fst snd] in H.
  - inversion H; subst. auto.
  - inversion Hops as [|? ? Ho Hr]; subst.
    destruct o as [c| |n].
    + eapply IH; [| |exact Hr|exact H].
      * constructor; auto.
      * apply push_profile. constructor; auto.
    + destruct s as [|c rest]; [discriminate|].
      eapply IH; [| |exact Hr|exact H].
      * apply wf_inv in Hs as [_ Hs]. auto.
      * apply pop_profile; auto.
    + destruct (Nat.leb n (length s)); [|discriminate].
      eapply IH; [| |exact Hr|exact H]; auto using wf_skipn.
Qed.

(* dispatch depends only on the types near the top: a k-type selector (k <= 4)
   matches the profile iff the top k types are the selector's *)
Lemma prof_mod_1 s a : wf_codes (a :: s) -> prof (a :: s) mod 256 = a.
Proof.
  intros H. unfold prof, p_recompute.
  destruct s as [|b [|c [|d r]]]; cbn [nth];
    repeat match goal with H : wf_codes (_ :: _) |- _ => apply wf_inv in H as [? H] end; lia.
Qed.

Theorem selector1_matches_iff t s : 0 < t < 256 -> wf_codes s ->
  (sel_matches [t] (prof s) = true <-> exists r, s = t :: r).
Proof.
  intros Ht Hs. unfold sel_matches, sel_imprint.
  change (256 ^ Z.of_nat (length [t])) with 256.
  change (p_recompute (firstn 4 [t])) with (t + 0 * 256 + 0 * 65536 + 0 * 16777216). rewrite Z.eqb_eq.
  destruct s as [|a r].
  - unfold prof, p_recompute. cbn [nth]. split; [lia|]. intros [r' E]. discriminate.
  - rewrite prof_mod_1 by auto. split.
    + intros E. exists r. f_equal. lia.
    + intros [r' E]. inversion E; subst. lia.
Qed.

Lemma prof_mod_2 s a b : wf_codes (a :: b :: s) -> prof (a :: b :: s) mod 65536 = a + b * 256.
Proof.
  intros H. unfold prof, p_recompute.
  destruct s as [|c [|d r]]; cbn [nth];
    repeat match goal with H : wf_codes (_ :: _) |- _ => apply wf_inv in H as [? H] end; lia.
Qed.

Theorem selector2_matches_iff t1 t0 s : 0 < t0 < 256 -> 0 < t1 < 256 -> wf_codes s ->
  (sel_matches [t0; t1] (prof s) = true <-> exists r, s = t0 :: t1 :: r).
Proof.
  intros H0 H1 Hs. unfold sel_matches, sel_imprint.
  change (256 ^ Z.of_nat (length [t0; t1])) with 65536.
  change (p_recompute (firstn 4 [t0; t1])) with (t0 + t1 * 256 + 0 * 65536 + 0 * 16777216). rewrite Z.eqb_eq.
  destruct s as [|a [|b r]].
  - unfold prof, p_recompute. cbn [nth]. split; [lia|]. intros [r' E]. discriminate.
  - unfold prof, p_recompute. cbn [nth]. apply wf_inv in Hs as [Ha _]. split; [lia|]. intros [r' E]. discriminate.
  - rewrite prof_mod_2 by auto.
    pose proof Hs as Hs'. apply wf_inv in Hs' as [Ha Hs']. apply wf_inv in Hs' as [Hb _]. split.
    + intros E. exists r. assert (a = t0 /\ b = t1) by lia. destruct H; subst. auto.
    + intros [r' E]. inversion E; subst. lia.
Qed.
