(* Model of value_die::cmp and value_cu::cmp (value-dw.cc).  A DIE value is the
   Dwarf it lives in, its offset, whether it is raw, and the DIE through which
   its unit was imported (m_import: a DIE value again, with its own import, and
   so on outwards); a DIE reached without any import has none.  No proofs here. *)
From Coq Require Import NArith List Bool.
Import ListNotations.

Module DieCmpM.

Inductive die := Die (dw : N) (off : N) (raw : bool) (imp : option die).

Definition die_dw (a : die) := match a with Die f _ _ _ => f end.
Definition die_off (a : die) := match a with Die _ o _ _ => o end.
Definition die_raw (a : die) := match a with Die _ _ r _ => r end.
Definition die_imp (a : die) := match a with Die _ _ _ i => i end.

(* compare (Dwarf), compare (offset); "if import paths are different, then each DIE
   comes from a different part of the tree and they are logically different.  But if
   one of DIE's has an import path and the other does not, the other is in a sense a
   template that describes potentially several DIEs.  If one of the DIE's is raw, its
   import path (if any) is ignored."; otherwise explore recursively *)
Fixpoint die_cmp (a b : die) : comparison :=
  match a, b with
  | Die fa oa ra ia, Die fb ob rb ib =>
    match N.compare fa fb with
    | Eq =>
      match N.compare oa ob with
      | Eq => if ra || rb then Eq else
              match ia, ib with
              | Some x, Some y => die_cmp x y
              | _, _ => Eq
              end
      | c => c
      end
    | c => c
    end
  end.

(* number of imports a value was reached through *)
Fixpoint depth (a : die) : nat :=
  match a with Die _ _ _ None => O | Die _ _ _ (Some x) => S (depth x) end.

(* no DIE along the chain is raw *)
Fixpoint cooked (a : die) : bool :=
  match a with Die _ _ r None => negb r | Die _ _ r (Some x) => negb r && cooked x end.

(* value_cu::cmp: the address of the libdw unit, i.e. the identity of (Dwarf, unit) *)
Definition cu := (N * N)%type.          (* (module, offset of the unit) *)
Definition cu_cmp (a b : cu) : comparison :=
  match N.compare (fst a) (fst b) with Eq => N.compare (snd a) (snd b) | c => c end.

End DieCmpM.
