(* `==` on stacks (stack_eqb) is symmetric and transitive, and reflexive on
   stacks that contain no closure. *)
From Coq Require Import ZArith NArith List Bool Lia.
From Dwgrep Require Import Radix Value.
Import ListNotations.
Local Open Scope Z_scope.

Section ValueInd.
  Variable Q : value -> Prop.
  Hypothesis Hcst : forall z d p, Q (VCst z d p).
  Hypothesis Hstr : forall s p, Q (VStr s p).
  Hypothesis Hseq : forall l p, Forall Q l -> Q (VSeq l p).
  Hypothesis Hclo : forall b e p, Q (VClo b e p).
  Fixpoint value_ind2 (v : value) : Q v :=
    match v with
    | VCst z d p => Hcst z d p
    | VStr s p => Hstr s p
    | VSeq l p => Hseq l p ((fix go (l : list value) : Forall Q l :=
                               match l with [] => Forall_nil Q | x :: t => Forall_cons x (value_ind2 x) (go t) end) l)
    | VClo b e p => Hclo b e p
    end.
End ValueInd.

Lemma cdom_eqb_refl d : cdom_eqb d d = true.
Proof. destruct d; cbn; auto. apply N.eqb_refl. Qed.

Lemma cdom_eqb_eq a b : cdom_eqb a b = true -> a = b.
Proof. destruct a, b; cbn; try discriminate; auto. intros H. apply N.eqb_eq in H. subst. auto. Qed.

Lemma bytes_eqb_refl s : bytes_eqb s s = true.
Proof. induction s as [|x s IH]; cbn; auto. rewrite N.eqb_refl. auto. Qed.

Lemma bytes_eqb_eq a : forall b, bytes_eqb a b = true -> a = b.
Proof.
  induction a as [|x a IH]; intros [|y b]; cbn; try discriminate; auto.
  intros H. apply andb_true_iff in H as [H1 H2]. apply N.eqb_eq in H1. subst. f_equal. auto.
Qed.

(* the sequence case of value_eqb, as a list function *)
Fixpoint list_eqb (l m : list value) : bool :=
  match l, m with
  | [], [] => true
  | x :: l', y :: m' => value_eqb x y && list_eqb l' m'
  | _, _ => false
  end.

Lemma value_eqb_seq l p m q : value_eqb (VSeq l p) (VSeq m q) = list_eqb l m.
Proof.
  cbn [value_eqb]. revert m. induction l as [|x l IH]; intros [|y m]; cbn [list_eqb]; auto;
    rewrite IH; reflexivity.
Qed.

Lemma stack_eqb_list a b : stack_eqb a b = list_eqb a b.
Proof. revert b. induction a as [|x a IH]; intros [|y b]; cbn; auto; rewrite IH; auto. Qed.

Fixpoint no_closure (v : value) : bool :=
  match v with
  | VClo _ _ _ => false
  | VSeq l _ => forallb no_closure l
  | _ => true
  end.

Lemma value_eqb_refl : forall v, no_closure v = true -> value_eqb v v = true.
Proof.
  induction v as [z d p|s p|l p IH|b e p] using value_ind2; intros H.
  - cbn. rewrite Z.eqb_refl, cdom_eqb_refl, orb_true_r. auto.
  - cbn. apply bytes_eqb_refl.
  - rewrite value_eqb_seq. cbn [no_closure] in H. induction l as [|x l IHl]; cbn; auto.
    inversion IH as [|? ? Hx Hl]; subst. cbn in H. apply andb_true_iff in H as [H1 H2].
    rewrite Hx by auto. cbn. apply IHl; auto.
  - discriminate.
Qed.

Lemma value_eqb_sym : forall a b, value_eqb a b = true -> value_eqb b a = true.
Proof.
  induction a as [z d p|s p|l p IH|b0 e p] using value_ind2; intros [z' d' p'|s' p'|l' p'|b' e' p'] H; cbn in H; try discriminate.
  - apply andb_true_iff in H as [H1 H2]. apply Z.eqb_eq in H1. subst. cbn. rewrite Z.eqb_refl. cbn.
    apply orb_true_iff in H2. apply orb_true_iff. destruct H2 as [H2|H2].
    + left. apply andb_true_iff in H2 as [A B]. rewrite A, B. auto.
    + right. apply cdom_eqb_eq in H2. subst. apply cdom_eqb_refl.
  - cbn. apply bytes_eqb_eq in H. subst. apply bytes_eqb_refl.
  - change (value_eqb (VSeq l p) (VSeq l' p') = true) in H. rewrite value_eqb_seq in *.
    revert l' H. induction l as [|x l IHl]; intros [|y m] H; cbn in *; try discriminate; auto.
    inversion IH as [|? ? Hx Hl]; subst. apply andb_true_iff in H as [H1 H2]. rewrite (Hx _ H1). cbn. apply IHl; auto.
Qed.

Lemma value_eqb_trans : forall a b c, value_eqb a b = true -> value_eqb b c = true -> value_eqb a c = true.
Proof.
  induction a as [z d p|s p|l p IH|b0 e p] using value_ind2;
    intros [z1 d1 p1|s1 p1|l1 p1|b1 e1 p1] [z2 d2 p2|s2 p2|l2 p2|b2 e2 p2] H1 H2; cbn in H1, H2; try discriminate.
  - apply andb_true_iff in H1 as [A1 B1]. apply andb_true_iff in H2 as [A2 B2].
    apply Z.eqb_eq in A1. apply Z.eqb_eq in A2. subst. cbn. rewrite Z.eqb_refl. cbn.
    apply orb_true_iff in B1. apply orb_true_iff in B2. apply orb_true_iff.
    destruct B1 as [B1|B1], B2 as [B2|B2].
    + apply andb_true_iff in B1 as [X1 Y1]. apply andb_true_iff in B2 as [X2 Y2]. left. rewrite X1, Y2. auto.
    + apply cdom_eqb_eq in B2. subst. left. exact B1.
    + apply cdom_eqb_eq in B1. subst. left. exact B2.
    + apply cdom_eqb_eq in B1. apply cdom_eqb_eq in B2. subst. right. apply cdom_eqb_refl.
  - cbn. apply bytes_eqb_eq in H1. apply bytes_eqb_eq in H2. subst. apply bytes_eqb_refl.
  - change (value_eqb (VSeq l p) (VSeq l1 p1) = true) in H1.
    change (value_eqb (VSeq l1 p1) (VSeq l2 p2) = true) in H2.
    rewrite value_eqb_seq in *.
    revert l1 l2 H1 H2. induction l as [|x l IHl]; intros [|y m] [|z n] H1 H2; cbn in *; try discriminate; auto.
    inversion IH as [|? ? Hx Hl]; subst. apply andb_true_iff in H1 as [A1 B1]. apply andb_true_iff in H2 as [A2 B2].
    rewrite (Hx _ _ A1 A2). cbn. eapply IHl; eauto.
Qed.

Theorem stack_eqb_sym a b : stack_eqb a b = true -> stack_eqb b a = true.
Proof.
  rewrite !stack_eqb_list. revert b. induction a as [|x a IH]; intros [|y b] H; cbn in *; try discriminate; auto.
  apply andb_true_iff in H as [H1 H2]. rewrite (value_eqb_sym _ _ H1). cbn. auto.
Qed.

Theorem stack_eqb_trans a b c : stack_eqb a b = true -> stack_eqb b c = true -> stack_eqb a c = true.
Proof.
  rewrite !stack_eqb_list. revert b c. induction a as [|x a IH]; intros [|y b] [|z c] H1 H2; cbn in *; try discriminate; auto.
  apply andb_true_iff in H1 as [A1 B1]. apply andb_true_iff in H2 as [A2 B2].
  rewrite (value_eqb_trans _ _ _ A1 A2). cbn. eauto.
Qed.

Definition closure_free (s : stack) : Prop := forallb no_closure s = true.

Theorem stack_eqb_refl a : closure_free a -> stack_eqb a a = true.
Proof.
  unfold closure_free. rewrite stack_eqb_list. induction a as [|x a IH]; cbn; auto.
  intros H. apply andb_true_iff in H as [H1 H2]. rewrite value_eqb_refl by auto. cbn. auto.
Qed.
