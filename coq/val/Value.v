(* Values of the Zwerg engine model: constants with their domain, strings,
   sequences, closures; how they render (value::show) and when two stacks are
   the same for the purposes of `*`/`+` (stack comparison says "equal").
   No proofs in this file. *)
From Coq Require Import ZArith NArith List Bool.
From Dwgrep Require Import Radix.
Import ListNotations.
Local Open Scope Z_scope.

Module ValueM.

(* constant domains the core vocabulary can produce *)
Inductive cdom :=
| DDec | DHex | DOct | DBin        (* dec_/hex_/oct_/bin_constant_dom *)
| DPos                             (* op_pos's "pos" domain (numeric, plain) *)
| DBool                            (* bool_constant_dom: true / false *)
| DSlot                            (* slot_type_dom: T_CONST, T_STR, ... *)
| DNamed (fam : N).                (* any other named-constant family *)

Definition cdom_eqb (a b : cdom) : bool :=
  match a, b with
  | DDec, DDec | DHex, DHex | DOct, DOct | DBin, DBin | DPos, DPos | DBool, DBool | DSlot, DSlot => true
  | DNamed x, DNamed y => N.eqb x y
  | _, _ => false
  end.

(* constant_dom::safe_arith () / plain () *)
Definition dom_arith (d : cdom) : bool :=
  match d with DDec | DHex | DOct | DBin | DPos => true | _ => false end.
Definition dom_plain (d : cdom) : bool :=
  match d with DDec | DPos => true | _ => false end.

Inductive value :=
| VCst (z : Z) (d : cdom) (pos : N)
| VStr (s : bytes) (pos : N)
| VSeq (l : list value) (pos : N)
| VClo (blk : N) (env : list value) (pos : N).   (* closure: block number + captured values *)

Definition stack := list value.                   (* head = TOS *)

Definition vpos (v : value) : N :=
  match v with VCst _ _ p | VStr _ p | VSeq _ p | VClo _ _ p => p end.

Definition set_pos (v : value) (p : N) : value :=
  match v with
  | VCst z d _ => VCst z d p
  | VStr s _ => VStr s p
  | VSeq l _ => VSeq l p
  | VClo b e _ => VClo b e p
  end.

(* value_type codes, assigned at static-initialisation time in the C++;
   observed on the implementation and passed in *)
(* tc_other: the names of the other registered value types (the base type
   T_???, the Dwarf types), as the running implementation reports them; only
   rendering looks at it *)
Record tcodes := mktc { tc_cst : N; tc_str : N; tc_seq : N; tc_clo : N; tc_other : list (N * bytes) }.

Fixpoint other_name (l : list (N * bytes)) (n : N) : option bytes :=
  match l with
  | [] => None
  | (k, s) :: r => if N.eqb k n then Some s else other_name r n
  end.

Definition tcode (tc : tcodes) (v : value) : N :=
  match v with
  | VCst _ _ _ => tc_cst tc
  | VStr _ _ => tc_str tc
  | VSeq _ _ => tc_seq tc
  | VClo _ _ _ => tc_clo tc
  end.

Definition bytes_of_bool (b : bool) : bytes :=
  if b then [116; 114; 117; 101]%N else [102; 97; 108; 115; 101]%N.

(* names of the slot-type constants, as far as the core model knows them *)
Definition slot_name (tc : tcodes) (z : Z) : bytes :=
  let n := if (z <? 0)%Z then 1000%N else Z.to_N z in
  if N.eqb n (tc_cst tc) then [84; 95; 67; 79; 78; 83; 84]%N              (* T_CONST *)
  else if N.eqb n (tc_str tc) then [84; 95; 83; 84; 82]%N                (* T_STR *)
  else if N.eqb n (tc_seq tc) then [84; 95; 83; 69; 81]%N                (* T_SEQ *)
  else if N.eqb n (tc_clo tc) then [84; 95; 67; 76; 79; 83; 85; 82; 69]%N (* T_CLOSURE *)
  else match (if (z <? 0)%Z then None else other_name (tc_other tc) n) with
       | Some s => s
       | None => (* "T_??? (" ++ decimal ++ ")" *)
                 [84; 95; 63; 63; 63; 32; 40]%N ++ show_dec z ++ [41]%N
       end.

(* constant_dom::show (brevity::full) *)
Definition show_cst (tc : tcodes) (z : Z) (d : cdom) : bytes :=
  match d with
  | DDec | DPos => show_dec z
  | DHex => show_hex z
  | DOct => show_oct z
  | DBin => show_bin z
  | DBool => bytes_of_bool (negb (z =? 0))
  | DSlot => slot_name tc z
  | DNamed _ => [63]%N                            (* names of other families: gen/VocTable (C20) *)
  end.

Definition sep_comma : bytes := [44; 32]%N.        (* ", " *)

(* value::show: strings raw, sequences "[a, b]" *)
Fixpoint show (tc : tcodes) (v : value) : bytes :=
  match v with
  | VCst z d _ => show_cst tc z d
  | VStr s _ => s
  | VSeq l _ =>
    [91%N] ++
    (fix go (l : list value) (first : bool) : bytes :=
       match l with
       | [] => []
       | x :: t => (if first then [] else sep_comma) ++ show tc x ++ go t false
       end) l true
    ++ [93%N]
  | VClo _ _ _ => [63]%N
  end.

Fixpoint bytes_eqb (a b : bytes) : bool :=
  match a, b with
  | [], [] => true
  | x :: a', y :: b' => N.eqb x y && bytes_eqb a' b'
  | _, _ => false
  end.

(* "compares equal": positions are ignored; arithmetic domains compare by
   value; other constants need the same domain.  (Closures never compare
   equal here; the properties exclude them.) *)
Fixpoint value_eqb (a b : value) {struct a} : bool :=
  match a, b with
  | VCst x d _, VCst y e _ =>
    (x =? y) && ((dom_arith d && dom_arith e) || cdom_eqb d e)
  | VStr s _, VStr t _ => bytes_eqb s t
  | VSeq l _, VSeq m _ =>
    (fix go (l m : list value) {struct l} : bool :=
       match l, m with
       | [], [] => true
       | x :: l', y :: m' => value_eqb x y && go l' m'
       | _, _ => false
       end) l m
  | _, _ => false
  end.

Fixpoint stack_eqb (a b : stack) : bool :=
  match a, b with
  | [], [] => true
  | x :: a', y :: b' => value_eqb x y && stack_eqb a' b'
  | _, _ => false
  end.

End ValueM.
Export ValueM.
