(* What value_die::cmp is and is not: reflexive, antisymmetric; an equivalence and a
   strict total order among cooked DIEs reached through the same number of imports;
   NOT transitive when DIEs with and without an import chain meet (finding D32). *)
From Coq Require Import NArith List Bool Lia.
From Dwgrep Require Import DieCmp.
Import ListNotations.
Import DieCmpM.

Fixpoint die_ind' (P : die -> Prop)
  (H0 : forall f o r, P (Die f o r None))
  (HS : forall f o r x, P x -> P (Die f o r (Some x))) (a : die) : P a :=
  match a with
  | Die f o r None => H0 f o r
  | Die f o r (Some x) => HS f o r x (die_ind' P H0 HS x)
  end.

Lemma die_cmp_refl a : die_cmp a a = Eq.
Proof.
  induction a as [f o r|f o r x IH] using die_ind'; cbn [die_cmp]; rewrite !N.compare_refl; destruct r; cbn; auto.
Qed.

Lemma die_cmp_antisym a : forall b, die_cmp b a = CompOpp (die_cmp a b).
Proof.
  induction a as [f o r|f o r x IH] using die_ind'; intros [g p s [y|]]; cbn [die_cmp];
    rewrite (N.compare_antisym f g), (N.compare_antisym o p);
    destruct (N.compare f g); cbn [CompOpp]; auto;
    destruct (N.compare o p); cbn [CompOpp]; auto;
    rewrite (orb_comm s r); destruct (r || s); cbn [CompOpp]; auto.
Qed.

(* among cooked DIEs of one depth the comparison is the lexicographic order of the
   (Dwarf, offset) pairs along the chain: Eq only for identical values, transitive *)
Lemma cooked_inv f o r i : cooked (Die f o r i) = true -> r = false.
Proof. destruct i; cbn [cooked]; destruct r; cbn; congruence. Qed.

Lemma die_cmp_eq_same a : forall b, cooked a = true -> cooked b = true -> depth a = depth b ->
  die_cmp a b = Eq -> a = b.
Proof.
  induction a as [f o r|f o r x IH] using die_ind'; intros [g p s [y|]] Ca Cb D E;
    cbn [depth] in D; try discriminate;
    pose proof (cooked_inv _ _ _ _ Ca) as ->; pose proof (cooked_inv _ _ _ _ Cb) as ->;
    cbn [die_cmp orb] in E;
    destruct (N.compare f g) eqn:Ef; try discriminate; apply N.compare_eq in Ef; subst g;
    destruct (N.compare o p) eqn:Eo; try discriminate; apply N.compare_eq in Eo; subst p.
  - reflexivity.
  - cbn [cooked negb andb] in Ca, Cb. injection D as D. rewrite (IH y Ca Cb D E). reflexivity.
Qed.

Lemma ncmp_trans a b c r : N.compare a b = r -> N.compare b c = r -> r <> Eq -> N.compare a c = r.
Proof.
  intros H1 H2 Hr. destruct r; [congruence| |].
  - rewrite N.compare_lt_iff in *. lia.
  - rewrite N.compare_gt_iff in *. lia.
Qed.

Lemma die_cmp_trans a : forall b c r, cooked a = true -> cooked b = true -> cooked c = true ->
  depth a = depth b -> depth b = depth c ->
  die_cmp a b = r -> die_cmp b c = r -> die_cmp a c = r.
Proof.
  induction a as [f o ra|f o ra x IH] using die_ind'; intros [g p rb [y|]] [h q rc [z|]] r Ca Cb Cc D1 D2 E1 E2;
    cbn [depth] in D1, D2; try discriminate;
    pose proof (cooked_inv _ _ _ _ Ca) as ->; pose proof (cooked_inv _ _ _ _ Cb) as ->; pose proof (cooked_inv _ _ _ _ Cc) as ->;
    cbn [die_cmp orb] in *.
  all: destruct (N.compare f g) eqn:Efg; destruct (N.compare g h) eqn:Egh;
    try (apply N.compare_eq in Efg; subst g); try (apply N.compare_eq in Egh; subst h);
    rewrite ?Efg, ?Egh, ?N.compare_refl in *; try congruence;
    try (subst r; rewrite (ncmp_trans _ _ _ _ Efg Egh) by discriminate; reflexivity).
  all: destruct (N.compare o p) eqn:Eop; destruct (N.compare p q) eqn:Epq;
    try (apply N.compare_eq in Eop; subst p); try (apply N.compare_eq in Epq; subst q);
    rewrite ?Eop, ?Epq, ?N.compare_refl in *; try congruence;
    try (subst r; rewrite (ncmp_trans _ _ _ _ Eop Epq) by discriminate; reflexivity).
  cbn [cooked negb andb] in Ca, Cb, Cc. injection D1 as D1. injection D2 as D2.
  exact (IH y z r Ca Cb Cc D1 D2 E1 E2).
Qed.

(* ... and not beyond: a DIE without an import chain equals the same DIE under every chain *)
Definition via (imp_off : N) : die := Die 0 20 false (Some (Die 0 imp_off false None)).
Definition plain : die := Die 0 20 false None.

Lemma die_eq_not_transitive :
  die_cmp (via 48) plain = Eq /\ die_cmp plain (via 155) = Eq /\ die_cmp (via 48) (via 155) = Lt.
Proof. vm_compute. auto. Qed.

(* units: a total order on (module, offset), equal only when both agree *)
Lemma cu_cmp_eq a b : cu_cmp a b = Eq <-> a = b.
Proof.
  destruct a as [m o], b as [n p]. unfold cu_cmp; cbn [fst snd]. split.
  - destruct (N.compare m n) eqn:E; try discriminate. apply N.compare_eq in E. intros H. apply N.compare_eq in H. congruence.
  - intros [= -> ->]. rewrite !N.compare_refl. reflexivity.
Qed.

(* ---- the whole truth about == on cooked DIEs of one file: the same offset, and one chain of imports
   (innermost first) is an initial part of the other ---- *)
Fixpoint imp_of (chain : list N) : option die :=
  match chain with
  | [] => None
  | c :: rest => Some (Die 0 c false (imp_of rest))
  end.
Definition route (off : N) (chain : list N) : die := Die 0 off false (imp_of chain).

Fixpoint prefix (a b : list N) : Prop :=
  match a, b with
  | [], _ => True
  | x :: a', y :: b' => x = y /\ prefix a' b'
  | _ :: _, [] => False
  end.

Lemma route_eq_iff o1 c1 : forall o2 c2,
  die_cmp (route o1 c1) (route o2 c2) = Eq <-> o1 = o2 /\ (prefix c1 c2 \/ prefix c2 c1).
Proof.
  revert o1. induction c1 as [|x c1 IH]; intros o1 o2 c2; unfold route; cbn [imp_of die_cmp N.compare orb].
  - destruct (N.compare o1 o2) eqn:E.
    + apply N.compare_eq in E. destruct (imp_of c2); cbn [prefix]; tauto.
    + split; [discriminate|]. intros [-> _]. rewrite N.compare_refl in E. discriminate.
    + split; [discriminate|]. intros [-> _]. rewrite N.compare_refl in E. discriminate.
  - destruct (N.compare o1 o2) eqn:E.
    + apply N.compare_eq in E. destruct c2 as [|y c2]; cbn [imp_of prefix].
      * tauto.
      * specialize (IH x y c2). unfold route in IH. rewrite IH. split.
        -- intros [-> [P|P]]; split; auto.
        -- intros [_ [[-> P]|[-> P]]]; split; auto.
    + split; [discriminate|]. intros [-> _]. rewrite N.compare_refl in E. discriminate.
    + split; [discriminate|]. intros [-> _]. rewrite N.compare_refl in E. discriminate.
Qed.

(* consequences: a DIE reached without imports equals every route to it; routes of equal length are equal only
   when they are the same route *)
Corollary chainless_equals_every_route o c : die_cmp (route o []) (route o c) = Eq.
Proof. apply route_eq_iff. split; [reflexivity|]. left. exact I. Qed.

Lemma prefix_same_length a : forall b, length a = length b -> prefix a b -> a = b.
Proof.
  induction a as [|x a IH]; intros [|y b] L P; try discriminate L; [reflexivity|].
  cbn [prefix] in P. destruct P as [-> P]. injection L as L. rewrite (IH b L P). reflexivity.
Qed.

Corollary equal_length_routes o1 c1 o2 c2 : length c1 = length c2 ->
  die_cmp (route o1 c1) (route o2 c2) = Eq -> o1 = o2 /\ c1 = c2.
Proof.
  intros L H. apply route_eq_iff in H. destruct H as [-> [P|P]]; split; auto.
  - apply prefix_same_length; assumption.
  - symmetry. apply prefix_same_length; [symmetry; exact L|exact P].
Qed.
