(* What value_die::cmp is and is not: reflexive, antisymmetric; an equivalence and a
   strict total order among cooked DIEs reached through the same number of imports;
   NOT transitive when DIEs with and without an import chain meet (finding D32). *)
From Coq Require Import NArith List Bool Lia.
From Dwgrep Require Import DieCmp.
Import ListNotations.
Import DieCmpM.

Fixpoint die_ind' (P : die -> Prop)
  (H0 : forall f o r, P (Die f o r None))
  (HS : forall f o r x, P x -> P (Die f o r (Some x))) (a : die) : P a :=
  match a with
  | Die f o r None => H0 f o r
  | Die f o r (Some x) => HS f o r x (die_ind' P H0 HS x)
  end.

Lemma die_cmp_refl a : die_cmp a a = Eq.
Proof.
  induction a as [f o r|f o r x IH] using die_ind'; cbn [die_cmp]; rewrite !N.compare_refl; destruct r; cbn; auto.
Qed.

Lemma die_cmp_antisym a : forall b, die_cmp b a = CompOpp (die_cmp a b).
Proof.
  induction a as [f o r|f o r x IH] using die_ind'; intros [g p s [y|]]; cbn [die_cmp];
    rewrite (N.compare_antisym f g), (N.compare_antisym o p);
    destruct (N.compare f g); cbn [CompOpp]; auto;
    destruct (N.compare o p); cbn [CompOpp]; auto;
    rewrite (orb_comm s r); destruct (r || s); cbn [CompOpp]; auto.
Qed.

(* among cooked DIEs of one depth the comparison is the lexicographic order of the
   (Dwarf, offset) pairs along the chain: Eq only for identical values, transitive *)
Lemma cooked_inv f o r i : cooked (Die f o r i) = true -> r = false.
Proof. destruct i; cbn [cooked]; destruct r; cbn; congruence. Qed.

Lemma die_cmp_eq_same a : forall b, cooked a = true -> cooked b = true -> depth a = depth b ->
  die_cmp a b = Eq -> a = b.
Proof.
  induction a as [f o r|f o r x IH] using die_ind'; intros [g p s [y|]] Ca Cb D E;
    cbn [depth] in D; try discriminate;
    pose proof (cooked_inv _ _ _ _ Ca) as ->; pose proof (cooked_inv _ _ _ _ Cb) as ->;
    cbn [die_cmp orb] in E;
    destruct (N.compare f g) eqn:Ef; try discriminate; apply N.compare_eq in Ef; subst g;
    destruct (N.compare o p) eqn:Eo; try discriminate; apply N.compare_eq in Eo; subst p.
  - reflexivity.
  - cbn [cooked negb andb] in Ca, Cb. injection D as D. rewrite (IH y Ca Cb D E). reflexivity.
Qed.

Lemma ncmp_trans a b c r : N.compare a b = r -> N.compare b c = r -> r <> Eq -> N.compare a c = r.
Proof.
  intros H1 H2 Hr. destruct r; [congruence| |].
  - rewrite N.compare_lt_iff in *. lia.
  - rewrite N.compare_gt_iff in *. lia.
Qed.

Lemma die_cmp_trans a : forall b c r, cooked a = true -> cooked b = true -> cooked c = true ->
  depth a = depth b -> depth b = depth c ->
  die_cmp a b = r -> die_cmp b c = r -> die_cmp a c = r.
Proof.
  induction a as [f o ra|f o ra x IH] using die_ind'; intros [g p rb [y|]] [h q rc [z|]] r Ca Cb Cc D1 D2 E1 E2;
    cbn [depth] in D1, D2; try discriminate;
    pose proof (cooked_inv _ _ _ _ Ca) as ->; pose proof (cooked_inv _ _ _ _ Cb) as ->; pose proof (cooked_inv _ _ _ _ Cc) as ->;
    cbn [die_cmp orb] in *.
  all: destruct (N.compare f g) eqn:Efg; destruct (N.compare g h) eqn:Egh;
    try (apply N.compare_eq in Efg; subst g); try (apply N.compare_eq in Egh; subst h);
    rewrite ?Efg, ?Egh, ?N.compare_refl in *; try congruence;
    try (subst r; rewrite (ncmp_trans _ _ _ _ Efg Egh) by discriminate; reflexivity).
  all: destruct (N.compare o p) eqn:Eop; destruct (N.compare p q) eqn:Epq;
    try (apply N.compare_eq in Eop; subst p); try (apply N.compare_eq in Epq; subst q);
    rewrite ?Eop, ?Epq, ?N.compare_refl in *; try congruence;
    try (subst r; rewrite (ncmp_trans _ _ _ _ Eop Epq) by discriminate; reflexivity).
  cbn [cooked negb andb] in Ca, Cb, Cc. injection D1 as D1. injection D2 as D2.
  exact (IH y z r Ca Cb Cc D1 D2 E1 E2).
Qed.

(* ... and not beyond: a DIE without an import chain equals the same DIE under every chain *)
Definition via (imp_off : N) : die := Die 0 20 false (Some (Die 0 imp_off false None)).
Definition plain : die := Die 0 20 false None.

Lemma die_eq_not_transitive :
  die_cmp (via 48) plain = Eq /\ die_cmp plain (via 155) = Eq /\ die_cmp (via 48) (via 155) = Lt.
Proof. vm_compute. auto. Qed.

(* units: a total order on (module, offset), equal only when both agree *)
Lemma cu_cmp_eq a b : cu_cmp a b = Eq <-> a = b.
Proof.
  destruct a as [m o], b as [n p]. unfold cu_cmp; cbn [fst snd]. split.
  - destruct (N.compare m n) eqn:E; try discriminate. apply N.compare_eq in E. intros H. apply N.compare_eq in H. congruence.
  - intros [= -> ->]. rewrite !N.compare_refl. reflexivity.
Qed.
