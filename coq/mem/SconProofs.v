From Coq Require Import ZArith NArith List Bool Lia.
From Dwgrep Require Import Scon.
Import ListNotations.
Local Open Scope N_scope.

(* ---- layout ---- *)
Theorem align_up_spec top a : 0 < a -> top <= align_up top a /\ align_up top a < top + a /\ (align_up top a) mod a = 0.
Proof.
  intros Ha. unfold align_up. set (x := top + (a - 1)).
  pose proof (N.div_mod x a ltac:(lia)) as D. pose proof (N.mod_lt x a ltac:(lia)) as M.
  split; [|split]; [| |apply N.mod_mul; lia];
  (rewrite (N.mul_comm (x / a) a); set (p := a * (x / a)) in *; set (r := x mod a) in *;
   assert (x = top + (a - 1)) as X by reflexivity; clearbody x p r; lia).
Qed.

(* the bit trick of the source is rounding up, for alignments that are powers of two *)
Theorem align_bits_is_align_up top k : (0 <= top)%Z -> (0 <= k)%Z ->
  align_bits top (2 ^ k) = ((top + (2 ^ k - 1)) / 2 ^ k * 2 ^ k)%Z.
Proof.
  intros Ht Hk. unfold align_bits.
  assert ((- 2 ^ k)%Z = Z.lnot (Z.ones k)) as ->.
  { rewrite Z.ones_equiv. unfold Z.lnot. lia. }
  rewrite <- Z.ldiff_land, Z.ldiff_ones_r by lia.
  rewrite Z.shiftl_mul_pow2, Z.shiftr_div_pow2 by lia. reflexivity.
Qed.

Theorem reserve_disjoint m s1 a1 s2 a2 : 0 < a1 -> 0 < a2 ->
  let '(l1, m1) := reserve m s1 a1 in let '(l2, m2) := reserve m1 s2 a2 in
  m <= l1 /\ l1 + s1 <= l2 /\ l2 + s2 = m2.
Proof.
  intros H1 H2. unfold reserve.
  destruct (align_up_spec m a1 H1) as [A _]. destruct (align_up_spec (align_up m a1 + s1) a2 H2) as [B _]. lia.
Qed.

Lemma fold_max_ge subs : forall m, m <= fold_left N.max subs m /\ Forall (fun s => s <= fold_left N.max subs m) subs.
Proof.
  induction subs as [|s subs IH]; intros m; cbn [fold_left]; [split; [lia|constructor]|].
  destruct (IH (N.max m s)) as [A B]. split; [lia|constructor; [lia|exact B]].
Qed.
Theorem add_union_covers m subs : m <= add_union m subs /\ Forall (fun s => s <= add_union m subs) subs.
Proof. apply fold_max_ge. Qed.

(* ---- lifecycle ---- *)
Definition disjoint (a b : region) : Prop := overlaps a b = false.
Fixpoint pairwise (live : list region) : Prop :=
  match live with [] => True | x :: l => Forall (disjoint x) l /\ pairwise l end.
Definition inside (cap : N) (live : list region) : Prop := Forall (fun r => fst r + snd r <= cap) live.

Lemma remove_subset r live x : In x (remove_region r live) -> In x live.
Proof.
  induction live as [|y l IH]; cbn; [auto|]. destruct (same y r); [auto|]. intros [->|H]; auto.
Qed.
Lemma pairwise_remove r live : pairwise live -> pairwise (remove_region r live).
Proof.
  induction live as [|y l IH]; cbn; [auto|]. intros [F P]. destruct (same y r); [exact P|].
  cbn. split; [|apply IH; exact P]. rewrite Forall_forall in *. intros x Hx. apply F. eapply remove_subset; eauto.
Qed.

(* one accepted event keeps the live states inside the area and pairwise disjoint *)
Theorem step_keeps_disjoint cap live e i live' :
  pairwise live -> inside cap live -> step cap live e i = inl live' -> pairwise live' /\ inside cap live'.
Proof.
  intros P I H. destruct e as [o s|o s|o s|]; cbn [step] in H.
  - destruct (cap <? o + s) eqn:C; [discriminate|]. destruct (existsb (overlaps (o, s)) live) eqn:E; [discriminate|].
    inversion H; subst. split.
    + cbn. split; [|exact P]. rewrite Forall_forall. intros x Hx. unfold disjoint.
      destruct (overlaps (o, s) x) eqn:O; [|reflexivity].
      assert (existsb (overlaps (o, s)) live = true) by (apply existsb_exists; eauto). congruence.
    + constructor; [cbn; apply N.ltb_ge in C; exact C|exact I].
  - destruct (existsb (same (o, s)) live); inversion H; subst; auto.
  - destruct (existsb (same (o, s)) live); inversion H; subst. split; [apply pairwise_remove; exact P|].
    unfold inside in *. rewrite Forall_forall in *. intros x Hx. apply I. eapply remove_subset; eauto.
  - destruct live; inversion H; subst. split; [exact I0|constructor] || (split; cbn; auto; constructor).
Qed.

(* the live set after an accepted prefix *)
Fixpoint after (cap : N) (live : list region) (tr : list event) (i : nat) : option (list region) :=
  match tr with
  | [] => Some live
  | e :: tr' => match step cap live e i with inl live' => after cap live' tr' (S i) | inr _ => None end
  end.

Lemma step_never_rejects_with_accept cap live e i : step cap live e i <> inr Accept.
Proof.
  destruct e as [o s|o s|o s|]; cbn [step];
  repeat match goal with |- context [if ?b then _ else _] => destruct b end; try discriminate;
  try (destruct live; discriminate).
Qed.

Lemma run_accept_after cap : forall tr live i, run cap live tr i = Accept -> exists l, after cap live tr i = Some l.
Proof.
  induction tr as [|e tr IH]; intros live i H; cbn in *; [eauto|].
  destruct (step cap live e i) as [live'|v] eqn:St; [apply IH; exact H|subst; exfalso; eapply step_never_rejects_with_accept; eauto].
Qed.

Lemma run_app cap : forall tr1 tr2 live i, run cap live (tr1 ++ tr2) i = Accept ->
  exists l, after cap live tr1 i = Some l /\ run cap l tr2 (i + length tr1)%nat = Accept.
Proof.
  induction tr1 as [|e tr1 IH]; intros tr2 live i H; cbn [app after length] in *.
  - exists live. rewrite Nat.add_0_r. auto.
  - cbn [run] in H. destruct (step cap live e i) as [live'|v] eqn:St; [|subst; exfalso; eapply step_never_rejects_with_accept; eauto].
    destruct (IH tr2 live' (S i) H) as [l [A R]]. exists l. split; [exact A|]. replace (i + S (length tr1))%nat with (S i + length tr1)%nat by lia. exact R.
Qed.

(* C13: in an accepted history no two live states ever overlap and none leaves the area *)
Theorem accepted_never_overlaps cap tr1 tr2 : run cap [] (tr1 ++ tr2) 0 = Accept ->
  exists l, after cap [] tr1 0 = Some l /\ pairwise l /\ inside cap l.
Proof.
  intros H. destruct (run_app cap tr1 tr2 [] 0%nat H) as [l [A _]]. exists l. split; [exact A|].
  assert (G : forall tr live i l, pairwise live -> inside cap live -> after cap live tr i = Some l -> pairwise l /\ inside cap l).
  { induction tr as [|e tr IH]; intros live i l0 P I E; cbn in E; [inversion E; subst; auto|].
    destruct (step cap live e i) as [live'|v] eqn:St; [|discriminate].
    destruct (step_keeps_disjoint _ _ _ _ _ P I St) as [P' I']. eapply IH; eauto. }
  apply (G tr1 [] 0%nat l); cbn; auto. constructor.
Qed.

(* C13: a state is used or destroyed only while it is constructed *)
Theorem accepted_use_is_live cap tr1 o s tr2 :
  (run cap [] (tr1 ++ Get o s :: tr2) 0 = Accept \/ run cap [] (tr1 ++ Des o s :: tr2) 0 = Accept) ->
  exists l, after cap [] tr1 0 = Some l /\ existsb (same (o, s)) l = true.
Proof.
  intros [H|H]; destruct (run_app cap tr1 _ [] 0%nat H) as [l [A R]]; exists l; (split; [exact A|]);
  cbn [run step] in R; destruct (existsb (same (o, s)) l); [reflexivity|discriminate|reflexivity|discriminate].
Qed.

(* C13: every state constructed in an accepted history that ends with the
   destruction of the area has been destroyed -- exactly as often as constructed *)
Fixpoint count (r : region) (l : list region) : nat :=
  match l with [] => O | x :: l' => (if same x r then 1 else 0) + count r l' end.
Fixpoint cons_of (r : region) (tr : list event) : nat :=
  match tr with [] => O | Con o s :: t => (if same (o, s) r then 1 else 0) + cons_of r t | _ :: t => cons_of r t end.
Fixpoint dess_of (r : region) (tr : list event) : nat :=
  match tr with [] => O | Des o s :: t => (if same (o, s) r then 1 else 0) + dess_of r t | _ :: t => dess_of r t end.

Lemma same_sym a b : same a b = same b a.
Proof. unfold same. rewrite (N.eqb_sym (fst a)), (N.eqb_sym (snd a)). reflexivity. Qed.
Lemma same_eq a b : same a b = true -> a = b.
Proof. unfold same. destruct a, b; cbn. intros H. apply andb_prop in H. destruct H as [A B]. apply N.eqb_eq in A, B. congruence. Qed.
Lemma same_refl a : same a a = true.
Proof. unfold same. rewrite !N.eqb_refl. reflexivity. Qed.

Lemma count_remove r x live : existsb (same x) live = true ->
  count r (remove_region x live) = (count r live - (if same x r then 1 else 0))%nat.
Proof.
  induction live as [|y l IH]; cbn; [discriminate|]. intros E.
  destruct (same y x) eqn:Y.
  - apply same_eq in Y. subst y. destruct (same x r); lia.
  - rewrite same_sym, Y in E. cbn in E. cbn [count]. rewrite (IH E).
    destruct (same x r) eqn:X; [|lia]. apply same_eq in X. subst r.
    assert (1 <= count x l)%nat; [|destruct (same y x); lia].
    clear - E. induction l as [|z l IH]; cbn in *; [discriminate|]. rewrite (same_sym z x). destruct (same x z); [lia|]. apply IH in E. lia.
Qed.

Lemma count_after cap r : forall tr live i l, after cap live tr i = Some l ->
  (count r l + dess_of r tr = count r live + cons_of r tr)%nat.
Proof.
  induction tr as [|e tr IH]; intros live i l H; cbn [after] in H; [inversion H; cbn; lia|].
  destruct (step cap live e i) as [live'|v] eqn:St; [|discriminate]. specialize (IH _ _ _ H).
  destruct e as [o s|o s|o s|]; cbn [step] in St; cbn [cons_of dess_of].
  - destruct (cap <? o + s); [discriminate|]. destruct (existsb (overlaps (o, s)) live); [discriminate|].
    inversion St; subst. cbn [count] in IH. lia.
  - destruct (existsb (same (o, s)) live); inversion St; subst. exact IH.
  - destruct (existsb (same (o, s)) live) eqn:E; inversion St; subst. rewrite (count_remove r (o, s) live E) in IH.
    destruct (same (o, s) r) eqn:X; [|lia].
    assert (1 <= count r live)%nat; [|lia]. apply same_eq in X. subst r.
    clear - E. induction live as [|z l IHl]; cbn in *; [discriminate|]. rewrite (same_sym z (o, s)). destruct (same (o, s) z); [lia|]. apply IHl in E. lia.
  - destruct live; inversion St; subst. exact IH.
Qed.

Theorem accepted_balanced cap tr : run cap [] (tr ++ [End]) 0 = Accept ->
  forall r, cons_of r tr = dess_of r tr.
Proof.
  intros H r. destruct (run_app cap tr [End] [] 0%nat H) as [l [A R]].
  cbn [run step] in R. destruct l as [|x l]; [|discriminate].
  pose proof (count_after cap r tr [] 0%nat [] A) as C. cbn [count] in C. lia.
Qed.
