(* The state area of a running query (libzwerg/scon.hh, layout.cc): layout of
   operator states, and the lifecycle of those states as the DWGREP_VERIF hook
   observes it: c(onstruct) / g(et) / d(estroy) at an offset with a size, and
   e(nd) when the area itself is destroyed.  No proofs here. *)
From Coq Require Import ZArith NArith List Bool.
Import ListNotations.
Local Open Scope N_scope.

Module SconM.

(* ---- layout.cc ---- *)
(* ::align: round up to a multiple of the alignment *)
Definition align_up (top a : N) : N := ((top + (a - 1)) / a) * a.
(* the expression in the source: (top + (align - 1)) & -align, on 64-bit words *)
Definition align_bits (top a : Z) : Z := Z.land (top + (a - 1)) (- a).

(* layout::reserve: (location, new size) *)
Definition reserve (m size a : N) : N * N := let loc := align_up m a in (loc, loc + size).
(* layout::add_union *)
Definition add_union (m : N) (subs : list N) : N := fold_left N.max subs m.

(* ---- lifecycle ---- *)
Inductive event := Con (off size : N) | Get (off size : N) | Des (off size : N) | End.

Definition region := (N * N)%type.                      (* offset, size *)
Definition overlaps (a b : region) : bool := (fst a <? fst b + snd b) && (fst b <? fst a + snd a).
Definition same (a b : region) : bool := (fst a =? fst b) && (snd a =? snd b).

Inductive verdict :=
| Accept
| RejectOverlap (i : nat)          (* construction over a live state *)
| RejectNotLive (i : nat)          (* get / destroy of a state that is not constructed *)
| RejectOutside (i : nat)          (* outside the state area *)
| RejectLeak (i : nat).            (* area destroyed with live states *)

Fixpoint remove_region (r : region) (live : list region) : list region :=
  match live with
  | [] => []
  | x :: l => if same x r then l else x :: remove_region r l
  end.

(* one state area: events up to its End *)
Definition step (cap : N) (live : list region) (e : event) (i : nat) : list region + verdict :=
  match e with
  | Con o s =>
    if cap <? o + s then inr (RejectOutside i)
    else if existsb (overlaps (o, s)) live then inr (RejectOverlap i)
    else inl ((o, s) :: live)
  | Get o s => if existsb (same (o, s)) live then inl live else inr (RejectNotLive i)
  | Des o s => if existsb (same (o, s)) live then inl (remove_region (o, s) live) else inr (RejectNotLive i)
  | End => match live with [] => inl [] | _ => inr (RejectLeak i) end
  end.

Fixpoint run (cap : N) (live : list region) (tr : list event) (i : nat) : verdict :=
  match tr with
  | [] => Accept
  | e :: tr' => match step cap live e i with
                | inl live' => run cap live' tr' (S i)
                | inr v => v
                end
  end.

End SconM.
Export SconM.
