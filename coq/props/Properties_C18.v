(* C18 — ELF symbols are reported completely and faithfully. *)
From Coq Require Import NArith List Bool.
From Dwgrep Require Import Symtab SymtabProofs.
Import ListNotations.
Local Open Scope N_scope.

Theorem C18_rows_complete : forall tab, length (rows tab) = length tab.
Proof. exact rows_complete. Qed.
Theorem C18_rows_faithful : forall tab k s, nth_error tab k = Some s ->
  nth_error (rows tab) k = Some (mkrow (N.of_nat k) (s_name s) (s_value s) (s_size s)
                                       (st_type (s_info s)) (st_bind (s_info s)) (st_visibility (s_other s))).
Proof. exact rows_faithful. Qed.
Theorem C18_info_roundtrip : forall b t, t < 16 -> st_type (st_info b t) = t /\ st_bind (st_info b t) = b.
Proof. exact info_roundtrip. Qed.
Theorem C18_visibility_ignores_upper_bits : forall other k, st_visibility (other mod 4 + 4 * k) = other mod 4.
Proof. exact visibility_ignores_upper_bits. Qed.
Theorem C18_generic_codes_equal_everywhere : forall f1 f2 c, c < LOOS -> const_eqb f1 c f2 c = true.
Proof. exact generic_codes_equal_everywhere. Qed.
Theorem C18_machine_codes_never_equal_another_machines : forall f1 f2 c1 c2, LOOS <= c1 -> f1 <> f2 -> const_eqb f1 c1 f2 c2 = false.
Proof. exact machine_codes_never_equal_another_machines. Qed.
Theorem C18_same_family_equal_iff_same_code : forall f c1 c2, const_eqb f c1 f c2 = true <-> c1 = c2.
Proof. exact same_family_equal_iff_same_code. Qed.
Print Assumptions C18_rows_complete.
Print Assumptions C18_rows_faithful.
Print Assumptions C18_info_roundtrip.
Print Assumptions C18_visibility_ignores_upper_bits.
Print Assumptions C18_generic_codes_equal_everywhere.
Print Assumptions C18_machine_codes_never_equal_another_machines.
Print Assumptions C18_same_family_equal_iff_same_code.

Example C18_example : const_eqb EM_ARM 13 EM_SPARC 13 = false /\ const_eqb EM_ARM 2 0 2 = true /\ st_visibility 98 = 2.
Proof. vm_compute. auto. Qed.
