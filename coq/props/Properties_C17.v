(* C17 — location lists, their operations and abbreviations are consistent with the DIEs. *)
From Coq Require Import ZArith NArith List Bool.
From Dwgrep Require Import Loc LocProofs.
Import ListNotations.
Local Open Scope Z_scope.

Theorem C17_signed_operand_roundtrip : forall z, - two64 / 2 <= z < two64 / 2 -> sword_of (word_of z) = z.
Proof. exact signed_operand_roundtrip. Qed.
Theorem C17_unsigned_operand_kept : forall n, 0 <= n < two64 -> word_of n = n.
Proof. exact unsigned_operand_kept. Qed.
Theorem C17_signed_class_value : forall o, op_class (o_code o) = OCSigned -> - two64 / 2 <= o_a o < two64 / 2 ->
  op_values o = Some [(o_a o, ODec)].
Proof. exact signed_class_value. Qed.
Theorem C17_bregx_value : forall off r d, 0 <= r < two64 -> - two64 / 2 <= d < two64 / 2 ->
  op_values (mkop off 146 r d) = Some [(r, ODec); (d, ODec)].
Proof. exact bregx_value. Qed.
Theorem C17_length_is_number_of_elem : forall e, w_length e = N.of_nat (length (w_elem e)).
Proof. exact length_is_number_of_elem. Qed.
Theorem C17_relem_is_elem_reversed : forall e, map snd (w_relem e) = rev (map snd (w_elem e)).
Proof. exact relem_is_elem_reversed. Qed.
Theorem C17_elem_in_stored_order : forall e, map snd (w_elem e) = l_ops e /\
  map fst (w_elem e) = map N.of_nat (seq 0 (length (l_ops e))).
Proof. exact elem_in_stored_order. Qed.
Theorem C17_has_op_iff : forall e code, w_has_op e code = true <-> exists o, In o (l_ops e) /\ o_code o = code.
Proof. exact has_op_iff. Qed.
Theorem C17_lookup_finds : forall table, NoDup (map ab_code table) -> forall a, In a table -> lookup table (ab_code a) = Some a.
Proof. exact lookup_finds. Qed.
Theorem C17_matches_spec : forall a tag flag attrs, matches a tag flag attrs = true ->
  ab_tag a = tag /\ ab_children a = flag /\ map fst (ab_attrs a) = map fst attrs.
Proof. exact matches_spec. Qed.
Print Assumptions C17_signed_operand_roundtrip.
Print Assumptions C17_unsigned_operand_kept.
Print Assumptions C17_signed_class_value.
Print Assumptions C17_bregx_value.
Print Assumptions C17_length_is_number_of_elem.
Print Assumptions C17_relem_is_elem_reversed.
Print Assumptions C17_elem_in_stored_order.
Print Assumptions C17_has_op_iff.
Print Assumptions C17_lookup_finds.
Print Assumptions C17_matches_spec.

Example C17_example : op_values (mkop 2 146 40 (-16)) = Some [(40, ODec); (-16, ODec)]
                      /\ op_values (mkop 0 145 (-8) 0) = Some [(-8, ODec)].
Proof. vm_compute. auto. Qed.
