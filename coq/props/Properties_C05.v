(* C05 -- theorems follow in ForestProofs; placeholder example *)
From Coq Require Import NArith List Bool.
From Dwgrep Require Import Forest.
Import ListNotations.
Local Open Scope N_scope.
Example C05_example :
  map r_parent (raw_rows [mkunit 0 4 0 (Some (Die 11 17 true 1 [] [Die 15 52 false 2 [] []; Die 17 52 false 2 [] []]))]) = [None; Some 11; Some 11].
Proof. vm_compute. reflexivity. Qed.
