(* C05 — navigation words agree on every DIE. *)
From Coq Require Import NArith List Bool.
From Dwgrep Require Import Forest ForestProofs.
Import ListNotations.
Local Open Scope N_scope.

(* every DIE yielded by `child` of D has D as `parent` (raw view, any forest with distinct offsets) *)
Theorem C05_child_has_parent : forall f, wf f -> forall r p k,
  In r (roots f) -> In p (preorder r) -> In k (d_kids p) -> raw_parent f (d_off k) = Some p.
Proof. exact raw_child_has_parent. Qed.
(* a unit root has no parent: the parent chain ends there *)
Theorem C05_root_has_no_parent : forall f, wf f -> forall r, In r (roots f) -> raw_parent f (d_off r) = None.
Proof. exact raw_root_has_no_parent. Qed.
(* the DIEs of a unit (its pre-order) are exactly those reachable by root child* *)
Theorem C05_unit_is_child_closure : forall d x, In x (preorder d) <-> reach d x.
Proof. exact preorder_is_child_closure. Qed.
(* cooked: the children never contain an import that can be resolved, and without imports they are the raw children *)
Theorem C05_cooked_children_have_no_imports : forall fuel f kids,
  Forall (fun k => import_target f k = None) (cooked_kids fuel f kids).
Proof. exact cooked_kids_inlined. Qed.
Print Assumptions C05_child_has_parent.
Print Assumptions C05_root_has_no_parent.
Print Assumptions C05_unit_is_child_closure.
Print Assumptions C05_cooked_children_have_no_imports.

(* non-vacuity, cooked: a DIE two levels inside a partial unit imported under a namespace *)
Example C05_example :
  let pu := Die 50 60 true 1 [] [Die 55 57 true 2 [] [Die 58 52 false 3 [] []]] in
  let f := [mkunit 0 4 0 (Some (Die 11 17 true 1 [] [Die 15 57 true 2 [] [Die 18 61 false 4 [mkattr 24 16 (Some 50)] []]]));
            mkunit 40 4 0 (Some pu)] in
  map (fun r => (r_off r, r_parent r, r_root r, r_unit r)) (cooked_rows f)
  = [(11, None, Some 11, Some 0); (15, Some 11, Some 11, Some 0); (55, Some 15, Some 11, Some 40); (58, Some 55, Some 11, Some 40)].
Proof. vm_compute. reflexivity. Qed.
