(* C16 — address sets behave as mathematical sets of addresses.
   Model: coq/cov/CovModel.v (coverage.cc + the words of builtin-aset.cc).
   Only property statements here; each closed by `exact <lemma>`. *)
From Coq Require Import ZArith List Bool Lia.
From Dwgrep Require Import CovModel CovProofs CovProofs2.
Import ListNotations.
Local Open Scope Z_scope.

(* Inv: ascending, pairwise disjoint, non-adjacent, non-empty runs that end at
   or below 2^64 - 1.  mem c x: address x belongs to the set c denotes. *)

(* the binary search of coverage::find returns the number of runs that start
   below the sought address (so the vector splits there) *)
Theorem C16_find_spec : forall c lo start, inv_from lo c ->
  (find c start <= length c)%nat /\
  (forall i, (i < find c start)%nat -> fst (nth i c (0, 0)) < start) /\
  (forall i, (find c start <= i < length c)%nat -> start <= fst (nth i c (0, 0))).
Proof. exact find_spec. Qed.
Print Assumptions C16_find_spec.

(* add is set union with the interval, and keeps the invariant *)
Theorem C16_add : forall c s l, Inv c -> 0 <= s -> 0 <= l -> s + l < 2^64 ->
  Inv (add c s l) /\ forall x, mem (add c s l) x <-> mem c x \/ s <= x < s + l.
Proof. exact add_ok. Qed.
Print Assumptions C16_add.

(* `A B add` on two address sets is union *)
Theorem C16_add_all : forall a b, Inv a -> Inv b ->
  Inv (add_all a b) /\ forall x, mem (add_all a b) x <-> mem a x \/ mem b x.
Proof. exact add_all_ok. Qed.
Print Assumptions C16_add_all.

(* canonical form: two vectors satisfying the invariant that denote the same
   set are the same vector ... *)
Theorem C16_canonical : forall a lo b lo',
  inv_from lo a -> inv_from lo' b -> (forall x, mem a x <-> mem b x) -> a = b.
Proof. exact canonical. Qed.
Print Assumptions C16_canonical.

(* ... hence comparison says "equal" exactly when they denote the same set,
   however they were built *)
Theorem C16_cmp_eq_iff_same_set : forall a b, Inv a -> Inv b ->
  (w_cmp a b = Eq <-> forall x, mem a x <-> mem b x).
Proof. exact cmp_eq_iff_same_set. Qed.
Print Assumptions C16_cmp_eq_iff_same_set.

(* is_covered / is_overlap are the set predicates *)
Theorem C16_is_covered : forall c s l, Inv c -> 0 <= s -> 0 < l -> s + l < 2^64 ->
  (is_covered c s l = true <-> forall x, s <= x < s + l -> mem c x).
Proof. exact is_covered_ok. Qed.
Print Assumptions C16_is_covered.

Theorem C16_is_overlap : forall c s l, Inv c -> 0 <= s -> 0 < l -> s + l < 2^64 ->
  (is_overlap c s l = true <-> exists x, s <= x < s + l /\ mem c x).
Proof. exact is_overlap_ok. Qed.
Print Assumptions C16_is_overlap.

(* remove is set difference with the interval (and says whether anything was removed) *)
Theorem C16_remove : forall c s l, Inv c -> 0 <= s -> 0 < l -> s + l < 2^64 ->
  Inv (snd (remove c s l)) /\
  (forall x, mem (snd (remove c s l)) x <-> mem c x /\ ~ (s <= x < s + l)) /\
  (fst (remove c s l) = true <-> exists x, s <= x < s + l /\ mem c x).
Proof. exact remove_ok. Qed.
Print Assumptions C16_remove.

(* intersect is intersection with the interval *)
Theorem C16_intersect : forall c s l, Inv c -> 0 <= s -> 0 < l -> s + l < 2^64 ->
  Inv (intersect c s l) /\ (forall x, mem (intersect c s l) x <-> mem c x /\ s <= x < s + l).
Proof. exact intersect_ok. Qed.
Print Assumptions C16_intersect.

(* the words on two address sets: difference, intersection, subset, meets *)
Theorem C16_sub : forall a b, Inv a -> Inv b ->
  Inv (w_sub a b) /\ forall x, mem (w_sub a b) x <-> mem a x /\ ~ mem b x.
Proof. exact w_sub_ok. Qed.
Theorem C16_overlap : forall a b, Inv a -> Inv b ->
  Inv (w_overlap a b) /\ forall x, mem (w_overlap a b) x <-> mem a x /\ mem b x.
Proof. exact w_overlap_ok. Qed.
Theorem C16_contains : forall a b, Inv a -> Inv b -> (w_contains a b = true <-> forall x, mem b x -> mem a x).
Proof. exact w_contains_ok. Qed.
Theorem C16_overlaps : forall a b, Inv a -> Inv b -> (w_overlaps a b = true <-> exists x, mem a x /\ mem b x).
Proof. exact w_overlaps_ok. Qed.
Print Assumptions C16_sub.
Print Assumptions C16_overlap.
Print Assumptions C16_contains.
Print Assumptions C16_overlaps.

Example C16_nonvacuous :
  Inv [(0, 2); (5, 5)] /\ add [(0, 2); (5, 5)] 2 3 = [(0, 10)]
  /\ remove [(0, 10)] 3 1 = (true, [(0, 3); (4, 6)])
  /\ intersect [(0, 10)] 3 1 = [(3, 1)]
  /\ Inv [(2^64 - 3, 2)].
Proof. unfold Inv, TOP; cbn. repeat split; lia. Qed.

(* "however they were built": the address set that the library reads from a list of address ranges (DW_AT_ranges:
   any order, overlapping, adjacent, empty entries) is the very same value as the one built from those ranges
   with the words `aset` and `add` *)
From Dwgrep Require Import Ranges RangesProofs.
Theorem C16_ranges_equal_built : forall rs, (forall r, In r rs -> proper r) -> RangesM.die_ranges rs = built rs.
Proof. exact ranges_equal_built. Qed.
Print Assumptions C16_ranges_equal_built.
Example C16_ranges_nonvacuous :
  RangesM.die_ranges [(48, 64); (16, 32); (32, 48); (5, 5)] = [(16, 48)] /\ built [(48, 64); (16, 32); (32, 48); (5, 5)] = [(16, 48)].
Proof. vm_compute. auto. Qed.
