(* C02 — the raw view reports exactly the DIE tree stored in .debug_info. *)
From Coq Require Import NArith List Bool.
From Dwgrep Require Import Forest ForestProofs Iter IterProofs.
Import ListNotations.
Local Open Scope N_scope.

(* the rows of the raw view are the stored DIEs in section pre-order ... *)
Theorem C02_rows_are_the_stored_dies : forall f, map r_off (raw_rows f) = map d_off (raw_entries f).
Proof. exact raw_rows_offsets. Qed.
(* ... each exactly once (offsets identify DIEs in a well-formed file) ... *)
Theorem C02_each_die_once : forall f, wf f -> NoDup (map r_off (raw_rows f)).
Proof. exact raw_rows_exactly_once. Qed.
(* ... with the stored tag, child flag, children and attribute (name, form) list, in stored order *)
Theorem C02_row_is_stored : forall f d,
  r_tag (raw_row f d) = d_tag d /\ r_flag (raw_row f d) = d_flag d /\
  r_kids (raw_row f d) = map d_off (d_kids d) /\
  r_attrs (raw_row f d) = map (fun a => (a_name a, a_form a)) (d_attrs d).
Proof. exact raw_row_is_stored. Qed.
(* the parent reported for a DIE is the DIE that stores it as a child, in whichever unit it lies *)
Theorem C02_parent_is_the_storing_die : forall f, wf f -> forall r p k,
  In r (roots f) -> In p (preorder r) -> In k (d_kids p) -> raw_parent f (d_off k) = Some p.
Proof. exact raw_child_has_parent. Qed.
(* nothing is invented: a reported parent does store a child at that offset *)
Theorem C02_parent_sound : forall r o p, parent_in r o = Some p ->
  In p (preorder r) /\ exists k, In k (d_kids p) /\ d_off k = o.
Proof. exact parent_in_sound. Qed.
Print Assumptions C02_rows_are_the_stored_dies.
Print Assumptions C02_each_die_once.
Print Assumptions C02_row_is_stored.
Print Assumptions C02_parent_is_the_storing_die.
Print Assumptions C02_parent_sound.

(* non-vacuity: a unit, an empty unit, a childless DIE whose abbreviation claims children *)
Example C02_example :
  let f := [mkunit 0 4 0 (Some (Die 11 17 true 1 [] [Die 15 11 true 2 [] []; Die 17 52 false 3 [mkattr 3 8 None] []]));
            mkunit 30 4 0 None;
            mkunit 41 5 0 (Some (Die 53 17 true 1 [] []))] in
  map r_off (raw_rows f) = [11; 15; 17; 53] /\ map r_parent (raw_rows f) = [None; Some 11; Some 11; None] /\
  map u_off (raw_units f) = [0; 41].
Proof. vm_compute. auto. Qed.

(* the walk that yields them (model dw/Iter.v of all_dies_iterator::operator++: a child if there is one, else the
   sibling, else a level up and again, unit after unit) visits exactly the stored DIEs in section pre-order, for
   every forest; and at every step the stack of parents is right: the DIE on top stores the DIE at hand *)
Theorem C02_walk_visits_the_stored_dies : forall f, IterM.walk_all f = raw_entries f.
Proof. exact walk_all_is_raw_entries. Qed.
Theorem C02_walk_keeps_the_stack_of_parents : forall p q,
  (let '(d, rs, ctx) := p in zip_ok d rs ctx) -> IterM.next p = Some q -> let '(d', rs', ctx') := q in zip_ok d' rs' ctx'.
Proof. exact next_keeps_stack. Qed.
Theorem C02_top_of_stack_is_the_parent : forall d rs q qrs ctx, zip_ok d rs ((q, qrs) :: ctx) -> In d (d_kids q).
Proof. exact top_of_stack_is_parent. Qed.
Print Assumptions C02_walk_visits_the_stored_dies.
Print Assumptions C02_walk_keeps_the_stack_of_parents.
Print Assumptions C02_top_of_stack_is_the_parent.
Example C02_walk_example :
  let f := [mkunit 0 4 0 (Some (Die 11 17 true 1 [] [Die 15 11 true 2 [] [Die 16 52 false 3 [] []]; Die 17 52 false 3 [] []]));
            mkunit 30 4 0 None; mkunit 41 5 0 (Some (Die 53 17 true 1 [] []))] in
  map d_off (IterM.walk_all f) = [11; 15; 16; 17; 53].
Proof. vm_compute. reflexivity. Qed.
