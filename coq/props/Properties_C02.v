(* C02 -- theorems follow in ForestProofs; placeholder example *)
From Coq Require Import NArith List Bool.
From Dwgrep Require Import Forest.
Import ListNotations.
Local Open Scope N_scope.
Example C02_example :
  map r_off (raw_rows [mkunit 0 4 0 (Some (Die 11 17 true 1 [] [Die 15 52 false 2 [] []; Die 17 52 false 2 [] []]))]) = [11; 15; 17].
Proof. vm_compute. reflexivity. Qed.
