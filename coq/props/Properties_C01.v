(* C01 — each construct acts on every input stack independently (stream semantics).

   Engine side, proved here for the model of the pull engine (zw/Engine.v) over
   the ops of concatenation, `,` (op_merge/op_tine), `||`, `[ ]`, let / infix
   (op_subx), if-then-else, assertions, words, bindings, closure creation,
   `apply` and the closure operators `*`/`+`: whatever stacks a chain has
   processed, once it reports exhaustion every op of it is in exactly the
   state it was constructed in.  The op of format strings is outside this
   theorem (its model is tied to the implementation and to the specification
   by the correspondence check only); so is the equality engine =
   specification (Den.v), which the check tests on generated programs. *)
From Coq Require Import ZArith NArith List Bool String.
From Dwgrep Require Import Radix Value Words Tree Engine Build Quiet EngineProofs BuildProofs.
Import ListNotations.
Local Open Scope Z_scope.

(* one pull keeps a working chain a working chain, and a pull that returns
   nothing leaves it pristine -- for every amount of fuel, environment, store,
   leaf context (an origin, or a branch of `,` at any nesting) *)
Theorem C01_pull_invariant : forall P blks, Forall quiet blks -> forall f env m c s r m' c' s' e,
  inv m -> cinv c -> nodone c -> next P blks f env m c s = Ret (r, m', c', s', e) ->
  inv m' /\ cinv c' /\ shape c c' /\ cpost c' (isnone r) /\ (r = None -> quiet m').
Proof. exact main. Qed.

(* a pull changes run-time state only: the constructed chain underneath is the same *)
Theorem C01_pull_keeps_structure : forall P blks, Forall quiet blks -> forall f env m c s r m' c' s' e,
  inv m -> cinv c -> nodone c -> next P blks f env m c s = Ret (r, m', c', s', e) ->
  reset m' = reset m /\ csame c c'.
Proof. exact mainR. Qed.

(* pulled dry = as constructed, literally *)
Theorem C01_engine_forgets : forall P blks, Forall quiet blks -> forall f env m sl s outs m' c' s',
  quiet m -> drains P blks f env m (LOrigin sl) s outs m' c' s' -> m' = m /\ c' = LOrigin None.
Proof. exact engine_forgets. Qed.

(* so the second of two inputs is processed by the very chain the first one met *)
Theorem C01_engine_stream : forall P blks, Forall quiet blks -> forall f env m a b s outsA mA cA sA outsB mB cB sB,
  quiet m ->
  drains P blks f env m (LOrigin (Some a)) s outsA mA cA sA ->
  drains P blks f env mA (LOrigin (Some b)) sA outsB mB cB sB ->
  drains P blks f env m (LOrigin (Some b)) sA outsB mB cB sB /\ mB = m.
Proof. exact engine_stream. Qed.

(* the executable test the check evaluates on every chain the builder produces *)
Theorem C01_quietb_quiet : forall m, quietb m = true -> quiet m.
Proof. exact quietb_quiet. Qed.

(* the hypotheses hold for EVERY program without format strings: what the builder
   (build.cc / bindings.cc) produces is a pristine chain with pristine block bodies *)
Theorem C01_built_programs_are_quiet : forall tc t m blks, wf_tree t = true -> build_program tc t = BOk (m, blks) ->
  quiet m /\ Forall quiet blks.
Proof. exact build_program_quiet. Qed.

(* hence, for every such program: once pulled dry on one input, the engine is
   exactly what it was before that input arrived *)
Theorem C01_every_program_forgets : forall tc P t m blks, wf_tree t = true -> build_program tc t = BOk (m, blks) ->
  forall f env sl s outs m' c' s', drains P blks f env m (LOrigin sl) s outs m' c' s' -> m' = m /\ c' = LOrigin None.
Proof.
  intros tc P t m blks W B f env sl s outs m' c' s' D.
  destruct (build_program_quiet tc t m blks W B) as [Qm Qb].
  exact (engine_forgets P blks Qb f env m sl s outs m' c' s' Qm D).
Qed.

Print Assumptions C01_built_programs_are_quiet.
Print Assumptions C01_every_program_forgets.
Print Assumptions C01_quietb_quiet.
Print Assumptions C01_pull_invariant.
Print Assumptions C01_pull_keeps_structure.
Print Assumptions C01_engine_forgets.
Print Assumptions C01_engine_stream.

(* non-vacuity: what the builder produces for programs over these constructs is a pristine chain *)
Definition tc0 := ValueM.mktc 2 3 4 5 [].
Definition P0 := mkparams tc0 (fun _ => 1%N).

Definition built (t : tree) : option mach :=
  match build_program tc0 t with BOk (m, _) => Some m | BErr _ => None end.

Definition run_tree (t : tree) : option (list event) :=
  match build_program tc0 t with
  | BOk (m, blks) => match run P0 blks 100 1000 m [] with ODone evs => Some evs | _ => None end
  | BErr _ => None
  end.

(* (1, 2) [dup] ((3, 4) || 5) -- the shape that used to lose results (op_merge staying done) *)
Definition prog1 : tree :=
  TCat [TAlt [TConst 1 DDec; TConst 2 DDec]; TCapture (TRead (nm "dup"));
        TOr [TAlt [TConst 3 DDec; TConst 4 DDec]; TConst 5 DDec]].

Example C01_built_is_quiet : match built prog1 with Some m => quiet m | None => False end.
Proof. vm_compute. repeat split; try reflexivity; try (intro; discriminate). Qed.

(* a closure applied behind two producers, and a closure operator: the bodies of the blocks are pristine too *)
Definition prog2 : tree :=
  TCat [TAlt [TConst 1 DDec; TConst 2 DDec]; TBlock 0 (TCat [TRead (nm "dup"); TRead (nm "add")]); TRead (nm "apply");
        TStar (TCat [TAssert (TPredSubx (TCat [TRead (nm "dup"); TConst 9 DDec; TRead (nm "?lt")])); TConst 1 DDec; TRead (nm "add")])].

Example C01_built_blocks_quiet :
  match build_program tc0 prog2 with BOk (m, blks) => quiet m /\ Forall quiet blks | BErr _ => False end.
Proof. vm_compute. repeat split; try reflexivity; try (intro; discriminate); repeat constructor. Qed.

Example C01_nonvacuous2 : option_map (@List.length event) (run_tree prog2) <> None.
Proof. vm_compute. discriminate. Qed.

Example C01_nonvacuous :
  option_map (@List.length event) (run_tree prog1) = Some 4%nat.
Proof. vm_compute. reflexivity. Qed.
