(* C01 — stream semantics of every construct.  (theorems are added below as
   the engine proofs land; this first version only pins the model down with
   executable examples) *)
From Coq Require Import ZArith NArith List Bool String.
From Dwgrep Require Import Radix Value Words Tree Engine Build.
Import ListNotations.
Local Open Scope Z_scope.

Definition tc0 := ValueM.mktc 2 3 4 5.
Definition P0 := mkparams tc0 (fun _ => 1%N).

Definition run_tree (t : tree) : option (list event) :=
  match build_program tc0 t with
  | BOk (m, blks) => match run P0 blks 100 1000 m [] with ODone evs => Some evs | _ => None end
  | BErr _ => None
  end.

(* (1, 2) [dup]  — a capture behind a two-stack producer *)
Example C01_nonvacuous :
  run_tree (TCat [TAlt [TConst 1 DDec; TConst 2 DDec]; TCapture (TRead (nm "dup"))])
  = Some [EvOut [VSeq [VCst 1 DDec 0] 0; VCst 1 DDec 0]; EvOut [VSeq [VCst 2 DDec 0] 0; VCst 2 DDec 0]].
Proof. vm_compute. reflexivity. Qed.
