(* C01 — each construct acts on every input stack independently (stream semantics).

   Engine side, proved here for the model of the pull engine (zw/Engine.v) and
   for EVERY op of it - concatenation, `,` (op_merge/op_tine), `||`, `[ ]`,
   let / infix (op_subx), if-then-else, assertions, words, bindings, closure
   creation, `apply`, the closure operators `*`/`+` and format strings
   (op_format with its chain of stringers): whatever stacks a chain has
   processed, once it reports exhaustion every op of it is in the state it was
   constructed in.  The one thing that is not: the position counter of a format
   op, which op_format::next sets back when the next stack arrives rather than
   at exhaustion (`reset` abstracts from it; C01_format_counter_is_stale shows
   the stronger statement is false of the model, and the model is tied to the
   implementation on exactly this by the correspondence check).  The equality
   engine = specification (Den.v) is tested by the check on generated programs,
   not proved. *)
From Coq Require Import ZArith NArith List Bool String.
From Dwgrep Require Import Radix Value Words Tree Engine Build Quiet EngineProofs BuildProofs StarvedProofs.
Import ListNotations.
Local Open Scope Z_scope.

(* one pull keeps a working chain a working chain, and a pull that returns
   nothing leaves it pristine -- for every amount of fuel, environment, store,
   leaf context (an origin, or a branch of `,` at any nesting) *)
Theorem C01_pull_invariant : forall P blks, Forall quiet blks -> forall f env m c s r m' c' s' e,
  inv m -> cinv c -> nodone c -> next P blks f env m c s = Ret (r, m', c', s', e) ->
  inv m' /\ cinv c' /\ shape c c' /\ cpost c' (isnone r) /\ (r = None -> quiet m').
Proof. exact main. Qed.

(* the same for the chain of stringers inside a format op *)
Theorem C01_stringers_invariant : forall P blks, Forall quiet blks -> forall f env parts oslot s r parts' oslot' s' e,
  Forall pinv parts -> snext P blks f env parts oslot s = Ret (r, parts', oslot', s', e) ->
  Forall pinv parts' /\ (r = None -> Forall pquiet parts' /\ oslot' = None).
Proof. intros P blks Q f. exact (proj2 (main_both P blks Q f)). Qed.

(* a pull changes run-time state only: the constructed chain underneath is the same *)
Theorem C01_pull_keeps_structure : forall P blks, Forall quiet blks -> forall f env m c s r m' c' s' e,
  inv m -> cinv c -> nodone c -> next P blks f env m c s = Ret (r, m', c', s', e) ->
  reset m' = reset m /\ csame c c'.
Proof. exact mainR. Qed.

(* pulled dry = pristine again, and the same ops (any chain, format ops included) *)
Theorem C01_engine_forgets_any : forall P blks, Forall quiet blks -> forall f env m sl s outs m' c' s',
  quiet m -> drains P blks f env m (LOrigin sl) s outs m' c' s' ->
  quiet m' /\ reset m' = reset m /\ c' = LOrigin None.
Proof. exact engine_forgets_any. Qed.

(* so after any number of inputs the chain is pristine and the same ops *)
Theorem C01_engine_stream_any : forall P blks, Forall quiet blks -> forall f env m a b s outsA mA cA sA outsB mB cB sB,
  quiet m ->
  drains P blks f env m (LOrigin (Some a)) s outsA mA cA sA ->
  drains P blks f env mA (LOrigin (Some b)) sA outsB mB cB sB ->
  quiet mA /\ reset mA = reset m /\ quiet mB /\ reset mB = reset m.
Proof. exact engine_stream_any. Qed.

(* without format ops: pulled dry = as constructed, literally *)
Theorem C01_engine_forgets : forall P blks, Forall quiet blks -> forall f env m sl s outs m' c' s',
  quiet m -> has_format m = false -> drains P blks f env m (LOrigin sl) s outs m' c' s' -> m' = m /\ c' = LOrigin None.
Proof. exact engine_forgets. Qed.

(* so the second of two inputs is processed by the very chain the first one met *)
Theorem C01_engine_stream : forall P blks, Forall quiet blks -> forall f env m a b s outsA mA cA sA outsB mB cB sB,
  quiet m -> has_format m = false ->
  drains P blks f env m (LOrigin (Some a)) s outsA mA cA sA ->
  drains P blks f env mA (LOrigin (Some b)) sA outsB mB cB sB ->
  drains P blks f env m (LOrigin (Some b)) sA outsB mB cB sB /\ mB = m.
Proof. exact engine_stream. Qed.

(* a pristine chain that is given no input yields nothing, reports nothing and
   stays pristine - at any nesting of `,` (dry / dried: the levels of `,` the
   pull went through have all seen their upstream run dry) *)
Theorem C01_no_input_no_output : forall P blks f env m c s r m' c' s' e,
  quiet m -> dry c -> EngineM.next P blks f env m c s = Ret (r, m', c', s', e) -> r = None /\ e = [] /\ dried c'.
Proof. intros P blks f. exact (starved P blks f). Qed.
Print Assumptions C01_no_input_no_output.

Theorem C01_end_is_final : forall P blks, Forall quiet blks -> forall f env m s r m' c' s' e,
  quiet m -> EngineM.next P blks f env m (LOrigin None) s = Ret (r, m', c', s', e) ->
  r = None /\ e = [] /\ quiet m' /\ reset m' = reset m /\ c' = LOrigin None.
Proof. exact end_is_final. Qed.
Print Assumptions C01_end_is_final.

(* the executable test the check evaluates on every chain the builder produces *)
Theorem C01_quietb_quiet : forall m, quietb m = true -> quiet m.
Proof. exact quietb_quiet. Qed.

(* the hypotheses hold for EVERY program: what the builder (build.cc /
   bindings.cc) produces is a pristine chain with pristine block bodies
   (wf_tree: no `,` without branches - the parser never builds one) *)
Theorem C01_built_programs_are_quiet : forall tc t m blks, wf_tree t = true -> build_program tc t = BOk (m, blks) ->
  quiet m /\ Forall quiet blks.
Proof. exact build_program_quiet. Qed.

(* and a program without format strings is built into a chain without format ops *)
Theorem C01_built_without_format : forall tc t m blks, nf_tree t = true -> build_program tc t = BOk (m, blks) ->
  has_format m = false.
Proof. exact build_program_nf. Qed.

(* hence, for every program: once pulled dry on one input, the engine is
   pristine again and made of the same ops *)
Theorem C01_every_program_forgets_any : forall tc P t m blks, wf_tree t = true -> build_program tc t = BOk (m, blks) ->
  forall f env sl s outs m' c' s', drains P blks f env m (LOrigin sl) s outs m' c' s' ->
  quiet m' /\ reset m' = reset m /\ c' = LOrigin None.
Proof.
  intros tc P t m blks W B f env sl s outs m' c' s' D.
  destruct (build_program_quiet tc t m blks W B) as [Qm Qb].
  exact (engine_forgets_any P blks Qb f env m sl s outs m' c' s' Qm D).
Qed.

(* and for every program without format strings it is exactly what it was
   before that input arrived *)
Theorem C01_every_program_forgets : forall tc P t m blks, wf_tree t = true -> nf_tree t = true ->
  build_program tc t = BOk (m, blks) ->
  forall f env sl s outs m' c' s', drains P blks f env m (LOrigin sl) s outs m' c' s' -> m' = m /\ c' = LOrigin None.
Proof.
  intros tc P t m blks W N B f env sl s outs m' c' s' D.
  destruct (build_program_quiet tc t m blks W B) as [Qm Qb].
  exact (engine_forgets P blks Qb f env m sl s outs m' c' s' Qm (build_program_nf tc t m blks N B) D).
Qed.

Print Assumptions C01_built_programs_are_quiet.
Print Assumptions C01_built_without_format.
Print Assumptions C01_every_program_forgets_any.
Print Assumptions C01_every_program_forgets.
Print Assumptions C01_quietb_quiet.
Print Assumptions C01_pull_invariant.
Print Assumptions C01_stringers_invariant.
Print Assumptions C01_pull_keeps_structure.
Print Assumptions C01_engine_forgets_any.
Print Assumptions C01_engine_stream_any.
Print Assumptions C01_engine_forgets.
Print Assumptions C01_engine_stream.

(* non-vacuity: what the builder produces for programs over these constructs is a pristine chain *)
Definition tc0 := ValueM.mktc 2 3 4 5 [].
Definition P0 := mkparams tc0 (fun _ => 1%N).

Definition built (t : tree) : option mach :=
  match build_program tc0 t with BOk (m, _) => Some m | BErr _ => None end.

Definition run_tree (t : tree) : option (list event) :=
  match build_program tc0 t with
  | BOk (m, blks) => match run P0 blks 100 1000 m [] with ODone evs => Some evs | _ => None end
  | BErr _ => None
  end.

(* (1, 2) [dup] ((3, 4) || 5) -- the shape that used to lose results (op_merge staying done) *)
Definition prog1 : tree :=
  TCat [TAlt [TConst 1 DDec; TConst 2 DDec]; TCapture (TRead (nm "dup"));
        TOr [TAlt [TConst 3 DDec; TConst 4 DDec]; TConst 5 DDec]].

Example C01_built_is_quiet : match built prog1 with Some m => quiet m | None => False end.
Proof. vm_compute. repeat split; try reflexivity; try (intro; discriminate). Qed.

(* a closure applied behind two producers, and a closure operator: the bodies of the blocks are pristine too *)
Definition prog2 : tree :=
  TCat [TAlt [TConst 1 DDec; TConst 2 DDec]; TBlock 0 (TCat [TRead (nm "dup"); TRead (nm "add")]); TRead (nm "apply");
        TStar (TCat [TAssert (TPredSubx (TCat [TRead (nm "dup"); TConst 9 DDec; TRead (nm "?lt")])); TConst 1 DDec; TRead (nm "add")])].

Example C01_built_blocks_quiet :
  match build_program tc0 prog2 with BOk (m, blks) => quiet m /\ Forall quiet blks | BErr _ => False end.
Proof. vm_compute. repeat split; try reflexivity; try (intro; discriminate); repeat constructor. Qed.

Example C01_nonvacuous2 : option_map (@List.length event) (run_tree prog2) <> None.
Proof. vm_compute. discriminate. Qed.

Example C01_nonvacuous :
  option_map (@List.length event) (run_tree prog1) = Some 4%nat.
Proof. vm_compute. reflexivity. Qed.

(* a format string with two splices behind two producers: built pristine, runs, and is covered by the theorems *)
Definition prog3 : tree :=
  TCat [TAlt [TConst 1 DDec; TConst 2 DDec];
        TFormat [TStr [97%N]; TAlt [TConst 3 DDec; TConst 4 DDec]; TStr [98%N]; TRead (nm "dup")]].

Example C01_built_format_is_quiet :
  wf_tree prog3 = true /\ match built prog3 with Some m => quiet m /\ has_format m = true | None => False end.
Proof. vm_compute. repeat split; try reflexivity; try (intro; discriminate); repeat constructor. Qed.

Example C01_nonvacuous3 : option_map (@List.length event) (run_tree prog3) = Some 4%nat.
Proof. vm_compute. reflexivity. Qed.

(* why the statement for format ops is `up to reset`: pulled dry, the chain of
   prog3 is NOT the chain as constructed (the position counter is stale), though
   its reset is *)
Fixpoint drain (limit : nat) (blks : list mach) (m : mach) (c : lctx) (s : store) : option mach :=
  match limit with
  | O => None
  | S l =>
    match next P0 blks 100 [] m c s with
    | Ret (Some _, m', c', s', _) => drain l blks m' c' s'
    | Ret (None, m', _, _, _) => Some m'
    | _ => None
    end
  end.

Example C01_format_counter_is_stale :
  match build_program tc0 prog3 with
  | BOk (m, blks) =>
    match drain 20 blks m (LOrigin (Some [])) [] with
    | Some m' => m' <> m /\ reset m' = m
    | None => False
    end
  | BErr _ => False
  end.
Proof. vm_compute. split; [intro H; discriminate H|reflexivity]. Qed.
