(* C04 — assertions and sub-expression contexts never disturb the surrounding
   stack.  Statements over the specification (Den.v); the engine model is
   tied to the specification by the correspondence check (and C01). *)
From Coq Require Import ZArith NArith List Bool String.
From Dwgrep Require Import Radix Value Words Tree Engine Build Den DenProofs.
Import ListNotations.
Local Open Scope string_scope.

(* ?(E), !(E) and E1 op E2 are ASSERT nodes: whatever the sub-expression does
   (push, pop, fail, yield many times), every yielded stack is the incoming one *)
Theorem C04_assert_keeps_stack : forall P prog f p env stk,
  match den P prog f (TAssert p) env stk with
  | DOk evs _ => forall s e, List.In (DOut s e) evs -> s = stk /\ e = env
  | _ => True
  end.
Proof. exact assert_keeps_stack. Qed.
Print Assumptions C04_assert_keeps_stack.

(* every ?word / !word of the vocabulary *)
Theorem C04_pred_word_keeps_stack : forall P prog f n positive w env stk,
  dlookup env n = None -> assoc (voc_table (p_tc P)) n = Some (BIPred positive w) ->
  match den P prog f (TRead n) env stk with
  | DOk evs _ => forall s e, List.In (DOut s e) evs -> s = stk /\ e = env
  | _ => True
  end.
Proof. exact pred_word_keeps_stack. Qed.
Print Assumptions C04_pred_word_keeps_stack.

(* ?X holds exactly when !X does not; when X reports an error neither holds *)
Theorem C04_exclusive : forall r,
  match r with
  | PFail => holds r = false /\ holds (pnot r) = false
  | _ => holds r = negb (holds (pnot r))
  end.
Proof. exact pred_exclusive. Qed.
Print Assumptions C04_exclusive.

(* `let ... := E;` = SUBX_EVAL <n> followed by n BINDs: the n values that the
   binds pop are the n values taken from E's result; below them is exactly
   the incoming stack *)
Theorem C04_let_leaves_stack : forall keep sub stk out,
  subx_result keep sub stk = Some out -> skipn keep out = stk /\ firstn keep out = firstn keep sub.
Proof. exact subx_then_binds. Qed.
Print Assumptions C04_let_leaves_stack.

(* [E] leaves everything intact and adds the one captured sequence *)
Theorem C04_capture_adds_one : forall P prog f c env stk evs ab,
  den P prog f (TCapture c) env stk = DOk evs ab ->
  forall s e, List.In (DOut s e) evs -> exists vs, s = VSeq vs 0 :: stk /\ e = env.
Proof. exact capture_adds_one. Qed.
Print Assumptions C04_capture_adds_one.

Example C04_nonvacuous :
  let tc := ValueM.mktc 2 3 4 5 [] in
  let P := mkparams tc (fun _ => 1%N) in
  (* 7 ?(drop 1 2 3) *)
  let t := TCat [TConst 7 DDec; TAssert (TPredSubx (TScope (TCat [TRead (nm "drop"); TConst 1 DDec; TConst 2 DDec])))] in
  den P t 50 t [] [] = ok [DOut [VCst 7 DDec 0] []].
Proof. vm_compute. reflexivity. Qed.
