(* C04 — assertions and sub-expression contexts never disturb the surrounding
   stack.  Statements over the specification (Den.v) and, at the end, over the
   engine model (Engine.v: op_assert, op_subx, op_capture); the engine model is
   tied to the implementation by the correspondence check. *)
From Coq Require Import ZArith NArith List Bool String.
From Dwgrep Require Import Radix Value Words Tree Engine Build Den DenProofs NeutralProofs.
Import ListNotations.
Local Open Scope string_scope.

(* ?(E), !(E) and E1 op E2 are ASSERT nodes: whatever the sub-expression does
   (push, pop, fail, yield many times), every yielded stack is the incoming one *)
Theorem C04_assert_keeps_stack : forall P prog f p env stk,
  match den P prog f (TAssert p) env stk with
  | DOk evs _ => forall s e, List.In (DOut s e) evs -> s = stk /\ e = env
  | _ => True
  end.
Proof. exact assert_keeps_stack. Qed.
Print Assumptions C04_assert_keeps_stack.

(* every ?word / !word of the vocabulary *)
Theorem C04_pred_word_keeps_stack : forall P prog f n positive w env stk,
  dlookup env n = None -> assoc (voc_table (p_tc P)) n = Some (BIPred positive w) ->
  match den P prog f (TRead n) env stk with
  | DOk evs _ => forall s e, List.In (DOut s e) evs -> s = stk /\ e = env
  | _ => True
  end.
Proof. exact pred_word_keeps_stack. Qed.
Print Assumptions C04_pred_word_keeps_stack.

(* ?X holds exactly when !X does not; when X reports an error neither holds *)
Theorem C04_exclusive : forall r,
  match r with
  | PFail => holds r = false /\ holds (pnot r) = false
  | _ => holds r = negb (holds (pnot r))
  end.
Proof. exact pred_exclusive. Qed.
Print Assumptions C04_exclusive.

(* `let ... := E;` = SUBX_EVAL <n> followed by n BINDs: the n values that the
   binds pop are the n values taken from E's result; below them is exactly
   the incoming stack *)
Theorem C04_let_leaves_stack : forall keep sub stk out,
  subx_result keep sub stk = Some out -> skipn keep out = stk /\ firstn keep out = firstn keep sub.
Proof. exact subx_then_binds. Qed.
Print Assumptions C04_let_leaves_stack.

(* [E] leaves everything intact and adds the one captured sequence *)
Theorem C04_capture_adds_one : forall P prog f c env stk evs ab,
  den P prog f (TCapture c) env stk = DOk evs ab ->
  forall s e, List.In (DOut s e) evs -> exists vs, s = VSeq vs 0 :: stk /\ e = env.
Proof. exact capture_adds_one. Qed.
Print Assumptions C04_capture_adds_one.

(* ---- the same on the engine model (the ops as the C++ runs them) ---- *)

(* op_assert (?(E), !(E), infix, ?word/!word): a stack that comes out is a stack
   the upstream chain yielded, unchanged, and the op's state afterwards wraps
   the upstream's state after that very pull: nothing is dropped, duplicated,
   re-ordered or altered - stacks are only filtered *)
Theorem C04_engine_assert_forwards : forall P blks f env up p c s stk m' c' s' e,
  EngineM.next P blks f env (MAssert up p) c s = Ret (Some stk, m', c', s', e) ->
  exists up1, m' = MAssert up1 p /\ pulled_before P blks f env stk up1 c'.
Proof. exact assert_forwards. Qed.
Print Assumptions C04_engine_assert_forwards.

(* op_subx (let bodies, operands of infix assertions): the stack that comes out
   is the saved one - the stack the upstream yielded - with exactly `keep`
   values of the sub-expression's result on top *)
Theorem C04_engine_subx_keeps : forall P blks f env up inner keep saved slot c s stk m' c' s' e,
  EngineM.next P blks f env (MSubx up inner keep saved slot) c s = Ret (Some stk, m', c', s', e) ->
  exists sv sub, stk = (firstn keep sub ++ sv)%list /\ (keep <= List.length sub)%nat /\
    (saved = Some sv \/ exists up1 c1, pulled_before P blks f env sv up1 c1).
Proof. exact subx_keeps. Qed.
Print Assumptions C04_engine_subx_keeps.

(* op_capture ([E]): the upstream's stack with one sequence on top *)
Theorem C04_engine_capture_adds_one : forall P blks f env up inner c s stk m' c' s' e,
  EngineM.next P blks f env (MCapture up inner) c s = Ret (Some stk, m', c', s', e) ->
  exists vs below up1, stk = VSeq vs 0%N :: below /\ m' = MCapture up1 inner /\ pulled_before P blks f env below up1 c'.
Proof. exact capture_forwards. Qed.
Print Assumptions C04_engine_capture_adds_one.

Example C04_nonvacuous :
  let tc := ValueM.mktc 2 3 4 5 [] in
  let P := mkparams tc (fun _ => 1%N) in
  (* 7 ?(drop 1 2 3) *)
  let t := TCat [TConst 7 DDec; TAssert (TPredSubx (TScope (TCat [TRead (nm "drop"); TConst 1 DDec; TConst 2 DDec])))] in
  den P t 50 t [] [] = ok [DOut [VCst 7 DDec 0] []].
Proof. vm_compute. reflexivity. Qed.
