(* C14 — any byte string is either compiled or rejected with an error. *)
From Coq Require Import NArith List Bool Arith.
From Dwgrep Require Import Radix Escape Lexer LexerProofs.
Import ListNotations.
Local Open Scope N_scope.

(* the scanner (all three start conditions) is total on byte strings: the
   model's fuel, one unit per byte, is never exhausted ... *)
Theorem C14_lex_total : forall s, lex_all s <> LexFuel.
Proof. exact lex_total. Qed.
Print Assumptions C14_lex_total.

(* ... so every byte string is classified: tokens, or tokens then a lexical error *)
Theorem C14_lex_classifies : forall s,
  (exists ts, lex_all s = LexOk ts) \/ (exists ts e, lex_all s = LexError ts e).
Proof. exact lex_classifies. Qed.
Print Assumptions C14_lex_classifies.

(* one step in the INITIAL condition consumes at least one byte and never
   more than the input holds (nothing is read past the given length) *)
Theorem C14_step_progress : forall c s, (1 <= fst (match_initial (c :: s)))%nat.
Proof. exact match_initial_progress. Qed.
Theorem C14_step_bounded : forall s, (fst (match_initial s) <= length s)%nat.
Proof. exact match_initial_bounded. Qed.
Print Assumptions C14_step_progress.
Print Assumptions C14_step_bounded.

(* the string scanner hands back a suffix no longer than its input, through
   every escape, continuation and embedded-expression path *)
Theorem C14_string_scan_bounded : forall N k s, (length s <= k)%nat -> (k <= N)%nat ->
  forall m f ps rest, mode_ok N m -> str_scan m f s = SDone ps rest -> (length rest <= N)%nat.
Proof. exact str_scan_bounded. Qed.
Print Assumptions C14_string_scan_bounded.

(* accepted inputs deliver a token list that ends with the end-of-file token *)
Theorem C14_tokens_end_with_eof : forall fuel s acc ts, lex fuel s acc = LexOk ts -> exists ts', ts = ts' ++ [TEOF].
Proof. exact lex_ends_with_eof. Qed.
Print Assumptions C14_tokens_end_with_eof.

(* an unterminated string literal is rejected, whatever its (plain) content *)
Theorem C14_unterminated_string_rejected : forall s, Forall (fun c => c <> 34 /\ c <> 92 /\ c <> 37) s ->
  lex_all (34 :: s) = LexError [] EUnterminated.
Proof. exact unterminated_string_rejected. Qed.
Print Assumptions C14_unterminated_string_rejected.

(* non-vacuity: a program with a splice, a NUL byte, an unterminated splice *)
Example C14_example_ok : analyse [49; 32; 34; 97; 37; 115; 34] = VParsed [TInt [49]; TStr [PLit [97]; PDir 115; PLit []]; TEOF].
Proof. vm_compute. reflexivity. Qed.
Example C14_example_nul : analyse [49; 0] = VLexError (EInvalidChar 0).
Proof. vm_compute. reflexivity. Qed.
Example C14_example_splice : analyse [34; 37; 40; 32; 49] = VLexError ETooFewClosing.
Proof. vm_compute. reflexivity. Qed.
