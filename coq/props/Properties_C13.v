(* C13 — state lifecycle and layout (the part of the property a model can carry). *)
From Coq Require Import ZArith NArith List Bool.
From Dwgrep Require Import Scon SconProofs.
Import ListNotations.
Local Open Scope N_scope.

(* layout: rounding up, the bit trick of the source, successive reservations, unions *)
Theorem C13_align_up_spec : forall top a, 0 < a -> top <= align_up top a /\ align_up top a < top + a /\ (align_up top a) mod a = 0.
Proof. exact align_up_spec. Qed.
Theorem C13_align_bits_is_align_up : forall top k, (0 <= top)%Z -> (0 <= k)%Z ->
  align_bits top (2 ^ k) = ((top + (2 ^ k - 1)) / 2 ^ k * 2 ^ k)%Z.
Proof. exact align_bits_is_align_up. Qed.
Theorem C13_reserve_disjoint : forall m s1 a1 s2 a2, 0 < a1 -> 0 < a2 ->
  let '(l1, m1) := reserve m s1 a1 in let '(l2, m2) := reserve m1 s2 a2 in
  m <= l1 /\ l1 + s1 <= l2 /\ l2 + s2 = m2.
Proof. exact reserve_disjoint. Qed.
Theorem C13_add_union_covers : forall m subs, m <= add_union m subs /\ Forall (fun s => s <= add_union m subs) subs.
Proof. exact add_union_covers. Qed.

(* lifecycle: what acceptance by the automaton (= no abort of the hook) means *)
Theorem C13_accepted_never_overlaps : forall cap tr1 tr2, run cap [] (tr1 ++ tr2) 0 = Accept ->
  exists l, after cap [] tr1 0 = Some l /\ pairwise l /\ inside cap l.
Proof. exact accepted_never_overlaps. Qed.
Theorem C13_accepted_use_is_live : forall cap tr1 o s tr2,
  (run cap [] (tr1 ++ Get o s :: tr2) 0 = Accept \/ run cap [] (tr1 ++ Des o s :: tr2) 0 = Accept) ->
  exists l, after cap [] tr1 0 = Some l /\ existsb (same (o, s)) l = true.
Proof. exact accepted_use_is_live. Qed.
Theorem C13_accepted_balanced : forall cap tr, run cap [] (tr ++ [End]) 0 = Accept ->
  forall r, cons_of r tr = dess_of r tr.
Proof. exact accepted_balanced. Qed.
Print Assumptions C13_align_up_spec.
Print Assumptions C13_align_bits_is_align_up.
Print Assumptions C13_reserve_disjoint.
Print Assumptions C13_add_union_covers.
Print Assumptions C13_accepted_never_overlaps.
Print Assumptions C13_accepted_use_is_live.
Print Assumptions C13_accepted_balanced.

Example C13_example :
  run 56 [] [Con 8 40; Con 0 8; Get 0 8; Con 48 8; Des 48 8; Des 0 8; Des 8 40; End] 0 = Accept /\
  run 56 [] [Con 8 40; Con 40 8] 0 = RejectOverlap 1 /\ run 56 [] [Con 0 8; End] 0 = RejectLeak 1.
Proof. vm_compute. auto. Qed.
