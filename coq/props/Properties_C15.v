(* C15 — notation does not change meaning.  Simplify.v models tree::simplify
   (the correspondence check compares its output, tree for tree, with the
   implementation's).  Main theorem: the whole simplifier - children first,
   then promotion of CATs in CATs and ALTs in ALTs, of a CAT's only child, NOP
   dropping, (FORMAT (STR)) -> (STR), applied to the program AND to the bodies
   of its blocks - preserves the specified meaning (Den.v): whatever result
   list the program as written evaluates to, the simplified program evaluates
   to.  Further down: the single steps, "up to the evaluator giving up"
   (DFuel: fuel or the event cap of the eager specification evaluator), and
   the shape of the output. *)
From Coq Require Import ZArith NArith List Bool String.
From Dwgrep Require Import Radix Value Words Tree Engine Build Den Simplify SimplifyProofs DenMono SimplifyCorrect.
Import ListNotations.
Local Open Scope string_scope.

(* ---- the whole simplifier ---- *)

(* If the program as written (any sub-expression t of a program prog, whose
   blocks live in prog) evaluates to a result list - complete, or ended by an
   exception - then the simplified sub-expression, run against the simplified
   program, evaluates to that same list whenever its evaluation finishes, with
   any amount of fuel. *)
Theorem C15_simplify_preserves : forall P prog f1 f2 t env stk evs ab,
  den P prog f1 t env stk = DOk evs ab ->
  den P (simplify prog) f2 (simplify t) env stk <> DFuel ->
  den P (simplify prog) f2 (simplify t) env stk = DOk evs ab.
Proof. exact simplify_preserves. Qed.
Print Assumptions C15_simplify_preserves.

(* in particular for the program itself on an input stack *)
Corollary C15_simplified_program_same_results : forall P prog f1 f2 stk evs ab,
  den P prog f1 prog [] stk = DOk evs ab ->
  den P (simplify prog) f2 (simplify prog) [] stk <> DFuel ->
  den P (simplify prog) f2 (simplify prog) [] stk = DOk evs ab.
Proof. intros. apply (simplify_preserves P prog f1 f2 prog [] stk evs ab); assumption. Qed.
Print Assumptions C15_simplified_program_same_results.

(* the simplifier keeps every block, in order: looking one up in the simplified
   program finds the simplified body *)
Theorem C15_simplify_keeps_blocks : forall t id, find_block (simplify t) id = option_map simplify (find_block t id).
Proof. exact find_block_simplify. Qed.
Print Assumptions C15_simplify_keeps_blocks.

(* non-vacuity: a program with nested CATs and ALTs, NOPs, a one-literal format
   string and a block whose body needs simplifying too - the simplifier changes
   it, and both versions evaluate (here: by computation) to the same three stacks *)
Definition c15_prog : tree :=
  TCat [TCat [TAlt [TConst 1 DDec; TAlt [TConst 2 DDec; TAlt [TConst 3 DDec]]]; TNop];
        TFormat [TStr [120%N]];
        TBlock 0 (TCat [TCat [TRead (nm "swap")]; TNop; TCat [TNop]]);
        TRead (nm "apply")].

Example C15_simplify_nonvacuous :
  let tc := ValueM.mktc 2 3 4 5 [] in
  let P := mkparams tc (fun _ => 1%N) in
  simplify c15_prog <> c15_prog /\
  den P c15_prog 20 c15_prog [] [] = den P (simplify c15_prog) 20 (simplify c15_prog) [] [] /\
  match den P c15_prog 20 c15_prog [] [] with DOk evs false => List.length evs = 3%nat | _ => False end.
Proof. vm_compute. split; [intro H; discriminate H|split; reflexivity]. Qed.

(* ---- the single steps ---- *)

(* "Promote CAT's only child" *)
Theorem C15_cat_single : forall P prog f c env stk,
  same_or_fuel (den P prog (S f) (TCat [c]) env stk) (den P prog f c env stk).
Proof. exact cat_single. Qed.
Print Assumptions C15_cat_single.

(* "Drop NOP's in CAT nodes" (also: redundant `()` and `%s` placeholders) *)
Theorem C15_cat_drop_nop : forall P prog f l1 l2 env stk,
  same_or_fuel (den P prog (S (S f)) (TCat (l1 ++ TNop :: l2)) env stk)
               (den P prog (S (S f)) (TCat (l1 ++ l2)) env stk).
Proof. exact cat_drop_nop. Qed.
Print Assumptions C15_cat_drop_nop.

(* "(FORMAT (STR)) -> (STR)": a literal without directives is just the string *)
Theorem C15_format_single_str : forall P prog f s env stk,
  den P prog (S (S f)) (TFormat [TStr s]) env stk = den P prog (S f) (TStr s) env stk.
Proof. exact format_single_str. Qed.
Print Assumptions C15_format_single_str.

(* after "Promote CAT's in CAT nodes" no child of a CAT is a CAT *)
Theorem C15_flatten_no_nested_cat : forall f l,
  (forall c, In c l -> depth c <= f) -> Forall (fun c => is_cat c = false) (flatten_cat f l).
Proof. exact flatten_cat_no_cat. Qed.
Print Assumptions C15_flatten_no_nested_cat.

(* ---- fuel is only a bound: the specification evaluator's answers do not depend on it ---- *)

(* once an evaluation finishes, any larger amount of fuel gives the same answer *)
Theorem C15_more_fuel_same_answer : forall P prog f g t env stk, (f <= g)%nat ->
  den P prog f t env stk <> DFuel -> den P prog g t env stk = den P prog f t env stk.
Proof. exact den_mono. Qed.
Print Assumptions C15_more_fuel_same_answer.

(* hence the rewrite steps hold for ANY two amounts of fuel: whenever the
   program as written and the rewritten one both finish, they finish alike *)
Theorem C15_cat_single_any_fuel : forall P prog c f1 f2 env stk,
  sof (den P prog f1 (TCat [c]) env stk) (den P prog f2 c env stk).
Proof. intros P prog c. apply (agree_any_fuel P prog (TCat [c]) c 1 0). intros f env stk. apply cat_single. Qed.
Print Assumptions C15_cat_single_any_fuel.

Theorem C15_cat_drop_nop_any_fuel : forall P prog l1 l2 f1 f2 env stk,
  sof (den P prog f1 (TCat (l1 ++ TNop :: l2)) env stk) (den P prog f2 (TCat (l1 ++ l2)) env stk).
Proof. intros P prog l1 l2. apply (agree_any_fuel P prog _ _ 2 2). intros f env stk. apply cat_drop_nop. Qed.
Print Assumptions C15_cat_drop_nop_any_fuel.

Theorem C15_format_single_str_any_fuel : forall P prog s f1 f2 env stk,
  sof (den P prog f1 (TFormat [TStr s]) env stk) (den P prog f2 (TStr s) env stk).
Proof.
  intros P prog s. apply (agree_any_fuel P prog _ _ 2 1). intros f env stk.
  right. right. apply format_single_str.
Qed.
Print Assumptions C15_format_single_str_any_fuel.

(* non-vacuity: ((1) ()) "x" simplifies to (CAT (CONST 1) (STR x)) *)
Example C15_nonvacuous :
  simplify (TCat [TCat [TCat [TConst 1 DDec]; TNop]; TFormat [TStr [120%N]]])
  = TCat [TConst 1 DDec; TStr [120%N]].
Proof. vm_compute. reflexivity. Qed.
