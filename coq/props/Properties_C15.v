(* C15 — notation does not change meaning.  Simplify.v models tree::simplify
   (the correspondence check compares its output, tree for tree, with the
   implementation's); the theorems say its rewrite steps preserve the
   specified meaning, and give the shape of its output.  Equalities hold "up
   to the evaluator giving up" (DFuel: fuel or the event cap of the eager
   specification evaluator). *)
From Coq Require Import ZArith NArith List Bool.
From Dwgrep Require Import Radix Value Words Tree Engine Build Den Simplify SimplifyProofs.
Import ListNotations.

(* "Promote CAT's only child" *)
Theorem C15_cat_single : forall P prog f c env stk,
  same_or_fuel (den P prog (S f) (TCat [c]) env stk) (den P prog f c env stk).
Proof. exact cat_single. Qed.
Print Assumptions C15_cat_single.

(* "Drop NOP's in CAT nodes" (also: redundant `()` and `%s` placeholders) *)
Theorem C15_cat_drop_nop : forall P prog f l1 l2 env stk,
  same_or_fuel (den P prog (S (S f)) (TCat (l1 ++ TNop :: l2)) env stk)
               (den P prog (S (S f)) (TCat (l1 ++ l2)) env stk).
Proof. exact cat_drop_nop. Qed.
Print Assumptions C15_cat_drop_nop.

(* "(FORMAT (STR)) -> (STR)": a literal without directives is just the string *)
Theorem C15_format_single_str : forall P prog f s env stk,
  den P prog (S (S f)) (TFormat [TStr s]) env stk = den P prog (S f) (TStr s) env stk.
Proof. exact format_single_str. Qed.
Print Assumptions C15_format_single_str.

(* after "Promote CAT's in CAT nodes" no child of a CAT is a CAT *)
Theorem C15_flatten_no_nested_cat : forall f l,
  (forall c, In c l -> depth c <= f) -> Forall (fun c => is_cat c = false) (flatten_cat f l).
Proof. exact flatten_cat_no_cat. Qed.
Print Assumptions C15_flatten_no_nested_cat.

(* non-vacuity: ((1) ()) "x" simplifies to (CAT (CONST 1) (STR x)) *)
Example C15_nonvacuous :
  simplify (TCat [TCat [TCat [TConst 1 DDec]; TNop]; TFormat [TStr [120%N]]])
  = TCat [TConst 1 DDec; TStr [120%N]].
Proof. vm_compute. reflexivity. Qed.
