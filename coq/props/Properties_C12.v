(* C12 — a compiled query is a pure function of its input stack.
   Api.v models the C API over one compiled query; each result set owns its
   state.  (That NO state is shared between result sets in the C++ — statics,
   caches, mutable members — is what the correspondence check examines.) *)
From Coq Require Import ZArith NArith List Bool.
From Dwgrep Require Import Radix Value Words Tree Engine Build Api ApiProofs.
Import ListNotations.

(* In any history of execute / pull / destroy operations over any number of
   result sets, what result set r is told is what it would be told if the
   operations on all other result sets were removed from the history. *)
Theorem C12_history_projection : forall P blks prog fuel r h t t',
  tget t r = tget t' r ->
  answers_for r (run_hist P blks prog fuel t h)
  = answers_for r (run_hist P blks prog fuel t' (filter (concerns r) h)).
Proof. exact history_projection. Qed.
Print Assumptions C12_history_projection.

(* in particular, starting from nothing: a fresh run *)
Corollary C12_fresh_run : forall P blks prog fuel r h,
  answers_for r (run_hist P blks prog fuel [] h)
  = answers_for r (run_hist P blks prog fuel [] (filter (concerns r) h)).
Proof. intros. apply history_projection. reflexivity. Qed.
Print Assumptions C12_fresh_run.

Example C12_nonvacuous :
  let tc := ValueM.mktc 2 3 4 5 [] in
  let P := mkparams tc (fun _ => 1%N) in
  let t := TAlt [TScope (TConst 1 DDec); TScope (TConst 2 DDec)] in
  match build_program tc t with
  | BOk (m, blks) =>
    answers_for 0 (run_hist P blks m 100 [] [Execute 0 []; Execute 1 [VCst 9 DDec 0]; Pull 0; Pull 1; Pull 0; Destroy 1; Pull 0])
    = [AStack [VCst 1 DDec 0] []; AStack [VCst 2 DDec 0] []; AEnd []]
  | BErr _ => False
  end.
Proof. vm_compute. reflexivity. Qed.
