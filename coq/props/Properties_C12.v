(* C12 — a compiled query is a pure function of its input stack.
   Api.v models the C API over one compiled query; each result set owns its
   state; the input stack is a value (the model has no operation that could
   change it: that the C++ does not is checked by dumping it before and after).  (That NO state is shared between result sets in the C++ — statics,
   caches, mutable members — is what the correspondence check examines.) *)
From Coq Require Import ZArith NArith List Bool.
From Dwgrep Require Import Radix Value Words Tree Engine Build Api ApiProofs Quiet EngineProofs StarvedProofs.
Import ListNotations.

(* In any history of execute / pull / destroy operations over any number of
   result sets, what result set r is told is what it would be told if the
   operations on all other result sets were removed from the history. *)
Theorem C12_history_projection : forall P blks prog fuel r h t t',
  tget t r = tget t' r ->
  answers_for r (run_hist P blks prog fuel t h)
  = answers_for r (run_hist P blks prog fuel t' (filter (concerns r) h)).
Proof. exact history_projection. Qed.
Print Assumptions C12_history_projection.

(* in particular, starting from nothing: a fresh run *)
Corollary C12_fresh_run : forall P blks prog fuel r h,
  answers_for r (run_hist P blks prog fuel [] h)
  = answers_for r (run_hist P blks prog fuel [] (filter (concerns r) h)).
Proof. intros. apply history_projection. reflexivity. Qed.
Print Assumptions C12_fresh_run.

(* Stronger form: what result set r is told is a function of r's own
   operations alone (`view r h`: its executes, pulls, destroys, in order) -
   computed by `run_local`, which has no table and no identifiers. *)
Theorem C12_history_is_local : forall P blks prog fuel r h t,
  answers_for r (run_hist P blks prog fuel t h) = run_local P blks prog fuel (tget t r) (view r h).
Proof. exact history_is_local. Qed.
Print Assumptions C12_history_is_local.

(* Two executions driven the same way - in one history or in two, under any
   identifiers, with anything else going on in between - are told the same. *)
Theorem C12_same_view_same_answers : forall P blks prog fuel r1 r2 h1 h2 t1 t2,
  tget t1 r1 = tget t2 r2 -> view r1 h1 = view r2 h2 ->
  answers_for r1 (run_hist P blks prog fuel t1 h1) = answers_for r2 (run_hist P blks prog fuel t2 h2).
Proof. exact same_view_same_answers. Qed.
Print Assumptions C12_same_view_same_answers.

(* An execution on `input` pulled n times, wherever it sits in a history,
   yields what a fresh run on `input` pulled n times yields. *)
Theorem C12_as_a_fresh_run : forall P blks prog fuel r h t input n,
  view r h = LExec input :: repeat LPull n ->
  answers_for r (run_hist P blks prog fuel t h) = fresh_run P blks prog fuel input n.
Proof. exact as_a_fresh_run. Qed.
Print Assumptions C12_as_a_fresh_run.

(* A result set abandoned half-way and the identifier executed again: the new
   execution starts over, whatever was pulled before. *)
Theorem C12_reexecute_starts_over : forall P blks prog fuel r h t l input n,
  view r h = l ++ LExec input :: repeat LPull n ->
  exists before, answers_for r (run_hist P blks prog fuel t h) = before ++ fresh_run P blks prog fuel input n.
Proof. exact reexecute_starts_over. Qed.
Print Assumptions C12_reexecute_starts_over.

(* Consumed fully, and then asked again: once a result set (the engine model's
   chain for one execution) has reported the end, every later pull reports the
   end again - nothing, no diagnostic - and leaves the chain pristine. *)
Theorem C12_after_the_end : forall P blks, Forall quiet blks -> forall f env m sl s outs m1 c1 s1,
  quiet m -> drains P blks f env m (LOrigin sl) s outs m1 c1 s1 ->
  forall g s2 r m2 c2 s3 e, EngineM.next P blks g env m1 c1 s2 = Ret (r, m2, c2, s3, e) ->
  r = None /\ e = [] /\ quiet m2 /\ reset m2 = reset m /\ c2 = LOrigin None.
Proof. exact after_the_end. Qed.
Print Assumptions C12_after_the_end.

Example C12_nonvacuous :
  let tc := ValueM.mktc 2 3 4 5 [] in
  let P := mkparams tc (fun _ => 1%N) in
  let t := TAlt [TScope (TConst 1 DDec); TScope (TConst 2 DDec)] in
  match build_program tc t with
  | BOk (m, blks) =>
    answers_for 0 (run_hist P blks m 100 [] [Execute 0 []; Execute 1 [VCst 9 DDec 0]; Pull 0; Pull 1; Pull 0; Destroy 1; Pull 0])
    = [AStack [VCst 1 DDec 0] []; AStack [VCst 2 DDec 0] []; AEnd []]
  | BErr _ => False
  end.
Proof. vm_compute. reflexivity. Qed.
