(* C03 — names resolve lexically.  Scope.v: the documented scoping rules;
   Den.v: what reads and blocks mean; Build.v: bindings.cc / build.cc.
   Statements only. *)
From Coq Require Import ZArith NArith List Bool String.
From Dwgrep Require Import Radix Value Words Tree Engine Build Den Scope ScopeProofs.
Import ListNotations.
Local Open Scope string_scope.

(* bindings never leak out of a scope: every stack yielded by a scoped
   expression carries the environment the scope was entered with *)
Theorem C03_scope_no_leak : forall P prog f t env stk evs ab,
  den P prog (S f) (TScope t) env stk = DOk evs ab ->
  forall s e, List.In (DOut s e) evs -> e = env.
Proof. exact scope_no_leak. Qed.
Print Assumptions C03_scope_no_leak.

(* the rightmost identifier of a binding block takes the top of stack *)
Theorem C03_bind_rightmost_tos : forall P prog f a b v1 v2 r env,
  den P prog (S (S f)) (TCat [TBind b; TBind a]) env (v1 :: v2 :: r)
  = ok [DOut r ((a, v2) :: (b, v1) :: env)].
Proof. exact bind_rightmost_tos. Qed.
Print Assumptions C03_bind_rightmost_tos.

(* a name pushes exactly the value it was bound to ... *)
Theorem C03_read_sees_binding : forall P prog f n v env stk,
  dlookup env n = Some v -> is_closure v = false ->
  den P prog (S f) (TRead n) env stk = ok [DOut (v :: stk) env].
Proof. exact read_sees_binding. Qed.
Print Assumptions C03_read_sees_binding.

(* ... and the innermost binding of a name is the one that is seen *)
Theorem C03_inner_shadows : forall n v env, dlookup ((n, v) :: env) n = Some v.
Proof. exact inner_shadows. Qed.
Print Assumptions C03_inner_shadows.

(* blocks capture the bindings visible where they are created, and reading a
   name bound to a block behaves as the inlined body with those bindings *)
Theorem C03_block_captures_env : forall P prog f id body env stk,
  den P prog (S f) (TBlock id body) env stk = ok [DOut (VClo id (encode_env env) 0 :: stk) env].
Proof. exact block_captures_env. Qed.
Print Assumptions C03_block_captures_env.

Theorem C03_captured_env_is_kept : forall env, decode_env (encode_env env) = env.
Proof. exact decode_encode. Qed.
Print Assumptions C03_captured_env_is_kept.

Theorem C03_read_applies_block : forall P prog f n blk cenv pos env stk body,
  dlookup env n = Some (VClo blk cenv pos) -> find_block prog blk = Some body ->
  den P prog (S f) (TRead n) env stk = scoped env (den P prog f body (decode_env cenv) stk).
Proof. exact read_applies_block. Qed.
Print Assumptions C03_read_applies_block.

(* rebinding in one scope / reading an unbound name: compile-time errors *)
Theorem C03_rebound_rejected : forall tc n vis cur upm sc rest rt up st b,
  (mem_name n cur = true -> wsc tc (TBind n) vis cur = SErrR SRebound) /\
  (assoc sc n = Some b -> build tc (TBind n) upm (mkbn (sc :: rest) rt) up st = BErr BRebound).
Proof. intros; split; [apply rebound_rejected_doc | apply rebound_rejected_build]. Qed.
Print Assumptions C03_rebound_rejected.

Theorem C03_unbound_rejected : forall tc n vis cur upm st, assoc (voc_table tc) n = None ->
  (mem_name n vis = false -> wsc tc (TRead n) vis cur = SErrR SUnbound) /\
  build tc (TRead n) upm (mkbn [[]] true) UTop st = BErr BUnbound.
Proof. intros tc n vis cur upm st V; split; [intros; apply unbound_rejected_doc; auto | apply unbound_rejected_build; auto]. Qed.
Print Assumptions C03_unbound_rejected.

Theorem C03_alt_branch_no_leak : forall tc n, assoc (voc_table tc) n = None ->
  well_scoped tc (TCat [TAlt [TBind n; TNop]; TRead n]) = Some SUnbound.
Proof. exact alt_branch_no_leak. Qed.
Print Assumptions C03_alt_branch_no_leak.

(* non-vacuity: `let A := 1, 2; A A add` run by the engine model *)
Example C03_nonvacuous :
  let tc := ValueM.mktc 2 3 4 5 [] in
  let P := mkparams tc (fun _ => 1%N) in
  let A := nm "A" in
  let t := TCat [TSubx 1 (TScope (TAlt [TConst 1 DDec; TConst 2 DDec])); TBind A; TRead A; TRead A; TRead (nm "add")] in
  (match build_program tc t with
   | BOk (m, blks) => match run P blks 10 200 m [] with ODone evs => Some evs | _ => None end
   | BErr _ => None
   end) = Some [EvOut [VCst 2 DDec 0]; EvOut [VCst 4 DDec 0]]
  /\ den P t 50 t [] [] = ok [DOut [VCst 2 DDec 0] [(A, VCst 1 DDec 0)]; DOut [VCst 4 DDec 0] [(A, VCst 2 DDec 0)]].
Proof. split; vm_compute; reflexivity. Qed.
