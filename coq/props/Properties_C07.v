(* C07 — attribute values decode to the right type, value, sign and constant domain. *)
From Coq Require Import ZArith NArith List Bool Lia.
From Dwgrep Require Import Atval AtvalProofs CovModel Ranges RangesProofs TypeCtx TypeCtxProofs.
Import ListNotations.
Local Open Scope Z_scope.

(* sign extension of a w-byte datum is the two's complement reading of its bits: in
   range, congruent to the stored bits -- and the only such number (any width, any bits) *)
Theorem C07_sext_twos_complement : forall w bits, (0 < w)%N -> 0 <= bits < 2 ^ (8 * Z.of_N w) ->
  - 2 ^ (8 * Z.of_N w - 1) <= sext w bits < 2 ^ (8 * Z.of_N w - 1) /\ (sext w bits) mod 2 ^ (8 * Z.of_N w) = bits.
Proof. exact sext_twos_complement. Qed.
Theorem C07_sext_unique : forall w bits z, (0 < w)%N -> 0 <= bits < 2 ^ (8 * Z.of_N w) ->
  - 2 ^ (8 * Z.of_N w - 1) <= z < 2 ^ (8 * Z.of_N w - 1) -> z mod 2 ^ (8 * Z.of_N w) = bits -> z = sext w bits.
Proof. exact sext_unique. Qed.

(* integral data: signedness by the encoding of the DIE's (peeled) type *)
Theorem C07_const_value_signed : forall w bits enc, enc = ATE_signed \/ enc = ATE_signed_char ->
  at_value AT_const_value (RData w bits) (TEnc enc) = ACst (sext w bits) ADec.
Proof. exact const_value_signed. Qed.
Theorem C07_const_value_unsigned : forall w bits enc,
  enc = ATE_unsigned \/ enc = ATE_unsigned_char \/ enc = ATE_address \/ enc = ATE_UTF ->
  at_value AT_const_value (RData w bits) (TEnc enc) = ACst bits ADec.
Proof. exact const_value_unsigned. Qed.
Theorem C07_const_value_boolean : forall w bits, at_value AT_const_value (RData w bits) (TEnc ATE_boolean) = ACst bits ABool.
Proof. exact const_value_boolean. Qed.
Theorem C07_const_value_pointer : forall w bits, at_value AT_const_value (RData w bits) TPointer = ACst bits AAddr.
Proof. exact const_value_pointer. Qed.
(* ... or by the form *)
Theorem C07_form_decides_sign : forall name z c, own_domain name = false ->
  at_value name (RSdata z) c = ACst z ADec /\ at_value name (RUdata z) c = ACst z ADec.
Proof. exact form_decides_sign. Qed.
(* enumerated attributes as the matching family of named constants *)
Theorem C07_enumerated_in_family : forall name r c z, member name enumerated = true -> uval r = Some z ->
  (forall big b, r <> RBlock big b) -> at_value name r c = ACst z (AFam name).
Proof. exact enumerated_in_family. Qed.
(* strings, references, flags, addresses *)
Theorem C07_plain_classes : forall name c,
  (forall b, at_value name (RStr b) c = AStr b) /\ (forall o, at_value name (RRef o) c = ARef o) /\
  (forall b, at_value name (RFlag b) c = ACst (if b then 1 else 0) ABool) /\ (forall n, at_value name (RAddr n) c = ACst n AAddr).
Proof. exact plain_classes. Qed.
(* what is not interpreted is reported as an error, never silently a number *)
Theorem C07_uninterpreted_encoding_is_error : forall w bits enc,
  In enc [ATE_float; ATE_imaginary_float; ATE_complex_float; ATE_signed_fixed; ATE_unsigned_fixed; ATE_packed_decimal; ATE_decimal_float] ->
  at_value AT_const_value (RData w bits) (TEnc enc) = AErr.
Proof. exact const_value_uninterpreted_encoding. Qed.
Theorem C07_discr_value_is_error : forall w bits c, at_value AT_discr_value (RData w bits) c = AErr.
Proof. exact discr_value_is_error. Qed.
Theorem C07_unknown_form_is_error : forall name c, at_value name ROther c = AErr.
Proof. exact unknown_form_is_error. Qed.
(* DW_AT_ranges: the address set holds exactly the addresses of the stored ranges (any number of them, in any
   order, overlapping or not, empty ones included); an empty entry neither adds anything nor ends the list *)
Theorem C07_ranges_denote_stored_ranges : forall rs, (forall r, In r rs -> proper r) ->
  CovM.Inv (RangesM.die_ranges rs) /\ forall x, CovM.mem (RangesM.die_ranges rs) x <-> exists r, In r rs /\ fst r <= x < snd r.
Proof. exact die_ranges_ok. Qed.
Theorem C07_empty_range_entry_is_skipped : forall pre a post, (forall r, In r (pre ++ (a, a) :: post) -> proper r) ->
  forall x, CovM.mem (RangesM.die_ranges (pre ++ (a, a) :: post)) x <-> CovM.mem (RangesM.die_ranges (pre ++ post)) x.
Proof. exact empty_entry_is_skipped. Qed.
Example C07_ranges_nonvacuous :
  RangesM.die_ranges [(4096, 4112); (1, 1); (8192, 8256); (4100, 4120)] = [(4096, 24); (8192, 64)]
  /\ (forall r, In r [(4096, 4112); (1, 1); (8192, 8256); (4100, 4120)] -> proper r).
Proof. split; [vm_compute; reflexivity|]. intros r H. cbn [In] in H. unfold proper, CovM.TOP.
  repeat (destruct H as [<-|H]; [cbn [fst snd]; lia|]). destruct H. Qed.

(* the type context of a DW_AT_const_value (model dw/TypeCtx.v of get_type_die and the tests after it):
   typedefs and qualifiers in front of a type are transparent, at any depth (apply repeatedly); a base type
   gives its encoding; a pointer is a pointer whatever it points to; an enumerator takes the encoding of
   the enumeration's underlying type *)
Import TypeCtxM.
Theorem C07_qualifiers_transparent : forall f ts o w o' r,
  lookup ts o = Some w -> keep_peeling (td_tag w) = true -> td_type w = Some o' ->
  var_ctx f ts (Some o') = Some r -> var_ctx (S f) ts (Some o) = Some r.
Proof. exact qualifier_transparent. Qed.
Theorem C07_base_type_gives_its_encoding : forall f ts o t e,
  lookup ts o = Some t -> td_tag t = TAG_base_type -> td_enc t = Some e -> var_ctx (S f) ts (Some o) = Some (TEnc e).
Proof. exact base_type_encoding. Qed.
Theorem C07_pointer_is_pointer : forall f ts o t,
  lookup ts o = Some t -> (td_tag t = TAG_pointer_type \/ td_tag t = TAG_ptr_to_member_type) -> var_ctx (S f) ts (Some o) = Some TPointer.
Proof. exact pointer_is_pointer. Qed.
Theorem C07_enumerator_takes_underlying_encoding : forall f ts p o t e,
  td_tag p = TAG_enumeration_type -> td_type p = Some o -> lookup ts o = Some t -> td_tag t = TAG_base_type -> td_enc t = Some e ->
  enumerator_ctx (S f) ts p = Some (TEnc e).
Proof. exact enumerator_underlying. Qed.
Theorem C07_context_stable_under_fuel : forall f g ts d r, (f <= g)%nat -> ctx_from f ts d = Some r -> ctx_from g ts d = Some r.
Proof. exact ctx_more. Qed.
(* a termination argument that is not there: the loop of get_type_die has no bound, a circular chain of
   typedefs / qualifiers (malformed DWARF) is never left *)
Theorem C07_circular_type_chain_never_ends : forall ts o w,
  lookup ts o = Some w -> keep_peeling (td_tag w) = true -> td_type w = Some o -> forall f, peel f ts w = None.
Proof. exact circular_chain_never_ends. Qed.
Example C07_type_context_nonvacuous :
  let ts := [(10%N, mktd TAG_typedef (Some 20%N) None false []); (20%N, mktd TAG_const_type (Some 30%N) None false []);
             (30%N, mktd TAG_base_type None (Some 7%N) false [])] in
  var_ctx 5 ts (Some 10%N) = Some (TEnc 7) /\ var_ctx 5 ts (Some 30%N) = Some (TEnc 7) /\ var_ctx 5 ts None = Some TNoInfo.
Proof. vm_compute. auto. Qed.

(* block-form constants are read in the byte order of the file *)
Theorem C07_block_constant_byte_order : forall b enc, encoding_value (RBlock true b) enc = encoding_value (RBlock false (rev b)) enc.
Proof. exact block_byte_order. Qed.
Example C07_big_endian_block : at_value AT_const_value (RBlock true [254; 212]%N) (TEnc ATE_signed) = ACst (-300) ADec
                            /\ at_value AT_const_value (RBlock false [212; 254]%N) (TEnc ATE_signed) = ACst (-300) ADec.
Proof. vm_compute. auto. Qed.

Print Assumptions C07_sext_twos_complement.
Print Assumptions C07_block_constant_byte_order.
Print Assumptions C07_qualifiers_transparent.
Print Assumptions C07_base_type_gives_its_encoding.
Print Assumptions C07_pointer_is_pointer.
Print Assumptions C07_enumerator_takes_underlying_encoding.
Print Assumptions C07_context_stable_under_fuel.
Print Assumptions C07_circular_type_chain_never_ends.
Print Assumptions C07_ranges_denote_stored_ranges.
Print Assumptions C07_empty_range_entry_is_skipped.
Print Assumptions C07_sext_unique.
Print Assumptions C07_const_value_signed.
Print Assumptions C07_const_value_unsigned.
Print Assumptions C07_const_value_boolean.
Print Assumptions C07_const_value_pointer.
Print Assumptions C07_form_decides_sign.
Print Assumptions C07_enumerated_in_family.
Print Assumptions C07_plain_classes.
Print Assumptions C07_uninterpreted_encoding_is_error.
Print Assumptions C07_discr_value_is_error.
Print Assumptions C07_unknown_form_is_error.

Example C07_example : at_value AT_const_value (RData 1 255) (TEnc ATE_signed) = ACst (-1) ADec
                      /\ at_value AT_const_value (RBlock false [255; 255]%N) (TEnc ATE_unsigned) = ACst 65535 ADec
                      /\ at_value AT_language (RUdata 12) TNoInfo = ACst 12 (AFam AT_language).
Proof. vm_compute. auto. Qed.
