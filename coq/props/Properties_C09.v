(* C09 — comparison is one consistent total order; equality respects constant
   domains.  Model: coq/val/Cmp.v (constant::operator<, value::cmp of
   constants, strings, sequences, address sets, comparison_result and the
   alias table of init.cc).  `comparable v` excludes the hidden closure type;
   `tcodes_distinct` says the four value_type codes differ (observed on the
   implementation by the correspondence check).  Statements only. *)
From Coq Require Import ZArith NArith List Bool.
From Dwgrep Require Import CovModel Cmp CmpProofs.
Import ListNotations.
Local Open Scope Z_scope.

Section C09.
  Variables (d : N) (tc : tcodes).
  Hypothesis ND : tcodes_distinct tc.
  Let ok (v : value) := comparable v = true.

  (* exactly one of <, ==, > holds, without error, also across types *)
  Theorem C09_trichotomy : forall a b, ok a -> ok b ->
    (w_lt d tc a b = Some true /\ w_eq d tc a b = Some false /\ w_gt d tc a b = Some false) \/
    (w_lt d tc a b = Some false /\ w_eq d tc a b = Some true /\ w_gt d tc a b = Some false) \/
    (w_lt d tc a b = Some false /\ w_eq d tc a b = Some false /\ w_gt d tc a b = Some true).
  Proof. exact (words_trichotomy d tc ND). Qed.

  (* == is reflexive (a value equals its own copy), symmetric, transitive *)
  Theorem C09_eq_refl : forall a, ok a -> w_eq d tc a a = Some true.
  Proof. exact (words_eq_refl d tc ND). Qed.
  Theorem C09_eq_sym : forall a b, ok a -> ok b -> w_eq d tc a b = Some true -> w_eq d tc b a = Some true.
  Proof. exact (words_eq_sym d tc ND). Qed.
  Theorem C09_eq_trans : forall a b c, ok a -> ok b -> ok c ->
    w_eq d tc a b = Some true -> w_eq d tc b c = Some true -> w_eq d tc a c = Some true.
  Proof. exact (words_eq_trans d tc ND). Qed.

  (* < is transitive and antisymmetric, A < B iff B > A *)
  Theorem C09_lt_trans : forall a b c, ok a -> ok b -> ok c ->
    w_lt d tc a b = Some true -> w_lt d tc b c = Some true -> w_lt d tc a c = Some true.
  Proof. exact (words_lt_trans d tc ND). Qed.
  Theorem C09_lt_antisym : forall a b, ok a -> ok b -> w_lt d tc a b = Some true -> w_lt d tc b a = Some false.
  Proof. exact (words_lt_antisym d tc ND). Qed.
  Theorem C09_lt_gt_dual : forall a b, ok a -> ok b -> w_lt d tc a b = w_gt d tc b a.
  Proof. exact (words_lt_gt_dual d tc ND). Qed.

  (* equal values are interchangeable under < (strict weak order) *)
  Theorem C09_eq_lt_compat : forall a b c, ok a -> ok b -> ok c ->
    w_eq d tc a b = Some true ->
    w_lt d tc a c = w_lt d tc b c /\ w_lt d tc c a = w_lt d tc c b.
  Proof. exact (words_eq_lt_compat d tc ND). Qed.

  (* every alias agrees: !lt = ?ge, !gt = ?le, !eq = ?ne (infix forms are the
     same builtins under other names) *)
  Theorem C09_aliases : forall a b,
    w_ge d tc a b = onot (w_lt d tc a b) /\ w_le d tc a b = onot (w_gt d tc a b) /\
    w_ne d tc a b = onot (w_eq d tc a b).
  Proof. exact (words_aliases d tc). Qed.

  Theorem C09_cross_type_no_error : forall a b, ok a -> ok b -> cmp_top d tc a b <> None.
  Proof. exact (words_cross_type_no_error d tc ND). Qed.

  (* integers in arithmetic domains compare by value *)
  Theorem C09_arith_by_value : forall x y, arith x = true -> arith y = true ->
    w_lt d tc (VCst x) (VCst y) = Some (cv x <? cv y) /\ w_eq d tc (VCst x) (VCst y) = Some (cv x =? cv y).
  Proof. exact (words_arith_by_value d tc). Qed.

  (* constants of unrelated domains are never equal, whatever their numbers *)
  Theorem C09_unrelated_never_equal : forall x y, ckey d x <> ckey d y ->
    w_eq d tc (VCst x) (VCst y) = Some false.
  Proof. exact (words_unrelated_never_equal d tc). Qed.

  (* sequences compare by length first *)
  Theorem C09_seq_length_first : forall l m, (length l < length m)%nat ->
    w_lt d tc (VSeq l) (VSeq m) = Some true.
  Proof. exact (words_seq_length_first d tc). Qed.
End C09.

Print Assumptions C09_trichotomy.
Print Assumptions C09_eq_refl.
Print Assumptions C09_eq_sym.
Print Assumptions C09_eq_trans.
Print Assumptions C09_lt_trans.
Print Assumptions C09_lt_antisym.
Print Assumptions C09_lt_gt_dual.
Print Assumptions C09_eq_lt_compat.
Print Assumptions C09_aliases.
Print Assumptions C09_cross_type_no_error.
Print Assumptions C09_arith_by_value.
Print Assumptions C09_unrelated_never_equal.
Print Assumptions C09_seq_length_first.

(* strings compare bytewise: the comparison used is the lexicographic order on
   unsigned bytes *)
Theorem C09_str_bytewise : forall s t, bytes_cmp s t = list_lex N.compare s t.
Proof. exact bytes_cmp_lex. Qed.
Print Assumptions C09_str_bytewise.

(* non-vacuity: a decimal 3 equals a hex 3; a named constant with the same
   number does not; a nested sequence is comparable with itself *)
Example C09_nonvacuous :
  let tc := mktc 1 2 3 4 in
  let three := VCst (mkcst 3 true 0) in
  let named := VCst (mkcst 3 false 7) in
  tcodes_distinct tc /\
  w_eq 2 tc three (VCst (mkcst 3 true 5)) = Some true /\
  w_eq 2 tc three named = Some false /\
  comparable (VSeq [three; VStr [97%N]; VSeq [named]]) = true /\
  w_lt 2 tc (VSeq [three]) (VSeq [three; three]) = Some true.
Proof.
  cbv zeta. repeat split; try reflexivity.
  unfold tcodes_distinct. cbn. repeat constructor; cbn; intuition discriminate.
Qed.

(* ---- DIEs and units (value_die::cmp, value_cu::cmp; model val/DieCmp.v) ---- *)
From Dwgrep Require Import DieCmp DieCmpProofs.
Import DieCmpM.

(* a DIE equals itself; the comparison read the other way round is the opposite *)
Theorem C09_die_refl : forall a, die_cmp a a = Eq.
Proof. exact die_cmp_refl. Qed.
Theorem C09_die_dual : forall a b, die_cmp b a = CompOpp (die_cmp a b).
Proof. exact die_cmp_antisym. Qed.
(* among cooked DIEs reached through the same number of imports: equal only when they are the same DIE
   reached the same way, and <, ==, > each transitive (any chain length, any offsets) *)
Theorem C09_die_equal_is_same : forall a b, cooked a = true -> cooked b = true -> depth a = depth b ->
  die_cmp a b = Eq -> a = b.
Proof. exact die_cmp_eq_same. Qed.
Theorem C09_die_transitive : forall a b c r, cooked a = true -> cooked b = true -> cooked c = true ->
  depth a = depth b -> depth b = depth c -> die_cmp a b = r -> die_cmp b c = r -> die_cmp a c = r.
Proof. exact die_cmp_trans. Qed.
(* the full statement (transitivity for all DIEs) is false of the model, as it is of the code: finding D32.
   The witness is the triple the check reports on tests/dwz-partial2-1 (DIE 0x14 through the import at 0x30,
   as a reference target, through the import at 0x9b). *)
Theorem C09_die_eq_transitive_refuted : exists a b c,
  die_cmp a b = Eq /\ die_cmp b c = Eq /\ die_cmp a c <> Eq.
Proof. exists (via 48), plain, (via 155). destruct die_eq_not_transitive as [H1 [H2 H3]]. rewrite H3. repeat split; auto; discriminate. Qed.
(* what == on the cooked DIEs of one file is, exactly: the same offset, and of the two chains of imports the
   DIEs were reached through (innermost import first) one is an initial part of the other.  Hence a DIE reached
   without imports equals every route to it (D32), and routes through equally many imports are equal only when
   they are the same route. *)
Theorem C09_die_equality_characterised : forall o1 c1 o2 c2,
  die_cmp (route o1 c1) (route o2 c2) = Eq <-> o1 = o2 /\ (prefix c1 c2 \/ prefix c2 c1).
Proof. exact route_eq_iff. Qed.
Theorem C09_chainless_equals_every_route : forall o c, die_cmp (route o []) (route o c) = Eq.
Proof. exact chainless_equals_every_route. Qed.
Theorem C09_equal_length_routes_equal_is_same : forall o1 c1 o2 c2, length c1 = length c2 ->
  die_cmp (route o1 c1) (route o2 c2) = Eq -> o1 = o2 /\ c1 = c2.
Proof. exact equal_length_routes. Qed.
(* two units are equal only when they are the same unit of the same module *)
Theorem C09_units_equal_is_same : forall a b, cu_cmp a b = Eq <-> a = b.
Proof. exact cu_cmp_eq. Qed.
Example C09_die_nonvacuous :
  cooked (via 48) = true /\ cooked (via 155) = true /\ depth (via 48) = depth (via 155) /\ die_cmp (via 48) (via 155) = Lt.
Proof. vm_compute. auto. Qed.

Print Assumptions C09_die_refl.
Print Assumptions C09_die_equality_characterised.
Print Assumptions C09_chainless_equals_every_route.
Print Assumptions C09_equal_length_routes_equal_is_same.
Print Assumptions C09_die_dual.
Print Assumptions C09_die_equal_is_same.
Print Assumptions C09_die_transitive.
Print Assumptions C09_die_eq_transitive_refuted.
Print Assumptions C09_units_equal_is_same.
