(* C11 — core words do what their documentation says; dispatch depends only on
   the values near the top of the stack.  Models: Words.v (the words),
   Profile.v (stack.hh's cached type profile, selector.hh). *)
From Coq Require Import ZArith NArith List Bool Lia.
From Dwgrep Require Import Radix Value Words WordsProofs Profile ProfileProofs.
Import ListNotations.
Local Open Scope Z_scope.

(* any history of push / pop / drop leaves the cached profile equal to the
   type codes of the top four values: how the stack was built is forgotten *)
Theorem C11_profile_invariant : forall ops s p s' p',
  wf_codes s -> p = prof s ->
  Forall (fun o => match o with Push c => 0 < c < 256 | _ => True end) ops ->
  run_ops ops (s, p) = Some (s', p') -> wf_codes s' /\ p' = prof s'.
Proof. exact profile_invariant. Qed.
Print Assumptions C11_profile_invariant.

(* an overload with a one-/two-type selector is picked iff the top one/two
   values have those types *)
Theorem C11_selector1 : forall t s, 0 < t < 256 -> wf_codes s ->
  (sel_matches [t] (prof s) = true <-> exists r, s = t :: r).
Proof. exact selector1_matches_iff. Qed.
Theorem C11_selector2 : forall t1 t0 s, 0 < t0 < 256 -> 0 < t1 < 256 -> wf_codes s ->
  (sel_matches [t0; t1] (prof s) = true <-> exists r, s = t0 :: t1 :: r).
Proof. exact selector2_matches_iff. Qed.
Print Assumptions C11_selector1.
Print Assumptions C11_selector2.

(* ?find, ?starts, ?ends agree with the byte-string model, including empty
   operands and needles longer than the haystack *)
Theorem C11_find_is_infix : forall n h,
  infix_b N.eqb n h = true <-> exists pre post, h = pre ++ n ++ post.
Proof. exact infix_b_spec. Qed.
Theorem C11_starts_is_prefix : forall n h, prefix_b N.eqb n h = true <-> exists post, h = n ++ post.
Proof. exact prefix_b_spec. Qed.
Theorem C11_ends_is_suffix : forall n h, suffix_b N.eqb n h = true <-> exists pre, h = pre ++ n.
Proof. exact suffix_b_spec. Qed.
Print Assumptions C11_find_is_infix.
Print Assumptions C11_starts_is_prefix.
Print Assumptions C11_ends_is_suffix.

(* elem numbers its results 0, 1, 2, ...; relem is elem of the reversed walk *)
Theorem C11_elem_numbers : forall l k d, (k < length l)%nat ->
  nth k (number l) d = set_pos (nth k l d) (N.of_nat k).
Proof. exact number_spec. Qed.
Theorem C11_relem_reversed : forall P l p r,
  run_word P WRelem (VSeq l p :: r) = run_word P WElem (VSeq (rev l) p :: r).
Proof. exact relem_is_elem_of_reverse. Qed.
Print Assumptions C11_elem_numbers.
Print Assumptions C11_relem_reversed.

Theorem C11_length_add : forall P r,
  ((forall s p, run_word P WLength (VStr s p :: r) = WOut [VCst (Z.of_nat (length s)) DDec 0 :: r] []) /\
   (forall l p, run_word P WLength (VSeq l p :: r) = WOut [VCst (Z.of_nat (length l)) DDec 0 :: r] [])) /\
  ((forall a pa b pb, run_word P WAdd (VStr b pb :: VStr a pa :: r) = WOut [VStr (a ++ b) 0 :: r] []) /\
   (forall a pa b pb, run_word P WAdd (VSeq b pb :: VSeq a pa :: r) = WOut [VSeq (a ++ b) 0 :: r] [])).
Proof. intros; split; [apply length_spec | apply add_spec]. Qed.
Print Assumptions C11_length_add.

(* an operand of an unsupported type: a diagnostic and no result, never a wrong one *)
Theorem C11_unsupported_no_result : forall P z d p r,
  run_word P WLength (VCst z d p :: r) = WOut [] [SErr] /\
  run_word P WElem (VCst z d p :: r) = WOut [] [SErr] /\
  run_word P WAdd (VCst z d p :: VStr [] 0 :: r) = WOut [] [SErr].
Proof. exact unsupported_no_result. Qed.
Print Assumptions C11_unsupported_no_result.

Theorem C11_shuffle : forall P a b c r,
  run_word P WDup (a :: r) = WOut [a :: a :: r] [] /\
  run_word P WDrop (a :: r) = WOut [r] [] /\
  run_word P WSwap (a :: b :: r) = WOut [b :: a :: r] [] /\
  run_word P WOver (a :: b :: r) = WOut [b :: a :: b :: r] [] /\
  run_word P WRot (a :: b :: c :: r) = WOut [c :: a :: b :: r] [].
Proof. exact shuffle_spec. Qed.
Print Assumptions C11_shuffle.

Theorem C11_cast_keeps_value : forall P z d p dom r,
  run_word P (WCast dom) (VCst z d p :: r) = WOut [VCst z dom 0 :: r] [].
Proof. exact cast_keeps_value. Qed.
Print Assumptions C11_cast_keeps_value.

Example C11_nonvacuous :
  wf_codes [2; 3; 4; 2; 3] /\
  run_ops [Push 2; Push 3; Push 4; Push 2; Push 3; Pop; Pop; Drop 1; Push 4] ([], 0)
  = Some ([4; 3; 2], 4 + 3 * 256 + 2 * 65536).
Proof. split; [repeat constructor; lia | vm_compute; reflexivity]. Qed.
