(* C10 — `*`/`+` yield each reachable stack exactly once per input.
   Statements about the closure operator of the specification (Den.v,
   closure_loop: `E*` on stk is stk followed by closure_loop … [stk] [stk],
   `E+` is closure_loop … [stk] []), for an arbitrary body `step`.
   `a == b` is stack_eqb; positions are not part of it.
   At the end: the same "at most once" for the op of the engine model
   (op_tr_closure), whose equality with the specification is tested. *)
From Coq Require Import ZArith NArith List Bool String.
From Dwgrep Require Import Radix Value ValueProofs Words Tree Engine Build Den ClosureProofs ClosureEngine.
Import ListNotations.
Local Open Scope string_scope.

(* each distinct stack at most once: no yielded stack == an earlier one, nor
   a member of the seen-set the closure started with ([stk] for `*`) *)
Theorem C10_no_duplicates : forall step env g work seen evs ab,
  closure_loop step env g work seen = DOk evs ab -> fresh_wrt seen (outs_of evs).
Proof. exact closure_no_dup. Qed.
Print Assumptions C10_no_duplicates.

(* only reachable stacks: whatever is yielded is reachable from the input in
   one or more applications of the body *)
Theorem C10_sound : forall step env g work seen evs ab,
  closure_loop step env g work seen = DOk evs ab ->
  forall x, List.In x (outs_of evs) -> exists w, List.In w work /\ reach_plus step w x.
Proof. exact closure_sound. Qed.
Print Assumptions C10_sound.

(* every reachable stack: if the evaluation finishes, the input together with
   the yielded stacks contains (up to ==) everything reachable from the input.
   Hypotheses: on the stacks concerned (dom) == is reflexive, the body maps dom
   into dom and treats == stacks alike.  (== is symmetric and transitive on
   all stacks and reflexive on closure-free ones: C10_eq_* below.) *)
Theorem C10_star_complete : forall step env (dom : stack -> Prop),
  (forall a, dom a -> stack_eqb a a = true) ->
  (forall a b, stack_eqb a b = true -> stack_eqb b a = true) ->
  (forall a b c, stack_eqb a b = true -> stack_eqb b c = true -> stack_eqb a c = true) ->
  (forall a b, dom a -> succ step a b -> dom b) ->
  (forall a a' b, dom a -> dom a' -> stack_eqb a a' = true -> succ step a b ->
                  exists b', succ step a' b' /\ stack_eqb b b' = true) ->
  forall g stk evs, dom stk ->
  closure_loop step env g [stk] [stk] = DOk evs false ->
  forall x, reach_star step stk x -> seen_mem x (stk :: outs_of evs) = true.
Proof.
  intros step env dom R S T D Re g stk evs Ds H x Rx.
  eapply star_complete; eauto.
Qed.
Print Assumptions C10_star_complete.

Theorem C10_eq_sym : forall a b, stack_eqb a b = true -> stack_eqb b a = true.
Proof. exact stack_eqb_sym. Qed.
Theorem C10_eq_trans : forall a b c, stack_eqb a b = true -> stack_eqb b c = true -> stack_eqb a c = true.
Proof. exact stack_eqb_trans. Qed.
Theorem C10_eq_refl : forall a, closure_free a -> stack_eqb a a = true.
Proof. exact stack_eqb_refl. Qed.
Print Assumptions C10_eq_sym.
Print Assumptions C10_eq_trans.
Print Assumptions C10_eq_refl.

(* ---- the engine model's op_tr_closure ---- *)

(* whatever a pull of the closure op yields is not == to anything in its
   seen-set, and is put there; the seen-set it is compared against is the one
   the pull started with, or the empty one if the pull took the next input *)
Theorem C10_engine_yield_is_fresh : forall P blks f env up inner plus slot seen stks drained c s stk m' c' s' e,
  EngineM.next P blks f env (MClosure up inner plus slot seen stks drained) c s = Ret (Some stk, m', c', s', e) ->
  exists up' inner' sl' seen0 stks' dr',
    m' = MClosure up' inner' plus sl' (stk :: seen0) stks' dr' /\
    seen_mem stk seen0 = false /\ (seen0 = seen \/ seen0 = []).
Proof. exact closure_yield_is_fresh. Qed.
Print Assumptions C10_engine_yield_is_fresh.

(* so the stacks yielded for one input (= the seen-set) are pairwise different, pull after pull *)
Theorem C10_engine_seen_distinct : forall P blks f env up inner plus slot seen stks drained c s stk m' c' s' e,
  distinct seen ->
  EngineM.next P blks f env (MClosure up inner plus slot seen stks drained) c s = Ret (Some stk, m', c', s', e) ->
  exists up' inner' sl' seen' stks' dr', m' = MClosure up' inner' plus sl' seen' stks' dr' /\ distinct seen' /\ hd_error seen' = Some stk.
Proof. exact closure_seen_distinct. Qed.
Print Assumptions C10_engine_seen_distinct.

(* and the op reports the end with nothing remembered *)
Theorem C10_engine_end_is_clean : forall P blks f env up inner plus slot seen stks drained c s m' c' s' e,
  EngineM.next P blks f env (MClosure up inner plus slot seen stks drained) c s = Ret (None, m', c', s', e) ->
  exists up' inner' sl', m' = MClosure up' inner' plus sl' [] [] true.
Proof. exact closure_end_is_clean. Qed.
Print Assumptions C10_engine_end_is_clean.

(* non-vacuity: 0 (1 add 3 mod)* in the specification and in the engine model *)
Example C10_nonvacuous :
  let tc := ValueM.mktc 2 3 4 5 [] in
  let P := mkparams tc (fun _ => 1%N) in
  let body := TScope (TCat [TConst 1 DDec; TRead (nm "add"); TConst 3 DDec; TRead (nm "mod")]) in
  let t := TCat [TConst 0 DDec; TStar body] in
  den P t 50 t [] [] = ok [DOut [VCst 0 DDec 0] []; DOut [VCst 1 DDec 0] []; DOut [VCst 2 DDec 0] []]
  /\ (match build_program tc t with
      | BOk (m, blks) => match run P blks 10 200 m [] with ODone evs => Some evs | _ => None end
      | BErr _ => None
      end) = Some [EvOut [VCst 0 DDec 0]; EvOut [VCst 1 DDec 0]; EvOut [VCst 2 DDec 0]].
Proof. split; vm_compute; reflexivity. Qed.
