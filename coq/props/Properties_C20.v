(* C20 — printed values are faithful. *)
From Coq Require Import ZArith NArith List Bool.
From Dwgrep Require Import Radix RadixProofs Value ParseInt ParseIntProofs.
Import ListNotations.
Local Open Scope Z_scope.

(* integers render in their domain's radix such that reading the text back as
   a literal gives the same value in the same domain -- for EVERY value of the
   64-bit signed/unsigned range *)
Theorem C20_dec_render_parse : forall z, - 2^63 <= z <= 2^64 - 1 -> parse_int (show_dec z) = PInt z DDec.
Proof. exact dec_render_parse. Qed.
Theorem C20_hex_render_parse : forall z, - 2^63 <= z <= 2^64 - 1 -> z <> 0 -> parse_int (show_hex z) = PInt z DHex.
Proof. exact hex_render_parse. Qed.
Theorem C20_oct_render_parse : forall z, - 2^63 <= z <= 2^64 - 1 -> z <> 0 -> parse_int (show_oct z) = PInt z DOct.
Proof. exact oct_render_parse. Qed.
Theorem C20_bin_render_parse : forall z, - 2^63 <= z <= 2^64 - 1 -> z <> 0 -> parse_int (show_bin z) = PInt z DBin.
Proof. exact bin_render_parse. Qed.
Print Assumptions C20_dec_render_parse.
Print Assumptions C20_hex_render_parse.
Print Assumptions C20_oct_render_parse.
Print Assumptions C20_bin_render_parse.

(* the one exception, recorded as a known finding: zero in a hex/oct/bin
   domain prints "0" and reads back as decimal zero (equal value, other domain) *)
Theorem C20_zero_refuted :
  parse_int (show_hex 0) = PInt 0 DDec /\ parse_int (show_oct 0) = PInt 0 DDec /\ parse_int (show_bin 0) = PInt 0 DDec.
Proof. exact zero_reads_back_decimal. Qed.
Print Assumptions C20_zero_refuted.

(* digits: reading back what was rendered, any base from 2 to 16 *)
Theorem C20_digits_roundtrip : forall base n, (2 <= base <= 16)%N -> read_digits base (digits base n) 0 = Some n.
Proof. exact digits_roundtrip. Qed.
Print Assumptions C20_digits_roundtrip.

(* ---- the CLI's nested (brief) string rendering ---- *)
From Dwgrep Require Import Escape EscapeProofs.
Local Open Scope N_scope.

(* what dump_charp prints for a string, followed by anything that does not
   start a string continuation, is scanned by the lexer as one literal holding
   exactly the original bytes -- for every byte string *)
Theorem C20_escape_roundtrip : forall s rest,
  Forall (fun c => c < 256) s -> no_continuation rest ->
  lex_string (esc s ++ rest) = Some (LexLit s rest).
Proof. exact escape_roundtrip. Qed.
Print Assumptions C20_escape_roundtrip.

(* so different strings never print alike *)
Theorem C20_escape_injective : forall s1 s2,
  Forall (fun c => c < 256) s1 -> Forall (fun c => c < 256) s2 -> esc s1 = esc s2 -> s1 = s2.
Proof. exact escape_injective. Qed.
Print Assumptions C20_escape_injective.

(* and the rendering is printable ASCII only: no raw newline, NUL or high byte *)
Theorem C20_escape_printable : forall s, Forall (fun c => c < 256) s -> Forall (fun b => 32 <= b <= 126) (esc s).
Proof. exact esc_printable. Qed.
Print Assumptions C20_escape_printable.

Example C20_escape_example :
  esc [97; 34; 0; 49; 37; 255] = [34; 97; 92; 34; 92; 120; 48; 48; 49; 37; 37; 92; 120; 102; 102; 34].
Proof. vm_compute. reflexivity. Qed.

(* ---- the table of named constants (regenerated from the code on every run) ---- *)
From Dwgrep Require Import VocTable VocProofs.

Theorem C20_header_values : forall name v r,
  In (name, v) hdr_rows -> In r voc_rows -> r_word r = name -> r_val r = v.
Proof. exact header_values. Qed.
Print Assumptions C20_header_values.

Theorem C20_rendering_reads_back : forall r, In r voc_rows ->
  exists r', In r' voc_rows /\ r_word r' = r_show r /\ r_val r' = r_val r /\ r_dom r' = r_dom r.
Proof. exact rendering_reads_back. Qed.
Print Assumptions C20_rendering_reads_back.

Theorem C20_renderings_unambiguous : forall r r', In r voc_rows -> In r' voc_rows ->
  r_show r' = r_show r -> r_val r' = r_val r /\ r_dom r' = r_dom r.
Proof. exact renderings_unambiguous. Qed.
Print Assumptions C20_renderings_unambiguous.

Example C20_tables_populated : (500 <? N.of_nat (length voc_rows))%N = true /\ (500 <? N.of_nat (length hdr_rows))%N = true.
Proof. exact tables_populated. Qed.
