(* C19 — the command line honours its grep-like contract. *)
From Coq Require Import NArith List Bool Arith.
From Dwgrep Require Import Cli CliProofs.
Import ListNotations.

(* the "bump argument list" loop walks through every index vector exactly
   once, in row-major order, and then stops -- whatever the number of
   arguments and of their values (every argument having at least one) *)
Theorem C19_odometer_walk : forall sizes, Forall (fun n => 0 < n) sizes ->
  Steps sizes (zeros sizes) (all_idx sizes).
Proof. exact odometer_walk. Qed.
Print Assumptions C19_odometer_walk.

Theorem C19_row_major : forall args, map (pick args) (all_idx (map (@length val) args)) = combos args.
Proof. exact row_major. Qed.
Print Assumptions C19_row_major.

(* hence the whole program is a fold over the combinations; the fuel of the
   model's loop never runs out *)
Theorem C19_cli_is_fold : forall o files args exec,
  let args' := effective_args files args in
  Forall (fun a => a <> []) args' ->
  cli o true files args exec =
  Some (fold_run o (header_on o args') (negb (match files with [] => true | _ => false end)) args' exec
                 (all_idx (map (@length val) args')) (mkls [] (initial_errors o files) false false)).
Proof. exact cli_is_fold. Qed.
Print Assumptions C19_cli_is_fold.

(* exit status without -q *)
Theorem C19_status_without_quiet : forall o wh fif args exec l, o_quiet o = false -> forall st,
  status (fold_run o wh fif args exec l st) =
  if l_errors st || existsb (fun i => ex_raised (exec (pick args i))) l then 2%N
  else if l_match st || existsb (fun i => has_results (exec (pick args i))) l then 0%N else 1%N.
Proof. exact status_without_quiet. Qed.
Print Assumptions C19_status_without_quiet.

(* -q *)
Theorem C19_quiet_stdout : forall o wh fif args exec l, o_quiet o = true -> forall st, l_out st = [] ->
  stdout (fold_run o wh fif args exec l st) = [].
Proof. exact quiet_stdout. Qed.
Print Assumptions C19_quiet_stdout.

Theorem C19_quiet_status : forall o wh fif args exec l, o_quiet o = true ->
  forall st, l_errors st = false -> l_match st = false ->
  status (fold_run o wh fif args exec l st) =
  if existsb (fun i => has_results (exec (pick args i))) l then 0%N else 1%N.
Proof. exact quiet_status. Qed.
Print Assumptions C19_quiet_status.

(* -c and the records *)
Theorem C19_count_stdout : forall o wh fif args exec l, o_quiet o = false -> o_count o = true -> forall st,
  stdout (fold_run o wh fif args exec l st) =
  l_out st ++ map (fun i => OutCount (if wh then Some (header_from fif args (pick args i)) else None)
                                     (N.of_nat (length (ex_results (exec (pick args i)))))) l.
Proof. exact count_stdout. Qed.
Print Assumptions C19_count_stdout.

Theorem C19_plain_stdout : forall o wh fif args exec l, o_quiet o = false -> o_count o = false -> forall st,
  stdout (fold_run o wh fif args exec l st) =
  l_out st ++ flat_map (fun i => flat_map (print_record wh (header_from fif args (pick args i)))
                                          (ex_results (exec (pick args i)))) l.
Proof. exact plain_stdout. Qed.
Print Assumptions C19_plain_stdout.

(* diagnostics and -s *)
Theorem C19_stderr_messages : forall o wh fif args exec l, o_quiet o = false -> forall st,
  stderr (fold_run o wh fif args exec l st) =
  l_err st ++ (if o_nomsg o then [] else
               flat_map (fun i => if ex_raised (exec (pick args i))
                                  then [ErrExec (header_from fif args (pick args i))] else []) l).
Proof. exact stderr_messages. Qed.
Print Assumptions C19_stderr_messages.

Theorem C19_nomsg_transparent : forall q c H h wh fif args exec l st1 st2,
  l_out st1 = l_out st2 -> l_errors st1 = l_errors st2 -> l_match st1 = l_match st2 ->
  let r1 := fold_run (mkopts q false c H h) wh fif args exec l st1 in
  let r2 := fold_run (mkopts q true c H h) wh fif args exec l st2 in
  stdout r1 = stdout r2 /\ status r1 = status r2.
Proof. exact nomsg_transparent. Qed.
Print Assumptions C19_nomsg_transparent.

Theorem C19_header_rule : forall o args',
  header_on o args' = true <-> o_nohdr o = false /\ (o_withhdr o = true \/ 1 < product (map (@length val) args')).
Proof. exact header_rule. Qed.
Print Assumptions C19_header_rule.

(* non-vacuity: two files, an argument with two values; the second file's
   second combination raises after a result *)
Example C19_example :
  cli (mkopts false false false false false) true [(1, FOpen 10); (2, FBad); (3, FOpen 11)]%N [[20; 21]]%N
      (fun cur => match cur with [11; 21]%N => ExecRes [[7]%N] true | _ => ExecRes [[7; 8]%N] false end)
  = Some (mkout
      [OutHeader [10; 20]; OutSep; OutVal 7; OutVal 8; OutHeader [10; 21]; OutSep; OutVal 7; OutVal 8;
       OutHeader [11; 20]; OutSep; OutVal 7; OutVal 8; OutHeader [11; 21]; OutVal 7]%N
      [ErrOpen 2; ErrExec [11; 21]]%N 2%N).
Proof. vm_compute. reflexivity. Qed.
