(* C06 — cooked view = raw view with imports inlined and inherited attributes integrated. *)
From Coq Require Import NArith List Bool.
From Dwgrep Require Import Forest ForestProofs FindAttr FindAttrProofs ChildIter ChildIterProofs.
Import ListNotations.
Local Open Scope N_scope.

(* imports are replaced in place: the cooked children of a list of DIEs are the
   concatenation, in order, of what each of them expands to ... *)
Theorem C06_inlining_in_place : forall fuel f l1 l2,
  cooked_kids fuel f (l1 ++ l2) = cooked_kids fuel f l1 ++ cooked_kids fuel f l2.
Proof. exact cooked_kids_app. Qed.
(* ... recursively: no resolvable DW_TAG_imported_unit is left ... *)
Theorem C06_no_import_left : forall fuel f kids, Forall (fun k => import_target f k = None) (cooked_kids fuel f kids).
Proof. exact cooked_kids_inlined. Qed.
(* ... and where nothing is imported the cooked children are the raw ones *)
Theorem C06_no_imports_no_change : forall f kids n,
  Forall (fun k => import_target f k = None) kids -> cooked_kids (S n) f kids = kids.
Proof. exact cooked_kids_no_imports. Qed.

(* `attribute` never yields a name twice, through chains and forks of any shape *)
Theorem C06_no_name_twice : forall fuel f d, NoDup (names (cooked_attrs fuel f d)).
Proof. exact cooked_attrs_names_nodup. Qed.
(* the DIE's own attributes come first; what follows was brought in through
   DW_AT_specification / DW_AT_abstract_origin and is never DW_AT_sibling or DW_AT_declaration *)
Theorem C06_own_then_inherited : forall fu f d,
  exists own inherited,
    cooked_attrs (S fu) f d = own ++ inherited /\
    Forall (fun oa => fst oa = d_off d /\ In (snd oa) (d_attrs d)) own /\
    Forall (fun n => should_integrate n = true) (names inherited).
Proof. exact cooked_attrs_own_then_inherited. Qed.
(* `@AT_x` is `attribute ?AT_x`: what the model of find_attribute (recursion: the DIE itself, then what
   DW_AT_specification leads to, then what DW_AT_abstract_origin leads to) finds is the first attribute of that
   name that the model of attribute_producer (explicit stack, seen-set) yields - for every name (integrated or
   not), every DIE whose link chains end within k steps (any k, any shape, shared targets), given fuel for the walk *)
Theorem C06_atval_is_first_attribute : forall f x k d fuel,
  deep f k d -> (length (pre f k d) < fuel)%nat ->
  find (hasname x) (cooked_attrs fuel f d) = FindAttrM.find_attr (S k) f d x.
Proof. exact atval_is_first_attribute. Qed.
Example C06_atval_nonvacuous :
  let base := Die 30 52 false 3 [mkattr 3 8 None; mkattr 11 11 None] [] in
  let mid := Die 20 52 false 2 [mkattr AT_abstract_origin 19 (Some 30)] [] in
  let top := Die 10 52 false 1 [mkattr AT_specification 19 (Some 20); mkattr 58 11 None] [] in
  let f := [mkunit 0 4 0 (Some (Die 1 17 true 9 [] [top; mid; base]))] in
  deep f 2 top /\ (length (pre f 2 top) < 10)%nat /\
  FindAttrM.find_attr 3 f top 11 = Some (30, mkattr 11 11 None) /\
  find (hasname 11) (cooked_attrs 10 f top) = Some (30, mkattr 11 11 None).
Proof. vm_compute. repeat split; repeat constructor. Qed.

(* the producer behind cooked `child` (model dw/ChildIter.v of die_it_producer: a stack of sibling ranges and the
   chain of imports) hands out exactly the in-place recursive expansion, every DIE with the chain of imported_unit
   DIEs it was reached through, innermost first - for every DIE below which imports nest finitely deep (any
   depth n), from some amount of fuel on; and those DIEs are the model's cooked children *)
Theorem C06_child_producer_is_the_expansion : forall f n d, fits d_kids n f (d_kids d) ->
  exists w, forall e, ChildIterM.children (w + e) f d = ChildIterM.expand d_kids n f (d_kids d) [].
Proof. exact children_are_the_expansion. Qed.
(* the same producer over all DIEs of a unit (cooked `entry`): every import replaced in place by all the DIEs of the
   imported unit but its root, recursively *)
Theorem C06_entry_producer_is_the_expansion : forall f n r, fits ChildIterM.rest_of_unit n f (preorder r) ->
  exists w, forall e, ChildIterM.entries (w + e) f r = ChildIterM.expand ChildIterM.rest_of_unit n f (preorder r) [].
Proof. exact entries_are_the_expansion. Qed.
Theorem C06_child_producer_yields_the_cooked_children : forall f n d, fits d_kids n f (d_kids d) ->
  exists w, forall e, map fst (ChildIterM.children (w + e) f d) = cooked_kids (S n) f (d_kids d).
Proof. exact children_are_cooked_kids. Qed.
Example C06_child_producer_nonvacuous :
  let p2 := Die 40 60 true 4 [] [Die 41 52 false 5 [] []] in
  let p1 := Die 30 60 true 3 [] [Die 31 52 false 5 [] []; Die 32 61 false 6 [mkattr AT_import 16 (Some 40)] []; Die 33 52 false 5 [] []] in
  let top := Die 10 17 true 1 [] [Die 11 52 false 5 [] []; Die 12 61 false 6 [mkattr AT_import 16 (Some 30)] []; Die 13 52 false 5 [] []] in
  let f := [mkunit 0 4 0 (Some top); mkunit 25 4 0 (Some p1); mkunit 35 4 0 (Some p2)] in
  fits d_kids 2 f (d_kids top) /\
  map (fun x => (d_off (fst x), snd x)) (ChildIterM.children 50 f top) = [(11, []); (31, [12]); (41, [32; 12]); (33, [12]); (13, [])] /\
  map (fun x => (d_off (fst x), snd x)) (ChildIterM.entries 50 f top) = [(10, []); (11, []); (31, [12]); (41, [32; 12]); (33, [12]); (13, [])].
Proof. vm_compute. repeat split; repeat constructor. Qed.

Print Assumptions C06_inlining_in_place.
Print Assumptions C06_child_producer_is_the_expansion.
Print Assumptions C06_entry_producer_is_the_expansion.
Print Assumptions C06_child_producer_yields_the_cooked_children.
Print Assumptions C06_atval_is_first_attribute.
Print Assumptions C06_no_import_left.
Print Assumptions C06_no_imports_no_change.
Print Assumptions C06_no_name_twice.
Print Assumptions C06_own_then_inherited.

(* non-vacuity: a diamond import and a DIE with both links *)
Example C06_example :
  let pu := Die 50 60 true 1 [] [Die 55 52 false 2 [] []] in
  let f := [mkunit 0 4 0 (Some (Die 11 17 true 1 [] [Die 15 61 false 3 [mkattr 24 16 (Some 50)] []; Die 20 52 false 2 [] []; Die 22 61 false 3 [mkattr 24 16 (Some 50)] []]));
            mkunit 40 4 0 (Some pu)] in
  map r_kids (cooked_rows f) = [[55; 20; 55]; []; []; []].
Proof. vm_compute. reflexivity. Qed.
Example C06_example_links :
  let a := Die 30 52 false 2 [mkattr 3 8 None; mkattr 60 12 None] [] in
  let b := Die 35 52 false 2 [mkattr 3 8 None; mkattr 58 11 None] [] in
  let d := Die 40 52 false 3 [mkattr 49 19 (Some 35); mkattr 71 19 (Some 30)] [] in
  let f := [mkunit 0 4 0 (Some (Die 11 17 true 1 [] [a; b; d]))] in
  map (fun oa => (fst oa, a_name (snd oa))) (cooked_attrs 5 f d) = [(40, 49); (40, 71); (30, 3); (35, 58)].
Proof. vm_compute. reflexivity. Qed.
