(* C06 -- theorems follow in ForestProofs; placeholder example *)
From Coq Require Import NArith List Bool.
From Dwgrep Require Import Forest.
Import ListNotations.
Local Open Scope N_scope.
Example C06_example :
  let pu := Die 50 60 true 1 [] [Die 55 52 false 2 [] []] in
  let f := [mkunit 0 4 0 (Some (Die 11 17 true 1 [] [Die 15 61 false 3 [mkattr 24 16 (Some 50)] []; Die 20 52 false 2 [] []])); mkunit 40 4 0 (Some pu)] in
  map r_kids (cooked_rows f) = [[55; 20]; []; []].
Proof. vm_compute. reflexivity. Qed.
