(* C08 — Integer arithmetic is exact over [-2^63, 2^64-1] or reports an error.
   Only property statements live here; each is closed by `exact <lemma>`.
   The model (IntModel.v) mirrors /repo/libzwerg/int.cc clause for clause and
   is tied to it by the correspondence check (harness/intdrv.cc vs the
   extracted model, ./check C08). *)
From Coq Require Import ZArith Bool List Lia.
From Dwgrep Require Import IntModel IntProofs.
Local Open Scope Z_scope.

(* what "exact or error" means for a result r and the mathematically exact z *)
Definition exact_or_error (r : res) (z : Z) : Prop :=
  match r with
  | Ok v => wf v /\ ival v = z            (* the exact value, well-formed *)
  | Err => ~ (- 2^63 <= z < 2^64)         (* only when z is out of range *)
  end.

Theorem C08_add : forall a b, wf a -> wf b -> exact_or_error (add a b) (ival a + ival b).
Proof. exact add_ok. Qed.
Print Assumptions C08_add.

Theorem C08_sub : forall a b, wf a -> wf b -> exact_or_error (sub a b) (ival a - ival b).
Proof. exact sub_ok. Qed.
Print Assumptions C08_sub.

Theorem C08_mul : forall a b, wf a -> wf b -> exact_or_error (mul a b) (ival a * ival b).
Proof. exact mul_ok. Qed.
Print Assumptions C08_mul.

(* floor division; division by zero is always an error *)
Theorem C08_div : forall a b, wf a -> wf b ->
  if ival b =? 0 then div a b = Err
  else exact_or_error (div a b) (ival a / ival b).
Proof. exact div_ok. Qed.
Print Assumptions C08_div.

(* remainder with the divisor's sign; never an error unless the divisor is 0 *)
Theorem C08_mod : forall a b, wf a -> wf b ->
  if ival b =? 0 then modulo a b = Err
  else exists r, modulo a b = Ok r /\ wf r /\ ival r = ival a mod ival b.
Proof. exact mod_ok. Qed.
Print Assumptions C08_mod.

Theorem C08_neg : forall v, wf v -> exact_or_error (neg v) (- ival v).
Proof. exact neg_ok. Qed.
Print Assumptions C08_neg.

(* all six comparisons agree with the order on Z *)
Theorem C08_cmp : forall a b, wf a -> wf b ->
  (lt a b = (ival a <? ival b)) /\ (gt a b = (ival a >? ival b)) /\
  (le a b = (ival a <=? ival b)) /\ (ge a b = (ival a >=? ival b)) /\
  (eq a b = (ival a =? ival b)) /\ (ne a b = negb (ival a =? ival b)).
Proof. exact cmp_ok. Qed.
Print Assumptions C08_cmp.

(* whatever mix of signed and unsigned operands produced it *)
Theorem C08_repr_irrelevant : forall a a' b b', wf a -> wf a' -> wf b -> wf b' ->
  ival a = ival a' -> ival b = ival b' ->
  forall op, In op (add :: sub :: mul :: div :: nil) ->
  match op a b, op a' b' with
  | Ok r, Ok r' => ival r = ival r'
  | Err, Err => True
  | _, _ => False
  end.
Proof. exact repr_irrelevant. Qed.
Print Assumptions C08_repr_irrelevant.

(* non-vacuity: both representations of 2^63 are well-formed, denote different
   integers, and an operation on them returns a value. *)
Example C08_nonvacuous :
  wf (mk (2^63) true) /\ wf (mk (2^63) false) /\
  ival (mk (2^63) true) = - 2^63 /\ ival (mk (2^63) false) = 2^63 /\
  add (mk (2^63) true) (mk (2^63) false) = Ok (mk 0 true) /\
  div (mk (2^63) true) (mk (2^64 - 1) false) = Ok (mk (2^64 - 1) true) /\
  modulo (mk (2^64 - 1) true) (mk (2^64 - 1) false) = Ok (mk (2^64 - 2) false).
Proof. unfold wf, W. cbn [u]. repeat split; try (vm_compute; reflexivity); try (vm_compute; intro; discriminate). Qed.
