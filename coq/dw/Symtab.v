(* ELF symbols as `symbol` and its words present them (builtin-symbol.cc,
   value-symbol.cc): fields of the stored entry, and the equality rule of the
   type / binding constants across machine families.  No proofs here. *)
From Coq Require Import NArith List Bool.
Import ListNotations.
Local Open Scope N_scope.

Module SymtabM.

Record sym := mksym { s_name : list N; s_value : N; s_size : N; s_info : N; s_other : N; s_shndx : N }.

(* GELF_ST_TYPE, GELF_ST_BIND, GELF_ST_VISIBILITY *)
Definition st_type (info : N) : N := info mod 16.
Definition st_bind (info : N) : N := info / 16.
Definition st_visibility (other : N) : N := other mod 4.
Definition st_info (bind type : N) : N := bind * 16 + type mod 16.

Record row := mkrow { r_pos : N; r_name : list N; r_value : N; r_size : N; r_type : N; r_bind : N; r_vis : N }.

Fixpoint rows_from (tab : list sym) (i : N) : list row :=
  match tab with
  | [] => []
  | s :: t => mkrow i (s_name s) (s_value s) (s_size s) (st_type (s_info s)) (st_bind (s_info s)) (st_visibility (s_other s))
              :: rows_from t (i + 1)
  end.
Definition rows (tab : list sym) : list row := rows_from tab 0.

(* machine families of the type / binding constants (ELF_ALL_KNOWN_STT_ARCHES, _STB_ARCHES) *)
Definition EM_SPARC : N := 2.  Definition EM_MIPS : N := 8.  Definition EM_PARISC : N := 15.  Definition EM_ARM : N := 40.
Definition stt_family (machine : N) : N :=
  if (machine =? EM_ARM) || (machine =? EM_PARISC) || (machine =? EM_SPARC) then machine else 0.
Definition stb_family (machine : N) : N := if machine =? EM_MIPS then machine else 0.

Definition LOOS : N := 10.
(* most_enclosing: codes below LOOS mean the same on every machine *)
Definition key (family code : N) : N * N := if code <? LOOS then (0, code) else (family, code).
Definition const_eqb (f1 c1 f2 c2 : N) : bool :=
  let '(a, b) := key f1 c1 in let '(c, d) := key f2 c2 in (a =? c) && (b =? d).

End SymtabM.
Export SymtabM.
