(* The DIE forest stored in .debug_info (ground truth of a generated input) and
   the two views Zwerg gives of it:
     raw    -- builtin-dw.cc producers with doneness::raw: units, entries in
               section pre-order, child/parent, attributes as stored;
     cooked -- imports inlined in place (import_partial_units), partial units
               not listed, attributes integrated through DW_AT_specification /
               DW_AT_abstract_origin (attribute_producer with its LIFO schedule).
   No proofs here. *)
From Coq Require Import NArith List Bool.
Import ListNotations.
Local Open Scope N_scope.

Module ForestM.

Record attr := mkattr { a_name : N; a_form : N; a_ref : option N }.   (* a_ref: offset of the DIE a reference points to *)

Inductive die := Die (off tag : N) (flag : bool) (abbrev : N) (attrs : list attr) (kids : list die).

Definition d_off (d : die) := match d with Die o _ _ _ _ _ => o end.
Definition d_tag (d : die) := match d with Die _ t _ _ _ _ => t end.
Definition d_flag (d : die) := match d with Die _ _ f _ _ _ => f end.
Definition d_abbrev (d : die) := match d with Die _ _ _ a _ _ => a end.
Definition d_attrs (d : die) := match d with Die _ _ _ _ a _ => a end.
Definition d_kids (d : die) := match d with Die _ _ _ _ _ k => k end.

Record unit := mkunit { u_off : N; u_version : N; u_abbrev_off : N; u_root : option die }.
Definition forest := list unit.

Definition TAG_partial_unit : N := 60.     (* 0x3c *)
Definition TAG_imported_unit : N := 61.    (* 0x3d *)
Definition AT_sibling : N := 1.
Definition AT_import : N := 24.            (* 0x18 *)
Definition AT_abstract_origin : N := 49.   (* 0x31 *)
Definition AT_declaration : N := 60.       (* 0x3c *)
Definition AT_specification : N := 71.     (* 0x47 *)

(* ---- raw view ---- *)

Fixpoint preorder (d : die) : list die :=
  match d with Die _ _ _ _ _ kids => d :: flat_map preorder kids end.

Definition unit_dies (u : unit) : list die := match u_root u with Some r => preorder r | None => [] end.
Definition raw_entries (f : forest) : list die := flat_map unit_dies f.
Definition raw_units (f : forest) : list unit := filter (fun u => match u_root u with Some _ => true | None => false end) f.

Definition find_die (f : forest) (o : N) : option die := find (fun d => d_off d =? o) (raw_entries f).

(* parent by search: the DIE among whose children the offset occurs *)
Fixpoint parent_in (d : die) (o : N) : option die :=
  match d with
  | Die _ _ _ _ _ kids =>
    if existsb (fun k => d_off k =? o) kids then Some d
    else (fix go (l : list die) : option die :=
            match l with [] => None | k :: l' => match parent_in k o with Some p => Some p | None => go l' end end) kids
  end.

Definition raw_parent (f : forest) (o : N) : option die :=
  (fix go (l : list unit) : option die :=
     match l with
     | [] => None
     | u :: l' => match u_root u with
                  | Some r => match parent_in r o with Some p => Some p | None => go l' end
                  | None => go l'
                  end
     end) f.

Definition unit_of (f : forest) (o : N) : option unit :=
  find (fun u => existsb (fun d => d_off d =? o) (unit_dies u)) f.

Definition root_of (f : forest) (o : N) : option die :=
  match unit_of f o with Some u => u_root u | None => None end.

(* one row per DIE, as the raw view reports it *)
Record row := mkrow {
  r_off : N; r_tag : N; r_flag : bool; r_parent : option N; r_kids : list N;
  r_attrs : list (N * N); r_root : option N; r_unit : option N }.

Definition raw_row (f : forest) (d : die) : row :=
  mkrow (d_off d) (d_tag d) (d_flag d)
        (option_map d_off (raw_parent f (d_off d)))
        (map d_off (d_kids d))
        (map (fun a => (a_name a, a_form a)) (d_attrs d))
        (option_map d_off (root_of f (d_off d)))
        (option_map u_off (unit_of f (d_off d))).

Definition raw_rows (f : forest) : list row := map (raw_row f) (raw_entries f).

(* ---- cooked view ---- *)

Definition is_partial (u : unit) : bool :=
  match u_root u with Some r => d_tag r =? TAG_partial_unit | None => false end.
Definition cooked_units (f : forest) : list unit := filter (fun u => negb (is_partial u)) (raw_units f).

(* the unit root a DW_TAG_imported_unit DIE imports *)
Definition import_target (f : forest) (d : die) : option die :=
  if d_tag d =? TAG_imported_unit then
    match find (fun a => a_name a =? AT_import) (d_attrs d) with
    | Some a => match a_ref a with Some o => find_die f o | None => None end
    | None => None
    end
  else None.

(* children with imports inlined, recursively and in place *)
Fixpoint cooked_kids (fuel : nat) (f : forest) (kids : list die) : list die :=
  match fuel with
  | O => []
  | S fu =>
    flat_map (fun k => match import_target f k with
                       | Some t => cooked_kids fu f (d_kids t)
                       | None => [k]
                       end) kids
  end.

(* cooked pre-order with the parent each DIE is reached from *)
Fixpoint cooked_walk (fuel : nat) (f : forest) (d : die) (parent : option N) : list (die * option N) :=
  match fuel with
  | O => []
  | S fu => (d, parent) :: flat_map (fun k => cooked_walk fu f k (Some (d_off d))) (cooked_kids fuel f (d_kids d))
  end.

(* attribute integration: attribute_producer *)
Definition should_integrate (name : N) : bool := negb ((name =? AT_sibling) || (name =? AT_declaration)).
Definition is_link (name : N) : bool := (name =? AT_specification) || (name =? AT_abstract_origin).

(* attributes of one DIE: (outputs, what DW_AT_specification and DW_AT_abstract_origin
   lead to -- the first of each --, seen) *)
Fixpoint integrate_die (f : forest) (secondary : bool) (d : die) (ats : list attr) (seen : list N)
         (spec ao : option die) : list (N * attr) * option die * option die * list N :=
  match ats with
  | [] => ([], spec, ao, seen)
  | a :: rest =>
    let target := match a_ref a with Some o => find_die f o | None => None end in
    let spec' := if (a_name a =? AT_specification) then (match spec with Some _ => spec | None => target end) else spec in
    let ao' := if (a_name a =? AT_abstract_origin) then (match ao with Some _ => ao | None => target end) else ao in
    if secondary && negb (should_integrate (a_name a)) then integrate_die f secondary d rest seen spec' ao'
    else if existsb (N.eqb (a_name a)) seen then integrate_die f secondary d rest seen spec' ao'
    else let '(out, s, o, sn) := integrate_die f secondary d rest (seen ++ [a_name a]) spec' ao' in
         ((d_off d, a) :: out, s, o, sn)
  end.

Definition opt_list {A} (o : option A) : list A := match o with Some x => [x] | None => [] end.

(* depth first: what the specification leads to is visited before what the
   abstract origin leads to, both before anything scheduled earlier *)
Fixpoint cooked_attrs_loop (fuel : nat) (f : forest) (stack : list die) (secondary : bool) (seen : list N) : list (N * attr) :=
  match fuel with
  | O => []
  | S fu =>
    match stack with
    | [] => []
    | d :: stack' =>
      let '(out, spec, ao, seen') := integrate_die f secondary d (d_attrs d) seen None None in
      out ++ cooked_attrs_loop fu f (opt_list spec ++ opt_list ao ++ stack') true seen'
    end
  end.

Definition cooked_attrs (fuel : nat) (f : forest) (d : die) : list (N * attr) :=
  cooked_attrs_loop fuel f [d] false [].

Definition size (f : forest) : nat := S (length (raw_entries f)).

Definition cooked_rows (f : forest) : list row :=
  let fuel := size f in
  flat_map (fun u =>
    match u_root u with
    | None => []
    | Some r =>
      map (fun dp =>
             let d := fst dp in
             mkrow (d_off d) (d_tag d) (d_flag d) (snd dp)
                   (map d_off (cooked_kids fuel f (d_kids d)))
                   (map (fun oa => (a_name (snd oa), a_form (snd oa))) (cooked_attrs fuel f d))
                   (Some (d_off r)) (option_map u_off (unit_of f (d_off d))))
          (cooked_walk fuel f r None)
    end) (cooked_units f).

End ForestM.
Export ForestM.
