(* The walk with a stack of parents visits exactly the pre-order of the tree: every DIE once, parents before
   children, siblings in order - for any tree, given fuel for its size. *)
From Coq Require Import NArith List Bool Arith Lia.
From Dwgrep Require Import Forest ForestProofs Iter.
Import ListNotations.
Import ForestM IterM.

(* what is still to come from a position: the DIE's subtree, its right siblings' subtrees, then level by level
   the right siblings of the parents *)
Fixpoint rest_of (ctx : list (die * list die)) : list die :=
  match ctx with
  | [] => []
  | (_, prs) :: ctx' => flat_map preorder prs ++ rest_of ctx'
  end.
Definition todo (p : pos) : list die :=
  let '(d, rs, ctx) := p in preorder d ++ flat_map preorder rs ++ rest_of ctx.

Lemma preorder_unfold d : preorder d = d :: flat_map preorder (d_kids d).
Proof. destruct d. reflexivity. Qed.

Lemma climb_todo rs ctx : match climb rs ctx with
                          | Some q => todo q = flat_map preorder rs ++ rest_of ctx
                          | None => flat_map preorder rs ++ rest_of ctx = []
                          end.
Proof.
  revert rs. induction ctx as [|[p prs] ctx IH]; intros rs; destruct rs as [|s rs]; cbn [climb].
  - reflexivity.
  - cbn [todo flat_map]. rewrite <- app_assoc. reflexivity.
  - cbn [flat_map app rest_of]. apply IH.
  - cbn [todo flat_map]. rewrite <- app_assoc. reflexivity.
Qed.

Lemma next_todo p : let '(d, _, _) := p in
  match next p with
  | Some q => todo p = d :: todo q
  | None => todo p = [d]
  end.
Proof.
  destruct p as [[d rs] ctx]. unfold next.
  destruct (d_kids d) as [|k ks] eqn:K.
  - pose proof (climb_todo rs ctx) as C. cbn [todo]. rewrite preorder_unfold, K. cbn [flat_map app].
    destruct (climb rs ctx) as [q|]; [rewrite C; reflexivity|rewrite C; reflexivity].
  - cbn [todo]. rewrite (preorder_unfold d), K. cbn [flat_map rest_of app]. rewrite <- !app_assoc. reflexivity.
Qed.

Lemma walk_is_todo : forall fuel p, (length (todo p) <= fuel)%nat -> walk fuel p = todo p.
Proof.
  induction fuel as [|fu IH]; intros p L.
  - destruct p as [[d rs] ctx]. cbn [todo] in L. rewrite preorder_unfold in L. cbn [app length] in L. lia.
  - pose proof (next_todo p) as N. destruct p as [[d rs] ctx]. cbn [walk].
    destruct (next (d, rs, ctx)) as [q|].
    + rewrite N. f_equal. apply IH. rewrite N in L. cbn [length] in L. lia.
    + rewrite N. reflexivity.
Qed.

Theorem unit_walk_is_preorder fuel u : (length (unit_dies u) <= fuel)%nat -> unit_walk fuel u = unit_dies u.
Proof.
  unfold unit_walk, unit_dies. destruct (u_root u) as [r|]; [|reflexivity].
  intros L. rewrite walk_is_todo; cbn [todo flat_map rest_of]; rewrite ?app_nil_r; [reflexivity|exact L].
Qed.

Lemma unit_dies_le f u : In u f -> (length (unit_dies u) <= length (raw_entries f))%nat.
Proof.
  intros I. unfold raw_entries. induction f as [|v f IH]; [destruct I|].
  cbn [flat_map]. rewrite app_length. destruct I as [->|I]; [lia|]. specialize (IH I). lia.
Qed.

Theorem walk_all_is_raw_entries f : walk_all f = raw_entries f.
Proof.
  unfold walk_all, raw_entries.
  assert (H : forall g, (forall u, In u g -> In u f) ->
             flat_map (unit_walk (length (flat_map unit_dies f))) g = flat_map unit_dies g).
  { induction g as [|u g IH]; intros Sub; [reflexivity|]. cbn [flat_map].
    rewrite IH by (intros v Iv; apply Sub; right; exact Iv).
    rewrite unit_walk_is_preorder; [reflexivity|]. apply (unit_dies_le f u). apply Sub. left. reflexivity. }
  apply H. auto.
Qed.

(* ... and the stack of parents is right at every step: the DIE at hand and its right siblings are the tail of
   the children of the DIE on top of the stack, and so on upwards *)
Fixpoint zip_ok (d : die) (rs : list die) (ctx : list (die * list die)) : Prop :=
  match ctx with
  | [] => True
  | (q, qrs) :: ctx' => (exists ls, d_kids q = ls ++ d :: rs) /\ zip_ok q qrs ctx'
  end.

Lemma climb_ok rs ctx d0 : zip_ok d0 rs ctx -> forall q, climb rs ctx = Some q -> let '(d, rs', ctx') := q in zip_ok d rs' ctx'.
Proof.
  revert rs d0. induction ctx as [|[p prs] ctx IH]; intros rs d0 Z q C; destruct rs as [|s rs]; cbn [climb] in C; try discriminate.
  - inversion C; subst. exact I.
  - cbn [zip_ok] in Z. destruct Z as [_ Z]. exact (IH prs p Z q C).
  - inversion C; subst. cbn [zip_ok] in *. destruct Z as [[ls E] Z]. split; [|exact Z].
    exists (ls ++ [d0]). rewrite E, <- app_assoc. reflexivity.
Qed.

Theorem next_keeps_stack p q : (let '(d, rs, ctx) := p in zip_ok d rs ctx) -> next p = Some q ->
  let '(d', rs', ctx') := q in zip_ok d' rs' ctx'.
Proof.
  destruct p as [[d rs] ctx]. intros Z N. unfold next in N.
  destruct (d_kids d) as [|k ks] eqn:K.
  - exact (climb_ok rs ctx d Z q N).
  - inversion N; subst. cbn [zip_ok]. split; [exists []; exact K|exact Z].
Qed.

(* in particular the DIE on top of the stack stores the DIE at hand among its children *)
Corollary top_of_stack_is_parent d rs q qrs ctx : zip_ok d rs ((q, qrs) :: ctx) -> In d (d_kids q).
Proof. intros [[ls E] _]. rewrite E. apply in_or_app. right. left. reflexivity. Qed.
