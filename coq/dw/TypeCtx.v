(* Model of how atval.cc finds out what the type of a DW_AT_const_value says
   (handle_at_dependent_value, case DW_AT_const_value): get_type_die peels
   typedefs and cv-qualifiers off the DW_AT_type chain; the tag, the encoding and
   (for enumerations) the underlying type and the forms of the enumerators of
   what is left make the context that Atval.at_value decodes the datum in.
   The type DIEs of a file are a finite map from offsets; DW_AT_type is read
   with dwarf_attr_integrate, i.e. `td_type` is the integrated attribute.
   No proofs in this file. *)
From Coq Require Import NArith List Bool.
From Dwgrep Require Import Atval.
Import ListNotations.
Local Open Scope N_scope.

Module TypeCtxM.

Record tdie := mktd {
  td_tag : N;
  td_type : option N;            (* offset DW_AT_type leads to *)
  td_enc : option N;             (* DW_AT_encoding *)
  td_nullptr : bool;             (* DW_AT_name is "decltype(nullptr)" *)
  td_kids : list (N * option N)  (* children: tag, form of their DW_AT_const_value *)
}.
Definition types := list (N * tdie).

Fixpoint lookup (ts : types) (o : N) : option tdie :=
  match ts with
  | [] => None
  | (k, d) :: r => if N.eqb k o then Some d else lookup r o
  end.

Definition TAG_enumeration_type : N := 4.
Definition TAG_pointer_type : N := 15.
Definition TAG_typedef : N := 22.
Definition TAG_ptr_to_member_type : N := 31.
Definition TAG_subrange_type : N := 33.
Definition TAG_base_type : N := 36.
Definition TAG_const_type : N := 38.
Definition TAG_enumerator : N := 40.
Definition TAG_packed_type : N := 45.
Definition TAG_volatile_type : N := 53.
Definition TAG_restrict_type : N := 55.
Definition FORM_sdata : N := 13.
Definition FORM_udata : N := 15.

Definition keep_peeling (tag : N) : bool :=
  (tag =? TAG_const_type) || (tag =? TAG_volatile_type) || (tag =? TAG_restrict_type) || (tag =? TAG_typedef)
  || (tag =? TAG_subrange_type) || (tag =? TAG_packed_type).

(* while (fetch_type (die) && keep_peeling (die)) ;
   None: the loop does not end within the fuel, or a reference leads nowhere (libdw fails) *)
Fixpoint peel (fuel : nat) (ts : types) (d : tdie) : option tdie :=
  match fuel with
  | O => None
  | S f =>
    match td_type d with
    | None => Some d
    | Some o =>
      match lookup ts o with
      | None => None
      | Some t => if keep_peeling (td_tag t) then peel f ts t else Some t
      end
    end
  end.

(* the forms of the enumerators' values: (some sdata, some udata) *)
Definition forms_seen (kids : list (N * option N)) : bool * bool :=
  (existsb (fun k => (fst k =? TAG_enumerator) && match snd k with Some f => f =? FORM_sdata | None => false end) kids,
   existsb (fun k => (fst k =? TAG_enumerator) && match snd k with Some f => f =? FORM_udata | None => false end) kids).

(* from the DIE the peeling starts at (the DIE that has the attribute; for an
   enumerator: its parent) to the context *)
Definition ctx_from (fuel : nat) (ts : types) (start : tdie) : option tctx :=
  match peel fuel ts start with
  | None => None
  | Some t =>
    let tag := td_tag t in
    if (tag =? TAG_pointer_type) || (tag =? TAG_ptr_to_member_type) then Some TPointer
    else if negb (tag =? TAG_enumeration_type) && (negb (tag =? TAG_base_type) || match td_enc t with Some _ => false | None => true end)
    then Some (if td_nullptr t then TNullptr else TNoInfo)
    else match td_enc t with
         | Some e => Some (TEnc e)
         | None =>
           (* an enumeration without encoding of its own *)
           let '(s, u) := forms_seen (td_kids t) in
           match td_type t with
           | None => Some (TEnumForms s u)
           | Some _ =>
             match peel fuel ts t with
             | None => None
             | Some ut => match td_enc ut with Some e => Some (TEnumUnder e s u) | None => Some (TEnumForms s u) end
             end
           end
         end
  end.

(* a DIE other than an enumerator: only its DW_AT_type matters *)
Definition holder (ty : option N) : tdie := mktd 0 ty None false [].
Definition var_ctx (fuel : nat) (ts : types) (ty : option N) : option tctx := ctx_from fuel ts (holder ty).

(* an enumerator: the parent has to be an enumeration with a DW_AT_type *)
Definition enumerator_ctx (fuel : nat) (ts : types) (parent : tdie) : option tctx :=
  if negb (td_tag parent =? TAG_enumeration_type) then Some TEnumeratorPlain
  else match td_type parent with
       | None => Some TEnumeratorPlain
       | Some _ => ctx_from fuel ts parent
       end.

End TypeCtxM.
