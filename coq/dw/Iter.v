(* Model of all_dies_iterator::operator++ (dwit.cc): the walk over all DIEs of a unit with a stack of
   parents - "if there is a child, go there (push); otherwise take the sibling; if there is none, go a level
   up (pop) and try again, while there is a level to go up to" - and over the units one after the other.
   libdw's dwarf_child / dwarf_siblingof / dwarf_offdie are idealised by a position in the tree that knows
   the siblings to its right and, level by level, the parents with theirs (a zipper).  No proofs here. *)
From Coq Require Import NArith List Bool.
From Dwgrep Require Import Forest.
Import ListNotations.

Module IterM.
Import ForestM.

(* the DIE at hand, its siblings to the right, and for every level above: the parent and its right siblings *)
Definition pos := (die * list die * list (die * list die))%type.

(* "No sibling found.  Go a level up and retry" *)
Fixpoint climb (rs : list die) (ctx : list (die * list die)) : option pos :=
  match rs with
  | s :: rs' => Some (s, rs', ctx)
  | [] =>
    match ctx with
    | [] => None
    | (_, prs) :: ctx' => climb prs ctx'
    end
  end.

Definition next (p : pos) : option pos :=
  let '(d, rs, ctx) := p in
  match d_kids d with
  | k :: ks => Some (k, ks, (d, rs) :: ctx)
  | [] => climb rs ctx
  end.

(* the DIEs visited from a position on, at most `fuel` of them *)
Fixpoint walk (fuel : nat) (p : pos) : list die :=
  match fuel with
  | O => []
  | S fu => let '(d, _, _) := p in d :: match next p with Some q => walk fu q | None => [] end
  end.

Definition unit_walk (fuel : nat) (u : unit) : list die :=
  match u_root u with Some r => walk fuel (r, [], []) | None => [] end.

(* all units, one after the other (units without a DIE are skipped) *)
Definition walk_all (f : forest) : list die := flat_map (unit_walk (length (raw_entries f))) f.

End IterM.
