(* Model of die_it_producer <child_iterator> in cooked mode (builtin-dw.cc: import_partial_units,
   drop_finished_imports, next): a stack of ranges of siblings still to be handed out and the chain of
   DW_TAG_imported_unit DIEs the DIE at hand was reached through.  "While the range on top is finished, drop
   it (and the innermost import); while the DIE on top imports a unit, remember it, step over it and push the
   children of that unit's root; then hand out the DIE on top with the chain."  No proofs in this file. *)
From Coq Require Import NArith List Bool.
From Dwgrep Require Import Forest.
Import ListNotations.

Module ChildIterM.
Import ForestM.

Fixpoint run (fuel : nat) (f : forest) (stack : list (list die)) (chain : list N) : list (die * list N) :=
  match fuel with
  | O => []
  | S fu =>
    match stack with
    | [] => []
    | [] :: st => run fu f st (tl chain)
    | (k :: ks) :: st =>
      match import_target f k with
      | Some t => run fu f (d_kids t :: ks :: st) (d_off k :: chain)
      | None => (k, chain) :: run fu f (ks :: st) chain
      end
    end
  end.

(* `child` of a DIE: its children, whatever chain the DIE itself had starts afresh *)
Definition children (fuel : nat) (f : forest) (d : die) : list (die * list N) := run fuel f [d_kids d] [].

(* the specification: imports replaced in place, recursively, each DIE with the imports it came through *)
Fixpoint expand (n : nat) (f : forest) (kids : list die) (chain : list N) : list (die * list N) :=
  flat_map (fun k => match import_target f k with
                     | Some t => match n with O => [] | S m => expand m f (d_kids t) (d_off k :: chain) end
                     | None => [(k, chain)]
                     end) kids.

End ChildIterM.
