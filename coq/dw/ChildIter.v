(* Model of die_it_producer <child_iterator> in cooked mode (builtin-dw.cc: import_partial_units,
   drop_finished_imports, next): a stack of ranges of siblings still to be handed out and the chain of
   DW_TAG_imported_unit DIEs the DIE at hand was reached through.  "While the range on top is finished, drop
   it (and the innermost import); while the DIE on top imports a unit, remember it, step over it and push the
   children of that unit's root; then hand out the DIE on top with the chain."  No proofs in this file. *)
From Coq Require Import NArith List Bool.
From Dwgrep Require Import Forest.
Import ListNotations.

Module ChildIterM.
Import ForestM.

(* `into t`: the range that is pushed for an imported unit with root t - its children for `child`
   (child_iterator), all its DIEs but the root for `entry` (all_dies_iterator) *)
Section Machine.
  Variable into : die -> list die.

  Fixpoint run (fuel : nat) (f : forest) (stack : list (list die)) (chain : list N) : list (die * list N) :=
    match fuel with
    | O => []
    | S fu =>
      match stack with
      | [] => []
      | [] :: st => run fu f st (tl chain)
      | (k :: ks) :: st =>
        match import_target f k with
        | Some t => run fu f (into t :: ks :: st) (d_off k :: chain)
        | None => (k, chain) :: run fu f (ks :: st) chain
        end
      end
    end.

  (* the specification: imports replaced in place, recursively, each DIE with the imports it came through *)
  Fixpoint expand (n : nat) (f : forest) (range : list die) (chain : list N) : list (die * list N) :=
    flat_map (fun k => match import_target f k with
                       | Some t => match n with O => [] | S m => expand m f (into t) (d_off k :: chain) end
                       | None => [(k, chain)]
                       end) range.
End Machine.

(* `child` of a DIE: its children, whatever chain the DIE itself had starts afresh *)
Definition children (fuel : nat) (f : forest) (d : die) : list (die * list N) := run d_kids fuel f [d_kids d] [].

(* `entry` of a unit: all its DIEs in section order, an imported unit's DIEs (but its root) in place of the import *)
Definition rest_of_unit (t : die) : list die := tl (preorder t).
Definition entries (fuel : nat) (f : forest) (root : die) : list (die * list N) := run rest_of_unit fuel f [preorder root] [].

End ChildIterM.
