(* Model of die_ranges (atval.cc): the value of DW_AT_ranges (and of the word
   `address` on a DIE that has one).  dwarf_ranges hands out the resolved
   (start, end) pairs of the range list one by one (base address selection and
   the end-of-list entry are libdw's: modelled by the input list); each pair is
   put into a coverage as (start, end - start), the subtraction being unsigned
   64-bit.  No proofs in this file. *)
From Coq Require Import ZArith List.
From Dwgrep Require Import CovModel.
Import ListNotations.
Local Open Scope Z_scope.

Module RangesM.
Import CovM.

Definition die_ranges (rs : list (Z * Z)) : cov :=
  fold_left (fun c r => add c (fst r) (wsub (snd r) (fst r))) rs [].

End RangesM.
