(* Location expressions and abbreviations as the words of builtin-dw.cc /
   builtin-dw-abbrev.cc / atval.cc (locexpr_op_values) present them.
   An operation is given by what is stored: its offset in the expression, its
   opcode and its (up to two) operands as mathematical integers.  libdw hands
   operands over as 64-bit words (Dwarf_Word number, number2); atval.cc casts
   them back where the operand is signed.  No proofs here. *)
From Coq Require Import ZArith NArith List Bool.
Import ListNotations.
Local Open Scope Z_scope.

Module LocM.

Record op := mkop { o_off : N; o_code : N; o_a : Z; o_b : Z }.

Definition two64 : Z := 18446744073709551616.
Definition word_of (z : Z) : Z := z mod two64.                       (* stored into Dwarf_Word *)
Definition sword_of (w : Z) : Z := if w <? two64 / 2 then w else w - two64.   (* (Dwarf_Sword) w *)

Inductive odom := ODec | OHex.

Inductive oclass :=
| OCNone            (* no operand reported *)
| OCHex             (* one, hexadecimal: addr, call_ref *)
| OCUnsigned        (* one, unsigned decimal *)
| OCSigned          (* one, signed decimal *)
| OCTwoUU           (* two unsigned: bit_piece, GNU_regval_type, GNU_deref_type *)
| OCTwoUS           (* unsigned then signed: bregx *)
| OCSpecial.        (* implicit_value, GNU_implicit_pointer, entry_value, const_type: not modelled *)

Definition inrange (lo hi c : N) : bool := (N.leb lo c && N.leb c hi)%bool.

Definition op_class (c : N) : oclass :=
  if (N.eqb c 3 || N.eqb c 154)%bool then OCHex                                            (* addr, call_ref *)
  else if (N.eqb c 148 || N.eqb c 149 || N.eqb c 21 || N.eqb c 8 || N.eqb c 10 || N.eqb c 12 || N.eqb c 14
           || N.eqb c 147 || N.eqb c 144 || N.eqb c 35 || N.eqb c 16 || N.eqb c 152 || N.eqb c 153
           || N.eqb c 247 || N.eqb c 249 || N.eqb c 250)%bool then OCUnsigned
  else if (N.eqb c 9 || N.eqb c 11 || N.eqb c 13 || N.eqb c 15 || N.eqb c 145 || inrange 112 143 c
           || N.eqb c 17 || N.eqb c 47 || N.eqb c 40)%bool then OCSigned
  else if (N.eqb c 157 || N.eqb c 245 || N.eqb c 246)%bool then OCTwoUU
  else if N.eqb c 146 then OCTwoUS
  else if (N.eqb c 158 || N.eqb c 242 || N.eqb c 243 || N.eqb c 244)%bool then OCSpecial
  else OCNone.

(* `value` of an operation *)
Definition op_values (o : op) : option (list (Z * odom)) :=
  let a := word_of (o_a o) in
  let b := word_of (o_b o) in
  match op_class (o_code o) with
  | OCNone => Some []
  | OCHex => Some [(a, OHex)]
  | OCUnsigned => Some [(a, ODec)]
  | OCSigned => Some [(sword_of a, ODec)]
  | OCTwoUU => Some [(a, ODec); (b, ODec)]
  | OCTwoUS => Some [(a, ODec); (sword_of b, ODec)]
  | OCSpecial => None
  end.

(* one element of a location list: an address range and its operations *)
Record lelem := mklelem { l_low : Z; l_high : Z; l_ops : list op }.

Fixpoint number {A} (l : list A) (i : N) : list (N * A) :=
  match l with [] => [] | x :: t => (i, x) :: number t (i + 1)%N end.

Definition w_elem (e : lelem) : list (N * op) := number (l_ops e) 0%N.
Definition w_relem (e : lelem) : list (N * op) := number (rev (l_ops e)) 0%N.
Definition w_length (e : lelem) : N := N.of_nat (length (l_ops e)).
Definition w_has_op (e : lelem) (code : N) : bool := existsb (fun o => N.eqb (o_code o) code) (l_ops e).

(* abbreviations *)
Record abbrev := mkabbrev { ab_code : N; ab_tag : N; ab_children : bool; ab_attrs : list (N * N) }.

Definition lookup (table : list abbrev) (code : N) : option abbrev := find (fun a => N.eqb (ab_code a) code) table.

Definition FORM_indirect : N := 22.

(* the abbreviation matches what the raw view says of the DIE: tag, child flag,
   attribute names in order, forms equal unless the abbreviation says indirect *)
Fixpoint attrs_match (ab : list (N * N)) (die : list (N * N)) : bool :=
  match ab, die with
  | [], [] => true
  | (n, f) :: ab', (n', f') :: die' => (N.eqb n n' && (N.eqb f f' || N.eqb f FORM_indirect) && attrs_match ab' die')%bool
  | _, _ => false
  end.

Definition matches (a : abbrev) (tag : N) (flag : bool) (attrs : list (N * N)) : bool :=
  (N.eqb (ab_tag a) tag && Bool.eqb (ab_children a) flag && attrs_match (ab_attrs a) attrs)%bool.

End LocM.
Export LocM.
