(* Laws of the two views of a DIE forest (dw/Forest.v). *)
From Coq Require Import NArith List Bool Arith Lia.
From Dwgrep Require Import Forest.
Import ListNotations.
Local Open Scope N_scope.

(* ---- induction over DIE trees ---- *)
Section DieInd.
  Variable P : die -> Prop.
  Hypothesis H : forall o t f a ats kids, Forall P kids -> P (Die o t f a ats kids).
  Fixpoint die_ind' (d : die) : P d :=
    match d with
    | Die o t f a ats kids =>
      H o t f a ats kids
        ((fix go (l : list die) : Forall P l :=
            match l with
            | [] => Forall_nil P
            | k :: l' => Forall_cons k (die_ind' k) (go l')
            end) kids)
    end.
End DieInd.

Lemma preorder_eq d : preorder d = d :: flat_map preorder (d_kids d).
Proof. destruct d; reflexivity. Qed.

Lemma preorder_self d : In d (preorder d).
Proof. rewrite preorder_eq. left. reflexivity. Qed.

Lemma preorder_kid d k : In k (d_kids d) -> In k (preorder d).
Proof.
  intros I. rewrite preorder_eq. right. apply in_flat_map. exists k. split; [exact I|apply preorder_self].
Qed.

(* the pre-order is closed under taking children, and is the least such set *)
Lemma preorder_trans : forall d x y, In x (preorder d) -> In y (preorder x) -> In y (preorder d).
Proof.
  induction d as [o t f a ats kids IH] using die_ind'. intros x y Hx Hy.
  rewrite preorder_eq in Hx. cbn [d_kids] in Hx. destruct Hx as [<-|Hx]; [exact Hy|].
  apply in_flat_map in Hx. destruct Hx as [k [Ik Hx]].
  rewrite preorder_eq. cbn [d_kids]. right. apply in_flat_map. exists k. split; [exact Ik|].
  rewrite Forall_forall in IH. eapply IH; eauto.
Qed.

Inductive reach : die -> die -> Prop :=
| reach_refl d : reach d d
| reach_step d k x : In k (d_kids d) -> reach k x -> reach d x.

(* C05: the DIEs of a unit are exactly those reachable by root child* *)
Theorem preorder_is_child_closure : forall d x, In x (preorder d) <-> reach d x.
Proof.
  intros d x. split.
  - revert x. induction d as [o t f a ats kids IH] using die_ind'. intros x Hx.
    rewrite preorder_eq in Hx. cbn [d_kids] in Hx. destruct Hx as [<-|Hx]; [constructor|].
    apply in_flat_map in Hx. destruct Hx as [k [Ik Hx]].
    rewrite Forall_forall in IH. eapply reach_step; [exact Ik|]. apply IH; assumption.
  - induction 1 as [d|d k x Ik R IH]; [apply preorder_self|].
    eapply preorder_trans; [apply preorder_kid; exact Ik|exact IH].
Qed.

(* ---- parent by search ---- *)
Fixpoint first_some {A} (l : list (option A)) : option A :=
  match l with [] => None | Some x :: _ => Some x | None :: l' => first_some l' end.

Lemma parent_in_eq d o :
  parent_in d o = if existsb (fun k => d_off k =? o) (d_kids d) then Some d
                  else first_some (map (fun k => parent_in k o) (d_kids d)).
Proof.
  destruct d as [o' t f a ats kids]. cbn [parent_in d_kids].
  destruct (existsb (fun k => d_off k =? o) kids); [reflexivity|].
  induction kids as [|k kids IH]; [reflexivity|]. cbn [map first_some].
  destruct (parent_in k o); [reflexivity|exact IH].
Qed.

Lemma first_some_in {A} (l : list (option A)) x : first_some l = Some x -> In (Some x) l.
Proof. induction l as [|[y|] l IH]; cbn; intros H; [discriminate|inversion H; auto|auto]. Qed.

(* what the search returns is a DIE of the tree that has a child at that offset *)
Theorem parent_in_sound : forall r o p, parent_in r o = Some p ->
  In p (preorder r) /\ exists k, In k (d_kids p) /\ d_off k = o.
Proof.
  induction r as [o' t f a ats kids IH] using die_ind'. intros o p H.
  rewrite parent_in_eq in H. cbn [d_kids] in H.
  destruct (existsb (fun k => d_off k =? o) kids) eqn:E.
  - inversion H; subst. split; [apply preorder_self|].
    apply existsb_exists in E. destruct E as [k [Ik Ek]]. apply N.eqb_eq in Ek. exists k. auto.
  - apply first_some_in in H. apply in_map_iff in H. destruct H as [k [Hk Ik]].
    rewrite Forall_forall in IH. destruct (IH k Ik o p Hk) as [Hp Hex].
    split; [|exact Hex]. eapply preorder_trans; [apply preorder_kid; exact Ik|exact Hp].
Qed.

(* offsets of a subtree *)
Definition offs (d : die) : list N := map d_off (preorder d).

Lemma parent_in_none : forall r o, ~ In o (offs r) -> parent_in r o = None.
Proof.
  induction r as [o' t f a ats kids IH] using die_ind'. intros o N.
  rewrite parent_in_eq. cbn [d_kids].
  assert (forall k, In k kids -> ~ In o (offs k)) as NK.
  { intros k Ik C. apply N. unfold offs in *. apply in_map_iff in C. destruct C as [x [Ex Ix]].
    apply in_map_iff. exists x. split; [exact Ex|].
    eapply preorder_trans; [apply (preorder_kid (Die o' t f a ats kids)); exact Ik|exact Ix]. }
  destruct (existsb (fun k => d_off k =? o) kids) eqn:E.
  - exfalso. apply existsb_exists in E. destruct E as [k [Ik Ek]]. apply N.eqb_eq in Ek.
    apply (NK k Ik). unfold offs. apply in_map_iff. exists k. split; [exact Ek|apply preorder_self].
  - rewrite Forall_forall in IH. clear E N.
    induction kids as [|k kids IHk]; [reflexivity|]. cbn [map first_some].
    rewrite (IH k (in_eq k kids) o (NK k (in_eq k kids))).
    apply IHk.
    + intros x Hx o0 Ho. apply IH; [apply in_cons; exact Hx|exact Ho].
    + intros x Hx. apply NK. apply in_cons. exact Hx.
Qed.

Lemma NoDup_app_l {A} (l1 l2 : list A) : NoDup (l1 ++ l2) -> NoDup l1.
Proof. induction l1 as [|x l1 IH]; cbn; intros H; [constructor|]. inversion H; subst. constructor; [rewrite in_app_iff in *; tauto|auto]. Qed.
Lemma NoDup_app_r {A} (l1 l2 : list A) : NoDup (l1 ++ l2) -> NoDup l2.
Proof. induction l1 as [|x l1 IH]; cbn; intros H; [exact H|]. inversion H; auto. Qed.
Lemma NoDup_app_disj {A} (l1 l2 : list A) x : NoDup (l1 ++ l2) -> In x l1 -> In x l2 -> False.
Proof.
  induction l1 as [|y l1 IH]; cbn; intros H I1 I2; [contradiction|]. inversion H; subst.
  destruct I1 as [->|I1]; [apply H2; apply in_app_iff; auto|eauto].
Qed.

Lemma offs_eq d : offs d = d_off d :: flat_map offs (d_kids d).
Proof.
  unfold offs. rewrite preorder_eq. cbn [map]. f_equal.
  induction (d_kids d) as [|k l IH]; [reflexivity|]. cbn [flat_map]. rewrite map_app, IH. reflexivity.
Qed.

(* C05, raw: with distinct offsets the search finds THE parent -- every child has its parent *)
Theorem parent_in_complete : forall r, NoDup (offs r) ->
  forall p k, In p (preorder r) -> In k (d_kids p) -> parent_in r (d_off k) = Some p.
Proof.
  induction r as [o' t f a ats kids IH] using die_ind'. intros ND p k Hp Ik.
  rewrite parent_in_eq. cbn [d_kids].
  rewrite preorder_eq in Hp. cbn [d_kids] in Hp.
  rewrite offs_eq in ND. cbn [d_off d_kids] in ND. inversion ND as [|? ? Nroot NDk]; subst.
  destruct Hp as [<-|Hp].
  - cbn [d_kids] in Ik.
    assert (existsb (fun k0 => d_off k0 =? d_off k) kids = true) as ->; [|reflexivity].
    apply existsb_exists. exists k. split; [exact Ik|apply N.eqb_refl].
  - apply in_flat_map in Hp. destruct Hp as [c [Ic Hp]].
    (* k lies strictly inside the subtree of the child c *)
    assert (In (d_off k) (offs c)) as Kc.
    { unfold offs. apply in_map. eapply preorder_trans; [exact Hp|apply preorder_kid; exact Ik]. }
    assert (existsb (fun k0 => d_off k0 =? d_off k) kids = false) as ->.
    { apply not_true_is_false. intros E. apply existsb_exists in E. destruct E as [c' [Ic' Ec']]. apply N.eqb_eq in Ec'.
      (* c' is a child of the root with the offset of k: then that offset occurs twice *)
      clear IH Nroot. revert NDk Ic Ic' Kc Ec' Hp Ik. clear. intros NDk Ic Ic' Kc Ec' Hp Ik.
      induction kids as [|x kids IHk]; [contradiction|]. cbn [flat_map] in NDk.
      destruct Ic as [->|Ic]; destruct Ic' as [->|Ic'].
      - (* c' = c: k is a proper descendant of c with c's own offset *)
        apply NoDup_app_l in NDk. rewrite offs_eq in NDk. inversion NDk as [|? ? Nc _]; subst. apply Nc.
        rewrite Ec'. clear - Hp Ik.
        rewrite preorder_eq in Hp. destruct Hp as [<-|Hp].
        + apply in_flat_map. exists k. split; [exact Ik|]. unfold offs. apply in_map. apply preorder_self.
        + apply in_flat_map in Hp. destruct Hp as [g [Ig Hp]]. apply in_flat_map. exists g. split; [exact Ig|].
          unfold offs. apply in_map. eapply preorder_trans; [exact Hp|apply preorder_kid; exact Ik].
      - eapply NoDup_app_disj; [exact NDk|exact Kc|]. apply in_flat_map. exists c'. split; [exact Ic'|].
        unfold offs. rewrite <- Ec'. apply in_map. apply preorder_self.
      - eapply NoDup_app_disj; [exact NDk| |apply in_flat_map; exists c; split; [exact Ic|exact Kc]].
        unfold offs. rewrite <- Ec'. apply in_map. apply preorder_self.
      - apply IHk; auto. eapply NoDup_app_r; eauto. }
    (* the search descends into c and nowhere before it *)
    rewrite Forall_forall in IH. clear Nroot ND.
    induction kids as [|x kids IHk]; [contradiction|]. cbn [map first_some flat_map] in *.
    destruct Ic as [->|Ic].
    + rewrite (IH c (in_eq c kids) (NoDup_app_l _ _ NDk) p k Hp Ik). reflexivity.
    + rewrite parent_in_none.
      * apply IHk; auto; [intros; apply IH; auto; apply in_cons; assumption|eapply NoDup_app_r; eauto].
      * intros C. eapply NoDup_app_disj; [exact NDk|exact C|]. apply in_flat_map. exists c. split; [exact Ic|exact Kc].
Qed.

(* ---- the forest: parents across units ---- *)
Definition wf (f : forest) : Prop := NoDup (map d_off (raw_entries f)).

Definition roots (f : forest) : list die := flat_map (fun u => match u_root u with Some r => [r] | None => [] end) f.

Lemma raw_entries_roots f : raw_entries f = flat_map preorder (roots f).
Proof.
  unfold raw_entries, roots. induction f as [|u f IH]; [reflexivity|]. cbn [flat_map].
  rewrite IH, flat_map_app. f_equal. unfold unit_dies. destruct (u_root u); cbn [flat_map]; rewrite ?app_nil_r; reflexivity.
Qed.

Fixpoint search_roots (rs : list die) (o : N) : option die :=
  match rs with [] => None | r :: rs' => match parent_in r o with Some p => Some p | None => search_roots rs' o end end.

Lemma raw_parent_roots f o : raw_parent f o = search_roots (roots f) o.
Proof.
  induction f as [|u f IH]; [reflexivity|]. cbn [raw_parent roots flat_map].
  destruct (u_root u) as [r|]; cbn [app search_roots]; [destruct (parent_in r o); [reflexivity|exact IH]|exact IH].
Qed.

Lemma map_flat_map_offs rs : map d_off (flat_map preorder rs) = flat_map offs rs.
Proof. induction rs as [|r rs IH]; [reflexivity|]. cbn [flat_map]. rewrite map_app, IH. reflexivity. Qed.

(* C05 (raw): every DIE yielded by `child` of D has D as `parent` *)
Theorem raw_child_has_parent f : wf f -> forall r p k,
  In r (roots f) -> In p (preorder r) -> In k (d_kids p) -> raw_parent f (d_off k) = Some p.
Proof.
  unfold wf. rewrite raw_entries_roots, map_flat_map_offs. intros ND r p k Ir Hp Ik.
  rewrite raw_parent_roots. induction (roots f) as [|x rs IH]; [contradiction|].
  cbn [flat_map search_roots] in *. destruct Ir as [->|Ir].
  - rewrite (parent_in_complete r (NoDup_app_l _ _ ND) p k Hp Ik). reflexivity.
  - rewrite parent_in_none.
    + apply IH; [eapply NoDup_app_r; eauto|exact Ir].
    + intros C. eapply NoDup_app_disj; [exact ND|exact C|].
      apply in_flat_map. exists r. split; [exact Ir|]. unfold offs. apply in_map.
      eapply preorder_trans; [exact Hp|apply preorder_kid; exact Ik].
Qed.

Lemma strict_descendant r p k : In p (preorder r) -> In k (d_kids p) -> In (d_off k) (flat_map offs (d_kids r)).
Proof.
  intros Hp Ik. rewrite preorder_eq in Hp. destruct Hp as [<-|Hp].
  - apply in_flat_map. exists k. split; [exact Ik|]. unfold offs. apply in_map. apply preorder_self.
  - apply in_flat_map in Hp. destruct Hp as [c [Ic Hp]]. apply in_flat_map. exists c. split; [exact Ic|].
    unfold offs. apply in_map. eapply preorder_trans; [exact Hp|apply preorder_kid; exact Ik].
Qed.

(* C05 (raw): a unit root has no parent *)
Theorem raw_root_has_no_parent f : wf f -> forall r, In r (roots f) -> raw_parent f (d_off r) = None.
Proof.
  unfold wf. rewrite raw_entries_roots, map_flat_map_offs. intros ND r Ir.
  rewrite raw_parent_roots.
  assert (forall x, In x (roots f) -> parent_in x (d_off r) = None) as A.
  { intros x Ix. destruct (parent_in x (d_off r)) as [p|] eqn:E; [|reflexivity]. exfalso.
    apply parent_in_sound in E. destruct E as [Hp [k [Ik Ek]]].
    pose proof (strict_descendant x p k Hp Ik) as SD. rewrite Ek in SD.
    (* the offset of r occurs as a strict descendant of x and as r itself *)
    clear - ND Ir Ix SD. induction (roots f) as [|y rs IH]; [contradiction|]. cbn [flat_map] in ND.
    destruct Ir as [->|Ir]; destruct Ix as [->|Ix].
    - apply NoDup_app_l in ND. rewrite offs_eq in ND. inversion ND; subst. contradiction.
    - eapply NoDup_app_disj; [exact ND|unfold offs; apply in_map; apply preorder_self|].
      apply in_flat_map. exists x. split; [exact Ix|]. rewrite offs_eq. right. exact SD.
    - eapply NoDup_app_disj; [exact ND|rewrite offs_eq; right; exact SD|].
      apply in_flat_map. exists r. split; [exact Ir|]. unfold offs. apply in_map. apply preorder_self.
    - apply IH; auto. eapply NoDup_app_r; eauto. }
  revert A. generalize (roots f). intros rs A.
  induction rs as [|x rs IH]; [reflexivity|]. cbn [search_roots].
  rewrite (A x (in_eq _ _)). apply IH. intros y Iy. apply A. apply in_cons. exact Iy.
Qed.

(* C02: the rows of the raw view are the stored DIEs, in pre-order, each with its stored attributes *)
Theorem raw_rows_offsets f : map r_off (raw_rows f) = map d_off (raw_entries f).
Proof. unfold raw_rows. rewrite map_map. reflexivity. Qed.

Theorem raw_rows_exactly_once f : wf f -> NoDup (map r_off (raw_rows f)).
Proof. intros W. rewrite raw_rows_offsets. exact W. Qed.

Theorem raw_row_is_stored f d :
  r_tag (raw_row f d) = d_tag d /\ r_flag (raw_row f d) = d_flag d /\
  r_kids (raw_row f d) = map d_off (d_kids d) /\
  r_attrs (raw_row f d) = map (fun a => (a_name a, a_form a)) (d_attrs d).
Proof. repeat split. Qed.

(* ---- cooked view ---- *)

(* without imports the cooked children are the raw children *)
Theorem cooked_kids_no_imports f kids n :
  Forall (fun k => import_target f k = None) kids -> cooked_kids (S n) f kids = kids.
Proof.
  intros F. cbn [cooked_kids]. induction F as [|k kids Hk F IH]; [reflexivity|].
  cbn [flat_map]. rewrite Hk, IH. reflexivity.
Qed.

(* no DW_TAG_imported_unit that can be resolved survives among the cooked children *)
Theorem cooked_kids_inlined : forall fuel f kids, Forall (fun k => import_target f k = None) (cooked_kids fuel f kids).
Proof.
  induction fuel as [|fu IH]; intros f kids; [constructor|]. cbn [cooked_kids].
  induction kids as [|k kids IHk]; [constructor|]. cbn [flat_map]. apply Forall_app. split; [|exact IHk].
  destruct (import_target f k) eqn:E; [apply IH|constructor; [exact E|constructor]].
Qed.

(* inlining is in place: the cooked children of a list are the concatenation, in order, of what each child expands to *)
Theorem cooked_kids_app fuel f l1 l2 : cooked_kids fuel f (l1 ++ l2) = cooked_kids fuel f l1 ++ cooked_kids fuel f l2.
Proof. destruct fuel; [reflexivity|]. cbn [cooked_kids]. apply flat_map_app. Qed.

Lemma NoDup_app_intro_single {A} (l : list A) x : NoDup l -> ~ In x l -> NoDup (l ++ [x]).
Proof.
  induction l as [|y l IH]; cbn; intros ND NI; [constructor; [intros []|constructor]|].
  inversion ND; subst. constructor.
  - rewrite in_app_iff. cbn. intros [I|[E|[]]]; [contradiction|]. apply NI. left. symmetry. exact E.
  - apply IH; [assumption|]. intros I. apply NI. right. exact I.
Qed.

(* attribute integration *)
Definition names (l : list (N * attr)) : list N := map (fun oa => a_name (snd oa)) l.

Lemma integrate_die_spec f sec d : forall ats seen sp ao out s o sn,
  integrate_die f sec d ats seen sp ao = (out, s, o, sn) ->
  sn = seen ++ names out /\
  (NoDup seen -> NoDup sn) /\
  (sec = true -> Forall (fun n => should_integrate n = true) (names out)) /\
  Forall (fun oa => fst oa = d_off d /\ In (snd oa) ats) out.
Proof.
  induction ats as [|a rest IH]; intros seen sp ao out s o sn H; cbn [integrate_die] in H.
  - inversion H; subst. cbn. rewrite app_nil_r. repeat split; auto; constructor.
  - set (sp' := if a_name a =? AT_specification then _ else sp) in H.
    set (ao' := if a_name a =? AT_abstract_origin then _ else ao) in H.
    assert (W : forall out, Forall (fun oa => fst oa = d_off d /\ In (snd oa) rest) out ->
                            Forall (fun oa => fst oa = d_off d /\ In (snd oa) (a :: rest)) out).
    { intros l F. eapply Forall_impl; [|exact F]. intros x [A B]. split; [exact A|right; exact B]. }
    destruct (sec && negb (should_integrate (a_name a))) eqn:E1.
    + destruct (IH _ _ _ _ _ _ _ H) as [A [B [C D]]]. repeat split; auto.
    + destruct (existsb (N.eqb (a_name a)) seen) eqn:E2.
      * destruct (IH _ _ _ _ _ _ _ H) as [A [B [C D]]]. repeat split; auto.
      * destruct (integrate_die f sec d rest (seen ++ [a_name a]) sp' ao') as [[[out' s'] o'] sn'] eqn:R.
        inversion H; subst. destruct (IH _ _ _ _ _ _ _ R) as [A [B [C D]]].
        split; [|split; [|split]].
        -- rewrite A. unfold names. cbn [map snd]. rewrite <- app_assoc. reflexivity.
        -- intros ND. apply B. apply NoDup_app_intro_single; [exact ND|].
           intros I. assert (existsb (N.eqb (a_name a)) seen = true); [|congruence].
           apply existsb_exists. exists (a_name a). split; [exact I|apply N.eqb_refl].
        -- intros S. unfold names. cbn [map snd]. constructor; [|apply C; exact S].
           subst sec. cbn [andb] in E1. apply negb_false_iff in E1. exact E1.
        -- constructor; [cbn; split; [reflexivity|left; reflexivity]|apply W; exact D].
Qed.

Lemma loop_step fu f d stack sec seen :
  cooked_attrs_loop (S fu) f (d :: stack) sec seen =
  let '(out, spec, ao, seen') := integrate_die f sec d (d_attrs d) seen None None in
  out ++ cooked_attrs_loop fu f (opt_list spec ++ opt_list ao ++ stack) true seen'.
Proof. reflexivity. Qed.

(* C06: no attribute name is yielded twice, whatever the chains look like *)
Lemma loop_names_nodup : forall fuel f stack sec seen, NoDup seen ->
  NoDup (seen ++ names (cooked_attrs_loop fuel f stack sec seen)).
Proof.
  induction fuel as [|fu IH]; intros f stack sec seen ND; [cbn; rewrite app_nil_r; exact ND|].
  destruct stack as [|d stack]; [cbn; rewrite app_nil_r; exact ND|].
  rewrite loop_step.
  destruct (integrate_die f sec d (d_attrs d) seen None None) as [[[out sp] ao] sn] eqn:E.
  destruct (integrate_die_spec _ _ _ _ _ _ _ _ _ _ _ E) as [A [B _]].
  unfold names. rewrite map_app. fold (names out). rewrite app_assoc, <- A.
  apply IH. apply B. exact ND.
Qed.

Theorem cooked_attrs_names_nodup fuel f d : NoDup (names (cooked_attrs fuel f d)).
Proof. apply (loop_names_nodup fuel f [d] false [] (NoDup_nil _)). Qed.

(* C06: what is brought in from other DIEs is never DW_AT_sibling or DW_AT_declaration *)
Lemma loop_secondary_integrated : forall fuel f stack seen,
  Forall (fun n => should_integrate n = true) (names (cooked_attrs_loop fuel f stack true seen)).
Proof.
  induction fuel as [|fu IH]; intros f stack seen; [constructor|].
  destruct stack as [|d stack]; [constructor|]. rewrite loop_step.
  destruct (integrate_die f true d (d_attrs d) seen None None) as [[[out sp] ao] sn] eqn:E.
  destruct (integrate_die_spec _ _ _ _ _ _ _ _ _ _ _ E) as [_ [_ [C _]]].
  unfold names. rewrite map_app. apply Forall_app. split; [apply C; reflexivity|apply IH].
Qed.

(* C06: the DIE's own attributes come first (each name once), the inherited ones follow *)
Theorem cooked_attrs_own_then_inherited fu f d :
  exists own inherited,
    cooked_attrs (S fu) f d = own ++ inherited /\
    Forall (fun oa => fst oa = d_off d /\ In (snd oa) (d_attrs d)) own /\
    Forall (fun n => should_integrate n = true) (names inherited).
Proof.
  unfold cooked_attrs. rewrite loop_step.
  destruct (integrate_die f false d (d_attrs d) [] None None) as [[[out sp] ao] sn] eqn:E.
  destruct (integrate_die_spec _ _ _ _ _ _ _ _ _ _ _ E) as [_ [_ [_ D]]].
  exists out, (cooked_attrs_loop fu f (opt_list sp ++ opt_list ao ++ []) true sn).
  split; [reflexivity|]. split; [exact D|apply loop_secondary_integrated].
Qed.

(* every own attribute name is yielded (the first stored occurrence) *)
Lemma integrate_die_own_complete f d : forall ats seen sp ao out s o sn,
  integrate_die f false d ats seen sp ao = (out, s, o, sn) ->
  forall a, In a ats -> In (a_name a) sn.
Proof.
  induction ats as [|a rest IH]; intros seen sp ao out s o sn H x Ix; [contradiction|].
  cbn [integrate_die andb] in H.
  destruct (existsb (N.eqb (a_name a)) seen) eqn:E2.
  - destruct (integrate_die_spec _ _ _ _ _ _ _ _ _ _ _ H) as [A _].
    destruct Ix as [<-|Ix]; [|eapply IH; eauto].
    rewrite A. apply in_app_iff. left. apply existsb_exists in E2. destruct E2 as [n [In_ En]]. apply N.eqb_eq in En. subst. exact In_.
  - destruct (integrate_die f false d rest (seen ++ [a_name a])
      (if a_name a =? AT_specification then match sp with Some _ => sp | None => match a_ref a with Some o0 => find_die f o0 | None => None end end else sp)
      (if a_name a =? AT_abstract_origin then match ao with Some _ => ao | None => match a_ref a with Some o0 => find_die f o0 | None => None end end else ao)) as [[[out' s'] o'] sn'] eqn:R.
    inversion H; subst.
    destruct Ix as [<-|Ix]; [|eapply IH; eauto].
    destruct (integrate_die_spec _ _ _ _ _ _ _ _ _ _ _ R) as [A _]. rewrite A.
    apply in_app_iff. left. apply in_app_iff. right. left. reflexivity.
Qed.
