(* What the peeling does: qualifiers and typedefs are transparent at any depth,
   a pointer is a pointer whatever it points to, more fuel never changes an
   answer -- and a type chain that runs in a circle is never left. *)
From Coq Require Import NArith List Bool Lia.
From Dwgrep Require Import Atval TypeCtx.
Import ListNotations.
Import TypeCtxM.
Local Open Scope N_scope.

Lemma peel_start f ts d d' : td_type d = td_type d' -> peel f ts d = match f with O => None | S _ => match td_type d with None => Some d | Some _ => peel f ts d' end end.
Proof.
  intros E. destruct f as [|f]; [reflexivity|]. cbn [peel]. rewrite <- E.
  destruct (td_type d); reflexivity.
Qed.

Lemma peel_mono f ts : forall d r, peel f ts d = Some r -> peel (S f) ts d = Some r.
Proof.
  induction f as [|f IH]; intros d r H; [discriminate H|].
  cbn [peel] in H. change (peel (S (S f)) ts d) with
    (match td_type d with None => Some d | Some o => match lookup ts o with None => None | Some t => if keep_peeling (td_tag t) then peel (S f) ts t else Some t end end).
  destruct (td_type d) as [o|]; [|exact H].
  destruct (lookup ts o) as [t|]; [|discriminate H].
  destruct (keep_peeling (td_tag t)); [apply IH; exact H|exact H].
Qed.

Lemma peel_more f g ts d r : (f <= g)%nat -> peel f ts d = Some r -> peel g ts d = Some r.
Proof.
  intros L H. induction L as [|g L IH]; [exact H|]. apply peel_mono. exact IH.
Qed.

(* one qualifier / typedef / subrange / packed type in front of a type changes nothing *)
Lemma peel_through f ts ty o w : ty = Some o -> lookup ts o = Some w -> keep_peeling (td_tag w) = true ->
  peel (S f) ts (holder ty) = peel f ts w.
Proof.
  intros -> L K. cbn [peel holder td_type]. rewrite L, K. reflexivity.
Qed.

Lemma ctx_more f g ts d r : (f <= g)%nat -> ctx_from f ts d = Some r -> ctx_from g ts d = Some r.
Proof.
  intros L. unfold ctx_from.
  destruct (peel f ts d) as [t|] eqn:P; [|discriminate].
  rewrite (peel_more f g ts d t L P).
  destruct ((td_tag t =? TAG_pointer_type) || (td_tag t =? TAG_ptr_to_member_type)); [auto|].
  destruct (negb (td_tag t =? TAG_enumeration_type) && (negb (td_tag t =? TAG_base_type) || match td_enc t with Some _ => false | None => true end)); [auto|].
  destruct (td_enc t); [auto|].
  destruct (forms_seen (td_kids t)) as [s u].
  destruct (td_type t); [|auto].
  destruct (peel f ts t) as [ut|] eqn:P2; [|discriminate].
  rewrite (peel_more f g ts t ut L P2). auto.
Qed.

(* the context of `cv T` / `typedef T` is the context of T, whatever T is *)
Theorem qualifier_transparent f ts o w o' r :
  lookup ts o = Some w -> keep_peeling (td_tag w) = true -> td_type w = Some o' ->
  var_ctx f ts (Some o') = Some r -> var_ctx (S f) ts (Some o) = Some r.
Proof.
  intros L K T H. unfold var_ctx, ctx_from in *.
  rewrite (peel_through f ts (Some o) o w eq_refl L K).
  assert (E : peel f ts w = peel f ts (holder (Some o'))).
  { destruct f as [|f]; [reflexivity|]. cbn [peel holder td_type]. rewrite T. reflexivity. }
  rewrite E.
  destruct (peel f ts (holder (Some o'))) as [t|] eqn:P; [|discriminate H].
  destruct ((td_tag t =? TAG_pointer_type) || (td_tag t =? TAG_ptr_to_member_type)); [exact H|].
  destruct (negb (td_tag t =? TAG_enumeration_type) && (negb (td_tag t =? TAG_base_type) || match td_enc t with Some _ => false | None => true end)); [exact H|].
  destruct (td_enc t); [exact H|].
  destruct (forms_seen (td_kids t)) as [s u].
  destruct (td_type t); [|exact H].
  destruct (peel f ts t) as [ut|] eqn:P2; [|discriminate H].
  rewrite (peel_mono f ts t ut P2). exact H.
Qed.

(* a base type with an encoding gives that encoding *)
Theorem base_type_encoding f ts o t e :
  lookup ts o = Some t -> td_tag t = TAG_base_type -> td_enc t = Some e ->
  var_ctx (S f) ts (Some o) = Some (TEnc e).
Proof.
  intros L T E. unfold var_ctx, ctx_from. cbn [peel holder td_type]. rewrite L.
  assert (KP : keep_peeling (td_tag t) = false) by (rewrite T; reflexivity).
  rewrite KP. cbv beta iota. rewrite T, E. reflexivity.
Qed.

(* a pointer is a pointer, whatever it points to (or nothing) *)
Theorem pointer_is_pointer f ts o t :
  lookup ts o = Some t -> (td_tag t = TAG_pointer_type \/ td_tag t = TAG_ptr_to_member_type) ->
  var_ctx (S f) ts (Some o) = Some TPointer.
Proof.
  intros L T. unfold var_ctx, ctx_from. cbn [peel holder td_type]. rewrite L.
  assert (KP : keep_peeling (td_tag t) = false) by (destruct T as [T|T]; rewrite T; reflexivity).
  rewrite KP. cbv beta iota. destruct T as [T|T]; rewrite T; reflexivity.
Qed.

(* no DW_AT_type at all: nothing is known *)
Theorem no_type_no_info f ts : var_ctx (S f) ts None = Some TNoInfo.
Proof. reflexivity. Qed.

(* an enumerator of an enumeration whose underlying type (behind any one typedef or qualifier, see
   qualifier_transparent for more) is a base type: that type's encoding *)
Theorem enumerator_underlying f ts p o t e :
  td_tag p = TAG_enumeration_type -> td_type p = Some o ->
  lookup ts o = Some t -> td_tag t = TAG_base_type -> td_enc t = Some e ->
  enumerator_ctx (S f) ts p = Some (TEnc e).
Proof.
  intros TP TY L T E. unfold enumerator_ctx. rewrite TP, TY. cbn [negb N.eqb].
  replace (negb (TAG_enumeration_type =? TAG_enumeration_type)) with false by reflexivity.
  unfold ctx_from. cbn [peel]. rewrite TY, L.
  assert (KP : keep_peeling (td_tag t) = false) by (rewrite T; reflexivity).
  rewrite KP. cbv beta iota. rewrite T, E. reflexivity.
Qed.

(* the loop of get_type_die has no bound of its own: a typedef / qualifier whose DW_AT_type leads back to
   itself is never left, whatever the fuel *)
Theorem circular_chain_never_ends ts o w :
  lookup ts o = Some w -> keep_peeling (td_tag w) = true -> td_type w = Some o ->
  forall f, peel f ts w = None.
Proof.
  intros L K T f. induction f as [|f IH]; [reflexivity|].
  cbn [peel]. rewrite T, L, K. exact IH.
Qed.
