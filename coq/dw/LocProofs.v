From Coq Require Import ZArith NArith List Bool Lia.
From Dwgrep Require Import Loc.
Import ListNotations.
Local Open Scope Z_scope.

(* a signed operand survives the trip through libdw's unsigned word *)
Ltac Zify.zify_post_hook ::= Z.div_mod_to_equations.

Theorem signed_operand_roundtrip z : - two64 / 2 <= z < two64 / 2 -> sword_of (word_of z) = z.
Proof.
  unfold sword_of, word_of, two64. intros H.
  set (m := z mod 18446744073709551616).
  assert (m = z \/ m = z + 18446744073709551616) as [E|E] by (unfold m; lia).
  - rewrite E. destruct (Z.ltb_spec z (18446744073709551616 / 2)); lia.
  - rewrite E. destruct (Z.ltb_spec (z + 18446744073709551616) (18446744073709551616 / 2)); lia.
Qed.

Theorem unsigned_operand_kept n : 0 <= n < two64 -> word_of n = n.
Proof. intros H. apply Z.mod_small. exact H. Qed.

(* every operation reports its stored operands: the signed classes *)
Theorem signed_class_value o : op_class (o_code o) = OCSigned -> - two64 / 2 <= o_a o < two64 / 2 ->
  op_values o = Some [(o_a o, ODec)].
Proof. intros C R. unfold op_values. rewrite C, signed_operand_roundtrip by exact R. reflexivity. Qed.

Theorem bregx_value off r d : 0 <= r < two64 -> - two64 / 2 <= d < two64 / 2 ->
  op_values (mkop off 146 r d) = Some [(r, ODec); (d, ODec)].
Proof.
  intros R D. unfold op_values. cbn [o_code o_a o_b]. change (op_class 146) with OCTwoUS.
  rewrite unsigned_operand_kept, signed_operand_roundtrip by assumption. reflexivity.
Qed.

(* length / elem / relem / ?OP_x on one element *)
Lemma number_length {A} (l : list A) : forall i, length (number l i) = length l.
Proof. induction l as [|x l IH]; intros i; cbn; [reflexivity|rewrite IH; reflexivity]. Qed.
Lemma number_snd {A} (l : list A) : forall i, map snd (number l i) = l.
Proof. induction l as [|x l IH]; intros i; cbn; [reflexivity|rewrite IH; reflexivity]. Qed.
Lemma number_fst {A} (l : list A) : forall i, map fst (number l i) = map (fun k => (i + N.of_nat k)%N) (seq 0 (length l)).
Proof.
  induction l as [|x l IH]; intros i; cbn [number map length seq]; [reflexivity|].
  f_equal; [cbn; lia|]. rewrite IH, <- seq_shift, map_map. apply map_ext. intros k. lia.
Qed.

Theorem length_is_number_of_elem e : w_length e = N.of_nat (length (w_elem e)).
Proof. unfold w_length, w_elem. rewrite number_length. reflexivity. Qed.

Theorem relem_is_elem_reversed e : map snd (w_relem e) = rev (map snd (w_elem e)).
Proof. unfold w_relem, w_elem. rewrite !number_snd. reflexivity. Qed.

Theorem elem_in_stored_order e : map snd (w_elem e) = l_ops e /\
  map fst (w_elem e) = map N.of_nat (seq 0 (length (l_ops e))).
Proof.
  unfold w_elem. split; [apply number_snd|]. rewrite number_fst. apply map_ext. intros k. lia.
Qed.

Theorem has_op_iff e code : w_has_op e code = true <-> exists o, In o (l_ops e) /\ o_code o = code.
Proof.
  unfold w_has_op. rewrite existsb_exists. split; intros [o [I E]]; exists o; split; auto; apply N.eqb_eq; auto.
Qed.

(* abbreviation lookup: with distinct codes every entry of the table is what its code finds *)
Theorem lookup_finds table : NoDup (map ab_code table) -> forall a, In a table -> lookup table (ab_code a) = Some a.
Proof.
  unfold lookup. induction table as [|x t IH]; intros ND a I; [contradiction|].
  cbn [map] in ND. inversion ND as [|? ? NI ND']; subst. cbn [find].
  destruct I as [->|I]; [rewrite N.eqb_refl; reflexivity|].
  destruct (N.eqb_spec (ab_code x) (ab_code a)) as [E|_]; [|apply IH; assumption].
  exfalso. apply NI. rewrite E. apply in_map. exact I.
Qed.

Theorem matches_spec a tag flag attrs : matches a tag flag attrs = true ->
  ab_tag a = tag /\ ab_children a = flag /\ map fst (ab_attrs a) = map fst attrs.
Proof.
  unfold matches. intros H. apply andb_prop in H. destruct H as [H H3]. apply andb_prop in H. destruct H as [H1 H2].
  apply N.eqb_eq in H1. apply Bool.eqb_prop in H2. repeat split; auto.
  revert attrs H3. induction (ab_attrs a) as [|[n f] l IH]; intros [|[n' f'] d] H; cbn in *; try discriminate; auto.
  apply andb_prop in H. destruct H as [H H']. apply andb_prop in H. destruct H as [Hn _]. apply N.eqb_eq in Hn.
  f_equal; auto.
Qed.
