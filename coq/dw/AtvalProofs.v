(* Laws of attribute value decoding (dw/Atval.v). *)
From Coq Require Import ZArith NArith List Bool Lia.
From Dwgrep Require Import Atval.
Import ListNotations.
Local Open Scope Z_scope.

(* sign extension is two's complement: the unique number of the signed range
   congruent to the stored bits *)
Lemma pow8_split w : (0 < w)%N -> 2 ^ (8 * Z.of_N w) = 2 * 2 ^ (8 * Z.of_N w - 1) /\ 0 < 2 ^ (8 * Z.of_N w - 1).
Proof.
  intros Hw. assert (0 < Z.of_N w) by lia. split.
  - rewrite <- Z.pow_succ_r by lia. f_equal. lia.
  - apply Z.pow_pos_nonneg; lia.
Qed.

Theorem sext_twos_complement w bits : (0 < w)%N -> 0 <= bits < 2 ^ (8 * Z.of_N w) ->
  - 2 ^ (8 * Z.of_N w - 1) <= sext w bits < 2 ^ (8 * Z.of_N w - 1) /\
  (sext w bits) mod 2 ^ (8 * Z.of_N w) = bits.
Proof.
  intros Hw Hb. destruct (pow8_split w Hw) as [E P]. unfold sext.
  set (m := 2 ^ (8 * Z.of_N w)) in *. set (h := 2 ^ (8 * Z.of_N w - 1)) in *.
  assert (m / 2 = h) as -> by (rewrite E; rewrite Z.mul_comm, Z.div_mul; lia).
  destruct (Z.ltb_spec bits h) as [L|L].
  - split; [lia|]. apply Z.mod_small. lia.
  - split; [lia|]. symmetry. apply (Z.mod_unique _ _ (-1)); lia.
Qed.

Theorem sext_unique w bits z : (0 < w)%N -> 0 <= bits < 2 ^ (8 * Z.of_N w) ->
  - 2 ^ (8 * Z.of_N w - 1) <= z < 2 ^ (8 * Z.of_N w - 1) -> z mod 2 ^ (8 * Z.of_N w) = bits -> z = sext w bits.
Proof.
  intros Hw Hb Hz Hm. destruct (pow8_split w Hw) as [E P].
  destruct (sext_twos_complement w bits Hw Hb) as [R M].
  set (m := 2 ^ (8 * Z.of_N w)) in *. set (h := 2 ^ (8 * Z.of_N w - 1)) in *.
  assert (0 < m) by lia.
  pose proof (Z.div_mod z m ltac:(lia)) as D1. pose proof (Z.div_mod (sext w bits) m ltac:(lia)) as D2.
  rewrite Hm in D1. rewrite M in D2.
  set (k := z / m - sext w bits / m).
  assert (z - sext w bits = m * k) as K by (unfold k; lia).
  assert (- m < z - sext w bits < m) as B by lia.
  assert (k = 0) by nia. lia.
Qed.

(* DW_AT_const_value of fixed-size data: the signedness follows the encoding of the (peeled) type *)
Theorem const_value_signed w bits enc : enc = ATE_signed \/ enc = ATE_signed_char ->
  at_value AT_const_value (RData w bits) (TEnc enc) = ACst (sext w bits) ADec.
Proof. intros [->| ->]; reflexivity. Qed.

Theorem const_value_unsigned w bits enc :
  enc = ATE_unsigned \/ enc = ATE_unsigned_char \/ enc = ATE_address \/ enc = ATE_UTF ->
  at_value AT_const_value (RData w bits) (TEnc enc) = ACst bits ADec.
Proof. intros [->|[->|[->| ->]]]; reflexivity. Qed.

Theorem const_value_boolean w bits : at_value AT_const_value (RData w bits) (TEnc ATE_boolean) = ACst bits ABool.
Proof. reflexivity. Qed.

Theorem const_value_pointer w bits : at_value AT_const_value (RData w bits) TPointer = ACst bits AAddr.
Proof. reflexivity. Qed.

(* an encoding atval.cc does not interpret (floats, fixed point, decimal) is an error for plain data, never a number *)
Theorem const_value_uninterpreted_encoding w bits enc :
  In enc [ATE_float; ATE_imaginary_float; ATE_complex_float; ATE_signed_fixed; ATE_unsigned_fixed; ATE_packed_decimal; ATE_decimal_float] ->
  at_value AT_const_value (RData w bits) (TEnc enc) = AErr.
Proof. cbn [In]. intros [<-|[<-|[<-|[<-|[<-|[<-|[<-|[]]]]]]]]; reflexivity. Qed.

(* sdata / udata decide the signedness by form, for every attribute without a domain of its own *)
Definition own_domain (name : N) : bool :=
  (member name enumerated || N.eqb name AT_decl_line || N.eqb name AT_call_line || N.eqb name AT_decl_column || N.eqb name AT_call_column)%bool.

Theorem form_decides_sign name z c : own_domain name = false ->
  at_value name (RSdata z) c = ACst z ADec /\ at_value name (RUdata z) c = ACst z ADec.
Proof. unfold own_domain. intros H. unfold at_value. rewrite H. split; reflexivity. Qed.

(* enumerated attributes land in their own family, whatever constant form stores them *)
Theorem enumerated_in_family name r c z : member name enumerated = true -> uval r = Some z ->
  (forall big b, r <> RBlock big b) -> at_value name r c = ACst z (AFam name).
Proof.
  intros M U NB. unfold at_value.
  destruct r; cbn in U; try discriminate; try (unfold dependent, unsigned_with; rewrite M; cbn [uval]; inversion U; reflexivity);
  try (rewrite M; cbn [orb]; unfold dependent, unsigned_with; rewrite M; cbn [uval]; inversion U; reflexivity).
Qed.

(* strings byte for byte, references as the DIE they point to, flags as booleans, addresses in the address domain *)
Theorem plain_classes name c :
  (forall b, at_value name (RStr b) c = AStr b) /\ (forall o, at_value name (RRef o) c = ARef o) /\
  (forall b, at_value name (RFlag b) c = ACst (if b then 1 else 0) ABool) /\ (forall n, at_value name (RAddr n) c = ACst n AAddr).
Proof. repeat split. Qed.

(* what is not interpreted is reported, not decoded as something else *)
Theorem discr_value_is_error w bits c : at_value AT_discr_value (RData w bits) c = AErr.
Proof. reflexivity. Qed.
Theorem unknown_form_is_error name c : at_value name ROther c = AErr.
Proof. reflexivity. Qed.

(* a block constant in a big-endian file reads as the same bytes in reverse order do in a little-endian one *)
Lemma block_byte_order b enc : encoding_value (RBlock true b) enc = encoding_value (RBlock false (rev b)) enc.
Proof. unfold encoding_value. rewrite rev_length. reflexivity. Qed.
