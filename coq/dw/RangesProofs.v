(* die_ranges denotes exactly the union of the stored ranges. *)
From Coq Require Import ZArith List Lia.
From Dwgrep Require Import CovModel CovProofs Ranges.
Import ListNotations.
Import CovM RangesM.
Local Open Scope Z_scope.

Definition proper (r : Z * Z) : Prop := 0 <= fst r <= snd r /\ snd r < TOP.

Lemma fold_ranges_ok rs : forall c, Inv c -> (forall r, In r rs -> proper r) ->
  let res := fold_left (fun c r => add c (fst r) (wsub (snd r) (fst r))) rs c in
  Inv res /\ forall x, mem res x <-> mem c x \/ exists r, In r rs /\ fst r <= x < snd r.
Proof.
  induction rs as [|r rs IH]; intros c Hc Hp; cbn [fold_left].
  - split; [exact Hc|]. intros x. split; [tauto|]. intros [H|[r [[] _]]]. exact H.
  - assert (Pr : proper r) by (apply Hp; left; reflexivity).
    destruct Pr as [[P0 P1] P2].
    assert (W : wsub (snd r) (fst r) = snd r - fst r) by (apply wsub_small; lia).
    rewrite W.
    destruct (add_ok c (fst r) (snd r - fst r) Hc P0 ltac:(lia) ltac:(lia)) as [Hi Hm].
    destruct (IH _ Hi (fun q Hq => Hp q (or_intror Hq))) as [Hi' Hm'].
    split; [exact Hi'|]. intros x. rewrite Hm', Hm. split.
    + intros [[H|H]|[q [Hq Hx]]].
      * left; exact H.
      * right. exists r. split; [left; reflexivity|lia].
      * right. exists q. split; [right; exact Hq|exact Hx].
    + intros [H|[q [[->|Hq] Hx]]].
      * left; left; exact H.
      * left; right; lia.
      * right. exists q. split; assumption.
Qed.

Theorem die_ranges_ok rs : (forall r, In r rs -> proper r) ->
  Inv (die_ranges rs) /\ forall x, mem (die_ranges rs) x <-> exists r, In r rs /\ fst r <= x < snd r.
Proof.
  intros Hp. unfold die_ranges.
  assert (I0 : Inv []) by (unfold Inv; cbn; exact I).
  destruct (fold_ranges_ok rs [] I0 Hp) as [Hi Hm].
  split; [exact Hi|]. intros x. rewrite Hm. pose proof (mem_nil x). tauto.
Qed.

(* an empty entry (start = end) adds nothing and ends nothing: what follows it still counts *)
Corollary empty_entry_is_skipped pre a post : (forall r, In r (pre ++ (a, a) :: post) -> proper r) ->
  forall x, mem (die_ranges (pre ++ (a, a) :: post)) x <-> mem (die_ranges (pre ++ post)) x.
Proof.
  intros Hp x.
  assert (Hp' : forall r, In r (pre ++ post) -> proper r).
  { intros r Hr. apply Hp. apply in_app_or in Hr. apply in_or_app. destruct Hr; [left|right; right]; assumption. }
  rewrite (proj2 (die_ranges_ok _ Hp) x), (proj2 (die_ranges_ok _ Hp') x).
  split; intros [r [Hr Hx]].
  - apply in_app_or in Hr. destruct Hr as [Hr|[<-|Hr]].
    + exists r. split; [apply in_or_app; left; exact Hr|exact Hx].
    + cbn [fst snd] in Hx. lia.
    + exists r. split; [apply in_or_app; right; exact Hr|exact Hx].
  - exists r. split; [|exact Hx]. apply in_app_or in Hr. apply in_or_app. destruct Hr; [left|right; right]; assumption.
Qed.
