(* die_ranges denotes exactly the union of the stored ranges. *)
From Coq Require Import ZArith List Lia.
From Dwgrep Require Import CovModel CovProofs Ranges.
Import ListNotations.
Import CovM RangesM.
Local Open Scope Z_scope.

Definition proper (r : Z * Z) : Prop := 0 <= fst r <= snd r /\ snd r < TOP.

Lemma fold_ranges_ok rs : forall c, Inv c -> (forall r, In r rs -> proper r) ->
  let res := fold_left (fun c r => add c (fst r) (wsub (snd r) (fst r))) rs c in
  Inv res /\ forall x, mem res x <-> mem c x \/ exists r, In r rs /\ fst r <= x < snd r.
Proof.
  induction rs as [|r rs IH]; intros c Hc Hp; cbn [fold_left].
  - split; [exact Hc|]. intros x. split; [tauto|]. intros [H|[r [[] _]]]. exact H.
  - assert (Pr : proper r) by (apply Hp; left; reflexivity).
    destruct Pr as [[P0 P1] P2].
    assert (W : wsub (snd r) (fst r) = snd r - fst r) by (apply wsub_small; lia).
    rewrite W.
    destruct (add_ok c (fst r) (snd r - fst r) Hc P0 ltac:(lia) ltac:(lia)) as [Hi Hm].
    destruct (IH _ Hi (fun q Hq => Hp q (or_intror Hq))) as [Hi' Hm'].
    split; [exact Hi'|]. intros x. rewrite Hm', Hm. split.
    + intros [[H|H]|[q [Hq Hx]]].
      * left; exact H.
      * right. exists r. split; [left; reflexivity|lia].
      * right. exists q. split; [right; exact Hq|exact Hx].
    + intros [H|[q [[->|Hq] Hx]]].
      * left; left; exact H.
      * left; right; lia.
      * right. exists q. split; assumption.
Qed.

Theorem die_ranges_ok rs : (forall r, In r rs -> proper r) ->
  Inv (die_ranges rs) /\ forall x, mem (die_ranges rs) x <-> exists r, In r rs /\ fst r <= x < snd r.
Proof.
  intros Hp. unfold die_ranges.
  assert (I0 : Inv []) by (unfold Inv; cbn; exact I).
  destruct (fold_ranges_ok rs [] I0 Hp) as [Hi Hm].
  split; [exact Hi|]. intros x. rewrite Hm. pose proof (mem_nil x). tauto.
Qed.

(* an empty entry (start = end) adds nothing and ends nothing: what follows it still counts *)
Corollary empty_entry_is_skipped pre a post : (forall r, In r (pre ++ (a, a) :: post) -> proper r) ->
  forall x, mem (die_ranges (pre ++ (a, a) :: post)) x <-> mem (die_ranges (pre ++ post)) x.
Proof.
  intros Hp x.
  assert (Hp' : forall r, In r (pre ++ post) -> proper r).
  { intros r Hr. apply Hp. apply in_app_or in Hr. apply in_or_app. destruct Hr; [left|right; right]; assumption. }
  rewrite (proj2 (die_ranges_ok _ Hp) x), (proj2 (die_ranges_ok _ Hp') x).
  split; intros [r [Hr Hx]].
  - apply in_app_or in Hr. destruct Hr as [Hr|[<-|Hr]].
    + exists r. split; [apply in_or_app; left; exact Hr|exact Hx].
    + cbn [fst snd] in Hx. lia.
    + exists r. split; [apply in_or_app; right; exact Hr|exact Hx].
  - exists r. split; [|exact Hx]. apply in_app_or in Hr. apply in_or_app. destruct Hr; [left|right; right]; assumption.
Qed.

(* however it was built: the address set of a range list IS (the same canonical list as) the set built from
   the same ranges with the words aset and add *)
Definition built (rs : list (Z * Z)) : cov :=
  fold_left (fun c r => w_add c (w_aset (fst r) (snd r))) rs [].

Lemma w_aset_ok a b : 0 <= a <= b -> b < TOP -> Inv (w_aset a b) /\ forall x, mem (w_aset a b) x <-> a <= x < b.
Proof.
  intros H1 H2. unfold w_aset. rewrite Z.min_l, Z.max_r by lia.
  assert (I0 : Inv []) by (unfold Inv; cbn; exact I).
  destruct (add_ok [] a (b - a) I0 ltac:(lia) ltac:(lia) ltac:(lia)) as [Hi Hm].
  split; [exact Hi|]. intros x. rewrite Hm. pose proof (mem_nil x). split; [intros [F|F]; [tauto|lia]|intros F; right; lia].
Qed.

Lemma built_fold_ok rs : forall c, Inv c -> (forall r, In r rs -> proper r) ->
  let res := fold_left (fun c r => w_add c (w_aset (fst r) (snd r))) rs c in
  Inv res /\ forall x, mem res x <-> mem c x \/ exists r, In r rs /\ fst r <= x < snd r.
Proof.
  induction rs as [|r rs IH]; intros c Hc Hp; cbn [fold_left].
  - split; [exact Hc|]. intros x. split; [tauto|]. intros [H|[r [[] _]]]. exact H.
  - assert (Pr : proper r) by (apply Hp; left; reflexivity). destruct Pr as [[P0 P1] P2].
    destruct (w_aset_ok (fst r) (snd r) ltac:(lia) P2) as [Ia Ma].
    destruct (add_all_ok c (w_aset (fst r) (snd r)) Hc Ia) as [Hi Hm]. fold (w_add c (w_aset (fst r) (snd r))) in Hi, Hm.
    destruct (IH _ Hi (fun q Hq => Hp q (or_intror Hq))) as [Hi' Hm'].
    split; [exact Hi'|]. intros x. rewrite Hm', Hm, Ma. split.
    + intros [[H|H]|[q [Hq Hx]]].
      * left; exact H.
      * right. exists r. split; [left; reflexivity|exact H].
      * right. exists q. split; [right; exact Hq|exact Hx].
    + intros [H|[q [[->|Hq] Hx]]].
      * left; left; exact H.
      * left; right; exact Hx.
      * right. exists q. split; assumption.
Qed.

Theorem ranges_equal_built rs : (forall r, In r rs -> proper r) -> die_ranges rs = built rs.
Proof.
  intros Hp.
  destruct (die_ranges_ok rs Hp) as [I1 M1].
  assert (I0 : Inv []) by (unfold Inv; cbn; exact I).
  destruct (built_fold_ok rs [] I0 Hp) as [I2 M2]. fold (built rs) in I2, M2.
  apply w_cmp_eq. apply cmp_eq_iff_same_set; [exact I1|exact I2|].
  intros x. rewrite M1, M2. pose proof (mem_nil x). tauto.
Qed.
