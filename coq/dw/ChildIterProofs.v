(* The stack machine hands out exactly the in-place recursive expansion of imports, with the right chains. *)
From Coq Require Import NArith List Bool Arith Lia.
From Dwgrep Require Import Forest ForestProofs ChildIter.
Import ListNotations.
Import ForestM ChildIterM.

Section Generic.
Variable into : die -> list die.

(* imports nest at most n deep below these DIEs *)
Fixpoint fits (n : nat) (f : forest) (kids : list die) : Prop :=
  Forall (fun k => match import_target f k with
                   | Some t => match n with O => False | S m => fits m f (into t) end
                   | None => True
                   end) kids.

Lemma fits_cons n f k ks : fits n f (k :: ks) <->
  (match import_target f k with Some t => match n with O => False | S m => fits m f (into t) end | None => True end) /\ fits n f ks.
Proof. destruct n; cbn [fits]; split; intros H; [inversion H; subst; split; assumption|destruct H; constructor; assumption|inversion H; subst; split; assumption|destruct H; constructor; assumption]. Qed.

Lemma expand_cons n f k ks c : expand into n f (k :: ks) c =
  (match import_target f k with Some t => match n with O => [] | S m => expand into m f (into t) (d_off k :: c) end | None => [(k, c)] end) ++ expand into n f ks c.
Proof. destruct n; reflexivity. Qed.

Lemma run_range f : forall n l st c, fits n f l ->
  exists w, forall e, run into (w + e) f (l :: st) c = expand into n f l c ++ run into e f st (tl c).
Proof.
  induction n as [|m IHn]; induction l as [|k ks IHl]; intros st c F.
  - exists 1%nat. intros e. reflexivity.
  - apply fits_cons in F. destruct F as [Fk Fks].
    destruct (import_target f k) as [t|] eqn:T; [destruct Fk|].
    destruct (IHl st c Fks) as [w Hw]. exists (S w). intros e.
    cbn [plus run]. rewrite T, Hw, expand_cons, T. reflexivity.
  - exists 1%nat. intros e. reflexivity.
  - apply fits_cons in F. destruct F as [Fk Fks].
    destruct (IHl st c Fks) as [w2 H2].
    destruct (import_target f k) as [t|] eqn:T.
    + destruct (IHn (into t) (ks :: st) (d_off k :: c) Fk) as [w1 H1].
      exists (S (w1 + w2)). intros e. cbn [plus run]. rewrite T.
      rewrite <- Nat.add_assoc, H1. cbn [tl]. rewrite H2, expand_cons, T, <- app_assoc. reflexivity.
    + exists (S w2). intros e. cbn [plus run]. rewrite T, H2, expand_cons, T. reflexivity.
Qed.

Lemma run_nil f e c : run into e f [] c = [].
Proof. destruct e; reflexivity. Qed.
End Generic.

(* `child` in cooked mode: for every DIE below which imports nest at most n deep, and any fuel from some point on *)
Theorem children_are_the_expansion f n d : fits d_kids n f (d_kids d) ->
  exists w, forall e, children (w + e) f d = expand d_kids n f (d_kids d) [].
Proof.
  intros F. destruct (run_range d_kids f n (d_kids d) [] [] F) as [w H]. exists w. intros e.
  unfold children. rewrite H, run_nil, app_nil_r. reflexivity.
Qed.

(* the DIEs handed out are the model's cooked children (Forest.cooked_kids), in that order *)
Lemma expand_is_cooked_kids f : forall n l c, map fst (expand d_kids n f l c) = cooked_kids (S n) f l.
Proof.
  induction n as [|m IH]; intros l c; induction l as [|k ks IHl]; try reflexivity.
  - rewrite expand_cons, map_app, IHl. cbn [cooked_kids flat_map]. destruct (import_target f k); reflexivity.
  - rewrite expand_cons, map_app, IHl. change (cooked_kids (S (S m)) f (k :: ks)) with
      ((match import_target f k with Some t => cooked_kids (S m) f (d_kids t) | None => [k] end) ++ cooked_kids (S (S m)) f ks).
    destruct (import_target f k) as [t|]; [rewrite IH|]; reflexivity.
Qed.

Corollary children_are_cooked_kids f n d : fits d_kids n f (d_kids d) ->
  exists w, forall e, map fst (children (w + e) f d) = cooked_kids (S n) f (d_kids d).
Proof.
  intros F. destruct (children_are_the_expansion f n d F) as [w H]. exists w. intros e. rewrite H. apply expand_is_cooked_kids.
Qed.

(* `entry` on a unit in cooked mode: all DIEs of the unit in section order, every import replaced in place by all the
   DIEs of the imported unit but its root, recursively, with the chain of imports *)
Theorem entries_are_the_expansion f n r : fits rest_of_unit n f (preorder r) ->
  exists w, forall e, entries (w + e) f r = expand rest_of_unit n f (preorder r) [].
Proof.
  intros F. destruct (run_range rest_of_unit f n (preorder r) [] [] F) as [w H]. exists w. intros e.
  unfold entries. rewrite H, run_nil, app_nil_r. reflexivity.
Qed.
