(* Attribute values: at_value / handle_at_dependent_value / handle_encoding of
   libzwerg/atval.cc.  The stored datum is given in decoded-from-bytes form
   (what libdw's form readers see); the type context of DW_AT_const_value is
   the outcome of peeling typedef/cv/subrange chains.  No proofs here. *)
From Coq Require Import ZArith NArith List Bool.
Import ListNotations.
Local Open Scope Z_scope.

Module AtvalM.

Inductive raw :=
| RData (w : N) (bits : Z)      (* DW_FORM_data1/2/4/8: width in bytes, the stored bits as a non-negative number *)
| RSdata (z : Z)                (* DW_FORM_sdata *)
| RUdata (n : Z)                (* DW_FORM_udata *)
| RImplicit (z : Z)             (* DW_FORM_implicit_const (value in the abbreviation) *)
| RStr (b : list N)             (* string, strp, ... *)
| RRef (off : N)                (* any reference form, resolved *)
| RFlag (b : bool)              (* flag, flag_present *)
| RAddr (n : Z)                 (* addr *)
| RSecOff (n : Z)               (* sec_offset *)
| RBlock (big : bool) (b : list N)   (* block1/2/4/block; big: the file is big-endian *)
| RExprloc                      (* exprloc *)
| ROther.                       (* a form at_value does not know *)

(* what DW_AT_const_value's type says (get_type_die + tag/encoding tests) *)
Inductive tctx :=
| TNoInfo                       (* structure type, no type, base type without encoding ... *)
| TPointer                      (* pointer_type, ptr_to_member_type *)
| TNullptr                      (* unspecified type named decltype(nullptr) *)
| TEnc (enc : N)                (* base type (or enumeration with an underlying type) with this DW_ATE_ *)
| TEnumForms (seen_signed seen_unsigned : bool)   (* enumeration without usable type: forms of its enumerators *)
| TEnumUnder (enc : N) (seen_signed seen_unsigned : bool)   (* enumeration with an underlying type of this encoding *)
| TEnumeratorPlain.             (* enumerator whose parent is no enumeration or lacks DW_AT_type *)

Inductive adom :=
| ADec | AHex | ABool | AAddr | ALine | AColumn
| AFam (at_name : N).           (* the named-constant family of an enumerated attribute *)

Inductive aval :=
| ACst (z : Z) (d : adom)
| AStr (b : list N)
| ARef (off : N)
| ALoc                          (* location list elements *)
| ABlock (b : list N)           (* a sequence of hex bytes *)
| ARanges
| ANothing                      (* yields nothing *)
| AErr.                         (* an error is reported *)

Definition two64 : Z := 18446744073709551616.

(* sign extension of a w-byte datum (fix_dwarf_formsdata) *)
Definition sext (w : N) (bits : Z) : Z :=
  let m := 2 ^ (8 * Z.of_N w) in
  if bits <? m / 2 then bits else bits - m.

(* dwarf_formudata / dwarf_formsdata on the forms they accept *)
Definition uval (r : raw) : option Z :=
  match r with
  | RData _ bits => Some bits
  | RUdata n => Some n
  | RSdata z => Some (z mod two64)
  | RImplicit z => Some (z mod two64)
  | RSecOff n => Some n
  | _ => None
  end.

Definition sval (r : raw) : option Z :=
  match r with
  | RData w bits => Some (sext w bits)
  | RSdata z => Some z
  | RUdata n => Some (if n <? two64 / 2 then n else n - two64)
  | RImplicit z => Some z
  | RSecOff n => Some n
  | _ => None
  end.

Definition unsigned_with (d : adom) (r : raw) : aval := match uval r with Some z => ACst z d | None => AErr end.
Definition signed_dec (r : raw) : aval := match sval r with Some z => ACst z ADec | None => AErr end.

(* DW_ATE_ codes *)
Definition ATE_address : N := 1.   Definition ATE_boolean : N := 2.   Definition ATE_complex_float : N := 3.
Definition ATE_float : N := 4.     Definition ATE_signed : N := 5.    Definition ATE_signed_char : N := 6.
Definition ATE_unsigned : N := 7.  Definition ATE_unsigned_char : N := 8.  Definition ATE_imaginary_float : N := 9.
Definition ATE_packed_decimal : N := 10.  Definition ATE_signed_fixed : N := 13.  Definition ATE_unsigned_fixed : N := 14.
Definition ATE_decimal_float : N := 15.   Definition ATE_UTF : N := 16.

Definition is_block (r : raw) : bool := match r with RBlock _ _ => true | _ => false end.

(* handle_encoding_data: None = "pass as block / fall through" *)
Definition encoding_data (r : raw) (enc : N) : option aval :=
  if (N.eqb enc ATE_signed || N.eqb enc ATE_signed_char)%bool then Some (signed_dec r)
  else if (N.eqb enc ATE_unsigned || N.eqb enc ATE_unsigned_char || N.eqb enc ATE_address || N.eqb enc ATE_UTF)%bool then Some (unsigned_with ADec r)
  else if N.eqb enc ATE_boolean then Some (unsigned_with ABool r)
  else if (N.eqb enc ATE_float || N.eqb enc ATE_imaginary_float || N.eqb enc ATE_complex_float || N.eqb enc ATE_signed_fixed
           || N.eqb enc ATE_unsigned_fixed || N.eqb enc ATE_packed_decimal || N.eqb enc ATE_decimal_float)%bool then None
  else Some AErr.                                  (* Unhandled enumerator encoding *)

Fixpoint le_value (b : list N) : Z := match b with [] => 0 | x :: r => Z.of_N x + 256 * le_value r end.

(* handle_encoding: a block of 1/2/4/8 bytes is read as data of that width *)
Definition encoding_value (r : raw) (enc : N) : option aval :=
  match r with
  | RBlock big b =>
    (* libdw reads the forged DW_FORM_dataN in the byte order of the file *)
    match length b with
    | 1%nat | 2%nat | 4%nat | 8%nat => encoding_data (RData (N.of_nat (length b)) (le_value (if big then rev b else b))) enc
    | _ => None
    end
  | _ => encoding_data r enc
  end.

(* attribute names *)
Definition AT_byte_size : N := 11.  Definition AT_bit_offset : N := 12.  Definition AT_bit_size : N := 13.
Definition AT_stmt_list : N := 16.  Definition AT_high_pc : N := 18.  Definition AT_language : N := 19.
Definition AT_discr_value : N := 22.  Definition AT_visibility : N := 23.  Definition AT_const_value : N := 28.
Definition AT_inline : N := 32.  Definition AT_lower_bound : N := 34.  Definition AT_start_scope : N := 44.
Definition AT_bit_stride : N := 46.  Definition AT_upper_bound : N := 47.  Definition AT_accessibility : N := 50.
Definition AT_address_class : N := 51.  Definition AT_calling_convention : N := 54.  Definition AT_count : N := 55.
Definition AT_decl_column : N := 57.  Definition AT_decl_line : N := 59.  Definition AT_encoding : N := 62.
Definition AT_identifier_case : N := 66.  Definition AT_virtuality : N := 76.  Definition AT_allocated : N := 78.
Definition AT_associated : N := 79.  Definition AT_byte_stride : N := 81.  Definition AT_entry_pc : N := 82.
Definition AT_call_column : N := 87.  Definition AT_call_line : N := 89.  Definition AT_decimal_scale : N := 92.
Definition AT_binary_scale : N := 91.  Definition AT_decimal_sign : N := 94.  Definition AT_digit_count : N := 95.
Definition AT_endianity : N := 101.  Definition AT_data_bit_offset : N := 107.  Definition AT_ordering : N := 9.
Definition AT_string_length_bit_size : N := 111.  Definition AT_string_length_byte_size : N := 112.
Definition AT_rank : N := 113.  Definition AT_str_offsets_base : N := 114.  Definition AT_addr_base : N := 115.
Definition AT_rnglists_base : N := 116.  Definition AT_alignment : N := 136.  Definition AT_defaulted : N := 139.
Definition AT_loclists_base : N := 140.  Definition AT_GNU_odr_signature : N := 8463.
Definition AT_lo_user : N := 8192.  Definition AT_hi_user : N := 16383.
Definition AT_location : N := 2.  Definition AT_data_member_location : N := 56.  Definition AT_frame_base : N := 64.
Definition AT_return_addr : N := 42.  Definition AT_segment : N := 70.  Definition AT_static_link : N := 72.
Definition AT_use_location : N := 74.  Definition AT_vtable_elem_location : N := 77.  Definition AT_data_location : N := 80.
Definition AT_ranges : N := 85.

Definition member (x : N) (l : list N) : bool := existsb (N.eqb x) l.

Definition enumerated : list N :=
  [AT_language; AT_inline; AT_encoding; AT_accessibility; AT_visibility; AT_virtuality; AT_identifier_case;
   AT_calling_convention; AT_ordering; AT_decimal_sign; AT_address_class; AT_endianity; AT_defaulted].
Definition signed_ats : list N := [AT_byte_stride; AT_bit_stride; AT_binary_scale; AT_decimal_scale].
Definition unsigned_ats : list N :=
  [AT_high_pc; AT_entry_pc; AT_byte_size; AT_bit_size; AT_bit_offset; AT_data_bit_offset; AT_lower_bound; AT_upper_bound;
   AT_count; AT_allocated; AT_associated; AT_start_scope; AT_digit_count; AT_GNU_odr_signature;
   AT_string_length_bit_size; AT_string_length_byte_size; AT_rank; AT_alignment].
Definition hex_ats : list N := [AT_stmt_list; AT_str_offsets_base; AT_addr_base; AT_rnglists_base; AT_loclists_base].
Definition loc_ats : list N :=
  [AT_data_member_location; AT_data_location; AT_frame_base; AT_location; AT_return_addr; AT_segment; AT_static_link;
   AT_use_location; AT_vtable_elem_location].

(* after the switch of handle_at_dependent_value: blocks pass as byte sequences,
   vendor attributes are assumed unsigned, anything else is an error *)
Definition fallthrough (name : N) (r : raw) : aval :=
  match r with
  | RBlock _ b => ABlock b
  | _ => if (N.leb AT_lo_user name && N.leb name AT_hi_user)%bool then unsigned_with ADec r else AErr
  end.

Definition by_enumerator_forms (r : raw) (s u : bool) : aval :=
  if (s && negb u)%bool then signed_dec r
  else if (u && negb s)%bool then unsigned_with ADec r
  else match uval r with
       | Some z => if z <? two64 / 2 then ACst z ADec else signed_dec r     (* with a diagnostic *)
       | None => AErr
       end.

Definition const_value (r : raw) (c : tctx) : aval :=
  match c with
  | TEnumUnder enc s u => match encoding_value r enc with Some v => v | None => by_enumerator_forms r s u end
  | TEnumeratorPlain => unsigned_with ADec r
  | TPointer | TNullptr => unsigned_with AAddr r
  | TNoInfo => fallthrough AT_const_value r
  | TEnc enc => match encoding_value r enc with Some v => v | None => fallthrough AT_const_value r end
  | TEnumForms s u => by_enumerator_forms r s u
  end.

Definition dependent (name : N) (r : raw) (c : tctx) : aval :=
  if member name enumerated then unsigned_with (AFam name) r
  else if (N.eqb name AT_decl_line || N.eqb name AT_call_line)%bool then unsigned_with ALine r
  else if (N.eqb name AT_decl_column || N.eqb name AT_call_column)%bool then unsigned_with AColumn r
  else if N.eqb name AT_const_value then const_value r c
  else if member name signed_ats then signed_dec r
  else if member name unsigned_ats then unsigned_with ADec r
  else if member name hex_ats then unsigned_with AHex r
  else if member name loc_ats then ALoc
  else if N.eqb name AT_ranges then ARanges
  else if N.eqb name AT_discr_value then AErr
  else fallthrough name r.

Definition at_value (name : N) (r : raw) (c : tctx) : aval :=
  match r with
  | RStr b => AStr b
  | RRef o => ARef o
  | RSdata _ | RUdata _ =>
    (* attributes with a domain of their own keep it whatever the constant form;
       otherwise the form decides the signedness *)
    if (member name enumerated || N.eqb name AT_decl_line || N.eqb name AT_call_line
        || N.eqb name AT_decl_column || N.eqb name AT_call_column)%bool then dependent name r c
    else match r with RSdata _ => signed_dec r | _ => unsigned_with ADec r end
  | RAddr n => ACst n AAddr
  | RFlag b => ACst (if b then 1 else 0) ABool
  | RData _ _ | RSecOff _ | RBlock _ _ | RImplicit _ => dependent name r c
  | RExprloc => ALoc
  | ROther => AErr
  end.

End AtvalM.
Export AtvalM.
