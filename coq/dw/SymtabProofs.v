From Coq Require Import ZArith NArith List Bool Lia.
From Dwgrep Require Import Symtab.
Import ListNotations.
Local Open Scope N_scope.
Ltac Zify.zify_post_hook ::= Z.div_mod_to_equations.

(* the fields of st_info and st_other *)
Theorem info_roundtrip b t : t < 16 -> st_type (st_info b t) = t /\ st_bind (st_info b t) = b.
Proof.
  unfold st_type, st_bind, st_info. intros H. rewrite (N.mod_small t 16 H). split.
  - rewrite N.add_comm, N.mod_add by lia. apply N.mod_small. exact H.
  - rewrite N.div_add_l by lia. rewrite (N.div_small t 16 H). lia.
Qed.
Theorem visibility_ignores_upper_bits other k : st_visibility (other mod 4 + 4 * k) = other mod 4.
Proof.
  unfold st_visibility. rewrite (N.mul_comm 4 k), N.mod_add by lia. apply N.mod_small. apply N.mod_lt. lia.
Qed.
Theorem visibility_range other : st_visibility other < 4.
Proof. unfold st_visibility. apply N.mod_lt. lia. Qed.

(* every entry exactly once, in table order, numbered from zero *)
Lemma rows_from_length tab : forall i, length (rows_from tab i) = length tab.
Proof. induction tab as [|s t IH]; intros i; cbn; [reflexivity|rewrite IH; reflexivity]. Qed.
Theorem rows_complete tab : length (rows tab) = length tab.
Proof. apply rows_from_length. Qed.
Lemma rows_from_nth tab : forall i k s, nth_error tab k = Some s ->
  nth_error (rows_from tab i) k = Some (mkrow (i + N.of_nat k) (s_name s) (s_value s) (s_size s)
                                              (st_type (s_info s)) (st_bind (s_info s)) (st_visibility (s_other s))).
Proof.
  induction tab as [|x t IH]; intros i k s H; destruct k; cbn in *; try discriminate.
  - inversion H; subst. rewrite N.add_0_r. reflexivity.
  - rewrite (IH (i + 1) k s H). replace (i + 1 + N.of_nat k) with (i + N.of_nat (S k)) by (rewrite Nat2N.inj_succ; lia). reflexivity.
Qed.
Theorem rows_faithful tab k s : nth_error tab k = Some s ->
  nth_error (rows tab) k = Some (mkrow (N.of_nat k) (s_name s) (s_value s) (s_size s)
                                       (st_type (s_info s)) (st_bind (s_info s)) (st_visibility (s_other s))).
Proof. intros H. unfold rows. rewrite (rows_from_nth tab 0 k s H). reflexivity. Qed.

(* the family rule *)
Theorem generic_codes_equal_everywhere f1 f2 c : c < LOOS -> const_eqb f1 c f2 c = true.
Proof. unfold const_eqb, key. intros H. apply N.ltb_lt in H. rewrite H. rewrite !N.eqb_refl. reflexivity. Qed.
Theorem machine_codes_never_equal_another_machines f1 f2 c1 c2 : LOOS <= c1 -> f1 <> f2 -> const_eqb f1 c1 f2 c2 = false.
Proof.
  unfold const_eqb, key. intros H NE. assert ((c1 <? LOOS) = false) as -> by (apply N.ltb_ge; exact H).
  destruct (c2 <? LOOS) eqn:E.
  - apply N.ltb_lt in E. apply andb_false_iff. right. apply N.eqb_neq. lia.
  - apply andb_false_iff. left. apply N.eqb_neq. exact NE.
Qed.
Theorem same_family_equal_iff_same_code f c1 c2 : const_eqb f c1 f c2 = true <-> c1 = c2.
Proof.
  unfold const_eqb, key. destruct (c1 <? LOOS) eqn:E1; destruct (c2 <? LOOS) eqn:E2; rewrite andb_true_iff, !N.eqb_eq;
  try apply N.ltb_lt in E1; try apply N.ltb_lt in E2; try apply N.ltb_ge in E1; try apply N.ltb_ge in E2; split; intros; try lia.
  all: try (destruct H; lia). all: split; try reflexivity; try lia.
Qed.
