(* @AT_x is attribute ?AT_x: the first attribute of a name in what the model of attribute_producer
   yields (Forest.cooked_attrs: an explicit stack, a seen-set) is what the model of find_attribute
   (FindAttr.find_attr: recursion, specification before abstract origin) finds -- for every DIE whose
   chains of DW_AT_specification / DW_AT_abstract_origin end (any length, any shape, shared targets). *)
From Coq Require Import NArith List Bool Arith Lia.
From Dwgrep Require Import Forest ForestProofs FindAttr.
Import ListNotations.
Import ForestM FindAttrM.
Local Open Scope N_scope.

Section One.
  Variable f : forest.
  Variable x : N.

  Definition hasname (oa : N * attr) : bool := a_name (snd oa) =? x.
  Definition links (d : die) : list die :=
    opt_list (first_link f AT_specification (d_attrs d)) ++ opt_list (first_link f AT_abstract_origin (d_attrs d)).

  (* what a DIE contributes under the name x when x has not been seen *)
  Definition own (sec : bool) (d : die) : option (N * attr) :=
    if sec && negb (should_integrate x) then None
    else option_map (pair (d_off d)) (find (fun a => a_name a =? x) (d_attrs d)).

  Definition keep (sp : option die) (t : option die) : option die := match sp with Some _ => sp | None => t end.

  Lemma integrate_die_x sec d : forall ats seen sp0 ao0 out s o sn,
    integrate_die f sec d ats seen sp0 ao0 = (out, s, o, sn) ->
    s = keep sp0 (first_link f AT_specification ats) /\
    o = keep ao0 (first_link f AT_abstract_origin ats) /\
    find hasname out =
      (if existsb (N.eqb x) seen then None
       else if sec && negb (should_integrate x) then None
       else option_map (pair (d_off d)) (find (fun a => a_name a =? x) ats)) /\
    existsb (N.eqb x) sn =
      (existsb (N.eqb x) seen || (negb (sec && negb (should_integrate x)) && existsb (fun a => a_name a =? x) ats)).
  Proof.
    induction ats as [|a rest IH]; intros seen sp0 ao0 out s o sn H; cbn [integrate_die] in H.
    - inversion H; subst. cbn [first_link find existsb]. unfold keep.
      split; [destruct s; reflexivity|]. split; [destruct o; reflexivity|]. split.
      + destruct (existsb (N.eqb x) sn); [reflexivity|]. destruct (sec && negb (should_integrate x)); reflexivity.
      + rewrite andb_false_r, orb_false_r. reflexivity.
    - set (target := match a_ref a with Some o0 => find_die f o0 | None => None end) in *.
      set (sp' := if a_name a =? AT_specification then keep sp0 target else sp0) in *.
      set (ao' := if a_name a =? AT_abstract_origin then keep ao0 target else ao0) in *.
      assert (Ks : forall rest', keep sp' (first_link f AT_specification rest') = keep sp0 (first_link f AT_specification (a :: rest'))).
      { intros rest'. unfold sp'. cbn [first_link]. fold target. destruct (a_name a =? AT_specification); [|reflexivity].
        unfold keep. destruct sp0; [reflexivity|]. destruct target; reflexivity. }
      assert (Ka : forall rest', keep ao' (first_link f AT_abstract_origin rest') = keep ao0 (first_link f AT_abstract_origin (a :: rest'))).
      { intros rest'. unfold ao'. cbn [first_link]. fold target. destruct (a_name a =? AT_abstract_origin); [|reflexivity].
        unfold keep. destruct ao0; [reflexivity|]. destruct target; reflexivity. }
      change (match sp0 with Some _ => sp0 | None => target end) with (keep sp0 target) in H.
      change (match ao0 with Some _ => ao0 | None => target end) with (keep ao0 target) in H.
      fold sp' ao' in H.
      cbn [find existsb].
      destruct (sec && negb (should_integrate (a_name a))) eqn:E1.
      + destruct (IH _ _ _ _ _ _ _ H) as [A [B [C D]]]. rewrite Ks in A. rewrite Ka in B.
        split; [exact A|]. split; [exact B|].
        destruct (a_name a =? x) eqn:Ex.
        * apply N.eqb_eq in Ex. rewrite Ex in E1. rewrite E1 in *. cbn [negb andb] in *.
          split; [rewrite C; destruct (existsb (N.eqb x) seen); reflexivity|rewrite D; reflexivity].
        * split; [exact C|]. rewrite D. cbn [orb]. reflexivity.
      + destruct (existsb (N.eqb (a_name a)) seen) eqn:E2.
        * destruct (IH _ _ _ _ _ _ _ H) as [A [B [C D]]]. rewrite Ks in A. rewrite Ka in B.
          split; [exact A|]. split; [exact B|].
          destruct (a_name a =? x) eqn:Ex.
          -- apply N.eqb_eq in Ex. rewrite Ex in E2. rewrite E2 in *.
             split; [exact C|]. rewrite D. cbn [orb]. reflexivity.
          -- split; [exact C|]. rewrite D. cbn [orb]. reflexivity.
        * destruct (integrate_die f sec d rest (seen ++ [a_name a]) sp' ao') as [[[out' s'] o'] sn'] eqn:R.
          inversion H; subst out s o sn. destruct (IH _ _ _ _ _ _ _ R) as [A [B [C D]]]. rewrite Ks in A. rewrite Ka in B.
          split; [exact A|]. split; [exact B|].
          rewrite existsb_app in C, D. cbn [existsb] in C, D. rewrite orb_false_r in C, D.
          cbn [find]. unfold hasname at 1. cbn [snd].
          destruct (a_name a =? x) eqn:Ex.
          -- apply N.eqb_eq in Ex. rewrite Ex in E1, E2. rewrite E2, E1. cbn [option_map negb andb orb].
             split; [reflexivity|]. rewrite D. rewrite Ex, N.eqb_refl. rewrite orb_true_r. reflexivity.
          -- assert (Ex' : x =? a_name a = false) by (rewrite N.eqb_sym; exact Ex).
             rewrite Ex' in C, D. rewrite orb_false_r in C, D. split; [exact C|]. rewrite D. cbn [orb]. reflexivity.
  Qed.

  (* the search the producer performs for one name: the same stack discipline, no seen-set *)
  Fixpoint search (fuel : nat) (stack : list die) (sec : bool) : option (N * attr) :=
    match fuel with
    | O => None
    | S fu =>
      match stack with
      | [] => None
      | d :: st => match own sec d with Some r => Some r | None => search fu (links d ++ st) true end
      end
    end.

  Lemma find_app {A} (p : A -> bool) l1 l2 : find p (l1 ++ l2) = match find p l1 with Some r => Some r | None => find p l2 end.
  Proof. induction l1 as [|a l1 IH]; [reflexivity|]. cbn [app find]. destruct (p a); [reflexivity|exact IH]. Qed.

  Lemma loop_is_search : forall fuel stack sec seen, existsb (N.eqb x) seen = false ->
    find hasname (cooked_attrs_loop fuel f stack sec seen) = search fuel stack sec.
  Proof.
    induction fuel as [|fu IH]; intros stack sec seen NS; [reflexivity|].
    destruct stack as [|d st]; [reflexivity|].
    rewrite loop_step. cbn [search].
    destruct (integrate_die f sec d (d_attrs d) seen None None) as [[[out s] o] sn] eqn:R.
    destruct (integrate_die_x sec d _ _ _ _ _ _ _ _ R) as [A [B [C D]]].
    cbn [keep] in A, B. rewrite NS in C, D. cbn [orb] in D.
    rewrite find_app, C. unfold own.
    destruct (sec && negb (should_integrate x)) eqn:E1.
    - cbn [negb andb] in D. subst s o. unfold links. rewrite <- app_assoc. apply IH. exact D.
    - cbn [negb andb] in D.
      destruct (find (fun a => a_name a =? x) (d_attrs d)) as [a|] eqn:Fd; cbn [option_map]; [reflexivity|].
      subst s o. unfold links. rewrite <- app_assoc. apply IH. rewrite D.
      destruct (existsb (fun a => a_name a =? x) (d_attrs d)) eqn:Ex; [|reflexivity].
      apply existsb_exists in Ex. destruct Ex as [a [Ia Ea]].
      pose proof (find_none _ _ Fd a Ia) as Hn. cbv beta in Hn. congruence.
  Qed.

  (* the link tree below a DIE, to a depth, in the order the stack discipline visits it *)
  Fixpoint pre (n : nat) (d : die) : list die :=
    d :: match n with O => [] | S k => flat_map (pre k) (links d) end.
  (* ... is at most n links deep *)
  Fixpoint deep (n : nat) (d : die) : Prop :=
    match n with O => links d = [] | S k => Forall (deep k) (links d) end.

  Fixpoint firstown (sec : bool) (l : list die) : option (N * attr) :=
    match l with
    | [] => None
    | d :: r => match own sec d with Some v => Some v | None => firstown true r end
    end.

  Lemma firstown_app l1 l2 : firstown true (l1 ++ l2) = match firstown true l1 with Some r => Some r | None => firstown true l2 end.
  Proof. induction l1 as [|a l1 IH]; [reflexivity|]. cbn [app firstown]. destruct (own true a); [reflexivity|exact IH]. Qed.

  Definition pres (ks : list (die * nat)) : list die := flat_map (fun ek => pre (snd ek) (fst ek)) ks.

  Lemma pres_app a b : pres (a ++ b) = pres a ++ pres b.
  Proof. unfold pres. apply flat_map_app. Qed.

  Lemma pres_links k l : pres (map (fun e => (e, k)) l) = flat_map (pre k) l.
  Proof. induction l as [|e l IH]; [reflexivity|]. cbn [map]. unfold pres in *. cbn [flat_map fst snd]. rewrite IH. reflexivity. Qed.

  Lemma search_is_firstown : forall fuel ks sec,
    Forall (fun ek => deep (snd ek) (fst ek)) ks -> (length (pres ks) < fuel)%nat ->
    search fuel (map fst ks) sec = firstown sec (pres ks).
  Proof.
    induction fuel as [|fu IH]; intros ks sec Hd Hf; [lia|].
    destruct ks as [|[d k] ks']; [reflexivity|].
    cbn [map fst search]. inversion Hd as [|? ? Hd1 Hd2]; subst. cbn [fst snd] in Hd1.
    change (pres ((d, k) :: ks')) with (pre k d ++ pres ks') in *.
    destruct k as [|k']; cbn [pre deep] in *.
    - rewrite Hd1. cbn [app firstown]. destruct (own sec d); [reflexivity|].
      apply IH; [exact Hd2|]. cbn [length app] in Hf. lia.
    - cbn [app firstown]. destruct (own sec d); [reflexivity|].
      specialize (IH (map (fun e => (e, k')) (links d) ++ ks') true).
      rewrite map_app, map_map in IH. cbn [fst] in IH. rewrite map_id in IH.
      rewrite IH.
      + rewrite pres_app, pres_links. reflexivity.
      + apply Forall_app. split; [|exact Hd2].
        apply Forall_forall. intros [e k0] I. apply in_map_iff in I. destruct I as [e' [E I]]. inversion E; subst.
        cbn [fst snd]. rewrite Forall_forall in Hd1. apply Hd1. exact I.
      + rewrite pres_app, pres_links. cbn [app length] in Hf. rewrite !app_length in *. lia.
  Qed.

  Lemma own_sec_irrelevant d : should_integrate x = true -> own true d = own false d.
  Proof. intros S. unfold own. rewrite S. reflexivity. Qed.

  Lemma firstown_sec_irrelevant l : should_integrate x = true -> firstown true l = firstown false l.
  Proof. intros S. destruct l as [|d r]; [reflexivity|]. cbn [firstown]. rewrite own_sec_irrelevant by exact S. reflexivity. Qed.

  Lemma firstown_not_integrated l : should_integrate x = false -> firstown true l = None.
  Proof. intros S. induction l as [|d r IH]; [reflexivity|]. cbn [firstown]. unfold own. rewrite S. cbn [negb andb]. exact IH. Qed.

  Lemma find_attr_is_firstown : forall k d, find_attr (S k) f d x = firstown false (pre k d).
  Proof.
    induction k as [|k IH]; intros d.
    - cbn [find_attr pre firstown]. unfold own. cbn [andb].
      destruct (find (fun a => a_name a =? x) (d_attrs d)); cbn [option_map]; [reflexivity|].
      destruct (should_integrate x); [|reflexivity].
      destruct (first_link f AT_specification (d_attrs d)); destruct (first_link f AT_abstract_origin (d_attrs d)); reflexivity.
    - change (find_attr (S (S k)) f d x) with
        (match find (fun a => a_name a =? x) (d_attrs d) with
         | Some a => Some (d_off d, a)
         | None => if should_integrate x then
                     match (match first_link f AT_specification (d_attrs d) with Some t => find_attr (S k) f t x | None => None end) with
                     | Some r => Some r
                     | None => match first_link f AT_abstract_origin (d_attrs d) with Some t => find_attr (S k) f t x | None => None end
                     end
                   else None
         end).
      cbn [pre firstown]. unfold own at 1. cbn [andb].
      destruct (find (fun a => a_name a =? x) (d_attrs d)); cbn [option_map]; [reflexivity|].
      destruct (should_integrate x) eqn:S.
      + unfold links. rewrite flat_map_app, firstown_app.
        destruct (first_link f AT_specification (d_attrs d)) as [t|]; cbn [opt_list flat_map].
        * rewrite app_nil_r, IH, (firstown_sec_irrelevant _ S).
          destruct (firstown false (pre k t)); [reflexivity|].
          destruct (first_link f AT_abstract_origin (d_attrs d)) as [u|]; cbn [opt_list flat_map]; [|reflexivity].
          rewrite app_nil_r, IH, (firstown_sec_irrelevant _ S). reflexivity.
        * cbn [firstown].
          destruct (first_link f AT_abstract_origin (d_attrs d)) as [u|]; cbn [opt_list flat_map]; [|reflexivity].
          rewrite app_nil_r, IH, (firstown_sec_irrelevant _ S). reflexivity.
      + rewrite (firstown_not_integrated _ S). reflexivity.
  Qed.

  Theorem atval_is_first_attribute k d fuel :
    deep k d -> (length (pre k d) < fuel)%nat ->
    find hasname (cooked_attrs fuel f d) = find_attr (S k) f d x.
  Proof.
    intros Hd Hf. unfold cooked_attrs. rewrite loop_is_search by reflexivity.
    change [d] with (map fst [(d, k)]).
    rewrite (search_is_firstown fuel [(d, k)] false).
    - unfold pres. cbn [flat_map fst snd]. rewrite app_nil_r. symmetry. apply find_attr_is_firstown.
    - constructor; [exact Hd|constructor].
    - unfold pres. cbn [flat_map fst snd]. rewrite app_nil_r. exact Hf.
  Qed.
End One.
