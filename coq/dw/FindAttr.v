(* Model of find_attribute (builtin-dw.cc), what the words @AT_x, ?AT_x and name are built on: the
   attribute itself if the DIE has it; otherwise - for names that are integrated at all - what the
   DIE that DW_AT_specification leads to has (recursively), and only then what the one that
   DW_AT_abstract_origin leads to has.  The link targets are those the model of attribute_producer
   (Forest.integrate_die) follows: the first attribute of that name whose reference resolves.
   No proofs in this file. *)
From Coq Require Import NArith List Bool.
From Dwgrep Require Import Forest.
Import ListNotations.
Local Open Scope N_scope.

Module FindAttrM.
Import ForestM.

Fixpoint first_link (f : forest) (n : N) (ats : list attr) : option die :=
  match ats with
  | [] => None
  | a :: r =>
    if a_name a =? n then
      match (match a_ref a with Some o => find_die f o | None => None end) with
      | Some t => Some t
      | None => first_link f n r
      end
    else first_link f n r
  end.

Fixpoint find_attr (fuel : nat) (f : forest) (d : die) (x : N) : option (N * attr) :=
  match fuel with
  | O => None
  | S fu =>
    match find (fun a => a_name a =? x) (d_attrs d) with
    | Some a => Some (d_off d, a)
    | None =>
      if should_integrate x then
        match (match first_link f AT_specification (d_attrs d) with Some t => find_attr fu f t x | None => None end) with
        | Some r => Some r
        | None => match first_link f AT_abstract_origin (d_attrs d) with Some t => find_attr fu f t x | None => None end
        end
      else None
    end
  end.

End FindAttrM.
