(* Digit strings: how integers are rendered (operator<< of mpz_class under
   std::dec/hex/oct with showbase, and the `bin' domain's own loop) and read
   back.  Byte strings are lists of N (character codes).  No proofs here. *)
From Coq Require Import ZArith NArith List Bool.
Import ListNotations.
Local Open Scope N_scope.

Module RadixM.

Definition bytes := list N.

Definition digit_char (d : N) : N :=          (* '0'..'9', 'a'..'f' *)
  if d <? 10 then 48 + d else 87 + d.

(* most significant digit first; fuel bounds the number of digits *)
Fixpoint digits_fuel (fuel : nat) (base n : N) (acc : bytes) : bytes :=
  match fuel with
  | O => acc
  | S f =>
    let acc' := digit_char (n mod base) :: acc in
    if n / base =? 0 then acc' else digits_fuel f base (n / base) acc'
  end.

(* number of binary digits + 1 is always enough, whatever the base (>= 2) *)
Definition digits (base n : N) : bytes :=
  digits_fuel (S (N.to_nat (N.size n))) base n [].

Definition char_minus : N := 45.
Definition str0 : bytes := [48].
Definition str0x : bytes := [48; 120].
Definition str0b : bytes := [48; 98].

Definition zabs (z : Z) : N := Z.abs_N z.

(* operator<< (ostream, mpz_class): '-' then the magnitude under the stream's
   flags.  iostream's showbase prints no prefix for zero. *)
Definition show_dec (z : Z) : bytes :=
  (if (z <? 0)%Z then [char_minus] else []) ++ digits 10 (zabs z).

Definition show_hex (z : Z) : bytes :=
  (if (z <? 0)%Z then [char_minus] else []) ++
  (if (z =? 0)%Z then str0 else str0x ++ digits 16 (zabs z)).

Definition show_oct (z : Z) : bytes :=
  (if (z <? 0)%Z then [char_minus] else []) ++
  (if (z =? 0)%Z then str0 else str0 ++ digits 8 (zabs z)).

(* bin_constant_dom_obj::show, brevity::full *)
Definition show_bin (z : Z) : bytes :=
  if (z =? 0)%Z then str0
  else (if (z <? 0)%Z then [char_minus] else []) ++ str0b ++ digits 2 (zabs z).

(* reading back: value of a digit character in a base, if it is one *)
Definition digit_val (base c : N) : option N :=
  let v := if (48 <=? c) && (c <=? 57) then Some (c - 48)
           else if (97 <=? c) && (c <=? 102) then Some (c - 87)
           else if (65 <=? c) && (c <=? 70) then Some (c - 55)
           else None in
  match v with Some d => if d <? base then Some d else None | None => None end.

Fixpoint read_digits (base : N) (s : bytes) (acc : N) : option N :=
  match s with
  | [] => Some acc
  | c :: s' => match digit_val base c with
               | Some d => read_digits base s' (acc * base + d)
               | None => None
               end
  end.

End RadixM.
Export RadixM.
