(* Small list lemmas missing from the Coq 8.16 standard library. *)
From Coq Require Import List Arith Lia.
Import ListNotations.

Lemma nth_firstn {A} (l : list A) : forall n i d, i < n -> nth i (firstn n l) d = nth i l d.
Proof.
  induction l as [|a l IH]; intros n i d H.
  - rewrite firstn_nil. reflexivity.
  - destruct n as [|n]; [lia|]. cbn [firstn]. destruct i as [|i]; [reflexivity|].
    cbn [nth]. apply IH. lia.
Qed.

Lemma nth_skipn {A} (l : list A) : forall n i d, nth i (skipn n l) d = nth (n + i) l d.
Proof.
  induction l as [|a l IH]; intros n i d.
  - rewrite skipn_nil. destruct i, n; reflexivity.
  - destruct n as [|n]; [reflexivity|]. cbn [skipn plus nth]. apply IH.
Qed.
