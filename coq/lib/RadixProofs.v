(* Rendering an integer and reading the digits back gives the same integer. *)
From Coq Require Import ZArith NArith List Bool Lia.
From Dwgrep Require Import Radix.
Import ListNotations.
Local Open Scope N_scope.

Lemma digit_val_char base d : 2 <= base <= 16 -> d < base -> digit_val base (digit_char d) = Some d.
Proof.
  intros Hb Hd. unfold digit_val, digit_char.
  destruct (N.ltb_spec d 10) as [L|L].
  - assert (E1 : (48 <=? 48 + d) = true) by (apply N.leb_le; lia).
    assert (E2 : (48 + d <=? 57) = true) by (apply N.leb_le; lia).
    rewrite E1, E2. cbn [andb]. replace (48 + d - 48) with d by lia.
    apply N.ltb_lt in Hd. rewrite Hd. reflexivity.
  - assert (E1 : (48 <=? 87 + d) = true) by (apply N.leb_le; lia).
    assert (E2 : (87 + d <=? 57) = false) by (apply N.leb_gt; lia).
    assert (E3 : (97 <=? 87 + d) = true) by (apply N.leb_le; lia).
    assert (E4 : (87 + d <=? 102) = true) by (apply N.leb_le; lia).
    rewrite E1, E2, E3, E4. cbn [andb]. replace (87 + d - 87) with d by lia.
    apply N.ltb_lt in Hd. rewrite Hd. reflexivity.
Qed.

(* reading digits continues an accumulator *)
Lemma read_digits_app base a : forall acc b,
  read_digits base (a ++ b) acc =
  match read_digits base a acc with Some v => read_digits base b v | None => None end.
Proof.
  induction a as [|c a IH]; intros acc b; cbn [app read_digits]; auto.
  destruct (digit_val base c); auto.
Qed.

(* the digits of n, most significant first, read back as n (on top of what the
   accumulator already holds, shifted) *)
Lemma digits_fuel_read base : 2 <= base <= 16 -> forall fuel n tail acc v,
  n < 2 ^ N.of_nat fuel ->
  read_digits base tail (acc * 1 + 0) = v -> True ->
  forall acc0, read_digits base (digits_fuel fuel base n tail) acc0
             = read_digits base tail (acc0 * base ^ (N.of_nat (length (digits_fuel fuel base n []))) + n).
Proof.
Abort.

(* simpler route: value of a digit string *)
Fixpoint dval (base : N) (s : bytes) (acc : N) : N :=
  match s with
  | [] => acc
  | c :: r => match digit_val base c with Some d => dval base r (acc * base + d) | None => acc end
  end.

Lemma digits_fuel_spec base : 2 <= base <= 16 -> forall fuel n tail,
  n < 2 ^ N.of_nat fuel -> fuel <> O ->
  forall acc, read_digits base (digits_fuel fuel base n tail) acc
            = match read_digits base (digits_fuel fuel base n []) acc with
              | Some v => read_digits base tail v
              | None => None
              end.
Proof.
  intros Hb. induction fuel as [|fuel IH]; intros n tail Hn Hf acc; [congruence|].
  cbn [digits_fuel].
  destruct (N.eqb_spec (n / base) 0) as [E|E].
  - change (digit_char (n mod base) :: tail) with ([digit_char (n mod base)] ++ tail).
    rewrite read_digits_app. reflexivity.
  - assert (Hq : n / base < 2 ^ N.of_nat fuel).
    { assert (n / base <= n / 2) by (apply N.div_le_compat_l; lia).
      assert (n / 2 < 2 ^ N.of_nat fuel).
      { apply N.div_lt_upper_bound; [lia|]. rewrite Nat2N.inj_succ, N.pow_succ_r' in Hn. lia. }
      lia. }
    assert (Hf' : fuel <> O).
    { intros ->. change (2 ^ N.of_nat 0) with 1 in Hq. apply N.lt_1_r in Hq. contradiction. }
    rewrite (IH (n / base) (digit_char (n mod base) :: tail) Hq Hf' acc).
    rewrite (IH (n / base) [digit_char (n mod base)] Hq Hf' acc).
    destruct (read_digits base (digits_fuel fuel base (n / base) []) acc) as [v|]; auto.
    change (digit_char (n mod base) :: tail) with ([digit_char (n mod base)] ++ tail).
    apply read_digits_app.
Qed.

Lemma digits_fuel_length base : forall fuel m t,
  length (digits_fuel fuel base m t) = (length (digits_fuel fuel base m []) + length t)%nat.
Proof.
  induction fuel as [|f IHf]; intros m t; cbn [digits_fuel].
  - cbn. lia.
  - destruct (m / base =? 0).
    + cbn. lia.
    + rewrite IHf. rewrite (IHf (m / base) [digit_char (m mod base)]). cbn [length]. lia.
Qed.

Theorem digits_fuel_value base : 2 <= base <= 16 -> forall fuel n,
  n < 2 ^ N.of_nat fuel -> fuel <> O ->
  forall acc, read_digits base (digits_fuel fuel base n []) acc
            = Some (acc * base ^ N.of_nat (length (digits_fuel fuel base n [])) + n).
Proof.
  intros Hb. induction fuel as [|fuel IH]; intros n Hn Hf acc; [congruence|].
  cbn [digits_fuel].
  assert (Hm : n mod base < base) by (apply N.mod_lt; lia).
  destruct (N.eqb_spec (n / base) 0) as [E|E].
  - cbn [read_digits length]. rewrite digit_val_char by auto. cbn [read_digits].
    f_equal. assert (n = n mod base).
    { rewrite (N.div_mod n base) at 1 by lia. rewrite E. lia. }
    change (N.of_nat 1) with 1. rewrite N.pow_1_r. lia.
  - assert (Hq : n / base < 2 ^ N.of_nat fuel).
    { assert (n / base <= n / 2) by (apply N.div_le_compat_l; lia).
      assert (n / 2 < 2 ^ N.of_nat fuel).
      { apply N.div_lt_upper_bound; [lia|]. rewrite Nat2N.inj_succ, N.pow_succ_r' in Hn. lia. }
      lia. }
    assert (Hf' : fuel <> O).
    { intros ->. change (2 ^ N.of_nat 0) with 1 in Hq. apply N.lt_1_r in Hq. contradiction. }
    rewrite (digits_fuel_spec base Hb fuel (n / base) [digit_char (n mod base)] Hq Hf' acc).
    rewrite (IH (n / base) Hq Hf' acc).
    cbn [read_digits]. rewrite digit_val_char by auto. cbn [read_digits]. f_equal.
    (* length bookkeeping *)
    assert (L : length (digits_fuel fuel base (n / base) [digit_char (n mod base)])
                = S (length (digits_fuel fuel base (n / base) []))).
    { rewrite digits_fuel_length. cbn [length]. lia. }
    rewrite L. rewrite Nat2N.inj_succ, N.pow_succ_r'.
    set (pw := base ^ N.of_nat (length (digits_fuel fuel base (n / base) []))).
    pose proof (N.div_mod n base ltac:(lia)) as DM. set (q := n / base) in *. set (r := n mod base) in *. nia.
Qed.

Theorem digits_roundtrip base n : 2 <= base <= 16 -> read_digits base (digits base n) 0 = Some n.
Proof.
  intros Hb. unfold digits. rewrite digits_fuel_value; auto.
  - rewrite Nat2N.inj_succ, N2Nat.id. pose proof (N.size_gt n). rewrite N.pow_succ_r'. lia.
Qed.

(* the most significant digit of a positive number is not zero *)
Lemma digits_fuel_head base : 2 <= base <= 16 -> forall fuel n tail,
  0 < n -> n < 2 ^ N.of_nat fuel ->
  exists d rest, digits_fuel fuel base n tail = digit_char d :: rest /\ 0 < d < base.
Proof.
  intros Hb. induction fuel as [|fuel IH]; intros n tail Hn Hlt.
  - change (2 ^ N.of_nat 0) with 1 in Hlt. lia.
  - cbn [digits_fuel]. destruct (N.eqb_spec (n / base) 0) as [E|E].
    + exists (n mod base), tail. split; auto.
      assert (n mod base < base) by (apply N.mod_lt; lia).
      assert (n = n mod base).
      { rewrite (N.div_mod n base) at 1 by lia. rewrite E. lia. }
      lia.
    + apply IH.
      * destruct (n / base) eqn:Q; [congruence|lia].
      * assert (n / base <= n / 2) by (apply N.div_le_compat_l; lia).
        assert (n / 2 < 2 ^ N.of_nat fuel).
        { apply N.div_lt_upper_bound; [lia|]. rewrite Nat2N.inj_succ, N.pow_succ_r' in Hlt. lia. }
        lia.
Qed.

Lemma digits_head base n : 2 <= base <= 16 -> 0 < n ->
  exists d rest, digits base n = digit_char d :: rest /\ 0 < d < base.
Proof.
  intros Hb Hn. unfold digits. apply digits_fuel_head; auto.
  rewrite Nat2N.inj_succ, N2Nat.id. pose proof (N.size_gt n). rewrite N.pow_succ_r'. lia.
Qed.
