(* Proofs about IntModel.v: every operator is the exact integer operation
   when the result is in [-2^63, 2^64), an error otherwise. *)
From Coq Require Import ZArith Bool Lia ZifyBool List.
From Dwgrep Require Import IntModel.
Local Open Scope Z_scope.

Ltac Zify.zify_post_hook ::= Z.div_mod_to_equations.

Ltac unf := unfold add, sub, sub_nn, add_uns, neg, lt, eq, le, gt, ge, ne, is_neg, nonneg, bind,
                   ival, mi, wrap, wf, in_range, of_int, of_uint, zero, W, HW in *; cbn [u sg] in *.

Ltac split_ifs :=
  repeat (cbn [u sg] in *;
          match goal with
          | |- context [if ?c then _ else _] => destruct c eqn:?
          | H : context [if ?c then _ else _] |- _ => destruct c eqn:?
          end); cbn [u sg] in *; try discriminate.

Lemma ival_range v : wf v -> in_range (ival v).
Proof. destruct v as [x s]; unf. intros H. split_ifs; lia. Qed.

Lemma lt_iff a b : wf a -> wf b -> (lt a b = true <-> ival a < ival b).
Proof.
  destruct a as [x s], b as [y t]; unf; intros Ha Hb.
  destruct s, t; cbn [Bool.eqb andb]; split_ifs; lia.
Qed.

Lemma neg_ok v : wf v ->
  match neg v with
  | Ok r => wf r /\ ival r = - ival v
  | Err => ~ in_range (- ival v)
  end.
Proof.
  destruct v as [x s]; unf; intros H.
  destruct s; split_ifs; cbn [u sg]; split_ifs; lia.
Qed.

Lemma neg_nonneg v r : wf v -> neg v = Ok r -> ival v <= 0 -> nonneg r = true.
Proof.
  destruct v as [x s]; unf; intros H E Hv.
  destruct s; split_ifs; inversion E; subst; cbn [u sg]; try reflexivity; try lia.
  all: unfold orb, negb; split_ifs; lia.
Qed.

Lemma nonneg_iff v : wf v -> (nonneg v = true <-> 0 <= ival v).
Proof. destruct v as [x s]; unf; intros H. destruct s; cbn [negb orb]; split_ifs; lia. Qed.

Lemma is_neg_iff v : wf v -> (is_neg v = true <-> ival v < 0).
Proof. destruct v as [x s]; unf; intros H. destruct s; cbn [andb]; split_ifs; lia. Qed.

Lemma sub_nn_ok a b : wf a -> wf b -> 0 <= ival a -> 0 <= ival b ->
  match sub_nn a b with
  | Ok r => wf r /\ ival r = ival a - ival b
  | Err => ~ in_range (ival a - ival b)
  end.
Proof.
  destruct a as [x s], b as [y t]; unf; intros Ha Hb Ha0 Hb0.
  destruct s, t; split_ifs; cbn [u sg]; split_ifs; lia.
Qed.

Lemma add_uns_ok a b : wf a -> wf b -> 0 <= ival a -> 0 <= ival b ->
  match add_uns a b with
  | Ok r => wf r /\ ival r = ival a + ival b
  | Err => ~ in_range (ival a + ival b)
  end.
Proof.
  destruct a as [x s], b as [y t]; unf; intros Ha Hb Ha0 Hb0.
  destruct s, t; split_ifs; cbn [u sg]; split_ifs; lia.
Qed.

Definition spec_res (r : res) (z : Z) : Prop :=
  match r with
  | Ok v => wf v /\ ival v = z
  | Err => ~ in_range z
  end.

Lemma spec_res_ext r z z' : z = z' -> spec_res r z -> spec_res r z'.
Proof. intros ->; auto. Qed.

Lemma add_ss x y : wf (mk x true) -> wf (mk y true) ->
   spec_res (add (mk x true) (mk y true)) (ival (mk x true) + ival (mk y true)).
Proof.
  unfold spec_res, add, add_uns; cbn [sg Bool.eqb]. unf. intros Ha Hb.
  split_ifs; lia.
Qed.

Lemma neg_of_neg v : wf v -> ival v < 0 -> exists r, neg v = Ok r /\ wf r /\ sg r = false /\ u r = - ival v.
Proof.
  destruct v as [x s]. unf. destruct s; [|lia]. intros H L.
  split_ifs; eexists; (split; [reflexivity|]); cbn [u sg]; repeat split; try lia.
Qed.

Lemma ival_nonneg_u v : wf v -> 0 <= ival v -> ival v = u v.
Proof. destruct v as [x s]; unf. destruct s; intros; split_ifs; lia. Qed.

Lemma not_neg_nonneg v : wf v -> is_neg v = false -> 0 <= ival v.
Proof.
  intros H E. destruct (Z_lt_le_dec (ival v) 0) as [l|l]; auto.
  apply is_neg_iff in l; auto. congruence.
Qed.

Lemma unsigned_nonneg v : wf v -> sg v = false -> 0 <= ival v.
Proof. intros H E. unfold ival. rewrite E. unfold wf in H. lia. Qed.

Lemma eqb_false_cases (s t : bool) : Bool.eqb s t = false -> (s = true /\ t = false) \/ (s = false /\ t = true).
Proof. destruct s, t; cbn; intros; try discriminate; auto. Qed.

Lemma is_neg_signed v : is_neg v = true -> sg v = true.
Proof. unfold is_neg. destruct (sg v); auto. Qed.

Lemma spec_res_sub_nn a b z : wf a -> wf b -> 0 <= ival a -> 0 <= ival b -> z = ival a - ival b ->
  spec_res (sub_nn a b) z.
Proof.
  intros Ha Hb Ha0 Hb0 ->. pose proof (sub_nn_ok a b Ha Hb Ha0 Hb0) as H.
  unfold spec_res. destruct (sub_nn a b); auto.
Qed.

Lemma spec_res_add_uns a b : wf a -> wf b -> 0 <= ival a -> 0 <= ival b ->
  spec_res (add_uns a b) (ival a + ival b).
Proof.
  intros Ha Hb Ha0 Hb0. pose proof (add_uns_ok a b Ha Hb Ha0 Hb0) as H.
  unfold spec_res. destruct (add_uns a b); auto.
Qed.

Lemma add_ok a b : wf a -> wf b -> spec_res (add a b) (ival a + ival b).
Proof.
  intros Ha Hb. unfold add.
  destruct (Bool.eqb (sg a) (sg b)) eqn:Es.
  - destruct (sg a) eqn:Esa.
    + (* both signed *)
      assert (Esb : sg b = true) by (destruct (sg b); [reflexivity | discriminate]).
      destruct a as [x s], b as [y t]; cbn [sg] in *; subst.
      fold (add (mk x true) (mk y true)). apply add_ss; auto.
    + assert (Esb : sg b = false) by (destruct (sg b); [discriminate | reflexivity]).
      apply spec_res_add_uns; auto using unsigned_nonneg.
  - destruct (is_neg a) eqn:Na.
    + pose proof (is_neg_signed _ Na) as Sa.
      apply is_neg_iff in Na; auto.
      destruct (neg_of_neg a Ha Na) as (na & Ea & Wa & Sna & Ua).
      rewrite Ea. cbn [bind].
      assert (Ia : ival na = - ival a) by (unfold ival; rewrite Sna; auto).
      assert (Sb : sg b = false) by (destruct (eqb_false_cases _ _ Es) as [[? ?]|[? ?]]; congruence).
      apply spec_res_sub_nn; auto using unsigned_nonneg; lia.
    + destruct (is_neg b) eqn:Nb.
      * apply is_neg_iff in Nb; auto.
        pose proof (not_neg_nonneg a Ha Na) as Ha0.
        destruct (neg_of_neg b Hb Nb) as (nb & Eb & Wb & Snb & Ub).
        rewrite Eb. cbn [bind].
        assert (Ib : ival nb = - ival b) by (unfold ival; rewrite Snb; auto).
        apply spec_res_sub_nn; auto; lia.
      * apply spec_res_add_uns; auto using not_neg_nonneg.
Qed.

Lemma sub_neg_pos x s y t : wf (mk x s) -> wf (mk y t) -> ival (mk x s) < 0 -> 0 <= ival (mk y t) ->
  spec_res (if y >? wrap (x - HW) then Err
            else Ok (mk (wrap (mi (mk x s) - mi (mk y t))) true)) (ival (mk x s) - ival (mk y t)).
Proof.
  unfold spec_res. unf. intros Ha Hb Ha0 Hb0.
  destruct s, t; split_ifs; lia.
Qed.

Lemma sub_ok a b : wf a -> wf b -> spec_res (sub a b) (ival a - ival b).
Proof.
  intros Ha Hb. unfold sub.
  destruct (nonneg a && nonneg b) eqn:E.
  - apply andb_true_iff in E as [E1 E2].
    apply nonneg_iff in E1; auto. apply nonneg_iff in E2; auto.
    apply spec_res_sub_nn; auto.
  - destruct (is_neg b) eqn:Nb.
    + apply is_neg_iff in Nb; auto.
      destruct (neg_of_neg b Hb Nb) as (nb & Eb & Wb & Snb & Ub).
      rewrite Eb. cbn [bind].
      assert (Ib : ival nb = - ival b) by (unfold ival; rewrite Snb; auto).
      eapply spec_res_ext; [|apply add_ok; auto]. lia.
    + (* a < 0, b >= 0 *)
      pose proof (not_neg_nonneg b Hb Nb) as Hb0.
      assert (Ha0 : ival a < 0).
      { destruct (Z_lt_le_dec (ival a) 0) as [l|l]; auto.
        apply nonneg_iff in l; auto. apply nonneg_iff in Hb0; auto. rewrite l, Hb0 in E. discriminate. }
      destruct a as [x s], b as [y t]. cbn [u]. apply sub_neg_pos; auto.
Qed.

(* the overflow test of operator*: r / a != b with r = a * b mod 2^64 *)
Lemma mul_wrap_test x y : 0 < x < W -> 0 <= y < W ->
  ((wrap (x * y) / x =? y) = true <-> x * y < W).
Proof.
  intros Hx Hy. unfold wrap. rewrite Z.eqb_eq. split.
  - intros E.
    destruct (Z_lt_le_dec (x * y) W) as [l|l]; auto. exfalso.
    assert (Hm : 0 <= (x * y) mod W < W) by (apply Z.mod_pos_bound; unfold W; lia).
    assert (x * ((x * y) mod W / x) <= (x * y) mod W) by (apply Z.mul_div_le; lia).
    rewrite E in H. lia.
  - intros l. rewrite Z.mod_small by nia.
    rewrite Z.mul_comm. apply Z.div_mul. lia.
Qed.

Lemma wrap_small z : 0 <= z < W -> wrap z = z.
Proof. intros; unfold wrap; apply Z.mod_small; auto. Qed.

(* product of magnitudes, unsigned result *)
Lemma mul_uu_ok a b : wf a -> wf b -> 0 <= ival a -> 0 <= ival b ->
  spec_res (let r := wrap (u a * u b) in
            if negb (u a =? 0) && negb (r / u a =? u b) then Err else Ok (mk r false))
           (ival a * ival b).
Proof.
  intros Ha Hb Ha0 Hb0.
  assert (Ea : ival a = u a) by (apply ival_nonneg_u; auto).
  assert (Eb : ival b = u b) by (apply ival_nonneg_u; auto).
  rewrite Ea, Eb. unfold wf in *. cbv zeta.
  destruct (u a =? 0) eqn:Z0.
  - apply Z.eqb_eq in Z0. rewrite Z0. cbn [negb andb]. unfold spec_res, wf, ival; cbn [u sg].
    rewrite Z.mul_0_l. unfold wrap; rewrite Z.mod_0_l by (unfold W; lia). unfold W; lia.
  - apply Z.eqb_neq in Z0. cbn [negb andb].
    pose proof (mul_wrap_test (u a) (u b) ltac:(lia) ltac:(lia)) as T.
    destruct (Z_lt_le_dec (u a * u b) W) as [l|l].
    + assert (Q : (wrap (u a * u b) / u a =? u b) = true) by (apply T; auto).
      rewrite Q. cbn [negb].
      unfold spec_res, wf, ival; cbn [u sg]. rewrite wrap_small by nia. nia.
    + assert (Q : (wrap (u a * u b) / u a =? u b) = false).
      { apply Bool.not_true_is_false; intro Q'; apply T in Q'; lia. }
      rewrite Q. cbn [negb].
      unfold spec_res, in_range. intros [_ R]. lia.
Qed.

Lemma neg_prod_ok p : 0 <= p < W ->
  spec_res (if p >? HW then Err else Ok (mk (wrap (- p)) true)) (- p).
Proof. unfold spec_res; unf. intros. split_ifs; lia. Qed.

(* product of a magnitude x (= -ival of a negative) and a non-negative, negated *)
Lemma mul_neg_ok nb a' (z : Z) : wf nb -> wf a' -> sg nb = false -> 0 <= ival a' ->
  z = - (u nb * ival a') ->
  spec_res (let x := u nb in
            let r := wrap (x * u a') in
            if negb (x =? 0) && negb (r / x =? u a') then Err
            else if r >? HW then Err
            else Ok (mk (wrap (- r)) true)) z.
Proof.
  intros Hn Ha Hs Ha0 ->.
  assert (Ea : ival a' = u a') by (apply ival_nonneg_u; auto).
  rewrite Ea. unfold wf in *. cbv zeta.
  destruct (u nb =? 0) eqn:Z0.
  - apply Z.eqb_eq in Z0. rewrite Z0. cbn [negb andb]. rewrite Z.mul_0_l.
    unfold wrap; rewrite Z.mod_0_l by (unfold W; lia).
    unfold spec_res, wf, ival, mi, HW, W; cbn. lia.
  - apply Z.eqb_neq in Z0. cbn [negb andb].
    pose proof (mul_wrap_test (u nb) (u a') ltac:(lia) ltac:(lia)) as T.
    destruct (Z_lt_le_dec (u nb * u a') W) as [l|l].
    + assert (Q : (wrap (u nb * u a') / u nb =? u a') = true) by (apply T; auto).
      rewrite Q. cbn [negb].
      rewrite wrap_small by nia.
      eapply spec_res_ext; [|apply neg_prod_ok; nia]. reflexivity.
    + assert (Q : (wrap (u nb * u a') / u nb =? u a') = false).
      { apply Bool.not_true_is_false; intro Q'; apply T in Q'; lia. }
      rewrite Q. cbn [negb].
      unfold spec_res, in_range. intros [R _]. assert (W = 2 * HW) by reflexivity. nia.
Qed.

Lemma mul_ok a b : wf a -> wf b -> spec_res (mul a b) (ival a * ival b).
Proof.
  intros Ha Hb. unfold mul.
  destruct (is_neg a) eqn:Na; destruct (is_neg b) eqn:Nb; cbn [andb].
  - (* both negative: negate both *)
    apply is_neg_iff in Na; auto. apply is_neg_iff in Nb; auto.
    destruct (neg_of_neg a Ha Na) as (na & Ea & Wa & Sa & Ua).
    destruct (neg_of_neg b Hb Nb) as (nb & Eb & Wb & Sb & Ub).
    rewrite Ea, Eb. cbn [bind].
    assert (Ia : ival na = - ival a) by (unfold ival; rewrite Sa; auto).
    assert (Ib : ival nb = - ival b) by (unfold ival; rewrite Sb; auto).
    assert (N1 : nonneg na = true) by (apply nonneg_iff; auto; lia).
    assert (N2 : nonneg nb = true) by (apply nonneg_iff; auto; lia).
    rewrite N1, N2. cbn [andb].
    eapply spec_res_ext; [|apply mul_uu_ok; auto; lia]. rewrite Ia, Ib. lia.
  - (* a negative, b non-negative: swap *)
    cbn [bind].
    apply is_neg_iff in Na; auto.
    assert (Hb0 : 0 <= ival b).
    { destruct (Z_lt_le_dec (ival b) 0) as [l|l]; auto. apply is_neg_iff in l; auto. congruence. }
    assert (N1 : nonneg a = false).
    { destruct (nonneg a) eqn:E; auto. apply nonneg_iff in E; auto. lia. }
    rewrite N1. cbn [andb].
    assert (Na' : is_neg a = true) by (apply is_neg_iff; auto).
    rewrite Na'.
    destruct (neg_of_neg a Ha Na) as (na & Ea & Wa & Sa & Ua).
    rewrite Ea. cbn [bind].
    apply mul_neg_ok; auto. rewrite Ua. lia.
  - cbn [bind].
    apply is_neg_iff in Nb; auto.
    assert (Ha0 : 0 <= ival a).
    { destruct (Z_lt_le_dec (ival a) 0) as [l|l]; auto. apply is_neg_iff in l; auto. congruence. }
    assert (N1 : nonneg a = true) by (apply nonneg_iff; auto).
    assert (N2 : nonneg b = false).
    { destruct (nonneg b) eqn:E; auto. apply nonneg_iff in E; auto. lia. }
    rewrite N1, N2. cbn [andb]. rewrite Na.
    destruct (neg_of_neg b Hb Nb) as (nb & Eb & Wb & Sb & Ub).
    rewrite Eb. cbn [bind].
    apply mul_neg_ok; auto. rewrite Ub. lia.
  - cbn [bind].
    assert (Ha0 : 0 <= ival a).
    { destruct (Z_lt_le_dec (ival a) 0) as [l|l]; auto. apply is_neg_iff in l; auto. congruence. }
    assert (Hb0 : 0 <= ival b).
    { destruct (Z_lt_le_dec (ival b) 0) as [l|l]; auto. apply is_neg_iff in l; auto. congruence. }
    assert (N1 : nonneg a = true) by (apply nonneg_iff; auto).
    assert (N2 : nonneg b = true) by (apply nonneg_iff; auto).
    rewrite N1, N2. cbn [andb]. apply mul_uu_ok; auto.
Qed.

(* ---------------------------------------------------------------- div, mod *)

Lemma wf_zero : wf zero.
Proof. unfold wf, zero, of_int, wrap, W; cbn. lia. Qed.

Lemma ival_zero : ival zero = 0.
Proof. reflexivity. Qed.

Lemma lt_zero_iff v : wf v -> (lt v zero = true <-> ival v < 0).
Proof. intros H. rewrite lt_iff by auto using wf_zero. rewrite ival_zero. tauto. Qed.

Lemma u_zero_iff v : wf v -> ((u v =? 0) = true <-> ival v = 0).
Proof. destruct v as [x s]; unf. destruct s; intros; split_ifs; lia. Qed.

(* `if (v < 0) v = -v;` leaves the magnitude, as an in-range non-negative *)
Lemma abs_of v : wf v ->
  exists m, (if lt v zero then neg v else Ok v) = Ok m /\ wf m /\ ival m = u m /\ u m = Z.abs (ival v).
Proof.
  intros H. destruct (lt v zero) eqn:L.
  - apply lt_zero_iff in L; auto.
    destruct (neg_of_neg v H L) as (r & E & Wr & Sr & Ur).
    exists r. repeat split; auto; try apply Wr.
    + unfold ival; rewrite Sr; auto.
    + lia.
  - assert (0 <= ival v).
    { destruct (Z_lt_le_dec (ival v) 0) as [l|l]; auto. apply lt_zero_iff in l; auto. congruence. }
    exists v. repeat split; auto; try apply H.
    + apply ival_nonneg_u; auto.
    + rewrite <- ival_nonneg_u by auto. lia.
Qed.

Lemma spec_res_neg v z : wf v -> z = - ival v -> spec_res (neg v) z.
Proof. intros H ->. pose proof (neg_ok v H). unfold spec_res. destruct (neg v); auto. Qed.

Lemma wf_mk_u x : 0 <= x < W -> wf (mk x false) /\ ival (mk x false) = x.
Proof. intros; unfold wf, ival; cbn [u sg]; auto. Qed.

Lemma div_bound A B : 0 <= A < W -> 0 < B -> 0 <= A / B < W.
Proof.
  intros HA HB. split. apply Z.div_pos; lia.
  apply Z.le_lt_trans with A; [|lia]. apply Z.div_le_upper_bound; nia.
Qed.

Lemma div_succ_bound A B : 0 <= A < W -> 0 < B -> A mod B <> 0 -> 0 <= A / B + 1 < W.
Proof.
  intros HA HB HM.
  assert (B <> 1) by (intros ->; rewrite Z.mod_1_r in HM; lia).
  assert (A / B <= A / 2).
  { apply Z.div_le_compat_l; lia. }
  assert (0 <= A / B) by (apply Z.div_pos; lia).
  assert (A / 2 < W / 2) by (unfold W in *; lia).
  unfold W in *; lia.
Qed.

Theorem div_ok a b : wf a -> wf b ->
  if ival b =? 0 then div a b = Err
  else spec_res (div a b) (ival a / ival b).
Proof.
  intros Ha Hb. unfold div.
  destruct (u b =? 0) eqn:Z0.
  - apply u_zero_iff in Z0; auto. rewrite Z0. reflexivity.
  - assert (Nz : ival b <> 0) by (intro E; apply u_zero_iff in E; auto; congruence).
    destruct (ival b =? 0) eqn:Z1; [apply Z.eqb_eq in Z1; lia|].
    destruct (abs_of a Ha) as (a1 & Ea & Wa & Ia & Ua).
    destruct (abs_of b Hb) as (b1 & Eb & Wb & Ib & Ub).
    rewrite Ea. cbn [bind]. rewrite Eb. cbn [bind].
    set (A := u a1) in *. set (B := u b1) in *.
    assert (HA : 0 <= A < W) by apply Wa.
    assert (HB : 0 < B) by lia.
    pose proof (div_bound A B HA HB) as Hq.
    destruct (lt a zero) eqn:La; destruct (lt b zero) eqn:Lb; cbn [xorb].
    + apply lt_zero_iff in La; auto. apply lt_zero_iff in Lb; auto.
      unfold spec_res. destruct (wf_mk_u (A / B) Hq) as [W1 I1]. split; auto.
      rewrite I1. replace (ival a) with (- A) by lia. replace (ival b) with (- B) by lia.
      symmetry. apply Z.div_opp_opp. lia.
    + apply lt_zero_iff in La; auto.
      assert (0 <= ival b).
      { destruct (Z_lt_le_dec (ival b) 0) as [l|l]; auto. apply lt_zero_iff in l; auto. congruence. }
      replace (ival a) with (- A) by lia. replace (ival b) with B by lia.
      destruct (A mod B =? 0) eqn:M; cbn [negb].
      * apply Z.eqb_eq in M. destruct (wf_mk_u (A / B) Hq) as [W1 I1].
        apply spec_res_neg; auto. rewrite I1. apply Z.div_opp_l_z; lia.
      * apply Z.eqb_neq in M. pose proof (div_succ_bound A B HA HB M) as Hs.
        rewrite wrap_small by auto. destruct (wf_mk_u (A / B + 1) Hs) as [W1 I1].
        apply spec_res_neg; auto. rewrite I1. rewrite Z.div_opp_l_nz by lia. lia.
    + apply lt_zero_iff in Lb; auto.
      assert (0 <= ival a).
      { destruct (Z_lt_le_dec (ival a) 0) as [l|l]; auto. apply lt_zero_iff in l; auto. congruence. }
      replace (ival a) with A by lia. replace (ival b) with (- B) by lia.
      destruct (A mod B =? 0) eqn:M; cbn [negb].
      * apply Z.eqb_eq in M. destruct (wf_mk_u (A / B) Hq) as [W1 I1].
        apply spec_res_neg; auto. rewrite I1. apply Z.div_opp_r_z; lia.
      * apply Z.eqb_neq in M. pose proof (div_succ_bound A B HA HB M) as Hs.
        rewrite wrap_small by auto. destruct (wf_mk_u (A / B + 1) Hs) as [W1 I1].
        apply spec_res_neg; auto. rewrite I1. rewrite Z.div_opp_r_nz by lia. lia.
    + assert (0 <= ival a).
      { destruct (Z_lt_le_dec (ival a) 0) as [l|l]; auto. apply lt_zero_iff in l; auto. congruence. }
      assert (0 <= ival b).
      { destruct (Z_lt_le_dec (ival b) 0) as [l|l]; auto. apply lt_zero_iff in l; auto. congruence. }
      unfold spec_res. destruct (wf_mk_u (A / B) Hq) as [W1 I1]. split; auto.
      rewrite I1. replace (ival a) with A by lia. replace (ival b) with B by lia. reflexivity.
Qed.

Lemma neg_small x : 0 <= x <= HW ->
  exists r, neg (mk x false) = Ok r /\ wf r /\ ival r = - x.
Proof.
  unf. intros H. split_ifs; try lia.
  eexists; split; [reflexivity|]. cbn [u sg]. split_ifs; lia.
Qed.

Lemma not_lt_zero v : wf v -> lt v zero = false -> 0 <= ival v.
Proof.
  intros H L. destruct (Z_lt_le_dec (ival v) 0) as [l|l]; auto.
  apply lt_zero_iff in l; auto. congruence.
Qed.

Theorem mod_ok a b : wf a -> wf b ->
  if ival b =? 0 then modulo a b = Err
  else exists r, modulo a b = Ok r /\ wf r /\ ival r = ival a mod ival b.
Proof.
  intros Ha Hb. unfold modulo.
  destruct (u b =? 0) eqn:Z0.
  - apply u_zero_iff in Z0; auto. rewrite Z0. reflexivity.
  - assert (Nz : ival b <> 0) by (intro E; apply u_zero_iff in E; auto; congruence).
    destruct (ival b =? 0) eqn:Z1; [apply Z.eqb_eq in Z1; lia|].
    destruct (abs_of a Ha) as (a1 & Ea & Wa & Ia & Ua).
    destruct (abs_of b Hb) as (b1 & Eb & Wb & Ib & Ub).
    rewrite Ea. cbn [bind]. rewrite Eb. cbn [bind].
    set (A := u a1) in *. set (B := u b1) in *.
    assert (HA : 0 <= A < W) by apply Wa.
    assert (HBW : 0 <= B < W) by apply Wb.
    assert (HB : 0 < B) by lia.
    assert (HR : 0 <= A mod B < B) by (apply Z.mod_pos_bound; lia).
    pose proof (ival_range b Hb) as Rb. unfold in_range in Rb.
    destruct (lt a zero) eqn:La; destruct (lt b zero) eqn:Lb; cbn [Bool.eqb negb andb].
    + (* both negative: -(A mod B) *)
      apply lt_zero_iff in La; auto. apply lt_zero_iff in Lb; auto.
      rewrite andb_false_r.
      destruct (neg_small (A mod B) ltac:(lia)) as (r & E & Wr & Ir).
      exists r. repeat split; auto; try apply Wr. rewrite Ir.
      replace (ival a) with (- A) by lia. replace (ival b) with (- B) by lia.
      rewrite Z.mod_opp_opp by lia. reflexivity.
    + (* a negative, b positive *)
      apply lt_zero_iff in La; auto. apply not_lt_zero in Lb; auto.
      rewrite andb_true_r.
      replace (ival a) with (- A) by lia. replace (ival b) with B by lia.
      destruct (A mod B =? 0) eqn:M; cbn [negb].
      * apply Z.eqb_eq in M. eexists; split; [reflexivity|].
        destruct (wf_mk_u (A mod B) ltac:(lia)) as [W1 I1]. split; auto.
        rewrite I1, M. symmetry. apply Z.mod_opp_l_z; lia.
      * apply Z.eqb_neq in M. eexists; split; [reflexivity|].
        destruct (wf_mk_u (B - A mod B) ltac:(lia)) as [W1 I1]. split; auto.
        rewrite I1. symmetry. apply Z.mod_opp_l_nz; lia.
    + (* a non-negative, b negative *)
      apply not_lt_zero in La; auto. apply lt_zero_iff in Lb; auto.
      rewrite andb_true_r.
      replace (ival a) with A by lia. replace (ival b) with (- B) by lia.
      destruct (A mod B =? 0) eqn:M; cbn [negb].
      * apply Z.eqb_eq in M.
        destruct (neg_small (A mod B) ltac:(lia)) as (r & E & Wr & Ir).
        exists r. repeat split; auto; try apply Wr. rewrite Ir, M.
        symmetry. rewrite Z.mod_opp_r_z; lia.
      * apply Z.eqb_neq in M.
        destruct (neg_small (B - A mod B) ltac:(lia)) as (r & E & Wr & Ir).
        exists r. repeat split; auto; try apply Wr. rewrite Ir.
        rewrite Z.mod_opp_r_nz by lia. lia.
    + apply not_lt_zero in La; auto. apply not_lt_zero in Lb; auto.
      rewrite andb_false_r.
      eexists; split; [reflexivity|].
      destruct (wf_mk_u (A mod B) ltac:(lia)) as [W1 I1]. split; auto.
      rewrite I1. replace (ival a) with A by lia. replace (ival b) with B by lia. reflexivity.
Qed.

(* comparisons *)
Theorem cmp_ok a b : wf a -> wf b ->
  (lt a b = (ival a <? ival b)) /\ (gt a b = (ival a >? ival b)) /\
  (le a b = (ival a <=? ival b)) /\ (ge a b = (ival a >=? ival b)) /\
  (eq a b = (ival a =? ival b)) /\ (ne a b = negb (ival a =? ival b)).
Proof.
  intros Ha Hb.
  pose proof (lt_iff a b Ha Hb) as L1. pose proof (lt_iff b a Hb Ha) as L2.
  unfold ne, gt, le, ge, eq. rewrite Z.gtb_ltb, Z.geb_leb.
  destruct (lt a b), (lt b a); cbn [negb andb orb];
    try (assert (ival a < ival b) by (apply L1; reflexivity));
    try (assert (ival b < ival a) by (apply L2; reflexivity));
    try (assert (~ ival a < ival b) by (intro X; apply L1 in X; discriminate));
    try (assert (~ ival b < ival a) by (intro X; apply L2 in X; discriminate));
    clear L1 L2; repeat split; lia.
Qed.

Lemma spec_res_det r r' z : spec_res r z -> spec_res r' z ->
  match r, r' with
  | Ok v, Ok v' => ival v = ival v'
  | Err, Err => True
  | _, _ => False
  end.
Proof.
  unfold spec_res. destruct r as [v|], r' as [v'|]; intros H1 H2; auto.
  - destruct H1, H2; congruence.
  - destruct H1 as [H1 <-]. apply H2, ival_range; auto.
  - destruct H2 as [H2 <-]. apply H1, ival_range; auto.
Qed.

(* the representation of an operand is irrelevant *)
Theorem repr_irrelevant a a' b b' : wf a -> wf a' -> wf b -> wf b' ->
  ival a = ival a' -> ival b = ival b' ->
  forall op, In op (add :: sub :: mul :: div :: nil) ->
  match op a b, op a' b' with
  | Ok r, Ok r' => ival r = ival r'
  | Err, Err => True
  | _, _ => False
  end.
Proof.
  intros Ha Ha' Hb Hb' Ea Eb op [<-|[<-|[<-|[<-|[]]]]].
  - pose proof (add_ok a b Ha Hb) as H1. pose proof (add_ok a' b' Ha' Hb') as H2.
    rewrite <- Ea, <- Eb in H2. eapply spec_res_det; eauto.
  - pose proof (sub_ok a b Ha Hb) as H1. pose proof (sub_ok a' b' Ha' Hb') as H2.
    rewrite <- Ea, <- Eb in H2. eapply spec_res_det; eauto.
  - pose proof (mul_ok a b Ha Hb) as H1. pose proof (mul_ok a' b' Ha' Hb') as H2.
    rewrite <- Ea, <- Eb in H2. eapply spec_res_det; eauto.
  - pose proof (div_ok a b Ha Hb) as H1. pose proof (div_ok a' b' Ha' Hb') as H2.
    rewrite <- Ea, <- Eb in H2. destruct (ival b =? 0).
    + rewrite H1, H2. exact I.
    + eapply spec_res_det; eauto.
Qed.
