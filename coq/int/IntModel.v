(* Model of /repo/libzwerg/int.cc (struct mpz_class and its operators),
   clause for clause.  No proofs in this file. *)
From Coq Require Import ZArith Bool.
Local Open Scope Z_scope.

Module IntM.

Definition W : Z := 18446744073709551616.      (* 2^64 *)
Definition HW : Z := 9223372036854775808.      (* 2^63 = (uint64_t) INT64_MAX + 1 *)

(* {m_u, m_sign}: u is the uint64_t view of the union, sg = (m_sign == sign). *)
Record mpz := mk { u : Z; sg : bool }.

Definition wf (v : mpz) : Prop := 0 <= u v < W.
Definition wfb (v : mpz) : bool := (0 <=? u v) && (u v <? W).

(* the int64_t view m_i of the union (two's complement) *)
Definition mi (v : mpz) : Z := if u v <? HW then u v else u v - W.

(* the mathematical integer an mpz_class denotes *)
Definition ival (v : mpz) : Z := if sg v then mi v else u v.

(* uint64_t arithmetic wraps *)
Definition wrap (z : Z) : Z := z mod W.

Definition in_range (z : Z) : Prop := - HW <= z < W.
Definition in_rangeb (z : Z) : bool := (- HW <=? z) && (z <? W).

Inductive res := Ok (v : mpz) | Err.

Definition bind (r : res) (f : mpz -> res) : res :=
  match r with Ok v => f v | Err => Err end.

(* mpz_class (int): signed;  mpz_class (unsigned long): unsigned *)
Definition of_int (z : Z) : mpz := mk (wrap z) true.
Definition of_uint (z : Z) : mpz := mk z false.

(* bool operator< (mpz_class v1, mpz_class v2) *)
Definition lt (a b : mpz) : bool :=
  if Bool.eqb (sg a) (sg b) then
    (if sg a then mi a <? mi b else u a <? u b)
  else if sg a && (mi a <? 0) then true
  else if sg b && (mi b <? 0) then false
  else u a <? u b.

Definition eq (a b : mpz) : bool := negb (lt a b) && negb (lt b a).
Definition le (a b : mpz) : bool := lt a b || negb (lt b a).
Definition gt (a b : mpz) : bool := negb (le a b).
Definition ge (a b : mpz) : bool := negb (lt a b).
Definition ne (a b : mpz) : bool := negb (eq a b).

Definition is_neg (v : mpz) : bool := sg v && (mi v <? 0).
Definition nonneg (v : mpz) : bool := negb (sg v) || (mi v >=? 0).

(* mpz_class operator- (mpz_class v) *)
Definition neg (v : mpz) : res :=
  if sg v then
    if mi v =? - HW then Ok (mk HW false)
    else if mi v >? 0 then Ok (mk (wrap (- mi v)) true)
    else Ok (mk (wrap (- mi v)) false)
  else
    if u v >? HW then Err
    else Ok (mk (wrap (- u v)) true).

(* first branch of binary operator-: both operands non-negative *)
Definition sub_nn (a b : mpz) : res :=
  if u a >? u b then Ok (mk (u a - u b) false)
  else let r := u b - u a in
       if r >? HW then Err else Ok (mk (wrap (- r)) true).

(* label `uns:` of operator+ *)
Definition add_uns (a b : mpz) : res :=
  let r := wrap (u a + u b) in
  if r <? u a then Err else Ok (mk r false).

(* mpz_class operator+ (mpz_class v1, mpz_class v2).  The calls `v2 - -v1`
   and `v1 - -v2` have two non-negative operands, so binary minus takes its
   first branch (sub_nn); that this is what the full operator- does on such
   operands is lemma sub_nonneg in IntProofs.v. *)
Definition add (a b : mpz) : res :=
  if Bool.eqb (sg a) (sg b) then
    if sg a then
      let x := mi a in let y := mi b in
      if ((x <=? 0) && (y >=? 0)) || ((y <=? 0) && (x >=? 0))
      then Ok (mk (wrap (x + y)) true)
      else if (x >=? 0) && (y >=? 0) then add_uns a b
      else if (x =? - HW) || (y =? - HW) then Err
      else
        let ua := wrap (- x) in
        let ub := wrap (- y) in
        let ur := wrap (ua + ub) in
        if (ur <? ua) || (ur >? HW) then Err
        else Ok (mk (wrap (- ur)) true)
    else add_uns a b
  else if is_neg a then bind (neg a) (fun na => sub_nn b na)
  else if is_neg b then bind (neg b) (fun nb => sub_nn a nb)
  else add_uns a b.

(* mpz_class operator- (mpz_class v1, mpz_class v2) *)
Definition sub (a b : mpz) : res :=
  if nonneg a && nonneg b then sub_nn a b
  else if is_neg b then bind (neg b) (fun nb => add a nb)
  else
    if u b >? wrap (u a - HW) then Err
    else Ok (mk (wrap (mi a - mi b)) true).

(* mpz_class operator* (mpz_class v1, mpz_class v2) *)
Definition mul (a0 b0 : mpz) : res :=
  let both := is_neg a0 && is_neg b0 in
  bind (if both then neg a0 else Ok a0) (fun a =>
  bind (if both then neg b0 else Ok b0) (fun b =>
  if nonneg a && nonneg b then
    let r := wrap (u a * u b) in
    if negb (u a =? 0) && negb (r / u a =? u b) then Err
    else Ok (mk r false)
  else
    let a' := if is_neg a then b else a in       (* v1.swap (v2) *)
    let b' := if is_neg a then a else b in
    bind (neg b') (fun nb =>
      let x := u nb in
      let r := wrap (x * u a') in
      if negb (x =? 0) && negb (r / x =? u a') then Err
      else if r >? HW then Err
      else Ok (mk (wrap (- r)) true)))).

Definition zero : mpz := of_int 0.

(* mpz_class operator/ (mpz_class v1, mpz_class v2) *)
Definition div (a b : mpz) : res :=
  if u b =? 0 then Err else
  let n1 := lt a zero in
  bind (if n1 then neg a else Ok a) (fun a1 =>
  let n2 := lt b zero in
  bind (if n2 then neg b else Ok b) (fun b1 =>
  let ng := xorb n1 n2 in
  let q := u a1 / u b1 in
  if ng then
    neg (mk (if negb (u a1 mod u b1 =? 0) then wrap (q + 1) else q) false)
  else Ok (mk q false))).

(* mpz_class operator% (mpz_class v1, mpz_class v2) *)
Definition modulo (a b : mpz) : res :=
  if u b =? 0 then Err else
  let n1 := lt a zero in
  let n2 := lt b zero in
  bind (if n1 then neg a else Ok a) (fun a1 =>
  bind (if n2 then neg b else Ok b) (fun b1 =>
  let r0 := u a1 mod u b1 in
  let r := if negb (r0 =? 0) && negb (Bool.eqb n1 n2) then u b1 - r0 else r0 in
  if n2 then neg (mk r false) else Ok (mk r false))).

End IntM.
Export IntM.
