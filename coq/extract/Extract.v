(* The single place where extraction directives live (trusted base). *)
From Coq Require Import ExtrOcamlBasic.
From Coq Require Import ZArith.
From Dwgrep Require Import IntModel.

Extraction Blacklist String List Nat Int.

Extraction "extract/out/zwm.ml"
  IntM.add IntM.sub IntM.mul IntM.div IntM.modulo IntM.neg
  IntM.lt IntM.gt IntM.le IntM.ge IntM.eq IntM.ne
  IntM.ival IntM.wfb IntM.in_rangeb Z.div Z.modulo Z.add Z.sub Z.mul Z.opp
  Z.ltb Z.leb Z.eqb Z.of_nat Z.to_nat.
