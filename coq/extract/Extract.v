(* The single place where extraction directives live (trusted base). *)
From Coq Require Import ExtrOcamlBasic ExtrOcamlString.
From Coq Require Import ZArith.
From Dwgrep Require Import IntModel CovModel Cmp DieCmp Radix Value Words Tree Engine Build Den Scope Simplify ParseInt Escape Cli Lexer Forest FindAttr Iter ChildIter Atval TypeCtx Ranges Loc Scon Quiet.

Extraction Blacklist String List Nat Int.

Extraction "extract/out/zwm.ml"
  IntM.add IntM.sub IntM.mul IntM.div IntM.modulo IntM.neg
  IntM.lt IntM.gt IntM.le IntM.ge IntM.eq IntM.ne
  IntM.ival IntM.wfb IntM.in_rangeb Z.div Z.modulo Z.add Z.sub Z.mul Z.opp
  Z.ltb Z.leb Z.eqb Z.of_nat Z.to_nat
  CovM.add CovM.remove CovM.is_covered CovM.is_overlap CovM.intersect CovM.add_all CovM.remove_all
  CovM.w_aset CovM.w_add CovM.w_sub CovM.w_add_cst CovM.w_sub_cst CovM.w_overlap CovM.w_contains_cst
  CovM.w_contains CovM.w_overlaps CovM.w_empty CovM.w_length CovM.w_low CovM.w_high CovM.w_range CovM.w_cmp
  CovM.memb CovM.Invb
  CmpM.cmp_top CmpM.w_eq CmpM.w_lt CmpM.w_gt CmpM.w_ne CmpM.w_ge CmpM.w_le CmpM.comparable CmpM.cst_lt DieCmpM.die_cmp DieCmpM.cu_cmp
  ValueM.show ValueM.stack_eqb EngineM.run BuildM.build_program DenM.den DenM.den_stream ScopeM.well_scoped SimplifyM.simplify RadixM.show_dec RadixM.show_hex RadixM.show_oct RadixM.show_bin RadixM.read_digits
  ParseIntM.parse_int EscapeM.esc EscapeM.lex_string CliM.cli LexerM.lex_all LexerM.analyse LexerM.parses ForestM.raw_rows ForestM.cooked_rows ForestM.raw_units ForestM.cooked_units FindAttrM.find_attr IterM.walk_all ChildIterM.children ChildIterM.entries AtvalM.at_value TypeCtxM.var_ctx TypeCtxM.enumerator_ctx TypeCtxM.lookup RangesM.die_ranges LocM.op_values SconM.run QuietM.quietb QuietM.has_format.
