(* Proofs about CovModel.v: the representation invariant, canonicity, the
   binary search, and add = set union. *)
From Coq Require Import ZArith List Bool Lia Arith.
From Dwgrep Require Import ListAux CovModel.
Import ListNotations.
Local Open Scope Z_scope.

(* ------------------------------------------------------------ membership *)

Lemma mem_nil x : ~ mem [] x.
Proof. intros [r [[] _]]. Qed.

Lemma mem_cons r c x : mem (r :: c) x <-> (fst r <= x < fst r + snd r) \/ mem c x.
Proof.
  unfold mem. split.
  - intros [q [[<-|Hin] H]]; [left; auto | right; eauto].
  - intros [H|[q [Hin H]]]; [exists r; split; [left; auto | auto] | exists q; split; [right; auto | auto]].
Qed.

Lemma mem_app a b x : mem (a ++ b) x <-> mem a x \/ mem b x.
Proof.
  induction a as [|r a IH]; cbn [app].
  - split; [auto | intros [H|H]; [destruct (mem_nil _ H) | auto]].
  - rewrite !mem_cons, IH. tauto.
Qed.

(* --------------------------------------------------------------- invariant *)

Lemma inv_weaken lo lo' c : lo' <= lo -> inv_from lo c -> inv_from lo' c.
Proof. destruct c as [|r t]; cbn [inv_from]; intros; [auto | intuition lia]. Qed.

Lemma inv_mem_lo c : forall lo x, inv_from lo c -> mem c x -> lo <= x.
Proof.
  induction c as [|r t IH]; intros lo x Hi Hm.
  - destruct (mem_nil _ Hm).
  - cbn [inv_from] in Hi. destruct Hi as (H1 & H2 & H3 & H4).
    apply mem_cons in Hm as [Hm|Hm]; [lia|]. specialize (IH _ _ H4 Hm). lia.
Qed.

Lemma inv_mem_top c : forall lo x, inv_from lo c -> mem c x -> x < TOP.
Proof.
  induction c as [|r t IH]; intros lo x Hi Hm.
  - destruct (mem_nil _ Hm).
  - cbn [inv_from] in Hi. destruct Hi as (H1 & H2 & H3 & H4).
    apply mem_cons in Hm as [Hm|Hm]; [lia|]. eapply IH; eauto.
Qed.

(* the upper bound (exclusive, plus the mandatory gap) after a prefix *)
Definition hi_of (lo : Z) (pre : cov) : Z :=
  match last_opt pre with Some p => fst p + snd p + 1 | None => lo end.

Lemma last_opt_app_one pre p : last_opt (pre ++ [p]) = Some p.
Proof. unfold last_opt. rewrite rev_app_distr. reflexivity. Qed.

Lemma last_opt_nil : last_opt [] = None.
Proof. reflexivity. Qed.

Lemma last_opt_cases pre : (pre = [] /\ last_opt pre = None) \/ (exists pre' p, pre = pre' ++ [p] /\ last_opt pre = Some p).
Proof.
  induction pre as [|a l _] using rev_ind; [left; auto|].
  right. exists l, a. split; auto using last_opt_app_one.
Qed.

Lemma removelast_app_one (pre : cov) p : removelast (pre ++ [p]) = pre.
Proof. rewrite removelast_app by discriminate. cbn. apply app_nil_r. Qed.

Lemma inv_app pre : forall lo post,
  inv_from lo (pre ++ post) <-> inv_from lo pre /\ inv_from (hi_of lo pre) post.
Proof.
  induction pre as [|r t IH]; intros lo post; cbn [app].
  - unfold hi_of; cbn. tauto.
  - cbn [inv_from]. rewrite IH.
    assert (E : hi_of lo (r :: t) = hi_of (fst r + snd r + 1) t).
    { unfold hi_of. destruct (last_opt_cases t) as [[-> E]|(t' & p & -> & E)].
      - cbn. reflexivity.
      - rewrite E. change (r :: t' ++ [p]) with ((r :: t') ++ [p]). rewrite last_opt_app_one. reflexivity. }
    rewrite E. tauto.
Qed.

Lemma hi_of_app_one lo pre p : hi_of lo (pre ++ [p]) = fst p + snd p + 1.
Proof. unfold hi_of. rewrite last_opt_app_one. reflexivity. Qed.

(* ---------------------------------------------------------------- canonicity *)

Theorem canonical : forall a lo b lo',
  inv_from lo a -> inv_from lo' b -> (forall x, mem a x <-> mem b x) -> a = b.
Proof.
  induction a as [|[s l] a IH]; intros lo b lo' Ha Hb E.
  - destruct b as [|[s' l'] b]; auto.
    cbn [inv_from fst snd] in Hb. exfalso. apply (mem_nil s'). apply E. apply mem_cons. left. cbn. lia.
  - destruct b as [|[s' l'] b].
    + cbn [inv_from fst snd] in Ha. exfalso. apply (mem_nil s). apply E. apply mem_cons. left. cbn. lia.
    + cbn [inv_from fst snd] in Ha, Hb.
      destruct Ha as (A1 & A2 & A3 & A4), Hb as (B1 & B2 & B3 & B4).
      assert (Ms : mem ((s, l) :: a) s) by (apply mem_cons; left; cbn; lia).
      assert (Ms' : mem ((s', l') :: b) s') by (apply mem_cons; left; cbn; lia).
      assert (s' <= s).
      { apply E in Ms. apply mem_cons in Ms as [M|M]; cbn in M; [lia|]. pose proof (inv_mem_lo _ _ _ B4 M). lia. }
      assert (s <= s').
      { apply E in Ms'. apply mem_cons in Ms' as [M|M]; cbn in M; [lia|]. pose proof (inv_mem_lo _ _ _ A4 M). lia. }
      assert (s = s') by lia. subst s'.
      assert (l = l').
      { destruct (Z.lt_trichotomy l l') as [L|[L|L]]; auto; exfalso.
        - assert (M : mem ((s, l') :: b) (s + l)) by (apply mem_cons; left; cbn; lia).
          apply E in M. apply mem_cons in M as [M|M]; cbn in M; [lia|]. pose proof (inv_mem_lo _ _ _ A4 M). lia.
        - assert (M : mem ((s, l) :: a) (s + l')) by (apply mem_cons; left; cbn; lia).
          apply E in M. apply mem_cons in M as [M|M]; cbn in M; [lia|]. pose proof (inv_mem_lo _ _ _ B4 M). lia. }
      subst l'. f_equal.
      eapply IH; eauto. intros x. split; intros M.
      * pose proof (inv_mem_lo _ _ _ A4 M).
        assert (M' : mem ((s, l) :: a) x) by (apply mem_cons; auto).
        apply E in M'. apply mem_cons in M' as [M'|M']; cbn in M'; [lia | auto].
      * pose proof (inv_mem_lo _ _ _ B4 M).
        assert (M' : mem ((s, l) :: b) x) by (apply mem_cons; auto).
        apply E in M'. apply mem_cons in M' as [M'|M']; cbn in M'; [lia | auto].
Qed.

(* value_aset::cmp answers "equal" exactly for identical vectors *)
Lemma cmp_ranges_eq a : forall b, length a = length b -> (cmp_ranges a b = Eq <-> a = b).
Proof.
  induction a as [|[s l] a IH]; intros [|[s' l'] b] L; cbn in L; try discriminate.
  - cbn. tauto.
  - cbn [cmp_ranges rstart rlen fst snd]. injection L as L.
    destruct (s ?= s') eqn:C1.
    + apply Z.compare_eq in C1. subst. destruct (l ?= l') eqn:C2.
      * apply Z.compare_eq in C2. subst. rewrite IH by auto. split; [intros ->; auto | intros H; inversion H; auto].
      * split; [discriminate|]. intros H. inversion H. subst. rewrite Z.compare_refl in C2. discriminate.
      * split; [discriminate|]. intros H. inversion H. subst. rewrite Z.compare_refl in C2. discriminate.
    + split; [discriminate|]. intros H. inversion H. subst. rewrite Z.compare_refl in C1. discriminate.
    + split; [discriminate|]. intros H. inversion H. subst. rewrite Z.compare_refl in C1. discriminate.
Qed.

Lemma w_cmp_eq a b : w_cmp a b = Eq <-> a = b.
Proof.
  unfold w_cmp. destruct (Nat.compare (length a) (length b)) eqn:C.
  - apply Nat.compare_eq in C. apply cmp_ranges_eq; auto.
  - split; [discriminate|]. intros ->. rewrite Nat.compare_refl in C. discriminate.
  - split; [discriminate|]. intros ->. rewrite Nat.compare_refl in C. discriminate.
Qed.

Theorem cmp_eq_iff_same_set a b : Inv a -> Inv b ->
  (w_cmp a b = Eq <-> forall x, mem a x <-> mem b x).
Proof.
  intros Ha Hb. rewrite w_cmp_eq. split.
  - intros ->. tauto.
  - intros E. eapply canonical; eauto.
Qed.

(* ------------------------------------------------------------ binary search *)

Lemma inv_in c : forall lo r, inv_from lo c -> In r c -> lo <= fst r /\ 0 < snd r /\ fst r + snd r < TOP.
Proof.
  induction c as [|q t IH]; intros lo r Hi Hin; [destruct Hin|].
  cbn [inv_from] in Hi. destruct Hi as (H1 & H2 & H3 & H4).
  destruct Hin as [<-|Hin]; [lia|]. specialize (IH _ _ H4 Hin). lia.
Qed.

(* starts are strictly increasing, with a gap *)
Lemma inv_nth_lt c : forall lo i j, inv_from lo c -> (i < j < length c)%nat ->
  fst (nth i c (0, 0)) + snd (nth i c (0, 0)) < fst (nth j c (0, 0)).
Proof.
  induction c as [|r t IH]; intros lo i j Hi Hij; cbn [length] in Hij; [lia|].
  cbn [inv_from] in Hi. destruct Hi as (H1 & H2 & H3 & H4).
  destruct j as [|j]; [lia|]. destruct i as [|i]; cbn [nth].
  - assert (Hin : In (nth j t (0, 0)) t) by (apply nth_In; lia).
    pose proof (inv_in _ _ _ H4 Hin). lia.
  - eapply IH; eauto. lia.
Qed.

Lemma inv_nth_start_lt c lo i j : inv_from lo c -> (i < j < length c)%nat ->
  fst (nth i c (0, 0)) < fst (nth j c (0, 0)).
Proof.
  intros Hi Hij. pose proof (inv_nth_lt c lo i j Hi Hij).
  assert (Hin : In (nth i c (0, 0)) c) by (apply nth_In; lia).
  pose proof (inv_in _ _ _ Hi Hin). lia.
Qed.

(* what find returns: the number k of ranges that start below `start` *)
Definition is_split_point (c : cov) (start : Z) (k : nat) : Prop :=
  (k <= length c)%nat /\
  (forall i, (i < k)%nat -> fst (nth i c (0, 0)) < start) /\
  (forall i, (k <= i < length c)%nat -> start <= fst (nth i c (0, 0))).

Lemma find_loop_spec c lo start : inv_from lo c ->
  forall fuel a b, (b - a < fuel)%nat -> (a <= b <= length c)%nat ->
  (forall i, (i < a)%nat -> fst (nth i c (0, 0)) < start) ->
  (forall i, (b <= i < length c)%nat -> start < fst (nth i c (0, 0))) ->
  is_split_point c start (find_loop fuel c start a b).
Proof.
  intros Hi. induction fuel as [|fuel IH]; intros a b Hf Hab Hlo Hhi; [lia|].
  cbn [find_loop]. destruct (Nat.ltb_spec a b) as [Lt|Ge].
  - set (i := Nat.div (a + b) 2).
    assert (Hi_rng : (a <= i < b)%nat).
    { unfold i. split; [apply Nat.div_le_lower_bound; lia | apply Nat.div_lt_upper_bound; lia]. }
    unfold rstart.
    destruct (fst (nth i c (0, 0)) >? start) eqn:G.
    + apply IH; try lia; auto.
      intros k Hk. destruct (Nat.eq_dec k i) as [->|Ne]; [lia|].
      assert (fst (nth i c (0, 0)) < fst (nth k c (0, 0))) by (eapply inv_nth_start_lt; eauto; lia). lia.
    + destruct (fst (nth i c (0, 0)) <? start) eqn:L.
      * apply IH; try lia; auto.
        intros k Hk. destruct (Nat.eq_dec k i) as [->|Ne]; [lia|].
        destruct (Nat.lt_ge_cases k a) as [Hka|Hka]; auto.
        assert (fst (nth k c (0, 0)) < fst (nth i c (0, 0))) by (eapply inv_nth_start_lt; eauto; lia). lia.
      * assert (E : fst (nth i c (0, 0)) = start) by lia.
        split; [lia|]. split.
        -- intros k Hk. assert (fst (nth k c (0, 0)) < fst (nth i c (0, 0))) by (eapply inv_nth_start_lt; eauto; lia). lia.
        -- intros k Hk. destruct (Nat.eq_dec k i) as [->|Ne]; [lia|].
           assert (fst (nth i c (0, 0)) < fst (nth k c (0, 0))) by (eapply inv_nth_start_lt; eauto; lia). lia.
  - assert (a = b) by lia. subst b. split; [lia|]. split; auto.
    intros k Hk. specialize (Hhi k Hk). lia.
Qed.

Theorem find_spec c lo start : inv_from lo c -> is_split_point c start (find c start).
Proof.
  intros Hi. unfold find. eapply find_loop_spec; eauto; try lia.
Qed.

(* the split of the vector at find's index *)
Lemma find_split c lo start : inv_from lo c ->
  exists pre post, c = pre ++ post /\ find c start = length pre /\
    firstn (find c start) c = pre /\ skipn (find c start) c = post /\
    (forall r, In r pre -> fst r < start) /\ (forall r, In r post -> start <= fst r).
Proof.
  intros Hi. destruct (find_spec c lo start Hi) as (K1 & K2 & K3).
  set (k := find c start) in *.
  exists (firstn k c), (skipn k c). repeat split; auto.
  - symmetry. apply firstn_skipn.
  - rewrite firstn_length. lia.
  - intros r Hin. apply In_nth with (d := (0, 0)) in Hin. destruct Hin as (i & Hi1 & <-).
    rewrite firstn_length in Hi1. rewrite nth_firstn by lia. apply K2. lia.
  - intros r Hin. apply In_nth with (d := (0, 0)) in Hin. destruct Hin as (i & Hi1 & <-).
    rewrite skipn_length in Hi1. rewrite nth_skipn. apply K3. fold k. lia.
Qed.

(* ------------------------------------------------------------------- add *)

Lemma wadd_small a b : 0 <= a + b < TOP -> wadd a b = a + b.
Proof. intros. unfold wadd. apply Z.mod_small; auto. Qed.

Lemma wsub_small a b : 0 <= a - b < TOP -> wsub a b = a - b.
Proof. intros. unfold wsub. apply Z.mod_small; auto. Qed.

Lemma inv_raise c lo m : inv_from lo c -> (forall r, In r c -> m <= fst r) -> inv_from m c.
Proof.
  destruct c as [|r t]; cbn [inv_from]; auto.
  intros (H1 & H2 & H3 & H4) Hm. repeat split; auto. apply Hm. left; auto.
Qed.

Lemma rend_small c lo r : inv_from lo c -> In r c -> 0 <= lo -> rend r = fst r + snd r.
Proof.
  intros Hi Hin Hlo. pose proof (inv_in _ _ _ Hi Hin). unfold rend. apply wadd_small. lia.
Qed.

Lemma absorb_spec post : forall cs cl cl' rest,
  0 <= cs -> 0 < cl -> cs + cl < TOP -> inv_from cs post ->
  absorb cs cl post = (cl', rest) ->
  cl <= cl' /\ cs + cl' < TOP /\ inv_from (cs + cl' + 1) rest /\
  (forall x, (cs <= x < cs + cl' \/ mem rest x) <-> (cs <= x < cs + cl \/ mem post x)).
Proof.
  induction post as [|p post IH]; intros cs cl cl' rest Hcs Hcl Htop Hi EA; cbn [absorb] in EA.
  - inversion EA; subst. cbn [inv_from]. repeat split; auto; try lia; tauto.
  - cbn [inv_from] in Hi. destruct Hi as (H1 & H2 & H3 & H4).
    unfold rstart, rend in EA. rewrite (wadd_small cs cl) in EA by lia.
    rewrite (wadd_small (fst p) (snd p)) in EA by lia.
    destruct (cs + cl >=? fst p) eqn:T.
    + set (cl2 := if fst p + snd p >? cs + cl then wsub (fst p + snd p) cs else cl) in *.
      assert (Ecl2 : cl2 = Z.max cl (fst p + snd p - cs)).
      { unfold cl2. destruct (fst p + snd p >? cs + cl) eqn:G; [rewrite wsub_small by lia|]; lia. }
      specialize (IH cs cl2 cl' rest Hcs ltac:(lia) ltac:(lia) ltac:(eapply inv_weaken; [|exact H4]; lia) EA).
      destruct IH as (I1 & I2 & I3 & I4). repeat split; auto; try lia.
      * intros X.
        assert (Y : cs <= x < cs + cl2 \/ mem post x) by (apply I4; auto).
        rewrite mem_cons. destruct Y as [Y|Y]; [|auto].
        destruct (Z_lt_le_dec x (cs + cl)); [left; lia | right; left; lia].
      * intros X. apply I4. rewrite mem_cons in X. destruct X as [X|[X|X]]; auto; left; lia.
    + inversion EA; subst. cbn [inv_from]. repeat split; auto; try lia; tauto.
Qed.

Lemma add_main_ok c s l : Inv c -> 0 <= s -> 0 < l -> s + l < TOP ->
  Inv (add_main c s l) /\ forall x, mem (add_main c s l) x <-> mem c x \/ s <= x < s + l.
Proof.
  intros Hi Hs Hl Htop. unfold Inv in *.
  destruct (find_split c 0 s Hi) as (pre & post & Ec & _ & Efst & Eskp & Hpre & Hpost).
  unfold add_main. rewrite Efst, Eskp. clear Efst Eskp.
  rewrite Ec in Hi. apply inv_app in Hi. destruct Hi as [Hipre Hipost].
  assert (Fresh : hi_of 0 pre <= s ->
            inv_from 0 (let '(cl, rest) := absorb s l post in pre ++ (s, cl) :: rest) /\
            forall x, mem (let '(cl, rest) := absorb s l post in pre ++ (s, cl) :: rest) x <-> mem c x \/ s <= x < s + l).
  { intros Hhi. destruct (absorb s l post) as [cl rest] eqn:EA.
    assert (Hps : inv_from s post) by (eapply inv_raise; eauto).
    destruct (absorb_spec post s l cl rest Hs Hl Htop Hps EA) as (A1 & A2 & A3 & A4).
    split.
    - apply inv_app. split; auto. cbn [inv_from fst snd]. repeat split; auto; lia.
    - intros x. rewrite Ec, !mem_app, mem_cons. cbn [fst snd]. specialize (A4 x). tauto. }
  destruct (last_opt_cases pre) as [[-> E]|(pre' & p & -> & E)]; rewrite E.
  - apply Fresh. unfold hi_of; cbn. lia.
  - apply inv_app in Hipre. destruct Hipre as [Hipre' Hip].
    cbn [inv_from] in Hip. destruct Hip as (P1 & P2 & P3 & _).
    rewrite hi_of_app_one in Hipost.
    assert (Hps : fst p < s) by (apply Hpre; apply in_or_app; right; left; auto).
    assert (Hlo : 0 <= hi_of 0 pre').
    { unfold hi_of. destruct (last_opt_cases pre') as [[-> E']|(q' & q & -> & E')]; rewrite E'; [lia|].
      assert (In q (q' ++ [q])) by (apply in_or_app; right; left; auto).
      pose proof (inv_in _ _ _ Hipre' H). lia. }
    unfold rend, rstart. rewrite (wadd_small (fst p) (snd p)) by lia.
    destruct (s <=? fst p + snd p) eqn:T1.
    + rewrite (wadd_small s l) by lia.
      destruct (s + l >? fst p + snd p) eqn:T2.
      * rewrite wsub_small by lia.
        destruct (absorb (fst p) (s + l - fst p) post) as [cl rest] eqn:EA.
        assert (Hpp : inv_from (fst p) post) by (eapply inv_weaken; [|exact Hipost]; lia).
        destruct (absorb_spec post (fst p) (s + l - fst p) cl rest ltac:(lia) ltac:(lia) ltac:(lia) Hpp EA) as (A1 & A2 & A3 & A4).
        rewrite removelast_app_one. split.
        -- apply inv_app. split; auto. cbn [inv_from fst snd]. repeat split; auto; lia.
        -- intros x. rewrite Ec, !mem_app, !mem_cons. cbn [fst snd]. specialize (A4 x).
           assert (N : ~ mem [] x) by apply mem_nil.
           assert (F : fst p <= x < fst p + (s + l - fst p) <-> (fst p <= x < fst p + snd p) \/ s <= x < s + l) by lia.
           tauto.
      * split.
        -- rewrite Ec. apply inv_app. split.
           ++ apply inv_app. split; auto. cbn [inv_from]. repeat split; auto; lia.
           ++ rewrite hi_of_app_one. auto.
        -- intros x. split; [tauto|]. intros [X|X]; auto.
           rewrite Ec, !mem_app, mem_cons. left. right. left. lia.
    + apply Fresh. rewrite hi_of_app_one. lia.
Qed.

Theorem add_ok c s l : Inv c -> 0 <= s -> 0 <= l -> s + l < TOP ->
  Inv (add c s l) /\ forall x, mem (add c s l) x <-> mem c x \/ s <= x < s + l.
Proof.
  intros Hi Hs Hl Htop. unfold add.
  destruct (l =? 0) eqn:Z0.
  - apply Z.eqb_eq in Z0. subst. split; auto. intros x. split; [tauto|]. intros [X|X]; [auto|lia].
  - apply Z.eqb_neq in Z0.
    destruct c as [|r c'].
    + split.
      * unfold Inv; cbn [inv_from fst snd]. repeat split; auto; lia.
      * intros x. rewrite mem_cons. cbn [fst snd]. pose proof (mem_nil x). tauto.
    + apply add_main_ok; auto. lia.
Qed.

(* every operation sequence from the empty set keeps the invariant and denotes
   the union *)
Lemma add_all_from other : forall lo c, 0 <= lo -> Inv c -> inv_from lo other ->
  Inv (add_all c other) /\ forall x, mem (add_all c other) x <-> mem c x \/ mem other x.
Proof.
  unfold add_all. induction other as [|r t IH]; intros lo c Hlo Hc Ho; cbn [fold_left].
  - split; auto. intros x. pose proof (mem_nil x). tauto.
  - cbn [inv_from] in Ho. destruct Ho as (H1 & H2 & H3 & H4).
    destruct (add_ok c (fst r) (snd r)) as [A1 A2]; auto; try lia.
    unfold rstart, rlen.
    destruct (IH (fst r + snd r + 1) (add c (fst r) (snd r)) ltac:(lia) A1 H4) as [B1 B2]. split; auto.
    intros x. rewrite B2, A2, mem_cons. tauto.
Qed.

Theorem add_all_ok c other : Inv c -> Inv other ->
  Inv (add_all c other) /\ forall x, mem (add_all c other) x <-> mem c x \/ mem other x.
Proof. intros. eapply add_all_from; eauto. lia. Qed.
