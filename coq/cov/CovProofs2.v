(* More of coverage.cc: is_covered, is_overlap, remove and intersect are the
   set-theoretic predicates and operations on the denoted set of addresses. *)
From Coq Require Import ZArith List Bool Lia Arith.
From Dwgrep Require Import ListAux CovModel CovProofs.
Import ListNotations.
Local Open Scope Z_scope.

(* a contiguous interval inside the denoted set lies inside one run (runs are not adjacent) *)
Lemma interval_in_one_range : forall c lo s l, inv_from lo c -> 0 < l ->
  (forall x, s <= x < s + l -> mem c x) ->
  exists r, In r c /\ fst r <= s /\ s + l <= fst r + snd r.
Proof.
  induction c as [|r t IH]; intros lo s l Hi Hl Hall.
  - exfalso. apply (mem_nil s). apply Hall. lia.
  - cbn [inv_from] in Hi. destruct Hi as (H1 & H2 & H3 & H4).
    assert (Ms : mem (r :: t) s) by (apply Hall; lia).
    apply mem_cons in Ms. destruct Ms as [Ms|Ms].
    + exists r. split; [left; reflexivity|]. split; [lia|].
      destruct (Z_le_gt_dec (s + l) (fst r + snd r)) as [L|G]; [exact L|exfalso].
      assert (M : mem (r :: t) (fst r + snd r)) by (apply Hall; lia).
      apply mem_cons in M. destruct M as [M|M]; [lia|]. pose proof (inv_mem_lo _ _ _ H4 M). lia.
    + pose proof (inv_mem_lo _ _ _ H4 Ms) as Lo.
      destruct (IH (fst r + snd r + 1) s l H4 Hl) as [q [Hq Q]].
      * intros x Hx. assert (M : mem (r :: t) x) by (apply Hall; exact Hx).
        apply mem_cons in M. destruct M as [M|M]; [lia|exact M].
      * exists q. split; [right; exact Hq|exact Q].
Qed.

(* members of a prefix lie below the bound that the prefix imposes on what follows *)
Lemma mem_below_hi : forall pre lo x, inv_from lo pre -> mem pre x -> x + 1 < hi_of lo pre.
Proof.
  induction pre as [|p pre IH] using rev_ind; intros lo x Hi M; [destruct (mem_nil _ M)|].
  apply inv_app in Hi. destruct Hi as [Hp Hl]. cbn [inv_from] in Hl. destruct Hl as (L1 & L2 & L3 & _).
  rewrite hi_of_app_one. apply mem_app in M. destruct M as [M|M].
  - specialize (IH _ _ Hp M). lia.
  - apply mem_cons in M. destruct M as [M|M]; [lia|destruct (mem_nil _ M)].
Qed.

(* the split at find's index, with the facts is_covered / is_overlap / remove / intersect need *)
Record split_facts (c : cov) (s : Z) (pre post : cov) : Prop := {
  sf_eq : c = pre ++ post;
  sf_first : firstn (find c s) c = pre;
  sf_skip : skipn (find c s) c = post;
  sf_len : find c s = length pre;
  sf_pre : forall r, In r pre -> fst r < s;
  sf_post : forall r, In r post -> s <= fst r;
  sf_ipre : inv_from 0 pre;
  sf_ipost : inv_from (hi_of 0 pre) post }.

Lemma split_at_find c s : Inv c -> exists pre post, split_facts c s pre post.
Proof.
  intros Hi. destruct (find_split c 0 s Hi) as (pre & post & Ec & El & Ef & Es & Hp & Hq).
  exists pre, post. unfold Inv in Hi. rewrite Ec in Hi. apply inv_app in Hi. destruct Hi as [A B].
  constructor; auto.
Qed.

Lemma nth_error_split (pre post : cov) : nth_error (pre ++ post) (length pre) = hd_error post.
Proof. rewrite nth_error_app2 by lia. rewrite Nat.sub_diag. destruct post; reflexivity. Qed.

Lemma nth_error_last (pre post : cov) j : length pre = S j -> nth_error (pre ++ post) j = last_opt pre.
Proof.
  intros L. destruct (last_opt_cases pre) as [[-> _]|(pre' & p & -> & E)]; [discriminate|].
  rewrite E. rewrite app_length in L. cbn in L. assert (j = length pre') as -> by lia.
  rewrite <- app_assoc. rewrite nth_error_app2 by lia. rewrite Nat.sub_diag. reflexivity.
Qed.

(* which runs can contain an address >= s: the last of pre, or runs of post *)
Lemma mem_split_ge (pre : cov) s x : inv_from 0 pre -> (forall r, In r pre -> fst r < s) ->
  mem pre x -> s <= x -> exists p, last_opt pre = Some p /\ fst p <= x < fst p + snd p.
Proof.
  intros Hi Hp M Hx. destruct (last_opt_cases pre) as [[-> _]|(pre' & p & -> & E)]; [destruct (mem_nil _ M)|].
  exists p. split; [exact E|]. apply mem_app in M. destruct M as [M|M].
  - exfalso. apply inv_app in Hi. destruct Hi as [A B]. cbn [inv_from] in B. destruct B as (B1 & _).
    pose proof (mem_below_hi _ _ _ A M). assert (fst p < s) by (apply Hp; apply in_or_app; right; left; reflexivity). lia.
  - apply mem_cons in M. destruct M as [M|M]; [exact M|destruct (mem_nil _ M)].
Qed.

Lemma range_unique : forall c lo r q x, inv_from lo c -> In r c -> In q c ->
  fst r <= x < fst r + snd r -> fst q <= x < fst q + snd q -> r = q.
Proof.
  induction c as [|h t IH]; intros lo r q x Hi Hr Hq Xr Xq; [contradiction|].
  cbn [inv_from] in Hi. destruct Hi as (H1 & H2 & H3 & H4).
  assert (forall z, In z t -> fst h + snd h + 1 <= fst z) as Lo.
  { intros z Hz. pose proof (inv_in _ _ _ H4 Hz). lia. }
  destruct Hr as [<-|Hr]; destruct Hq as [<-|Hq]; auto.
  - specialize (Lo _ Hq). lia.
  - specialize (Lo _ Hr). lia.
  - eapply IH; eauto.
Qed.

Lemma in_last_opt (pre : cov) p : last_opt pre = Some p -> In p pre.
Proof.
  destruct (last_opt_cases pre) as [[-> E]|(pre' & q & -> & E)]; rewrite E; intros H; inversion H; subst.
  apply in_or_app. right. left. reflexivity.
Qed.

(* whether [s, s+l) is inside the denoted set, when no run starts exactly at s:
   only the run that ends the prefix can hold it *)
Lemma covered_by_last c s l pre post : Inv c -> split_facts c s pre post -> 0 <= s -> 0 < l ->
  (forall r, In r post -> s < fst r) ->
  ((forall x, s <= x < s + l -> mem c x) <-> exists p, last_opt pre = Some p /\ s + l <= fst p + snd p).
Proof.
  intros Hi SF Hs Hl Hpost. destruct SF as [Ec _ _ _ Hpre _ Ipre Ipost]. split.
  - intros Hall. destruct (interval_in_one_range c 0 s l Hi Hl Hall) as [q [Hq [Q1 Q2]]].
    rewrite Ec in Hq. apply in_app_or in Hq. destruct Hq as [Hq|Hq]; [|specialize (Hpost _ Hq); lia].
    assert (mem pre s) as M by (exists q; split; [exact Hq|lia]).
    destruct (mem_split_ge pre s s Ipre Hpre M ltac:(lia)) as [p [Ep Xp]].
    exists p. split; [exact Ep|].
    assert (q = p) as -> by (eapply (range_unique pre 0 q p s); eauto; [apply in_last_opt; exact Ep|lia]). exact Q2.
  - intros [p [Ep Hp]] x Hx. exists p. split; [rewrite Ec; apply in_or_app; left; apply in_last_opt; exact Ep|].
    pose proof (Hpre _ (in_last_opt _ _ Ep)). lia.
Qed.

Lemma rend_in c r : Inv c -> In r c -> rend r = fst r + snd r.
Proof. intros Hi Hin. eapply rend_small; eauto. lia. Qed.

Theorem is_covered_ok c s l : Inv c -> 0 <= s -> 0 < l -> s + l < TOP ->
  (is_covered c s l = true <-> forall x, s <= x < s + l -> mem c x).
Proof.
  intros Hi Hs Hl Htop. destruct c as [|r0 c0] eqn:Ec0.
  - cbn. split; [discriminate|]. intros H. exfalso. apply (mem_nil s). apply H. lia.
  - rewrite <- Ec0 in *. assert (is_covered c s l =
      let i := find c s in
      match nth_error c i with
      | Some r => if s >=? rstart r then wadd s l <=? rend r
                  else match i with S j => match nth_error c j with Some q => wadd s l <=? rend q | None => false end | O => false end
      | None => match i with S j => match nth_error c j with Some q => wadd s l <=? rend q | None => false end | O => false end
      end) as -> by (rewrite Ec0; reflexivity).
    clear Ec0 r0 c0. destruct (split_at_find c s Hi) as (pre & post & SF).
    pose proof SF as SF'. destruct SF' as [Ec _ _ El Hpre Hpost Ipre Ipost].
    cbn zeta. rewrite El. rewrite (wadd_small s l) by lia.
    (* what the look at the previous run decides *)
    assert (forall b, b = match length pre with
                          | S j => match nth_error c j with Some q => s + l <=? rend q | None => false end
                          | O => false end ->
            (forall r, In r post -> s < fst r) ->
            (b = true <-> forall x, s <= x < s + l -> mem c x)) as PREV.
    { intros b -> Hp. rewrite (covered_by_last c s l pre post Hi SF Hs Hl Hp).
      destruct (length pre) as [|j] eqn:L.
      - destruct pre; [|discriminate]. cbn. split; [discriminate|intros [p [E _]]; discriminate].
      - rewrite Ec, (nth_error_last pre post j L).
        destruct (last_opt pre) as [q|] eqn:Eq.
        + rewrite (rend_in c q Hi) by (rewrite Ec; apply in_or_app; left; apply in_last_opt; exact Eq).
          rewrite Z.leb_le. split; [intros H; exists q; auto|intros [p [E H]]; inversion E; subst; exact H].
        + split; [discriminate|intros [p [E _]]; discriminate]. }
    rewrite Ec at 1. rewrite nth_error_split.
    destruct post as [|r post'].
    + cbn [hd_error]. apply PREV; [reflexivity|intros r []].
    + cbn [hd_error]. unfold rstart.
      assert (s <= fst r) as Sr by (apply Hpost; left; reflexivity).
      destruct (Z.geb_spec s (fst r)) as [G|L].
      * assert (fst r = s) as Er by lia.
        assert (In r c) as Rin by (rewrite Ec; apply in_or_app; right; left; reflexivity).
        rewrite (rend_in c r Hi Rin), Z.leb_le. split.
        -- intros H x Hx. exists r. split; [exact Rin|lia].
        -- intros Hall. destruct (interval_in_one_range c 0 s l Hi Hl Hall) as [q [Hq [Q1 Q2]]].
           pose proof (inv_in _ _ _ Hi Rin) as [_ [Rp _]].
           assert (q = r) as -> by (eapply (range_unique c 0 q r s); eauto; lia). exact Q2.
      * apply PREV; [reflexivity|]. intros q [<-|Hq]; [lia|].
        (* later runs of post start even further right *)
        cbn [inv_from] in Ipost. destruct Ipost as (_ & P2 & _ & P4). pose proof (inv_in _ _ _ P4 Hq). lia.
Qed.

Lemma overlaps_spec c s l r : Inv c -> In r c -> 0 < l ->
  (overlaps s (s + l) r = true <-> exists x, s <= x < s + l /\ fst r <= x < fst r + snd r).
Proof.
  intros Hi Hin Hl. pose proof (inv_in _ _ _ Hi Hin) as [R1 [R2 R3]].
  unfold overlaps, rstart. rewrite (rend_in c r Hi Hin).
  rewrite !orb_true_iff, !andb_true_iff, !Z.geb_le, !Z.ltb_lt, !Z.gtb_lt, !Z.leb_le. split.
  - intros [[[A B]|[A B]]|[A B]].
    + exists s. lia.
    + exists (s + l - 1). lia.
    + exists (fst r). lia.
  - intros [x [X1 X2]].
    destruct (Z_le_gt_dec (fst r) s); [left; left; lia|].
    destruct (Z_le_gt_dec (s + l) (fst r + snd r)); [left; right; lia|right; lia].
Qed.

Theorem is_overlap_ok c s l : Inv c -> 0 <= s -> 0 < l -> s + l < TOP ->
  (is_overlap c s l = true <-> exists x, s <= x < s + l /\ mem c x).
Proof.
  intros Hi Hs Hl Htop. destruct c as [|r0 c0] eqn:Ec0.
  - cbn. split; [discriminate|]. intros [x [_ M]]. destruct (mem_nil _ M).
  - rewrite <- Ec0 in *. assert (is_overlap c s l =
      let i := find c s in
      match nth_error c i with
      | Some r => if overlaps s (wadd s l) r then true
                  else match i with S j => match nth_error c j with Some q => overlaps s (wadd s l) q | None => false end | O => false end
      | None => match i with S j => match nth_error c j with Some q => overlaps s (wadd s l) q | None => false end | O => false end
      end) as ->.
    { rewrite Ec0. unfold is_overlap. assert ((l =? 0) = false) as -> by (apply Z.eqb_neq; lia). reflexivity. }
    clear Ec0 r0 c0. destruct (split_at_find c s Hi) as (pre & post & SF).
    pose proof SF as SF'. destruct SF' as [Ec _ _ El Hpre Hpost Ipre Ipost].
    cbn zeta. rewrite El. rewrite (wadd_small s l) by lia.
    (* the previous run overlaps iff some address of the interval lies in pre *)
    assert (match length pre with
            | S j => match nth_error c j with Some q => overlaps s (s + l) q | None => false end
            | O => false end = true <-> exists x, s <= x < s + l /\ mem pre x) as PREV.
    { destruct (length pre) as [|j] eqn:L.
      - destruct pre; [|discriminate]. split; [discriminate|intros [x [_ M]]; destruct (mem_nil _ M)].
      - rewrite Ec, (nth_error_last pre post j L).
        destruct (last_opt pre) as [q|] eqn:Eq.
        + assert (In q c) as Qin by (rewrite Ec; apply in_or_app; left; apply in_last_opt; exact Eq).
          rewrite (overlaps_spec c s l q Hi Qin Hl). split.
          * intros [x [X1 X2]]. exists x. split; [exact X1|]. exists q. split; [apply in_last_opt; exact Eq|exact X2].
          * intros [x [X1 M]]. destruct (mem_split_ge pre s x Ipre Hpre M ltac:(lia)) as [p [Ep Xp]].
            rewrite Eq in Ep. inversion Ep; subst. exists x. auto.
        + destruct (last_opt_cases pre) as [[-> _]|(pre' & p & -> & E)]; [discriminate|congruence]. }
    rewrite Ec at 1. rewrite nth_error_split.
    destruct post as [|r post'].
    + cbn [hd_error]. rewrite PREV. rewrite Ec, app_nil_r. reflexivity.
    + cbn [hd_error].
      assert (In r c) as Rin by (rewrite Ec; apply in_or_app; right; left; reflexivity).
      assert (s <= fst r) as Sr by (apply Hpost; left; reflexivity).
      pose proof (inv_in _ _ _ Hi Rin) as [_ [Rp _]].
      destruct (overlaps s (s + l) r) eqn:Or.
      * split; [intros _|reflexivity]. apply (overlaps_spec c s l r Hi Rin Hl) in Or. destruct Or as [x [X1 X2]].
        exists x. split; [exact X1|]. exists r. auto.
      * rewrite PREV. split.
        -- intros [x [X1 M]]. exists x. split; [exact X1|]. rewrite Ec. apply mem_app. left. exact M.
        -- intros [x [X1 M]]. rewrite Ec in M. apply mem_app in M. destruct M as [M|M]; [exists x; auto|exfalso].
           (* a run of post holds x < s + l: then the first run of post starts inside the interval *)
           assert (inv_from (fst r) (r :: post')) as Ir by (cbn [inv_from] in *; destruct Ipost as (Q1 & Q2 & Q3 & Q4); repeat split; auto; lia).
           assert (fst r <= x) as Fx by (eapply inv_mem_lo; [exact Ir|exact M]).
           assert (overlaps s (s + l) r = true); [|congruence].
           apply (overlaps_spec c s l r Hi Rin Hl). exists (fst r). lia.
Qed.

(* ---------------------------------------------------------------- remove *)

(* cutting [.., a_end) off the runs that follow *)
Lemma cut_next_spec : forall post lo a_end ov post',
  inv_from lo post -> 0 <= lo -> a_end < TOP ->
  cut_next a_end post = (ov, post') ->
  inv_from (Z.max lo a_end) post' /\ inv_from lo post' /\
  (forall x, mem post' x <-> mem post x /\ a_end <= x) /\
  (ov = true <-> exists x, mem post x /\ x < a_end).
Proof.
  induction post as [|r post IH]; intros lo a_end ov post' Hi Hlo Ha H; cbn [cut_next] in H.
  - inversion H; subst. cbn [inv_from]. split; [exact I|]. split; [exact I|]. split.
    + intros x. split; [intros M; destruct (mem_nil _ M)|intros [M _]; destruct (mem_nil _ M)].
    + split; [discriminate|intros [x [M _]]; destruct (mem_nil _ M)].
  - cbn [inv_from] in Hi. destruct Hi as (H1 & H2 & H3 & H4).
    unfold rstart, rend in H. rewrite (wadd_small (fst r) (snd r)) in H by lia.
    destruct (Z.ltb_spec (fst r) a_end) as [L|G].
    + destruct (Z.geb_spec a_end (fst r + snd r)) as [G2|L2].
      * destruct (cut_next a_end post) as [ov2 rest] eqn:E. inversion H; subst.
        destruct (IH (fst r + snd r + 1) a_end ov2 post' H4 ltac:(lia) Ha E) as (I1 & I2 & I3 & I4).
        split; [eapply inv_weaken; [|exact I1]; lia|]. split; [eapply inv_weaken; [|exact I2]; lia|]. split.
        -- intros x. rewrite I3, mem_cons. split; [tauto|]. intros [[M|M] Hx]; [lia|auto].
        -- split; [intros _|reflexivity]. exists (fst r). split; [apply mem_cons; left; lia|lia].
      * inversion H; subst. rewrite wsub_small by lia. split; [|split; [|split]].
        -- cbn [inv_from fst snd]. repeat split; try lia. replace (a_end + (fst r + snd r - a_end) + 1) with (fst r + snd r + 1) by lia. exact H4.
        -- cbn [inv_from fst snd]. repeat split; try lia. replace (a_end + (fst r + snd r - a_end) + 1) with (fst r + snd r + 1) by lia. exact H4.
        -- intros x. rewrite !mem_cons. cbn [fst snd]. split.
           ++ intros [M|M]; [split; [left; lia|lia]|]. split; [right; exact M|]. pose proof (inv_mem_lo _ _ _ H4 M). lia.
           ++ intros [[M|M] Hx]; [left; lia|right; exact M].
        -- split; [intros _|reflexivity]. exists (fst r). split; [apply mem_cons; left; lia|lia].
    + inversion H; subst. split; [|split; [|split]].
      * cbn [inv_from]. repeat split; auto; lia.
      * cbn [inv_from]. repeat split; auto.
      * intros x. split; [|tauto]. intros M. split; [exact M|].
        assert (inv_from (fst r) (r :: post)) as Ir by (cbn [inv_from]; repeat split; auto; lia).
        pose proof (inv_mem_lo _ _ _ Ir M). lia.
      * split; [discriminate|]. intros [x [M Hx]].
        assert (inv_from (fst r) (r :: post)) as Ir by (cbn [inv_from]; repeat split; auto; lia).
        pose proof (inv_mem_lo _ _ _ Ir M). lia.
Qed.

Lemma hi_nonneg pre : inv_from 0 pre -> 0 <= hi_of 0 pre.
Proof.
  intros Hi. unfold hi_of. destruct (last_opt pre) as [p|] eqn:Ep; [|lia]. pose proof (inv_in _ _ _ Hi (in_last_opt _ _ Ep)). lia.
Qed.

Lemma mem_post_ge (pre post : cov) x : inv_from (hi_of 0 pre) post -> mem post x -> hi_of 0 pre <= x.
Proof. intros Hi M. eapply inv_mem_lo; eauto. Qed.

Theorem remove_ok c s l : Inv c -> 0 <= s -> 0 < l -> s + l < TOP ->
  Inv (snd (remove c s l)) /\
  (forall x, mem (snd (remove c s l)) x <-> mem c x /\ ~ (s <= x < s + l)) /\
  (fst (remove c s l) = true <-> exists x, s <= x < s + l /\ mem c x).
Proof.
  intros Hi Hs Hl Htop. destruct c as [|r0 c0] eqn:Ec0.
  - cbn. split; [exact I|]. split; [intros x; split; [intros M; destruct (mem_nil _ M)|intros [M _]; exact M]|].
    split; [discriminate|intros [x [_ M]]; destruct (mem_nil _ M)].
  - rewrite <- Ec0 in *.
    destruct (split_at_find c s Hi) as (pre & post & SF).
    destruct SF as [Ec Ef Es El Hpre Hpost Ipre Ipost].
    assert (remove c s l =
      let a_end := wadd s l in
      let '(ov_next, post') := cut_next a_end post in
      match last_opt pre with
      | Some p =>
        let r_end := rend p in
        if s <? r_end then
          if s =? rstart p then
            let nl := if a_end >=? r_end then 0 else wsub r_end a_end in
            if nl =? 0 then (true, removelast pre ++ post') else (true, removelast pre ++ (rstart p, nl) :: post')
          else
            let nl := wsub s (rstart p) in
            if a_end <? r_end then (true, add (removelast pre ++ (rstart p, nl) :: post) a_end (wsub r_end a_end))
            else if nl =? 0 then (true, removelast pre ++ post') else (true, removelast pre ++ (rstart p, nl) :: post')
        else (ov_next, pre ++ post')
      | None => (ov_next, pre ++ post')
      end) as ->.
    { rewrite Ec0. unfold remove. assert ((l =? 0) = false) as -> by (apply Z.eqb_neq; lia). rewrite <- Ec0, Ef, Es. reflexivity. }
    clear Ec0 r0 c0 Ef Es El. cbn zeta. rewrite (wadd_small s l) by lia.
    destruct (cut_next (s + l) post) as [ovn post'] eqn:EC.
    assert (0 <= hi_of 0 pre) as Hhi.
    { unfold hi_of. destruct (last_opt pre) as [p|] eqn:Ep; [|lia]. pose proof (inv_in _ _ _ Ipre (in_last_opt _ _ Ep)). lia. }
    destruct (cut_next_spec post (hi_of 0 pre) (s + l) ovn post' Ipost Hhi Htop EC) as (C1 & C2 & C3 & C4).
    assert (forall x, mem post x -> s <= x) as PostGe.
    { intros x [q [Hq Xq]]. specialize (Hpost _ Hq). lia. }
    destruct (last_opt_cases pre) as [[-> E]|(pre' & p & -> & E)]; rewrite E.
    + (* nothing before *)
      cbn [app fst snd]. unfold hi_of in C2; cbn in C2. split; [exact C2|]. split.
      * intros x. rewrite C3, Ec. cbn [app]. split; [intros [M A]; split; [exact M|lia]|intros [M A]; split; [exact M|]].
        specialize (PostGe _ M). lia.
      * rewrite C4, Ec. cbn [app]. split; intros [x A]; exists x; [destruct A as [M A]; specialize (PostGe _ M); split; [lia|exact M]|tauto].
    + apply inv_app in Ipre. destruct Ipre as [Ipre' Ip]. cbn [inv_from] in Ip. destruct Ip as (P1 & P2 & P3 & _).
      rewrite hi_of_app_one in *.
      assert (fst p < s) as Ps by (apply Hpre; apply in_or_app; right; left; reflexivity).
      pose proof (hi_nonneg pre' Ipre') as Hhi'.
      assert (forall x, mem pre' x -> x < fst p) as PreLt.
      { intros x M. pose proof (mem_below_hi _ _ _ Ipre' M). lia. }
      assert (forall x, mem post x -> fst p + snd p + 1 <= x) as PostGt.
      { intros x M. exact (inv_mem_lo _ _ _ Ipost M). }
      unfold rend, rstart. rewrite (wadd_small (fst p) (snd p)) by lia.
      assert (forall x, mem c x <-> mem pre' x \/ fst p <= x < fst p + snd p \/ mem post x) as Mc.
      { intros x. rewrite Ec, !mem_app, mem_cons. pose proof (mem_nil x). tauto. }
      destruct (Z.ltb_spec s (fst p + snd p)) as [Lt|Ge].
      * assert ((s =? fst p) = false) as -> by (apply Z.eqb_neq; lia).
        rewrite (wsub_small s (fst p)) by lia. rewrite removelast_app_one.
        destruct (Z.ltb_spec (s + l) (fst p + snd p)) as [Hole|Over].
        -- (* a hole in the middle of p *)
           rewrite wsub_small by lia. cbn [fst snd].
           assert (Inv (pre' ++ (fst p, s - fst p) :: post)) as IL.
           { unfold Inv. apply inv_app. split; [exact Ipre'|]. cbn [inv_from fst snd]. repeat split; try lia.
             eapply inv_weaken; [|exact Ipost]. lia. }
           destruct (add_ok _ (s + l) (fst p + snd p - (s + l)) IL ltac:(lia) ltac:(lia) ltac:(lia)) as [A1 A2].
           split; [exact A1|]. split.
           ++ intros x. rewrite A2, Mc, mem_app, mem_cons. cbn [fst snd].
              split.
              ** intros [[M|[M|M]]|M]; [split; [tauto|specialize (PreLt _ M); lia]|split; [right; left; lia|lia]
                                        |split; [tauto|specialize (PostGt _ M); lia]|split; [right; left; lia|lia]].
              ** intros [[M|[M|M]] N]; [left; left; exact M| |left; right; right; exact M].
                 destruct (Z_lt_le_dec x s); [left; right; left; lia|right; lia].
           ++ split; [intros _|reflexivity]. exists s. split; [lia|]. apply Mc. right. left. lia.
        -- assert ((s - fst p =? 0) = false) as -> by (apply Z.eqb_neq; lia). cbn [fst snd].
           split; [|split].
           ++ unfold Inv. apply inv_app. split; [exact Ipre'|]. cbn [inv_from fst snd]. repeat split; try lia.
              eapply inv_weaken; [|exact C1]. lia.
           ++ intros x. rewrite mem_app, mem_cons, C3, Mc. cbn [fst snd]. split.
              ** intros [M|[M|[M A]]]; [split; [tauto|specialize (PreLt _ M); lia]|split; [right; left; lia|lia]|split; [tauto|lia]].
              ** intros [[M|[M|M]] N]; [left; exact M|right; left; lia|right; right; split; [exact M|specialize (PostGt _ M); lia]].
           ++ split; [intros _|reflexivity]. exists s. split; [lia|]. apply Mc. right. left. lia.
      * (* p ends before s *)
        cbn [fst snd]. split; [|split].
        -- unfold Inv. apply inv_app. split; [apply inv_app; split; [exact Ipre'|cbn [inv_from]; repeat split; auto; lia]|].
           rewrite hi_of_app_one. exact C2.
        -- intros x. rewrite Mc. rewrite !mem_app, mem_cons, C3. pose proof (mem_nil x) as Nil. split.
           ++ intros [[M|[M|M]]|[M A]]; [split; [tauto|specialize (PreLt _ M); lia]|split; [tauto|lia]|tauto|split; [tauto|lia]].
           ++ intros [[M|[M|M]] N]; [tauto|tauto|right; split; [exact M|specialize (PostGe _ M); lia]].
        -- rewrite C4. split.
           ++ intros [x [M A]]. exists x. split; [specialize (PostGe _ M); lia|apply Mc; tauto].
           ++ intros [x [A M]]. exists x. apply Mc in M. destruct M as [M|[M|M]]; [specialize (PreLt _ M); lia|lia|split; [exact M|lia]].
Qed.

(* -------------------------------------------------------------- intersect *)

Lemma inter_next_spec : forall post lo a_end acc,
  inv_from lo post -> 0 <= lo -> 0 <= a_end < TOP -> Inv acc ->
  Inv (inter_next a_end post acc) /\
  (forall x, mem (inter_next a_end post acc) x <-> mem acc x \/ (mem post x /\ x < a_end)).
Proof.
  induction post as [|r post IH]; intros lo a_end acc Hi Hlo Ha Hacc; cbn [inter_next].
  - split; [exact Hacc|]. intros x. split; [tauto|]. intros [M|[M _]]; [exact M|destruct (mem_nil _ M)].
  - cbn [inv_from] in Hi. destruct Hi as (H1 & H2 & H3 & H4).
    unfold rstart, rend. rewrite (wadd_small (fst r) (snd r)) by lia.
    destruct (Z.gtb_spec a_end (fst r)) as [G|L].
    + assert (0 < Z.min (fst r + snd r) a_end - fst r) as Lp by lia.
      rewrite wsub_small by lia.
      destruct (add_ok acc (fst r) (Z.min (fst r + snd r) a_end - fst r) Hacc ltac:(lia) ltac:(lia) ltac:(lia)) as [A1 A2].
      destruct (IH (fst r + snd r + 1) a_end _ H4 ltac:(lia) Ha A1) as [I1 I2].
      split; [exact I1|]. intros x. rewrite I2, A2, mem_cons. split.
      * intros [[M|M]|[M A]]; [tauto|right; split; [left; lia|lia]|tauto].
      * intros [M|[[M|M] A]]; [tauto|left; right; lia|tauto].
    + split; [exact Hacc|]. intros x. split; [tauto|]. intros [M|[M A]]; [exact M|exfalso].
      assert (inv_from (fst r) (r :: post)) as Ir by (cbn [inv_from]; repeat split; auto; lia).
      pose proof (inv_mem_lo _ _ _ Ir M). lia.
Qed.

Theorem intersect_ok c s l : Inv c -> 0 <= s -> 0 < l -> s + l < TOP ->
  Inv (intersect c s l) /\ (forall x, mem (intersect c s l) x <-> mem c x /\ s <= x < s + l).
Proof.
  intros Hi Hs Hl Htop. destruct c as [|r0 c0] eqn:Ec0.
  - cbn. split; [exact I|]. intros x. split; [intros M; destruct (mem_nil _ M)|intros [M _]; exact M].
  - rewrite <- Ec0 in *.
    destruct (split_at_find c s Hi) as (pre & post & SF).
    destruct SF as [Ec Ef Es El Hpre Hpost Ipre Ipost].
    assert (intersect c s l =
      let a_end := wadd s l in
      inter_next a_end post
        (match last_opt pre with
         | Some j => if s <? rend j then add [] s (wsub (Z.min (rend j) a_end) s) else []
         | None => []
         end)) as ->.
    { rewrite Ec0. unfold intersect. assert ((l =? 0) = false) as -> by (apply Z.eqb_neq; lia). rewrite <- Ec0, Ef, Es. reflexivity. }
    clear Ec0 r0 c0 Ef Es El. cbn zeta. rewrite (wadd_small s l) by lia.
    pose proof (hi_nonneg pre Ipre) as Hhi.
    assert (forall x, mem post x -> s <= x) as PostGe.
    { intros x [q [Hq Xq]]. specialize (Hpost _ Hq). lia. }
    (* what the run before s contributes *)
    set (ret0 := match last_opt pre with
                 | Some j => if s <? rend j then add [] s (wsub (Z.min (rend j) (s + l)) s) else []
                 | None => [] end).
    assert (Inv ret0 /\ forall x, mem ret0 x <-> mem pre x /\ s <= x < s + l) as [R1 R2].
    { unfold ret0. destruct (last_opt_cases pre) as [[-> E]|(pre' & p & -> & E)]; rewrite E.
      - split; [exact I|]. intros x. split; [intros M; destruct (mem_nil _ M)|intros [M _]; exact M].
      - apply inv_app in Ipre. destruct Ipre as [Ipre' Ip]. cbn [inv_from] in Ip. destruct Ip as (P1 & P2 & P3 & _).
        pose proof (hi_nonneg pre' Ipre') as Hhi'.
        assert (fst p < s) as Ps by (apply Hpre; apply in_or_app; right; left; reflexivity).
        assert (forall x, mem pre' x -> x < fst p) as PreLt.
        { intros x M. pose proof (mem_below_hi _ _ _ Ipre' M). lia. }
        unfold rend. rewrite (wadd_small (fst p) (snd p)) by lia.
        destruct (Z.ltb_spec s (fst p + snd p)) as [Lt|Ge].
        + rewrite wsub_small by lia.
          destruct (add_ok [] s (Z.min (fst p + snd p) (s + l) - s) I ltac:(lia) ltac:(lia) ltac:(lia)) as [A1 A2].
          split; [exact A1|]. intros x. rewrite A2, mem_app, mem_cons. pose proof (mem_nil x) as Nil. split.
          * intros [M|M]; [tauto|]. split; [right; left; lia|lia].
          * intros [[M|[M|M]] A]; [specialize (PreLt _ M); lia|right; lia|tauto].
        + split; [exact I|]. intros x. rewrite mem_app, mem_cons. pose proof (mem_nil x) as Nil. split; [tauto|].
          intros [[M|[M|M]] A]; [specialize (PreLt _ M); lia|lia|tauto]. }
    destruct (inter_next_spec post (hi_of 0 pre) (s + l) ret0 Ipost Hhi ltac:(lia) R1) as [N1 N2].
    split; [exact N1|]. intros x. rewrite N2, R2, Ec, mem_app. split.
    + intros [[M A]|[M A]]; [tauto|]. split; [tauto|]. specialize (PostGe _ M). lia.
    + intros [[M|M] A]; [left; tauto|right; split; [exact M|lia]].
Qed.

(* ------------------------------------------------ the words on two sets *)

Lemma remove_all_from other : forall lo b c, 0 <= lo -> Inv c -> inv_from lo other ->
  Inv (snd (fold_left (fun (st : bool * cov) r =>
                         let '(b, acc) := st in let '(b', acc') := remove acc (rstart r) (rlen r) in (b || b', acc')) other (b, c))) /\
  forall x, mem (snd (fold_left (fun (st : bool * cov) r =>
                         let '(b, acc) := st in let '(b', acc') := remove acc (rstart r) (rlen r) in (b || b', acc')) other (b, c))) x
            <-> mem c x /\ ~ mem other x.
Proof.
  induction other as [|r t IH]; intros lo b c Hlo Hc Ho; cbn [fold_left snd].
  - split; auto. intros x. pose proof (mem_nil x). tauto.
  - cbn [inv_from] in Ho. destruct Ho as (H1 & H2 & H3 & H4). unfold rstart, rlen.
    destruct (remove_ok c (fst r) (snd r) Hc ltac:(lia) H2 H3) as [A1 [A2 _]].
    destruct (remove c (fst r) (snd r)) as [b' c'] eqn:ER. cbn [snd] in A1, A2.
    destruct (IH (fst r + snd r + 1) (b || b') c' ltac:(lia) A1 H4) as [B1 B2]. split; [exact B1|].
    intros x. rewrite B2, A2, mem_cons. tauto.
Qed.

(* `A B sub`: set difference *)
Theorem w_sub_ok a b : Inv a -> Inv b ->
  Inv (w_sub a b) /\ forall x, mem (w_sub a b) x <-> mem a x /\ ~ mem b x.
Proof. intros Ha Hb. unfold w_sub, remove_all. eapply remove_all_from; eauto. lia. Qed.

Lemma overlap_from a other : Inv a -> forall lo acc, 0 <= lo -> Inv acc -> inv_from lo other ->
  Inv (fold_left (fun acc r => add_all acc (intersect a (rstart r) (rlen r))) other acc) /\
  forall x, mem (fold_left (fun acc r => add_all acc (intersect a (rstart r) (rlen r))) other acc) x
            <-> mem acc x \/ (mem a x /\ mem other x).
Proof.
  intros Ha. induction other as [|r t IH]; intros lo acc Hlo Hacc Ho; cbn [fold_left].
  - split; auto. intros x. pose proof (mem_nil x). tauto.
  - cbn [inv_from] in Ho. destruct Ho as (H1 & H2 & H3 & H4). unfold rstart, rlen.
    destruct (intersect_ok a (fst r) (snd r) Ha ltac:(lia) H2 H3) as [I1 I2].
    destruct (add_all_ok acc _ Hacc I1) as [A1 A2].
    destruct (IH (fst r + snd r + 1) _ ltac:(lia) A1 H4) as [B1 B2]. split; [exact B1|].
    intros x. rewrite B2, A2, I2, mem_cons. tauto.
Qed.

(* `A B overlap`: intersection *)
Theorem w_overlap_ok a b : Inv a -> Inv b ->
  Inv (w_overlap a b) /\ forall x, mem (w_overlap a b) x <-> mem a x /\ mem b x.
Proof.
  intros Ha Hb. unfold w_overlap. destruct (overlap_from a b Ha 0 [] ltac:(lia) I Hb) as [A B]. split; [exact A|].
  intros x. rewrite B. pose proof (mem_nil x). tauto.
Qed.

(* `A B ?contains`: subset; `A B ?overlaps`: non-empty intersection *)
Theorem w_contains_ok a b : Inv a -> Inv b -> (w_contains a b = true <-> forall x, mem b x -> mem a x).
Proof.
  intros Ha Hb. unfold w_contains. rewrite forallb_forall. split.
  - intros H x [r [Hr Xr]]. specialize (H r Hr). unfold rstart, rlen in H. pose proof (inv_in _ _ _ Hb Hr) as [R1 [R2 R3]].
    pose proof (proj1 (is_covered_ok a (fst r) (snd r) Ha R1 R2 R3) H) as H'. apply H'. exact Xr.
  - intros H r Hr. unfold rstart, rlen. pose proof (inv_in _ _ _ Hb Hr) as [R1 [R2 R3]].
    apply (proj2 (is_covered_ok a (fst r) (snd r) Ha R1 R2 R3)). intros x Hx. apply H. exists r. auto.
Qed.

Theorem w_overlaps_ok a b : Inv a -> Inv b -> (w_overlaps a b = true <-> exists x, mem a x /\ mem b x).
Proof.
  intros Ha Hb. unfold w_overlaps. rewrite existsb_exists. split.
  - intros [r [Hr H]]. unfold rstart, rlen in H. pose proof (inv_in _ _ _ Hb Hr) as [R1 [R2 R3]].
    pose proof (proj1 (is_overlap_ok a (fst r) (snd r) Ha R1 R2 R3) H) as H'. destruct H' as [x [X M]]. exists x. split; [exact M|exists r; auto].
  - intros [x [Ma [r [Hr Xr]]]]. exists r. split; [exact Hr|]. unfold rstart, rlen. pose proof (inv_in _ _ _ Hb Hr) as [R1 [R2 R3]].
    apply (proj2 (is_overlap_ok a (fst r) (snd r) Ha R1 R2 R3)). exists x. auto.
Qed.
