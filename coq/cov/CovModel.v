(* Model of /repo/libzwerg/coverage.cc (struct coverage: a sorted vector of
   {start, length} ranges) and of the address-set words of builtin-aset.cc.
   No proofs in this file.

   The vector surgery of the C++ (iterators p_i / r_i, in-place updates,
   erase/insert) is written on lists split at the index returned by `find`:
   `pre` = elements before r_i, `post` = elements from r_i on.  64-bit
   wrap-around of `start + length` is explicit (wadd/wsub). *)
From Coq Require Import ZArith List Bool.
Import ListNotations.
Local Open Scope Z_scope.

Module CovM.

Definition TOP : Z := 18446744073709551616.          (* 2^64 *)
Definition wadd (a b : Z) : Z := (a + b) mod TOP.
Definition wsub (a b : Z) : Z := (a - b) mod TOP.

Definition rng := (Z * Z)%type.                      (* (start, length) *)
Definition cov := list rng.
Definition rstart (r : rng) : Z := fst r.
Definition rlen (r : rng) : Z := snd r.
Definition rend (r : rng) : Z := wadd (fst r) (snd r).   (* cov_range::end () *)

(* coverage::find: binary search for `start`; returns the index of the range
   starting at `start`, else the insertion point.  Fuel = size of the vector
   (the interval [a, b) halves at each step). *)
Fixpoint find_loop (fuel : nat) (c : cov) (start : Z) (a b : nat) : nat :=
  match fuel with
  | O => a
  | S fuel' =>
    if Nat.ltb a b then
      let i := Nat.div (a + b) 2 in
      let r := nth i c (0, 0) in
      if rstart r >? start then find_loop fuel' c start a i
      else if rstart r <? start then find_loop fuel' c start (S i) b
      else i
    else a
  end.

Definition find (c : cov) (start : Z) : nat :=
  find_loop (S (length c)) c start 0 (length c).

Definition last_opt (l : cov) : option rng :=
  match rev l with [] => None | x :: _ => Some x end.

(* "Coalesce with one or more following ranges": the range (cs, cl) swallows
   every following range it touches; returns its final length and what is
   left of the vector. *)
Fixpoint absorb (cs cl : Z) (post : cov) : Z * cov :=
  match post with
  | [] => (cl, [])
  | p :: post' =>
    if wadd cs cl >=? rstart p then
      let p_end := rend p in
      let cl' := if p_end >? wadd cs cl then wsub p_end cs else cl in
      absorb cs cl' post'
    else (cl, post)
  end.

(* void coverage::add (uint64_t start, uint64_t length), after the
   `length == 0` and `empty ()` early returns *)
Definition add_main (c : cov) (start length : Z) : cov :=
  let i := find c start in
  let pre := firstn i c in
  let post := skipn i c in
  let fresh :=                          (* no coalescing with the previous range *)
    let '(cl, rest) := absorb start length post in
    pre ++ (start, cl) :: rest in
  match last_opt pre with
  | Some p =>
    let p_end := rend p in
    if start <=? p_end then
      let c_end := wadd start length in
      if c_end >? p_end then            (* extend previous, keep coalescing into it *)
        let '(cl, rest) := absorb (rstart p) (wsub c_end (rstart p)) post in
        removelast pre ++ (rstart p, cl) :: rest
      else c                            (* swallowed by the previous range *)
    else fresh
  | None => fresh
  end.

Definition add (c : cov) (start length : Z) : cov :=
  if length =? 0 then c else
  match c with
  | [] => [(start, length)]
  | _ => add_main c start length
  end.

(* "Cut from next range?" loop of coverage::remove; returns (overlap, rest) *)
Fixpoint cut_next (a_end : Z) (post : cov) : bool * cov :=
  match post with
  | [] => (false, [])
  | r :: post' =>
    if rstart r <? a_end then
      if a_end >=? rend r then
        let '(_, rest) := cut_next a_end post' in (true, rest)
      else (true, (a_end, wsub (rend r) a_end) :: post')
    else (false, post)
  end.

(* bool coverage::remove (uint64_t start, uint64_t length) *)
Definition remove (c : cov) (start length : Z) : bool * cov :=
  match c with
  | [] => (false, c)
  | _ =>
    if length =? 0 then (false, c) else
    let a_end := wadd start length in
    let i := find c start in
    let pre := firstn i c in
    let post := skipn i c in
    let '(ov_next, post') := cut_next a_end post in
    match last_opt pre with
    | Some p =>
      let r_end := rend p in
      if start <? r_end then
        if start =? rstart p then
          (* cut the beginning of the previous range (unreachable when the
             vector is sorted: find would have returned that range) *)
          let nl := if a_end >=? r_end then 0 else wsub r_end a_end in
          if nl =? 0 then (true, removelast pre ++ post')
          else (true, removelast pre ++ (rstart p, nl) :: post')
        else
          let nl := wsub start (rstart p) in
          if a_end <? r_end then
            (* shoot a hole: shorten, then add the tail back *)
            (true, add (removelast pre ++ (rstart p, nl) :: post) a_end (wsub r_end a_end))
          else
            if nl =? 0 then (true, removelast pre ++ post')
            else (true, removelast pre ++ (rstart p, nl) :: post')
      else (ov_next, pre ++ post')
    | None => (ov_next, pre ++ post')
    end
  end.

(* bool coverage::is_covered (uint64_t start, uint64_t length) const *)
Definition is_covered (c : cov) (start length : Z) : bool :=
  match c with
  | [] => false
  | _ =>
    let i := find c start in
    let a_end := wadd start length in
    let at_i := nth_error c i in
    match at_i with
    | Some r =>
      if start >=? rstart r then a_end <=? rend r
      else
        match i with
        | S j => match nth_error c j with Some q => a_end <=? rend q | None => false end
        | O => false
        end
    | None =>
      match i with
      | S j => match nth_error c j with Some q => a_end <=? rend q | None => false end
      | O => false
      end
    end
  end.

Definition overlaps (start e : Z) (r : rng) : bool :=
  ((start >=? rstart r) && (start <? rend r))
  || ((e >? rstart r) && (e <=? rend r))
  || ((start <? rstart r) && (e >? rend r)).

(* bool coverage::is_overlap (uint64_t start, uint64_t length) const *)
Definition is_overlap (c : cov) (start length : Z) : bool :=
  match c with
  | [] => false
  | _ =>
    if length =? 0 then is_covered c start length else
    let a_end := wadd start length in
    let i := find c start in
    match nth_error c i with
    | Some r =>
      if overlaps start a_end r then true
      else match i with
           | S j => match nth_error c j with Some q => overlaps start a_end q | None => false end
           | O => false
           end
    | None =>
      match i with
      | S j => match nth_error c j with Some q => overlaps start a_end q | None => false end
      | O => false
      end
    end
  end.

(* "Handle intersection with following ranges" *)
Fixpoint inter_next (a_end : Z) (post : cov) (acc : cov) : cov :=
  match post with
  | [] => acc
  | r :: post' =>
    if a_end >? rstart r then
      inter_next a_end post' (add acc (rstart r) (wsub (Z.min (rend r) a_end) (rstart r)))
    else acc
  end.

(* coverage coverage::intersect (uint64_t start, uint64_t length) const *)
Definition intersect (c : cov) (start length : Z) : cov :=
  match c with
  | [] => []
  | _ =>
    if length =? 0 then [] else
    let i := find c start in
    let a_end := wadd start length in
    let pre := firstn i c in
    let post := skipn i c in
    let ret0 :=
      match last_opt pre with
      | Some j =>
        if start <? rend j then add [] start (wsub (Z.min (rend j) a_end) start) else []
      | None => []
      end in
    inter_next a_end post ret0
  end.

Definition add_all (c other : cov) : cov :=
  fold_left (fun acc r => add acc (rstart r) (rlen r)) other c.

Definition remove_all (c other : cov) : bool * cov :=
  fold_left (fun (st : bool * cov) r =>
               let '(b, acc) := st in
               let '(b', acc') := remove acc (rstart r) (rlen r) in
               (b || b', acc')) other (false, c).

(* ---- words of builtin-aset.cc (on non-negative operands) ---- *)

(* op_aset_cst_cst: `A B aset` *)
Definition w_aset (a b : Z) : cov :=
  let lo := Z.min a b in let hi := Z.max a b in
  add [] lo (hi - lo).

Definition w_add (a b : cov) : cov := add_all a b.
Definition w_sub (a b : cov) : cov := snd (remove_all a b).
Definition w_add_cst (a : cov) (x : Z) : cov := add a x 1.
Definition w_sub_cst (a : cov) (x : Z) : cov := snd (remove a x 1).

(* op_overlap_aset_aset *)
Definition w_overlap (a b : cov) : cov :=
  fold_left (fun acc r => add_all acc (intersect a (rstart r) (rlen r))) b [].

Definition w_contains_cst (a : cov) (x : Z) : bool := is_covered a x 1.
Definition w_contains (a b : cov) : bool :=
  forallb (fun r => is_covered a (rstart r) (rlen r)) b.
Definition w_overlaps (a b : cov) : bool :=
  existsb (fun r => is_overlap a (rstart r) (rlen r)) b.
Definition w_empty (a : cov) : bool := match a with [] => true | _ => false end.
Definition w_length (a : cov) : Z := fold_left (fun acc r => wadd acc (rlen r)) a 0.
Definition w_low (a : cov) : option Z := match a with [] => None | r :: _ => Some (rstart r) end.
Definition w_high (a : cov) : option Z := match last_opt a with None => None | Some r => Some (rend r) end.
Definition w_range (a : cov) : list cov := map (fun r => add [] (rstart r) (rlen r)) a.

(* value_aset::cmp: size, then (start, length) lexicographically *)
Fixpoint cmp_ranges (a b : cov) : comparison :=
  match a, b with
  | r :: a', q :: b' =>
    match rstart r ?= rstart q with
    | Eq => match rlen r ?= rlen q with Eq => cmp_ranges a' b' | o => o end
    | o => o
    end
  | _, _ => Eq
  end.
Definition w_cmp (a b : cov) : comparison :=
  match Nat.compare (length a) (length b) with
  | Eq => cmp_ranges a b
  | o => o
  end.

(* ---- specification side: sets of addresses ---- *)
Definition mem (c : cov) (x : Z) : Prop := exists r, In r c /\ fst r <= x < fst r + snd r.
Definition memb (c : cov) (x : Z) : bool :=
  existsb (fun r => (fst r <=? x) && (x <? fst r + snd r)) c.

(* the representation invariant: ascending, disjoint, non-adjacent, non-empty
   runs that end at or below 2^64 - 1 *)
Fixpoint inv_from (lo : Z) (c : cov) : Prop :=
  match c with
  | [] => True
  | r :: t => lo <= fst r /\ 0 < snd r /\ fst r + snd r < TOP /\ inv_from (fst r + snd r + 1) t
  end.
Definition Inv (c : cov) : Prop := inv_from 0 c.

Fixpoint inv_fromb (lo : Z) (c : cov) : bool :=
  match c with
  | [] => true
  | r :: t => (lo <=? fst r) && (0 <? snd r) && (fst r + snd r <? TOP) && inv_fromb (fst r + snd r + 1) t
  end.
Definition Invb (c : cov) : bool := inv_fromb 0 c.

End CovM.
Export CovM.
