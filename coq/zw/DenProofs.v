(* Lemmas about the specification (Den.v) behind C04. *)
From Coq Require Import ZArith NArith List Bool Lia.
From Dwgrep Require Import Radix Value Words Tree Engine Build Den.
Import ListNotations.

(* every stack yielded by `r` is `stk`, with environment `env` *)
Definition only_yields (r : dres) (stk : stack) (env : denv) : Prop :=
  match r with
  | DOk evs _ => forall s e, In (DOut s e) evs -> s = stk /\ e = env
  | _ => True
  end.

Lemma in_softs s e l : ~ In (DOut s e) (softs l).
Proof. unfold softs. intros H. apply in_map_iff in H. destruct H as (k & E & _). discriminate. Qed.

(* unfolding equations (the mutual fixpoint does not refold under cbn) *)
Lemma den_assert_eq P prog f p env stk :
  den P prog (S f) (TAssert p) env stk =
  match peval P prog f p env stk with
  | inl (r, errs) => ok (softs errs ++ match r with PYes => [DOut stk env] | _ => [] end)
  | inr o => o
  end.
Proof. reflexivity. Qed.

Lemma den_capture_eq P prog f c env stk :
  den P prog (S f) (TCapture c) env stk =
  match den P prog f c env stk with
  | DOk evs ab =>
    (fix go (evs : list dev) (acc : list value) : dres :=
       match evs with
       | [] => if ab then abort else ok [DOut (VSeq acc 0 :: stk) env]
       | DSoft k :: r => seq (ok [DSoft k]) (go r acc)
       | DOut (v :: _) _ :: r => go r (acc ++ [v])
       | DOut [] _ :: _ => abort
       end) evs []
  | o => o
  end.
Proof. reflexivity. Qed.

Lemma peval_eq P prog f p env stk :
  peval P prog (S f) p env stk =
  match p with
  | TPredNot a =>
    match peval P prog f a env stk with
    | inl (r, e) => inl (pnot r, e)
    | o => o
    end
  | TPredAnd a b =>
    match peval P prog f a env stk with
    | inl (ra, ea) =>
      match peval P prog f b env stk with
      | inl (rb, eb) => inl (pand ra rb, ea ++ eb)
      | o => o
      end
    | o => o
    end
  | TPredOr a b =>
    match peval P prog f a env stk with
    | inl (ra, ea) =>
      match peval P prog f b env stk with
      | inl (rb, eb) => inl (por ra rb, ea ++ eb)
      | o => o
      end
    | o => o
    end
  | TPredSubx c =>
    match den P prog f c env stk with
    | DOk evs ab =>
      let '(pre, o) := upto_first evs in
      match o with
      | Some _ => inl (PYes, pre)
      | None => if ab then inr (DOk (softs pre) true) else inl (PNo, pre)
      end
    | o => inr o
    end
  | TBuiltin (BPredPos positive n) =>
    match stk with
    | v :: _ => inl (pres_of_bool (Bool.eqb (N.eqb (vpos v) n) positive), [])
    | [] => inr abort
    end
  | _ => inr DStuck
  end.
Proof. reflexivity. Qed.

(* when a predicate evaluation fails as a whole, it has yielded nothing *)
Lemma peval_inr_no_out P prog f : forall p env stk evs ab,
  peval P prog f p env stk = inr (DOk evs ab) -> forall s e, ~ In (DOut s e) evs.
Proof.
  induction f as [|f IH]; intros p env stk evs ab H; [cbn in H; discriminate|].
  rewrite peval_eq in H. destruct p; try discriminate.
  - (* and *)
    destruct (peval P prog f p1 env stk) as [[ra ea]|o] eqn:E1.
    + destruct (peval P prog f p2 env stk) as [[rb eb]|o] eqn:E2; [discriminate|].
      inversion H; subst. eapply IH; eauto.
    + inversion H; subst. eapply IH; eauto.
  - destruct (peval P prog f p1 env stk) as [[ra ea]|o] eqn:E1.
    + destruct (peval P prog f p2 env stk) as [[rb eb]|o] eqn:E2; [discriminate|].
      inversion H; subst. eapply IH; eauto.
    + inversion H; subst. eapply IH; eauto.
  - destruct (peval P prog f p env stk) as [[ra ea]|o] eqn:E1; [discriminate|].
    inversion H; subst. eapply IH; eauto.
  - destruct (den P prog f p env stk) as [| |evs0 ab0]; try discriminate.
    destruct (upto_first evs0) as [pre [x|]]; [discriminate|].
    destruct ab0; [|discriminate]. inversion H; subst. intros s e. apply in_softs.
  - destruct b; try discriminate. destruct stk; try discriminate.
    inversion H; subst. intros s e [].
Qed.

(* ?(E), !(E), E1 op E2 (all are ASSERT nodes): the incoming stack unchanged, or nothing *)
Theorem assert_keeps_stack P prog f p env stk :
  only_yields (den P prog f (TAssert p) env stk) stk env.
Proof.
  destruct f as [|f]; [cbn; auto|]. rewrite den_assert_eq.
  destruct (peval P prog f p env stk) as [[r errs]|o] eqn:EP.
  - cbn [ok only_yields]. intros s e Hin. apply in_app_or in Hin. destruct Hin as [Hin|Hin].
    + exfalso. eapply in_softs; eauto.
    + destruct r; cbn in Hin; try contradiction. destruct Hin as [E|[]]. inversion E; auto.
  - destruct o as [| |evs ab] eqn:EO; cbn; auto.
    intros s e Hin. exfalso. eapply peval_inr_no_out; eauto.
Qed.

(* ?word / !word *)
Theorem pred_word_keeps_stack P prog f n positive w env stk :
  dlookup env n = None -> assoc (voc_table (p_tc P)) n = Some (BIPred positive w) ->
  only_yields (den P prog f (TRead n) env stk) stk env.
Proof.
  intros HL HV. destruct f as [|f]; cbn [den only_yields]; auto.
  rewrite HL, HV. destruct (run_pred P w stk) as [[r errs]|]; cbn [ok abort only_yields].
  - intros s e Hin. apply in_app_or in Hin. destruct Hin as [Hin|Hin].
    + exfalso. eapply in_softs; eauto.
    + destruct (if positive then r else pnot r); cbn in Hin; try contradiction.
      destruct Hin as [E|[]]. inversion E; auto.
  - intros s e [].
Qed.

(* ?X holds exactly when !X does not; when X reports an error neither holds *)
Definition holds (r : pres) : bool := match r with PYes => true | _ => false end.

Theorem pred_exclusive r :
  match r with
  | PFail => holds r = false /\ holds (pnot r) = false
  | _ => holds r = negb (holds (pnot r))
  end.
Proof. destruct r; cbn; auto. Qed.

(* the number of values a `let` pops equals the number it took from the
   sub-expression's result, so what was on the stack stays *)
Theorem subx_then_binds keep sub stk out :
  subx_result keep sub stk = Some out -> skipn keep out = stk /\ firstn keep out = firstn keep sub.
Proof.
  unfold subx_result. destruct (Nat.leb keep (length sub)) eqn:L; [|discriminate].
  intros H. inversion H; subst. apply Nat.leb_le in L.
  assert (Hl : length (firstn keep sub) = keep) by (rewrite firstn_length; lia).
  split.
  - rewrite skipn_app, Hl, Nat.sub_diag. cbn [skipn].
    rewrite skipn_all2 by lia. reflexivity.
  - rewrite firstn_app, Hl, Nat.sub_diag. cbn [firstn]. rewrite app_nil_r.
    rewrite firstn_all2 by lia. reflexivity.
Qed.

Lemma seq_single_inv ev r evs ab :
  seq (ok [ev]) r = DOk evs ab -> exists evs1, r = DOk evs1 ab /\ evs = ev :: evs1.
Proof.
  unfold seq, ok. destruct r as [| |evs1 ab1]; try discriminate.
  destruct (Nat.ltb event_cap (length [ev] + length evs1)); [discriminate|].
  intros H. inversion H; subst. eauto.
Qed.

(* [E] adds exactly one value, the captured sequence, on top of the incoming stack *)
Theorem capture_adds_one P prog f c env stk evs ab :
  den P prog f (TCapture c) env stk = DOk evs ab ->
  forall s e, In (DOut s e) evs -> exists vs, s = VSeq vs 0 :: stk /\ e = env.
Proof.
  destruct f as [|f]; [cbn; discriminate|]. rewrite den_capture_eq.
  destruct (den P prog f c env stk) as [| |evs0 ab0]; try discriminate.
  set (go := fix go (evs : list dev) (acc : list value) : dres := _).
  intros H. revert H. generalize (@nil value) as acc. revert evs ab.
  induction evs0 as [|ev evs0 IH]; intros evs ab acc H s e Hin.
  - cbn in H. destruct ab0; inversion H; subst; cbn in Hin; try contradiction.
    destruct Hin as [E|[]]. inversion E; subst. eauto.
  - cbn [go] in H. destruct ev as [st en|k].
    + destruct st as [|v st'].
      * inversion H; subst. destruct Hin.
      * eapply IH; eauto.
    + fold go in H. apply seq_single_inv in H. destruct H as (evs1 & G & ->).
      destruct Hin as [E|Hin]; [discriminate|].
      eapply IH; eauto.
Qed.
