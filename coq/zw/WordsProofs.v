(* The core words agree with the obvious list / byte-string model. *)
From Coq Require Import ZArith NArith List Bool Lia.
From Dwgrep Require Import Radix Value Words.
Import ListNotations.

Lemma prefix_b_spec (n : list N) : forall h, prefix_b N.eqb n h = true <-> exists post, h = n ++ post.
Proof.
  induction n as [|x n IH]; intros h; cbn [prefix_b].
  - split; [intros _; exists h; reflexivity | auto].
  - destruct h as [|y h].
    + split; [discriminate|]. intros [post E]. discriminate.
    + rewrite andb_true_iff, N.eqb_eq, IH. split.
      * intros [-> [post ->]]. exists post. reflexivity.
      * intros [post E]. inversion E; subst. split; [reflexivity | exists post; reflexivity].
Qed.

Lemma infix_b_spec (n : list N) : forall h,
  infix_b N.eqb n h = true <-> exists pre post, h = pre ++ n ++ post.
Proof.
  induction h as [|y h IH]; cbn [infix_b].
  - destruct n as [|x n].
    + split; auto. intros _. exists [], []. reflexivity.
    + split; [discriminate|]. intros (pre & post & E). destruct pre; discriminate.
  - rewrite orb_true_iff, prefix_b_spec, IH. split.
    + intros [[post E]|(pre & post & E)].
      * exists [], post. exact E.
      * exists (y :: pre), post. cbn. f_equal. exact E.
    + intros (pre & post & E). destruct pre as [|z pre].
      * left. exists post. exact E.
      * right. inversion E; subst. eauto.
Qed.

Lemma suffix_b_spec (n h : list N) : suffix_b N.eqb n h = true <-> exists pre, h = pre ++ n.
Proof.
  unfold suffix_b. rewrite prefix_b_spec. split.
  - intros [post E]. exists (rev post). apply (f_equal (@rev N)) in E.
    rewrite rev_involutive, rev_app_distr, rev_involutive in E. exact E.
  - intros [pre ->]. exists (rev pre). apply rev_app_distr.
Qed.

(* elem / relem number their results 0, 1, 2, ... *)
Lemma number_go_spec l : forall i k d,
  (k < length l)%nat ->
  nth k ((fix go (l : list value) (i : N) : list value :=
            match l with [] => [] | x :: t => set_pos x i :: go t (i + 1)%N end) l i) d
  = set_pos (nth k l d) (i + N.of_nat k)%N.
Proof.
  induction l as [|x l IH]; intros i k d Hk; cbn [length] in Hk; [lia|].
  destruct k as [|k]; cbn [nth].
  - f_equal. lia.
  - rewrite IH by lia. f_equal. lia.
Qed.

Theorem number_spec l k d : (k < length l)%nat -> nth k (number l) d = set_pos (nth k l d) (N.of_nat k).
Proof. intros H. unfold number. rewrite number_go_spec by auto. f_equal. Qed.

Lemma number_length l : length (number l) = length l.
Proof.
  unfold number. generalize 0%N. induction l as [|x l IH]; intros i; cbn; auto.
Qed.

Theorem relem_is_elem_of_reverse P l p r :
  run_word P WRelem (VSeq l p :: r) = run_word P WElem (VSeq (rev l) p :: r).
Proof. reflexivity. Qed.

Theorem elem_seq_spec P l p r :
  run_word P WElem (VSeq l p :: r) = WOut (map (fun v => v :: r) (number l)) [].
Proof. reflexivity. Qed.

Theorem length_spec P r :
  (forall s p, run_word P WLength (VStr s p :: r) = WOut [VCst (Z.of_nat (length s)) DDec 0 :: r] []) /\
  (forall l p, run_word P WLength (VSeq l p :: r) = WOut [VCst (Z.of_nat (length l)) DDec 0 :: r] []).
Proof. split; reflexivity. Qed.

Theorem add_spec P r :
  (forall a pa b pb, run_word P WAdd (VStr b pb :: VStr a pa :: r) = WOut [VStr (a ++ b) 0 :: r] []) /\
  (forall a pa b pb, run_word P WAdd (VSeq b pb :: VSeq a pa :: r) = WOut [VSeq (a ++ b) 0 :: r] []).
Proof. split; reflexivity. Qed.

(* an operand of an unsupported type: a diagnostic and no result *)
Theorem unsupported_no_result P z d p r :
  run_word P WLength (VCst z d p :: r) = WOut [] [SErr] /\
  run_word P WElem (VCst z d p :: r) = WOut [] [SErr] /\
  run_word P WAdd (VCst z d p :: VStr [] 0 :: r) = WOut [] [SErr].
Proof. repeat split; reflexivity. Qed.

(* ?find / ?starts / ?ends on strings *)
Theorem find_str_spec P n pn h ph r :
  run_pred P PWFind (VStr n pn :: VStr h ph :: r)
  = Some (pres_of_bool (infix_b N.eqb n h), []).
Proof. reflexivity. Qed.

(* shuffle words *)
Theorem shuffle_spec P a b c r :
  run_word P WDup (a :: r) = WOut [a :: a :: r] [] /\
  run_word P WDrop (a :: r) = WOut [r] [] /\
  run_word P WSwap (a :: b :: r) = WOut [b :: a :: r] [] /\
  run_word P WOver (a :: b :: r) = WOut [b :: a :: b :: r] [] /\
  run_word P WRot (a :: b :: c :: r) = WOut [c :: a :: b :: r] [].
Proof. repeat split; reflexivity. Qed.

(* hex/dec/oct/bin change the domain, not the value *)
Theorem cast_keeps_value P z d p dom r :
  run_word P (WCast dom) (VCst z d p :: r) = WOut [VCst z dom 0 :: r] [].
Proof. reflexivity. Qed.
