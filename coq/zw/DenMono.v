(* More fuel never changes a result of the specification: if the evaluator of
   Den.v finishes with some amount of fuel, it gives the same answer with any
   larger amount.  (DFuel - "gave up" - is the only answer that may change.)
   Everything is built from combinators that are monotone in this order. *)
From Coq Require Import ZArith NArith List Bool Arith Lia.
From Dwgrep Require Import Radix Value Words Tree Engine Build Den.
Import ListNotations.

(* r1 gave up, or r2 is the same answer *)
Definition rle (r1 r2 : dres) : Prop := r1 = DFuel \/ r1 = r2.

Lemma rle_refl r : rle r r.
Proof. right. reflexivity. Qed.
Lemma rle_fuel r : rle DFuel r.
Proof. left. reflexivity. Qed.
Lemma rle_trans a b c : rle a b -> rle b c -> rle a c.
Proof. intros [-> | ->] H; [left; reflexivity|exact H]. Qed.

Lemma seq_mono a a' b b' : rle a a' -> rle b b' -> rle (seq a b) (seq a' b').
Proof.
  intros [-> | ->] Hb; [left; reflexivity|].
  destruct a' as [| |ea aba]; try apply rle_refl. destruct aba; [apply rle_refl|].
  destruct Hb as [-> | ->]; [left; reflexivity|apply rle_refl].
Qed.

Lemma bind_outs_mono r r' k k' :
  rle r r' -> (forall s e, rle (k s e) (k' s e)) -> rle (bind_outs r k) (bind_outs r' k').
Proof.
  intros [-> | ->] H; [left; reflexivity|].
  destruct r' as [| |evs ab]; cbn [bind_outs]; try apply rle_refl.
  induction evs as [|ev evs IH]; [apply rle_refl|].
  destruct ev as [s e|k0]; apply seq_mono; auto; apply rle_refl.
Qed.

Lemma scoped_mono env r r' : rle r r' -> rle (scoped env r) (scoped env r').
Proof. intros [-> | ->]; [left; reflexivity|apply rle_refl]. Qed.

(* the closure loop: monotone in its body and in its own bound *)
Lemma closure_loop_mono (step step' : stack -> dres) env :
  (forall s, rle (step s) (step' s)) ->
  forall g work seen, rle (closure_loop step env g work seen) (closure_loop step' env (S g) work seen).
Proof.
  intros Hs. induction g as [|g IH]; intros work seen; [left; reflexivity|].
  cbn [closure_loop]. destruct work as [|s rest]; [apply rle_refl|].
  destruct (Hs s) as [E|E]; rewrite E; [left; reflexivity|].
  destruct (step' s) as [| |evs ab]; try apply rle_refl.
  destruct (mark env evs seen) as [[out fresh] seen'].
  destruct ab; [apply rle_refl|].
  apply seq_mono; [apply rle_refl|]. apply IH.
Qed.

Lemma closure_loop_mono_same (step step' : stack -> dres) env :
  (forall s, rle (step s) (step' s)) ->
  forall g work seen, rle (closure_loop step env g work seen) (closure_loop step' env g work seen).
Proof.
  intros Hs. induction g as [|g IH]; intros work seen; [left; reflexivity|].
  cbn [closure_loop]. destruct work as [|s rest]; [apply rle_refl|].
  destruct (Hs s) as [E|E]; rewrite E; [left; reflexivity|].
  destruct (step' s) as [| |evs ab]; try apply rle_refl.
  destruct (mark env evs seen) as [[out fresh] seen'].
  destruct ab; [apply rle_refl|].
  apply seq_mono; [apply rle_refl|]. apply IH.
Qed.

Lemma closure_loop_le (step step' : stack -> dres) env :
  (forall s, rle (step s) (step' s)) ->
  forall f g, f <= g -> forall work seen, rle (closure_loop step env f work seen) (closure_loop step' env g work seen).
Proof.
  intros Hs f g L. induction L as [|g L IH]; intros work seen.
  - apply closure_loop_mono_same. exact Hs.
  - eapply rle_trans; [apply IH|]. apply closure_loop_mono. intros s. apply rle_refl.
Qed.

Definition ple (x y : (pres * list soft) + dres) : Prop := x = inr DFuel \/ x = y.

Section Mono.
  Variable P : params.
  Variable prog : tree.

  Definition DenLe2 (f g : nat) : Prop :=
    (forall t env stk, rle (den P prog f t env stk) (den P prog g t env stk)) /\
    (forall p env stk, ple (peval P prog f p env stk) (peval P prog g p env stk)).
  Definition DenLe (f : nat) : Prop := DenLe2 f (S f).

  (* one level: both fuels are variables, so that unfolding stops after one step *)
  Lemma den_le_step2 f g : f <= g -> DenLe2 f g -> DenLe2 (S f) (S g).
  Proof.
    intros L [IHd IHp]. split.
    - intros t env stk. destruct t; cbn [den]; try apply rle_refl.
      + (* TCat *)
        revert env stk. induction l as [|c r IHl]; intros env stk; [apply rle_refl|].
        apply bind_outs_mono; [apply IHd|]. intros s e. apply IHl.
      + (* TAlt *)
        induction l as [|c r IHl]; [apply rle_refl|].
        apply seq_mono; [apply scoped_mono; apply IHd|apply IHl].
      + (* TOr *)
        induction l as [|c r IHl]; [apply rle_refl|].
        destruct (scoped_mono env _ _ (IHd c env stk)) as [E|E]; rewrite E; [left; reflexivity|].
        destruct (scoped env (den P prog g c env stk)) as [| |evs ab]; try apply rle_refl.
        destruct (outs_of evs); [|apply rle_refl]. apply seq_mono; [apply rle_refl|apply IHl].
      + (* TCapture *)
        destruct (IHd t env stk) as [E|E]; rewrite E; [left; reflexivity|apply rle_refl].
      + (* TSubx *)
        apply bind_outs_mono; [apply IHd|]. intros s e. apply rle_refl.
      + (* TIfElse *)
        destruct (IHd t1 env stk) as [E|E]; rewrite E; [left; reflexivity|].
        destruct (den P prog g t1 env stk) as [| |evs ab]; try apply rle_refl.
        destruct (upto_first evs) as [pre [o|]].
        * apply seq_mono; [apply rle_refl|apply scoped_mono; apply IHd].
        * destruct ab; [apply rle_refl|]. apply seq_mono; [apply rle_refl|apply scoped_mono; apply IHd].
      + (* TScope *) apply scoped_mono. apply IHd.
      + (* TRead *)
        destruct (dlookup env n) as [[z d p0|s p0|l p0|blk cenv p0]|]; try apply rle_refl.
        * destruct (find_block prog blk); [|apply rle_refl]. apply scoped_mono. apply IHd.
        * destruct (assoc (voc_table (p_tc P)) n) as [[w|pos w]|]; try apply rle_refl.
          destruct w; try apply rle_refl.
          destruct stk as [|[z d p0|s p0|l p0|blk cenv p0] rest]; try apply rle_refl.
          destruct (find_block prog blk); [|apply rle_refl]. apply scoped_mono. apply IHd.
      + (* TStar *)
        apply seq_mono; [apply rle_refl|]. apply closure_loop_le; [|exact L]. intros s. apply IHd.
      + (* TPlus *)
        apply closure_loop_le; [|exact L]. intros s. apply IHd.
      + (* TAssert *)
        fold (peval P prog).
        destruct (IHp t env stk) as [E|E]; rewrite E; [left; reflexivity|apply rle_refl].
      + (* TFormat *)
        match goal with
        | |- rle (match ?A with _ => _ end) (match ?B with _ => _ end) => assert (rle A B) as HF
        end.
        { induction l as [|part rest IHl]; [apply rle_refl|].
          apply bind_outs_mono; [apply IHl|]. intros s1 e1.
          destruct s1 as [|[z d p0|suffix p0|l0 p0|blk cenv p0] s1']; try apply rle_refl.
          destruct part; try apply rle_refl;
            (apply bind_outs_mono; [apply IHd|intros s2 e2; apply rle_refl]). }
        destruct HF as [E|E]; rewrite E; [left; reflexivity|apply rle_refl].
    - intros p env stk. destruct p; cbn [peval]; try (right; reflexivity).
      + (* TPredAnd *)
        destruct (IHp p1 env stk) as [E|E]; rewrite E; [left; reflexivity|].
        destruct (peval P prog g p1 env stk) as [[ra ea]|o]; [|right; reflexivity].
        destruct (IHp p2 env stk) as [E2|E2]; rewrite E2; [left; reflexivity|right; reflexivity].
      + (* TPredOr *)
        destruct (IHp p1 env stk) as [E|E]; rewrite E; [left; reflexivity|].
        destruct (peval P prog g p1 env stk) as [[ra ea]|o]; [|right; reflexivity].
        destruct (IHp p2 env stk) as [E2|E2]; rewrite E2; [left; reflexivity|right; reflexivity].
      + (* TPredNot *)
        destruct (IHp p env stk) as [E|E]; rewrite E; [left; reflexivity|right; reflexivity].
      + (* TPredSubx *)
        fold (den P prog).
        destruct (IHd p env stk) as [E|E]; rewrite E; [left; reflexivity|right; reflexivity].
  Qed.

  Lemma den_le_step f : DenLe f -> DenLe (S f).
  Proof. apply den_le_step2. lia. Qed.

  Theorem den_le : forall f, DenLe f.
  Proof.
    induction f as [|f IH]; [|apply den_le_step; exact IH].
    split; intros; left; reflexivity.
  Qed.

  (* the statement users of the specification want: once it finishes, more fuel gives the same *)
  Theorem den_mono : forall f g t env stk, f <= g ->
    den P prog f t env stk <> DFuel -> den P prog g t env stk = den P prog f t env stk.
  Proof.
    intros f g t env stk L. induction L as [|g L IH]; intros N; [reflexivity|].
    destruct (proj1 (den_le g) t env stk) as [E|E].
    - rewrite IH in E by exact N. contradiction.
    - rewrite <- E. apply IH. exact N.
  Qed.
End Mono.

(* so a statement "the two agree unless one gives up" proved for related fuels
   holds for ANY two amounts of fuel: whenever both evaluations finish, they
   finish with the same answer *)
Definition sof (r1 r2 : dres) : Prop := r1 = DFuel \/ r2 = DFuel \/ r1 = r2.

Theorem agree_any_fuel P prog t1 t2 a b :
  (forall f env stk, sof (den P prog (a + f) t1 env stk) (den P prog (b + f) t2 env stk)) ->
  forall f1 f2 env stk, sof (den P prog f1 t1 env stk) (den P prog f2 t2 env stk).
Proof.
  intros H f1 f2 env stk.
  destruct (den P prog f1 t1 env stk) eqn:E1; [left; reflexivity| |];
    (destruct (den P prog f2 t2 env stk) eqn:E2; [right; left; reflexivity| |]);
    right; right;
    (assert (den P prog (a + Nat.max f1 f2) t1 env stk = den P prog f1 t1 env stk) as M1
       by (apply den_mono; [lia|rewrite E1; discriminate]));
    (assert (den P prog (b + Nat.max f1 f2) t2 env stk = den P prog f2 t2 env stk) as M2
       by (apply den_mono; [lia|rewrite E2; discriminate]));
    destruct (H (Nat.max f1 f2) env stk) as [F|[F|F]];
    rewrite ?M1, ?M2, ?E1, ?E2 in F; try discriminate; exact F.
Qed.
