(* The documented scoping rules as a static check on parse trees: which
   programs are well scoped according to doc/syntax.rst.  No proofs here. *)
From Coq Require Import ZArith NArith List Bool.
From Dwgrep Require Import Radix Value Words Tree Engine Build.
Import ListNotations.

Module ScopeM.

Inductive serr := SUnbound | SRebound | SBadTree.
Inductive sres := SOk (vis cur : list name) | SErrR (e : serr).

Definition mem_name (n : name) (l : list name) : bool := existsb (bytes_eqb n) l.

Section Scope.
  Variable tc : tcodes.

  (* vis: the names visible here; cur: the names bound in the current scope.
     Sub-expression contexts, branches of `,` and `||`, the arms of `if`,
     closure bodies, format splices and blocks open a scope of their own. *)
  Definition first_err (a b : option serr) : option serr :=
    match a with Some e => Some e | None => b end.

  Definition after (vis cur : list name) (o : option serr) : sres :=
    match o with Some e => SErrR e | None => SOk vis cur end.

  Definition err_of (r : sres) : option serr :=
    match r with SOk _ _ => None | SErrR e => Some e end.

  (* vis: the names visible here; cur: the names bound in the current scope.
     Sub-expression contexts, branches of `,` and `||`, the arms of `if`,
     closure bodies, format splices and blocks open a scope of their own. *)
  Fixpoint wsc (t : tree) (vis cur : list name) {struct t} : sres :=
    match t with
    | TCat l =>
      (fix go (l : list tree) (vis cur : list name) : sres :=
         match l with
         | [] => SOk vis cur
         | c :: r => match wsc c vis cur with SOk v' c' => go r v' c' | e => e end
         end) l vis cur
    | TAlt l | TOr l =>
      after vis cur
            ((fix go (l : list tree) : option serr :=
                match l with
                | [] => None
                | c :: r => first_err (err_of (wsc c vis [])) (go r)
                end) l)
    | TFormat l =>
      (* splices are "plain context": no scope of their own; they are
         resolved last to first *)
      (fix go (l : list tree) (vis cur : list name) : sres :=
         match l with
         | [] => SOk vis cur
         | TStr _ :: r => go r vis cur
         | c :: r => match go r vis cur with SOk v' c' => wsc c v' c' | e => e end
         end) l vis cur
    | TCapture c | TSubx _ c | TStar c | TPlus c | TScope c | TBlock _ c | TPredSubx c =>
      after vis cur (err_of (wsc c vis []))
    | TIfElse c a b =>
      after vis cur (first_err (err_of (wsc c vis [])) (first_err (err_of (wsc a vis [])) (err_of (wsc b vis []))))
    | TAssert p => wsc p vis cur
    | TPredNot a => wsc a vis cur
    | TPredAnd a b | TPredOr a b =>
      after vis cur (first_err (err_of (wsc a vis [])) (err_of (wsc b vis [])))
    | TBind n => if mem_name n cur then SErrR SRebound else SOk (n :: vis) (n :: cur)
    | TRead n =>
      if mem_name n vis then SOk vis cur
      else match assoc (voc_table tc) n with Some _ => SOk vis cur | None => SErrR SUnbound end
    | TNop | TEmptyList | TConst _ _ | TStr _ | TDebug | TBuiltin _ => SOk vis cur
    end.

  Definition well_scoped (t : tree) : option serr :=
    match wsc t [] [] with SOk _ _ => None | SErrR e => Some e end.
End Scope.

End ScopeM.
Export ScopeM.
