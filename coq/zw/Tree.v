(* Parse trees of Zwerg: one constructor per tree_type of libzwerg/tree.hh.
   No proofs in this file. *)
From Coq Require Import ZArith NArith List Bool.
From Dwgrep Require Import Radix Value.
Import ListNotations.

Module TreeM.

Definition name := bytes.                     (* identifiers, as byte strings *)

(* builtins that the parser itself plants into the tree (F_BUILTIN nodes);
   every other builtin is reached through a READ of its name *)
Inductive tbuiltin :=
| BPredPos (positive : bool) (n : N)          (* ?N / !N : parse_numword *)
| BDropBelow (n : nat).                       (* backtick-bracket: append_drop_below *)

Inductive tree :=
| TCat (l : list tree)
| TAlt (l : list tree)
| TOr (l : list tree)
| TCapture (t : tree)
| TSubx (keep : nat) (t : tree)               (* SUBX_EVAL <keep> *)
| TIfElse (c a b : tree)
| TScope (t : tree)
| TBlock (id : N) (t : tree)               (* id: position of the block in the program text (not in tree.hh) *)
| TBind (n : name)
| TRead (n : name)
| TNop
| TStar (t : tree)                            (* CLOSE_STAR *)
| TPlus (t : tree)                            (* CLOSE_PLUS *)
| TAssert (p : tree)
| TEmptyList
| TPredAnd (a b : tree)
| TPredOr (a b : tree)
| TPredNot (a : tree)
| TPredSubx (t : tree)                        (* PRED_SUBX_ANY *)
| TConst (z : Z) (d : cdom)
| TStr (s : bytes)
| TFormat (l : list tree)
| TDebug
| TBuiltin (b : tbuiltin).

End TreeM.
Export TreeM.
