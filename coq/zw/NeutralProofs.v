(* C04 on the engine model: the ops behind `?(E)` / `!(E)` / assertion words
   (op_assert), `let` and infix operands (op_subx) and `[E]` (op_capture) hand
   on stacks of their upstream untouched: an assertion forwards exactly a stack
   its upstream yielded; a sub-expression context yields the upstream's stack
   with the kept values on top; a capture yields the upstream's stack with one
   sequence on top.  One stack out for (at most) one stack in, in order - the
   op pulls its upstream only when it has nothing left to yield. *)
From Coq Require Import ZArith NArith List Bool Arith Lia.
From Dwgrep Require Import Radix Value Words Engine EngineProofs.
Import ListNotations.

Section Neutral.
Variable P : params.
Variable blks : list mach.
Notation next := (next P blks).

(* `stk` is what some pull of (a state of) an upstream chain returned, with less fuel *)
Definition pulled_before (f : nat) (env : list value) (stk : stack) (up1 : mach) (c1 : lctx) : Prop :=
  exists f0 up0 c0 s0 s1 e1, f0 < f /\ next f0 env up0 c0 s0 = Ret (Some stk, up1, c1, s1, e1).

Lemma pulled_before_mono f g env stk up1 c1 : f <= g -> pulled_before f env stk up1 c1 -> pulled_before g env stk up1 c1.
Proof. intros L (f0 & up0 & c0 & s0 & s1 & e1 & Lt & E). exists f0, up0, c0, s0, s1, e1. split; [lia|exact E]. Qed.

(* op_assert: whatever comes out is a stack the upstream yielded, as it yielded
   it; the op's new state wraps the upstream's state after that very pull *)
Theorem assert_forwards : forall f env up p c s stk m' c' s' e,
  next f env (MAssert up p) c s = Ret (Some stk, m', c', s', e) ->
  exists up1, m' = MAssert up1 p /\ pulled_before f env stk up1 c'.
Proof.
  induction f as [|f IH]; intros env up p c s stk m' c' s' e H; [discriminate|].
  cbn [EngineM.next] in H.
  destruct (next f env up c s) as [| | |[[[[ru up'] cu] su] eu]] eqn:Eu; try discriminate.
  destruct ru as [stk0|]; [|discriminate].
  destruct (peval P (next f) env p stk0 su) as [| | |[[pr s2] e2]]; try discriminate.
  assert (forall X, add_errs (eu ++ e2) (next f env (MAssert up' p) cu s2) = Ret (Some stk, m', c', s', X) ->
          exists up1, m' = MAssert up1 p /\ pulled_before (S f) env stk up1 c') as REC.
  { intros X HX. apply add_errs_ret in HX. destruct HX as [e1 HX].
    destruct (IH _ _ _ _ _ _ _ _ _ _ HX) as [up1 [E1 E2]]. exists up1. split; [exact E1|].
    eapply pulled_before_mono; [|exact E2]. lia. }
  destruct pr; try (eapply REC; exact H).
  inversion H; subst. exists up'. split; [reflexivity|].
  exists f, up, c, s, su, eu. split; [lia|exact Eu].
Qed.

(* op_subx (`let` bodies, both operands of an infix assertion): what comes out
   is the saved stack - the stack the upstream yielded - with the `keep`
   topmost values of the sub-expression's result on top *)
Theorem subx_keeps : forall f env up inner keep saved slot c s stk m' c' s' e,
  next f env (MSubx up inner keep saved slot) c s = Ret (Some stk, m', c', s', e) ->
  exists sv sub, stk = firstn keep sub ++ sv /\ keep <= length sub /\
    (saved = Some sv \/ exists up1 c1, pulled_before f env sv up1 c1).
Proof.
  induction f as [|f IH]; intros env up inner keep saved slot c s stk m' c' s' e H; [discriminate|].
  cbn [EngineM.next] in H. destruct saved as [sv0|].
  - destruct (next f env inner (LOrigin slot) s) as [| | |[[[[ri inner'] ci] si] ei]] eqn:Ei; try discriminate.
    destruct ri as [r|].
    + destruct ci as [sl|]; [|discriminate].
      unfold subx_result in H. destruct (Nat.leb keep (length r)) eqn:L; [|discriminate].
      inversion H; subst. exists sv0, r. split; [reflexivity|]. split; [apply Nat.leb_le; exact L|]. left. reflexivity.
    + destruct ci as [sl|]; [|discriminate].
      apply add_errs_ret in H. destruct H as [e1 H].
      destruct (IH _ _ _ _ _ _ _ _ _ _ _ _ _ H) as (sv & sub & E1 & E2 & [E3|(up1 & c1 & E3)]); [discriminate|].
      exists sv, sub. split; [exact E1|]. split; [exact E2|]. right. exists up1, c1. eapply pulled_before_mono; [|exact E3]. lia.
  - destruct (next f env up c s) as [| | |[[[[ru up'] cu] su] eu]] eqn:Eu; try discriminate.
    destruct ru as [stk0|]; [|discriminate].
    apply add_errs_ret in H. destruct H as [e1 H].
    destruct (IH _ _ _ _ _ _ _ _ _ _ _ _ _ H) as (sv & sub & E1 & E2 & [E3|(up1 & c1 & E3)]).
    + inversion E3; subst. exists sv, sub. split; [reflexivity|]. split; [exact E2|]. right.
      exists up', cu. exists f, up, c, s, su, eu. split; [lia|exact Eu].
    + exists sv, sub. split; [exact E1|]. split; [exact E2|]. right. exists up1, c1. eapply pulled_before_mono; [|exact E3]. lia.
Qed.

(* op_capture (`[E]`): the upstream's stack with exactly one sequence on top *)
Theorem capture_forwards : forall f env up inner c s stk m' c' s' e,
  next f env (MCapture up inner) c s = Ret (Some stk, m', c', s', e) ->
  exists vs below up1, stk = VSeq vs 0%N :: below /\ m' = MCapture up1 inner /\ pulled_before f env below up1 c'.
Proof.
  intros [|f] env up inner c s stk m' c' s' e H; [discriminate|].
  cbn [EngineM.next] in H.
  destruct (next f env up c s) as [| | |[[[[ru up'] cu] su] eu]] eqn:Eu; try discriminate.
  destruct ru as [stk0|]; [|discriminate].
  destruct (drain (next f) f env inner (LOrigin (Some stk0)) su [] eu) as [| | |[[vs s2] e2]]; try discriminate.
  inversion H; subst. exists vs, stk0, up'. split; [reflexivity|]. split; [reflexivity|].
  exists f, up, c, s, su, eu. split; [lia|exact Eu].
Qed.
End Neutral.
