(* Executable form of "this chain is in its constructed state" (EngineProofs.quiet),
   so that the check can evaluate the hypothesis of the C01 theorems on every
   machine the builder produces.  No proofs here. *)
From Coq Require Import ZArith NArith List Bool.
From Dwgrep Require Import Radix Value Words Engine.
Import ListNotations.

Module QuietM.

Definition is_none {A} (o : option A) : bool := match o with None => true | Some _ => false end.
Definition is_nil {A} (l : list A) : bool := match l with [] => true | _ => false end.

Fixpoint quietb (m : mach) : bool :=
  match m with
  | MLeaf => true
  | MNop up | MDebug up | MConst up _ | MBind up _ | MRead up _ | MUpread up _ | MLexClosure up _ _ => quietb up
  | MAssert up p => quietb up
  | MMerge up brs file idx done =>
    quietb up && (fix all (l : list mach) : bool := match l with [] => true | x :: t => quietb x && all t end) brs
    && all_none file && Nat.eqb idx O && negb done && Nat.eqb (length file) (length brs) && negb (is_nil brs)
  | MOr up brs cur =>
    quietb up && (fix all (l : list (mach * option stack)) : bool :=
                    match l with [] => true | (x, sl) :: t => quietb x && is_none sl && all t end) brs && is_none cur
  | MCapture up inner => quietb up && quietb inner
  | MSubx up inner keep saved slot => quietb up && quietb inner && is_none saved && is_none slot
  | MIfElse up cnd thn els active => quietb up && quietb cnd && quietb thn && quietb els && is_none active
  | MWord up w pending => quietb up && is_nil pending
  | MClosure up inner plus slot seen stks drained =>
    quietb up && quietb inner && is_none slot && is_nil seen && is_nil stks && drained
  | MApply up skip sub => quietb up && is_none sub
  | MFormat up parts oslot _ =>
    (* the position counter is set back when the next stack arrives: any value *)
    quietb up && (fix all (l : list part) : bool :=
                    match l with
                    | [] => true
                    | PLit _ :: t => all t
                    | POp inner slot cur :: t => quietb inner && is_none slot && is_none cur && all t
                    end) parts && is_none oslot
  end.

(* does the chain contain the op of format strings (then `pulled dry = as constructed` holds up to its position counter)? *)
Fixpoint has_format (m : mach) : bool :=
  match m with
  | MLeaf => false
  | MNop up | MDebug up | MConst up _ | MBind up _ | MRead up _ | MUpread up _ | MLexClosure up _ _ | MAssert up _ | MWord up _ _ | MApply up _ _ => has_format up
  | MMerge up brs _ _ _ => has_format up || (fix any (l : list mach) : bool := match l with [] => false | x :: t => has_format x || any t end) brs
  | MOr up brs _ => has_format up || (fix any (l : list (mach * option stack)) : bool := match l with [] => false | (x, _) :: t => has_format x || any t end) brs
  | MCapture up inner | MSubx up inner _ _ _ | MClosure up inner _ _ _ _ _ => has_format up || has_format inner
  | MIfElse up cnd thn els _ => has_format up || has_format cnd || has_format thn || has_format els
  | MFormat _ _ _ _ => true
  end.

End QuietM.
Export QuietM.
