(* The pull engine: one constructor of `mach` per op class of libzwerg/op.cc,
   overload.cc and builtin-closure.cc, *carrying that op's run-time state*,
   and one function `next` written loop for loop after the C++ `next ()`
   methods.  No proofs in this file.

   A chain of ops bottoms out in MLeaf; what the leaf reads is given by the
   leaf context: the slot of an op_origin, or (for a branch of `,`) the shared
   state of the enclosing op_merge together with the merge's own upstream.
   Recursion is on explicit fuel; running out of fuel (Fuel) and impossible
   configurations (Stuck) are distinct error results, as is an exception
   escaping next () (Abort). *)
From Coq Require Import ZArith NArith List Bool.
From Dwgrep Require Import Radix Value Words.
Import ListNotations.

Module EngineM.

Inductive res (A : Type) := Fuel | Stuck | Abort | Ret (a : A).
Arguments Fuel {A}. Arguments Stuck {A}. Arguments Abort {A}. Arguments Ret {A} a.

Definition store := list (N * value).          (* op_bind::state::m_current, by bind id *)

Fixpoint lookup (s : store) (id : N) : option value :=
  match s with
  | [] => None
  | (k, v) :: t => if N.eqb k id then Some v else lookup t id
  end.

Definition update (s : store) (id : N) (v : value) : store := (id, v) :: s.

Inductive mach :=
| MLeaf
| MNop (up : mach)
| MConst (up : mach) (v : value)
| MAssert (up : mach) (p : predm)
| MFormat (up : mach) (parts : list part) (oslot : option stack) (pos : N)
| MMerge (up : mach) (brs : list mach) (file : list (option stack)) (idx : nat) (done : bool)
| MOr (up : mach) (brs : list (mach * option stack)) (cur : option nat)
| MCapture (up : mach) (inner : mach)
| MClosure (up : mach) (inner : mach) (plus : bool)
           (slot : option stack) (seen : list stack) (stks : list stack) (drained : bool)
| MSubx (up : mach) (inner : mach) (keep : nat) (saved : option stack) (slot : option stack)
| MBind (up : mach) (id : N)
| MRead (up : mach) (id : N)
| MUpread (up : mach) (id : nat)
| MLexClosure (up : mach) (blk : N) (n : nat)
| MIfElse (up : mach) (cnd thn els : mach) (active : option (mach * option stack))
| MWord (up : mach) (w : word) (pending : list stack)
| MApply (up : mach) (skip : bool) (sub : option (mach * option stack * store * list value))
| MDebug (up : mach)
with predm :=
| PNot (p : predm)
| PAnd (p q : predm)
| POr (p q : predm)
| PSubx (inner : mach)
| PPos (n : N)
| PWord (w : predword)
with part :=                                      (* the stringer chain of op_format *)
| PLit (s : bytes)
| POp (inner : mach) (slot : option stack) (cur : option bytes).

Inductive lctx :=
| LOrigin (slot : option stack)
| LTine (i : nat) (file : list (option stack)) (done : bool) (up : mach) (upctx : lctx).

(* what one pull returns: the stack (or None = nullptr), the new states, and
   the diagnostics printed meanwhile, in order *)
Definition pull := (option stack * mach * lctx * store * list soft)%type.

Definition all_none (file : list (option stack)) : bool :=
  forallb (fun o => match o with None => true | Some _ => false end) file.

Fixpoint set_nth {A} (i : nat) (x : A) (l : list A) : list A :=
  match l, i with
  | [], _ => []
  | _ :: t, O => x :: t
  | h :: t, S j => h :: set_nth j x t
  end.

Definition add_errs (e : list soft) (r : res pull) : res pull :=
  match r with
  | Ret (o, m, c, s, e') => Ret (o, m, c, s, e ++ e')
  | other => other
  end.

Definition seen_mem (s : stack) (seen : list stack) : bool := existsb (stack_eqb s) seen.

Section Next.
  Variable P : params.
  Variable blks : list mach.                       (* built bodies of the program's blocks *)

  (* ---- loops that live inside one C++ next (), written over the function
          `nxt` = next with the remaining fuel ---- *)
  Section Loops.
    Variable nxt : list value -> mach -> lctx -> store -> res pull.

    (* op_or: after a fresh stack from upstream, try the branches in turn *)
    Fixpoint or_try (env : list value) (pre post : list (mach * option stack)) (i : nat)
             (stk : stack) (s : store) (errs : list soft)
      : res (option (stack * nat) * list (mach * option stack) * store * list soft) :=
      match post with
      | [] => Ret (None, pre, s, errs)
      | (br, _) :: post' =>
        match nxt env br (LOrigin (Some stk)) s with
        | Ret (Some r, br', LOrigin sl, s', e) =>
          Ret (Some (r, i), pre ++ (br', sl) :: post', s', errs ++ e)
        | Ret (None, br', LOrigin sl, s', e) =>
          or_try env (pre ++ [(br', sl)]) post' (S i) stk s' (errs ++ e)
        | Ret _ => Stuck
        | Fuel => Fuel | Stuck => Stuck | Abort => Abort
        end
      end.

    (* op_capture: pull the sub-chain dry, collecting what each result has on top *)
    Fixpoint drain (g : nat) (env : list value) (m : mach) (c : lctx) (s : store)
             (acc : list value) (errs : list soft) : res (list value * store * list soft) :=
      match g with
      | O => Fuel
      | S g' =>
        match nxt env m c s with
        | Ret (Some (v :: _), m', c', s', e) => drain g' env m' c' s' (acc ++ [v]) (errs ++ e)
        | Ret (Some [], _, _, _, _) => Abort                 (* stk2->pop () throws *)
        | Ret (None, _, _, s', e) => Ret (acc, s', errs ++ e)
        | Fuel => Fuel | Stuck => Stuck | Abort => Abort
        end
      end.

    (* predicates (pred::result); scon_guard gives ?( ) a pristine sub-chain each time *)
    Fixpoint peval (env : list value) (p : predm) (stk : stack) (s : store)
      : res (pres * store * list soft) :=
      match p with
      | PNot q =>
        match peval env q stk s with
        | Ret (r, s', e) => Ret (pnot r, s', e)
        | o => o
        end
      | PAnd a b =>
        match peval env a stk s with
        | Ret (ra, s', e) =>
          match peval env b stk s' with
          | Ret (rb, s'', e') => Ret (pand ra rb, s'', e ++ e')
          | o => o
          end
        | o => o
        end
      | POr a b =>
        match peval env a stk s with
        | Ret (ra, s', e) =>
          match peval env b stk s' with
          | Ret (rb, s'', e') => Ret (por ra rb, s'', e ++ e')
          | o => o
          end
        | o => o
        end
      | PSubx inner =>
        match nxt env inner (LOrigin (Some stk)) s with
        | Ret (Some _, _, _, s', e) => Ret (PYes, s', e)
        | Ret (None, _, _, s', e) => Ret (PNo, s', e)
        | Fuel => Fuel | Stuck => Stuck | Abort => Abort
        end
      | PPos n =>
        match stk with
        | v :: _ => Ret (pres_of_bool (N.eqb (vpos v) n), s, [])
        | [] => Abort                                          (* stack::top throws *)
        end
      | PWord w =>
        match run_pred P w stk with
        | Some (r, e) => Ret (r, s, e)
        | None => Abort
        end
      end.
  End Loops.

  (* pops for op_subx: take `keep` values off the sub-result, put them, in
     their original order, on a copy of the saved stack *)
  Definition subx_result (keep : nat) (sub saved : stack) : option stack :=
    if Nat.leb keep (length sub) then Some (firstn keep sub ++ saved) else None.

  Fixpoint pop_n (n : nat) (stk : stack) : option (list value * stack) :=
    match n with
    | O => Some ([], stk)
    | S k =>
      match stk with
      | v :: r => match pop_n k r with Some (vs, r') => Some (v :: vs, r') | None => None end
      | [] => None
      end
    end.

  Fixpoint next (f : nat) (env : list value) (m : mach) (c : lctx) (s : store) {struct f} : res pull :=
    match f with
    | O => Fuel
    | S f' =>
      match m with

      (* op_origin::next / op_tine::next *)
      | MLeaf =>
        match c with
        | LOrigin slot => Ret (slot, MLeaf, LOrigin None, s, [])
        | LTine i file done up uc =>
          if done then Ret (None, MLeaf, c, s, [])
          else if all_none file then
            match next f' env up uc s with
            | Ret (Some stk, up', uc', s', e) =>
              let file' := map (fun _ => Some stk) file in
              Ret (nth i file' None, MLeaf, LTine i (set_nth i None file') false up' uc', s', e)
            | Ret (None, up', uc', s', e) =>
              Ret (None, MLeaf, LTine i file true up' uc', s', e)
            | o => o
            end
          else Ret (nth i file None, MLeaf, LTine i (set_nth i None file) done up uc, s, [])
        end

      | MNop up =>
        match next f' env up c s with
        | Ret (r, up', c', s', e) => Ret (r, MNop up', c', s', e)
        | o => o
        end

      | MDebug up =>
        match next f' env up c s with
        | Ret (r, up', c', s', e) => Ret (r, MDebug up', c', s', e)
        | o => o
        end

      (* op_const::next *)
      | MConst up v =>
        match next f' env up c s with
        | Ret (Some stk, up', c', s', e) => Ret (Some (v :: stk), MConst up' v, c', s', e)
        | Ret (None, up', c', s', e) => Ret (None, MConst up' v, c', s', e)
        | o => o
        end

      (* op_assert::next: skip stacks for which the predicate does not say yes *)
      | MAssert up p =>
        match next f' env up c s with
        | Ret (Some stk, up', c', s', e) =>
          match peval (next f') env p stk s' with
          | Ret (PYes, s'', e') => Ret (Some stk, MAssert up' p, c', s'', e ++ e')
          | Ret (_, s'', e') => add_errs (e ++ e') (next f' env (MAssert up' p) c' s'')
          | Fuel => Fuel | Stuck => Stuck | Abort => Abort
          end
        | Ret (None, up', c', s', e) => Ret (None, MAssert up' p, c', s', e)
        | o => o
        end

      (* op_format::next *)
      | MFormat up parts oslot pos =>
        match snext f' env parts oslot s with
        | Ret (Some (stk, str), parts', oslot', s', e) =>
          Ret (Some (VStr str pos :: stk), MFormat up parts' oslot' (pos + 1)%N, c, s', e)
        | Ret (None, parts', oslot', s', e) =>
          match next f' env up c s' with
          | Ret (Some stk, up', c', s'', e') =>
            (* sc.reset <state>: position counter back to 0; hand the stack to the stringers *)
            add_errs (e ++ e') (next f' env (MFormat up' parts' (Some stk) 0%N) c' s'')
          | Ret (None, up', c', s'', e') => Ret (None, MFormat up' parts' oslot' pos, c', s'', e ++ e')
          | o => o
          end
        | Fuel => Fuel | Stuck => Stuck | Abort => Abort
        end

      (* op_merge::next *)
      | MMerge up brs file idx done =>
        (* `while (! st.m_done)` is skipped; drained: get ready to start over *)
        if done then Ret (None, MMerge up brs file O false, c, s, [])
        else
          match nth_error brs idx with
          | None => Stuck
          | Some br =>
            match next f' env br (LTine idx file done up c) s with
            | Ret (r, br', LTine _ file' done' up' c', s', e) =>
              let brs' := set_nth idx br' brs in
              match r with
              | Some stk => Ret (Some stk, MMerge up' brs' file' idx done', c', s', e)
              | None =>
                let idx' := if Nat.eqb (S idx) (length brs) then O else S idx in
                if done' then Ret (None, MMerge up' brs' file' O false, c', s', e)
                else add_errs e (next f' env (MMerge up' brs' file' idx' done') c' s')
              end
            | Ret (_, _, LOrigin _, _, _) => Stuck
            | o => o
            end
          end

      (* op_or::next *)
      | MOr up brs cur =>
        match cur with
        | None =>
          match next f' env up c s with
          | Ret (Some stk, up', c', s', e) =>
            match or_try (next f') env [] brs O stk s' e with
            | Ret (Some (r, i), brs', s'', e') => Ret (Some r, MOr up' brs' (Some i), c', s'', e')
            | Ret (None, brs', s'', e') => add_errs e' (next f' env (MOr up' brs' None) c' s'')
            | Fuel => Fuel | Stuck => Stuck | Abort => Abort
            end
          | Ret (None, up', c', s', e) => Ret (None, MOr up' brs None, c', s', e)
          | o => o
          end
        | Some i =>
          match nth_error brs i with
          | None => Stuck
          | Some (br, sl) =>
            match next f' env br (LOrigin sl) s with
            | Ret (Some r, br', LOrigin sl', s', e) =>
              Ret (Some r, MOr up (set_nth i (br', sl') brs) (Some i), c, s', e)
            | Ret (None, br', LOrigin sl', s', e) =>
              add_errs e (next f' env (MOr up (set_nth i (br', sl') brs) None) c s')
            | Ret _ => Stuck
            | Fuel => Fuel | Stuck => Stuck | Abort => Abort
            end
          end
        end

      (* op_capture::next: the sub-chain is destroyed and reconstructed after every input *)
      | MCapture up inner =>
        match next f' env up c s with
        | Ret (Some stk, up', c', s', e) =>
          match drain (next f') f' env inner (LOrigin (Some stk)) s' [] e with
          | Ret (vs, s'', e') => Ret (Some (VSeq vs 0%N :: stk), MCapture up' inner, c', s'', e')
          | Fuel => Fuel | Stuck => Stuck | Abort => Abort
          end
        | Ret (None, up', c', s', e) => Ret (None, MCapture up' inner, c', s', e)
        | o => o
        end

      (* op_tr_closure::next *)
      | MClosure up inner plus slot seen stks drained =>
        if negb drained then
          (* next_from_op *)
          match next f' env inner (LOrigin slot) s with
          | Ret (Some stk, inner', LOrigin sl, s', e) =>
            (* yield_and_cache *)
            if seen_mem stk seen
            then add_errs e (next f' env (MClosure up inner' plus sl seen stks false) c s')
            else Ret (Some stk, MClosure up inner' plus sl (stk :: seen) (stk :: stks) false, c, s', e)
          | Ret (None, inner', LOrigin sl, s', e) =>
            add_errs e (next f' env (MClosure up inner' plus sl seen stks true) c s')
          | Ret _ => Stuck
          | Fuel => Fuel | Stuck => Stuck | Abort => Abort
          end
        else
          (* send_to_op *)
          match stks with
          | stk :: rest => next f' env (MClosure up inner plus (Some stk) seen rest false) c s
          | [] =>
            (* next_from_upstream clears the seen-set *)
            match next f' env up c s with
            | Ret (Some stk, up', c', s', e) =>
              if plus
              then add_errs e (next f' env (MClosure up' inner plus (Some stk) [] [] false) c' s')
              else Ret (Some stk, MClosure up' inner plus slot [stk] [stk] true, c', s', e)
            | Ret (None, up', c', s', e) => Ret (None, MClosure up' inner plus slot [] [] true, c', s', e)
            | o => o
            end
          end

      (* op_subx::next *)
      | MSubx up inner keep saved slot =>
        match saved with
        | None =>
          match next f' env up c s with
          | Ret (Some stk, up', c', s', e) =>
            add_errs e (next f' env (MSubx up' inner keep (Some stk) (Some stk)) c' s')
          | Ret (None, up', c', s', e) => Ret (None, MSubx up' inner keep None slot, c', s', e)
          | o => o
          end
        | Some sv =>
          match next f' env inner (LOrigin slot) s with
          | Ret (Some r, inner', LOrigin sl, s', e) =>
            match subx_result keep r sv with
            | Some out => Ret (Some out, MSubx up inner' keep saved sl, c, s', e)
            | None => Abort
            end
          | Ret (None, inner', LOrigin sl, s', e) =>
            add_errs e (next f' env (MSubx up inner' keep None sl) c s')
          | Ret _ => Stuck
          | Fuel => Fuel | Stuck => Stuck | Abort => Abort
          end
        end

      (* op_bind::next *)
      | MBind up id =>
        match next f' env up c s with
        | Ret (Some (v :: stk), up', c', s', e) => Ret (Some stk, MBind up' id, c', update s' id v, e)
        | Ret (Some [], _, _, _, _) => Abort
        | Ret (None, up', c', s', e) => Ret (None, MBind up' id, c', s', e)
        | o => o
        end

      (* op_read::next *)
      | MRead up id =>
        match next f' env up c s with
        | Ret (Some stk, up', c', s', e) =>
          match lookup s' id with
          | Some v => Ret (Some (v :: stk), MRead up' id, c', s', e)
          | None => Stuck                                      (* m_current == nullptr *)
          end
        | Ret (None, up', c', s', e) => Ret (None, MRead up' id, c', s', e)
        | o => o
        end

      (* op_upread::next *)
      | MUpread up id =>
        match next f' env up c s with
        | Ret (Some stk, up', c', s', e) =>
          match nth_error env id with
          | Some v => Ret (Some (v :: stk), MUpread up' id, c', s', e)
          | None => Stuck
          end
        | Ret (None, up', c', s', e) => Ret (None, MUpread up' id, c', s', e)
        | o => o
        end

      (* op_lex_closure::next *)
      | MLexClosure up blk n =>
        match next f' env up c s with
        | Ret (Some stk, up', c', s', e) =>
          match pop_n n stk with
          | Some (vs, rest) => Ret (Some (VClo blk vs 0%N :: rest), MLexClosure up' blk n, c', s', e)
          | None => Abort
          end
        | Ret (None, up', c', s', e) => Ret (None, MLexClosure up' blk n, c', s', e)
        | o => o
        end

      (* op_ifelse::next *)
      | MIfElse up cnd thn els active =>
        match active with
        | None =>
          match next f' env up c s with
          | Ret (Some stk, up', c', s', e) =>
            match next f' env cnd (LOrigin (Some stk)) s' with
            | Ret (Some _, _, _, s'', e') =>
              add_errs (e ++ e') (next f' env (MIfElse up' cnd thn els (Some (thn, Some stk))) c' s'')
            | Ret (None, _, _, s'', e') =>
              add_errs (e ++ e') (next f' env (MIfElse up' cnd thn els (Some (els, Some stk))) c' s'')
            | o => o
            end
          | Ret (None, up', c', s', e) => Ret (None, MIfElse up' cnd thn els None, c', s', e)
          | o => o
          end
        | Some (am, sl) =>
          match next f' env am (LOrigin sl) s with
          | Ret (Some r, am', LOrigin sl', s', e) =>
            Ret (Some r, MIfElse up cnd thn els (Some (am', sl')), c, s', e)
          | Ret (None, _, _, s', e) => add_errs e (next f' env (MIfElse up cnd thn els None) c s')
          | Ret _ => Stuck
          | Fuel => Fuel | Stuck => Stuck | Abort => Abort
          end
        end

      (* simple builtins and overloaded ops (overload_op::next + the selected overload) *)
      | MWord up w pending =>
        match pending with
        | stk :: rest => Ret (Some stk, MWord up w rest, c, s, [])
        | [] =>
          match next f' env up c s with
          | Ret (Some stk, up', c', s', e) =>
            match run_word P w stk with
            | WAbort => Abort
            | WOut [] e' => add_errs (e ++ e') (next f' env (MWord up' w []) c' s')
            | WOut (o :: outs) e' => Ret (Some o, MWord up' w outs, c', s', e ++ e')
            end
          | Ret (None, up', c', s', e) => Ret (None, MWord up' w [], c', s', e)
          | o => o
          end
        end

      (* op_apply::next *)
      | MApply up skip sub =>
        match sub with
        | None =>
          match next f' env up c s with
          | Ret (Some stk, up', c', s', e) =>
            match stk with
            | [] => Abort                                      (* stk->top () throws *)
            | VClo blk cenv _ :: rest =>
              match nth_error blks (N.to_nat blk) with
              | Some body =>
                add_errs e (next f' env (MApply up' skip (Some (body, Some rest, [], cenv))) c' s')
              | None => Stuck
              end
            | _ :: _ =>
              if skip then Ret (Some stk, MApply up' skip None, c', s', e)
              else add_errs (e ++ [SErr]) (next f' env (MApply up' skip None) c' s')
            end
          | Ret (None, up', c', s', e) => Ret (None, MApply up' skip None, c', s', e)
          | o => o
          end
        | Some (bm, bsl, bs, benv) =>
          match next f' benv bm (LOrigin bsl) bs with
          | Ret (Some r, bm', LOrigin bsl', bs', e) =>
            Ret (Some r, MApply up skip (Some (bm', bsl', bs', benv)), c, s, e)
          | Ret (None, _, _, _, e) => add_errs e (next f' env (MApply up skip None) c s)
          | Ret _ => Stuck
          | Fuel => Fuel | Stuck => Stuck | Abort => Abort
          end
        end
      end
    end

  (* stringer::next over the chain [first child; ...; last child] ending in
     stringer_origin, whose slot is `oslot` *)
  with snext (f : nat) (env : list value) (parts : list part) (oslot : option stack) (s : store) {struct f}
    : res (option (stack * bytes) * list part * option stack * store * list soft) :=
    match f with
    | O => Fuel
    | S f' =>
      match parts with
      | [] =>
        (* stringer_origin::next: moves the stack out *)
        match oslot with
        | Some stk => Ret (Some (stk, []), [], None, s, [])
        | None => Ret (None, [], None, s, [])
        end
      | PLit str :: rest =>
        match snext f' env rest oslot s with
        | Ret (Some (stk, suffix), rest', oslot', s', e) =>
          Ret (Some (stk, str ++ suffix), PLit str :: rest', oslot', s', e)
        | Ret (None, rest', oslot', s', e) => Ret (None, PLit str :: rest', oslot', s', e)
        | Fuel => Fuel | Stuck => Stuck | Abort => Abort
        end
      | POp inner slot cur :: rest =>
        match cur with
        | None =>
          match snext f' env rest oslot s with
          | Ret (Some (stk, suffix), rest', oslot', s', e) =>
            match snext f' env (POp inner (Some stk) (Some suffix) :: rest') oslot' s' with
            | Ret (r, parts', oslot'', s'', e') => Ret (r, parts', oslot'', s'', e ++ e')
            | o => o
            end
          | Ret (None, rest', oslot', s', e) => Ret (None, POp inner slot None :: rest', oslot', s', e)
          | Fuel => Fuel | Stuck => Stuck | Abort => Abort
          end
        | Some suffix =>
          match next f' env inner (LOrigin slot) s with
          | Ret (Some (v :: stk), inner', LOrigin sl, s', e) =>
            Ret (Some (stk, show (p_tc P) v ++ suffix), POp inner' sl (Some suffix) :: rest, oslot, s', e)
          | Ret (Some [], _, _, _, _) => Abort
          | Ret (None, inner', LOrigin sl, s', e) =>
            match snext f' env (POp inner' sl None :: rest) oslot s' with
            | Ret (r, parts', oslot', s'', e') => Ret (r, parts', oslot', s'', e ++ e')
            | o => o
            end
          | Ret _ => Stuck
          | Fuel => Fuel | Stuck => Stuck | Abort => Abort
          end
        end
      end
    end.

  (* zw_query_execute + repeated zw_result_next: all results, in order, with
     the diagnostics interleaved; `limit` bounds the number of pulls *)
  Inductive event := EvOut (stk : stack) | EvSoft (k : soft).

  Inductive outcome :=
  | OFuel (evs : list event)        (* did not finish within the fuel (possible hang) *)
  | OStuck (evs : list event)
  | OAbort (evs : list event)       (* zw_result_next returned false *)
  | ODone (evs : list event).

  Fixpoint run_loop (limit fuel : nat) (m : mach) (c : lctx) (s : store) (acc : list event) : outcome :=
    match limit with
    | O => OFuel acc
    | S l =>
      match next fuel [] m c s with
      | Ret (Some stk, m', c', s', e) => run_loop l fuel m' c' s' (acc ++ map EvSoft e ++ [EvOut stk])
      | Ret (None, _, _, _, e) => ODone (acc ++ map EvSoft e)
      | Fuel => OFuel acc
      | Stuck => OStuck acc
      | Abort => OAbort acc
      end
    end.

  Definition run (limit fuel : nat) (m : mach) (input : stack) : outcome :=
    run_loop limit fuel m (LOrigin (Some input)) [] [].

End Next.

End EngineM.
Export EngineM.
