(* Lemmas behind C03. *)
From Coq Require Import ZArith NArith List Bool.
From Dwgrep Require Import Radix Value Words Tree Engine Build Den Scope.
Import ListNotations.

Lemma scoped_outs_env env r evs ab : scoped env r = DOk evs ab ->
  forall s e, In (DOut s e) evs -> e = env.
Proof.
  destruct r as [| |evs0 ab0]; cbn; try discriminate. intros H. inversion H; subst. clear H.
  intros s e Hin. apply in_map_iff in Hin. destruct Hin as ([s0 e0|k] & E & _); inversion E; auto.
Qed.

Theorem scope_no_leak P prog f t env stk evs ab :
  den P prog (S f) (TScope t) env stk = DOk evs ab ->
  forall s e, In (DOut s e) evs -> e = env.
Proof. cbn [den]. apply scoped_outs_env. Qed.

Lemma seq_ok_single s e r : seq (ok [DOut s e]) r = match r with DOk eb ab => (if Nat.ltb event_cap (1 + length eb) then DFuel else DOk (DOut s e :: eb) ab) | o => o end.
Proof. destruct r; reflexivity. Qed.

(* `|A B|`: the parser emits BIND B, BIND A; the rightmost identifier gets TOS *)
Theorem bind_rightmost_tos P prog f a b v1 v2 r env :
  den P prog (S (S f)) (TCat [TBind b; TBind a]) env (v1 :: v2 :: r)
  = ok [DOut r ((a, v2) :: (b, v1) :: env)].
Proof. reflexivity. Qed.

Lemma bytes_eqb_refl n : bytes_eqb n n = true.
Proof. induction n as [|x n IH]; cbn; auto. rewrite N.eqb_refl. auto. Qed.

Theorem inner_shadows n v env : dlookup ((n, v) :: env) n = Some v.
Proof. cbn. rewrite bytes_eqb_refl. reflexivity. Qed.

Definition is_closure (v : value) : bool := match v with VClo _ _ _ => true | _ => false end.

Theorem read_sees_binding P prog f n v env stk :
  dlookup env n = Some v -> is_closure v = false ->
  den P prog (S f) (TRead n) env stk = ok [DOut (v :: stk) env].
Proof. intros H C. cbn [den]. rewrite H. destruct v; try discriminate; reflexivity. Qed.

(* a name bound to a block behaves as the inlined body with the captured values *)
Theorem read_applies_block P prog f n blk cenv pos env stk body :
  dlookup env n = Some (VClo blk cenv pos) -> find_block prog blk = Some body ->
  den P prog (S f) (TRead n) env stk = scoped env (den P prog f body (decode_env cenv) stk).
Proof. intros H B. cbn [den]. rewrite H, B. reflexivity. Qed.

Theorem block_captures_env P prog f id body env stk :
  den P prog (S f) (TBlock id body) env stk = ok [DOut (VClo id (encode_env env) 0 :: stk) env].
Proof. reflexivity. Qed.

Lemma decode_encode env : decode_env (encode_env env) = env.
Proof. induction env as [|[n v] e IH]; cbn; auto. f_equal. exact IH. Qed.

(* rebinding in one scope and reading an unbound name are compile-time errors,
   in the documented rules and in the model of build.cc *)
Theorem rebound_rejected_doc tc n vis cur : mem_name n cur = true -> wsc tc (TBind n) vis cur = SErrR SRebound.
Proof. intros H. cbn [wsc]. rewrite H. reflexivity. Qed.

Theorem rebound_rejected_build tc n upm sc rest rt up st b :
  assoc sc n = Some b ->
  build tc (TBind n) upm (mkbn (sc :: rest) rt) up st = BErr BRebound.
Proof. intros H. cbn [build]. unfold bbind. cbn [scopes]. rewrite H. reflexivity. Qed.

Theorem unbound_rejected_doc tc n vis cur : mem_name n vis = false -> assoc (voc_table tc) n = None ->
  wsc tc (TRead n) vis cur = SErrR SUnbound.
Proof. intros H V. cbn [wsc]. rewrite H, V. reflexivity. Qed.

Theorem unbound_rejected_build tc n upm st : assoc (voc_table tc) n = None ->
  build tc (TRead n) upm (mkbn [[]] true) UTop st = BErr BUnbound.
Proof. intros V. cbn [build]. unfold bfind. cbn [scopes root assoc]. rewrite V. reflexivity. Qed.

(* bindings made in a branch of `,` are not visible after it (documented rule) *)
Theorem alt_branch_no_leak tc n : assoc (voc_table tc) n = None ->
  well_scoped tc (TCat [TAlt [TBind n; TNop]; TRead n]) = Some SUnbound.
Proof.
  intros V. unfold well_scoped. cbn [wsc first_err err_of after mem_name existsb orb].
  rewrite V. reflexivity.
Qed.
