(* tree -> machine: mirrors libzwerg/build.cc (build_exec / build_pred),
   bindings.cc (scope chains, the rebind check, up-value id allocation) and the
   core vocabulary of init.cc.  No proofs in this file. *)
From Coq Require Import ZArith NArith List Bool String Ascii.
From Dwgrep Require Import Radix Value Words Tree Engine.
Import ListNotations.

Module BuildM.

Definition nm (s : string) : name := map N_of_ascii (list_ascii_of_string s).

(* what a name of the vocabulary stands for *)
Inductive builtin :=
| BIExec (w : word)
| BIPred (positive : bool) (w : predword).

Definition name_eqb : name -> name -> bool := bytes_eqb.

(* dwgrep_vocabulary_core (init.cc); T_* constants carry the observed type codes *)
Definition voc_table (tc : tcodes) : list (name * builtin) :=
  [ (nm "drop", BIExec WDrop); (nm "swap", BIExec WSwap); (nm "dup", BIExec WDup);
    (nm "over", BIExec WOver); (nm "rot", BIExec WRot);
    (nm "type", BIExec WType); (nm "pos", BIExec WPos);
    (nm "hex", BIExec (WCast DHex)); (nm "dec", BIExec (WCast DDec));
    (nm "oct", BIExec (WCast DOct)); (nm "bin", BIExec (WCast DBin));
    (nm "true", BIExec (WPush (VCst 1 DBool 0))); (nm "false", BIExec (WPush (VCst 0 DBool 0)));
    (nm "T_CONST", BIExec (WPush (VCst (Z.of_N (tc_cst tc)) DSlot 0)));
    (nm "T_STR", BIExec (WPush (VCst (Z.of_N (tc_str tc)) DSlot 0)));
    (nm "T_SEQ", BIExec (WPush (VCst (Z.of_N (tc_seq tc)) DSlot 0)));
    (nm "T_CLOSURE", BIExec (WPush (VCst (Z.of_N (tc_clo tc)) DSlot 0)));
    (nm "add", BIExec WAdd); (nm "sub", BIExec WSub); (nm "mul", BIExec WMul);
    (nm "div", BIExec WDiv); (nm "mod", BIExec WMod);
    (nm "length", BIExec WLength); (nm "value", BIExec WValue);
    (nm "elem", BIExec WElem); (nm "relem", BIExec WRelem);
    (nm "apply", BIExec WApply);
    (nm "?eq", BIPred true PWEq); (nm "!eq", BIPred false PWEq);
    (nm "?lt", BIPred true PWLt); (nm "!lt", BIPred false PWLt);
    (nm "?gt", BIPred true PWGt); (nm "!gt", BIPred false PWGt);
    (nm "?ne", BIPred false PWEq); (nm "!ne", BIPred true PWEq);
    (nm "?ge", BIPred false PWLt); (nm "!ge", BIPred true PWLt);
    (nm "?le", BIPred false PWGt); (nm "!le", BIPred true PWGt);
    (nm "==", BIPred true PWEq); (nm "!=", BIPred false PWEq);
    (nm "<", BIPred true PWLt); (nm ">=", BIPred false PWLt);
    (nm ">", BIPred true PWGt); (nm "<=", BIPred false PWGt);
    (nm "?empty", BIPred true PWEmpty); (nm "!empty", BIPred false PWEmpty);
    (nm "?find", BIPred true PWFind); (nm "!find", BIPred false PWFind);
    (nm "?starts", BIPred true PWStarts); (nm "!starts", BIPred false PWStarts);
    (nm "?ends", BIPred true PWEnds); (nm "!ends", BIPred false PWEnds);
    (nm "?match", BIPred true PWMatch); (nm "!match", BIPred false PWMatch);
    (nm "=~", BIPred true PWMatch); (nm "!~", BIPred false PWMatch) ].

Fixpoint assoc {A} (l : list (name * A)) (n : name) : option A :=
  match l with
  | [] => None
  | (k, v) :: t => if name_eqb k n then Some v else assoc t n
  end.

(* class binding: a builtin or an op_bind (identified by its id) *)
Inductive binding := BdBuiltin (b : builtin) | BdBind (id : N).

(* class bindings: innermost scope first; `root` says whether the chain ends
   in the vocabulary (it does not for the fresh bindings of a block) *)
Record bindings := mkbn { scopes : list (list (name * binding)); root : bool }.

Definition bfind (tc : tcodes) (bn : bindings) (n : name) : option binding :=
  (fix go (ss : list (list (name * binding))) : option binding :=
     match ss with
     | [] => if root bn then match assoc (voc_table tc) n with Some b => Some (BdBuiltin b) | None => None end
             else None
     | sc :: rest => match assoc sc n with Some b => Some b | None => go rest end
     end) (scopes bn).

(* bindings::bind: error when the name is already bound in the same scope *)
Definition bbind (bn : bindings) (n : name) (id : N) : option bindings :=
  match scopes bn with
  | [] => None
  | sc :: rest =>
    match assoc sc n with
    | Some _ => None
    | None => Some (mkbn (((n, BdBind id) :: sc) :: rest) (root bn))
    end
  end.

Definition push_scope (bn : bindings) : bindings := mkbn ([] :: scopes bn) (root bn).

(* class uprefs: the names visible where a block was created, with the ids
   handed out (in order of first use) to those that are read inside it *)
Inductive uprefs :=
| UTop
| UBlock (bn : bindings) (super : uprefs) (used : list (name * nat)) (nextid : nat).

Inductive ukind := UKBuiltin (b : builtin) | UKValue.

Fixpoint ukind_of (tc : tcodes) (up : uprefs) (n : name) : option ukind :=
  match up with
  | UTop => None
  | UBlock bn super _ _ =>
    match bfind tc bn n with
    | Some (BdBuiltin b) => Some (UKBuiltin b)
    | Some (BdBind _) => Some UKValue
    | None => ukind_of tc super n
    end
  end.

Inductive ufound := UFBuiltin (b : builtin) | UFValue (id : nat).

(* uprefs::find: marks the name used, allocating the next id on first use *)
Definition ufind (tc : tcodes) (up : uprefs) (n : name) : option (ufound * uprefs) :=
  match up with
  | UTop => None
  | UBlock bn super used nextid =>
    match ukind_of tc up n with
    | None => None
    | Some (UKBuiltin b) => Some (UFBuiltin b, up)
    | Some UKValue =>
      match assoc used n with
      | Some id => Some (UFValue id, up)
      | None => Some (UFValue nextid, UBlock bn super (used ++ [(n, nextid)]) (S nextid))
      end
    end
  end.

Record bstate := mkbs { next_id : N; blocks : list mach }.

Inductive berr := BUnbound | BRebound | BStuck.
Inductive bres (A : Type) := BOk (a : A) | BErr (e : berr).
Arguments BOk {A} a. Arguments BErr {A} e.

Definition build_builtin (b : builtin) (upm : mach) : mach :=
  match b with
  | BIExec WApply => MApply upm false None
  | BIExec w => MWord upm w []
  | BIPred true w => MAssert upm (PWord w)
  | BIPred false w => MAssert upm (PNot (PWord w))
  end.

Definition mk_or_branches (l : list mach) : list (mach * option stack) := map (fun m => (m, None)) l.

Section Build.
  Variable tc : tcodes.

  (* the recursion is structural on the tree; `fuel` only bounds nesting for
     the list traversals and is never exhausted on trees of smaller depth *)
  Fixpoint build (t : tree) (upm : mach) (bn : bindings) (up : uprefs) (st : bstate) {struct t}
    : bres (mach * bindings * uprefs * bstate) :=
    match t with
    | TCat l =>
      (fix go (l : list tree) (upm : mach) (bn : bindings) (up : uprefs) (st : bstate) {struct l} :=
         match l with
         | [] => BOk (upm, bn, up, st)
         | ch :: rest =>
           match build ch upm bn up st with
           | BOk (m, bn', up', st') => go rest m bn' up' st'
           | BErr e => BErr e
           end
         end) l upm bn up st

    | TAlt l =>
      match
        (fix go (l : list tree) (acc : list mach) (bn : bindings) (up : uprefs) (st : bstate) {struct l} :=
           match l with
           | [] => BOk (acc, bn, up, st)
           | ch :: rest =>
             match build ch MLeaf bn up st with
             | BOk (m, bn', up', st') => go rest (acc ++ [m]) bn' up' st'
             | BErr e => BErr e
             end
           end) l [] bn up st
      with
      | BOk (brs, bn', up', st') =>
        BOk (MMerge upm brs (map (fun _ => None) brs) O false, bn', up', st')
      | BErr e => BErr e
      end

    | TOr l =>
      match
        (fix go (l : list tree) (acc : list mach) (bn : bindings) (up : uprefs) (st : bstate) {struct l} :=
           match l with
           | [] => BOk (acc, bn, up, st)
           | ch :: rest =>
             match build ch MLeaf bn up st with
             | BOk (m, bn', up', st') => go rest (acc ++ [m]) bn' up' st'
             | BErr e => BErr e
             end
           end) l [] bn up st
      with
      | BOk (brs, bn', up', st') => BOk (MOr upm (mk_or_branches brs) None, bn', up', st')
      | BErr e => BErr e
      end

    | TNop => BOk (MNop upm, bn, up, st)

    | TBuiltin (BPredPos positive n) =>
      BOk (MAssert upm (if positive then PPos n else PNot (PPos n)), bn, up, st)
    | TBuiltin (BDropBelow n) => BOk (MWord upm (WDropBelow n) [], bn, up, st)

    | TAssert p =>
      match build_pred p bn up st with
      | BOk (pm, bn', up', st') => BOk (MAssert upm pm, bn', up', st')
      | BErr e => BErr e
      end

    | TFormat l =>
      match
        (fix go (l : list tree) (acc : list part) (bn : bindings) (up : uprefs) (st : bstate) {struct l} :=
           match l with
           | [] => BOk (acc, bn, up, st)
           | TStr s :: rest =>
             (* children are visited last to first *)
             match go rest acc bn up st with
             | BOk (acc', bn', up', st') => BOk (PLit s :: acc', bn', up', st')
             | BErr e => BErr e
             end
           | ch :: rest =>
             match go rest acc bn up st with
             | BOk (acc', bn', up', st') =>
               match build ch MLeaf bn' up' st' with
               | BOk (m, bn'', up'', st'') => BOk (POp m None None :: acc', bn'', up'', st'')
               | BErr e => BErr e
               end
             | BErr e => BErr e
             end
           end) l [] bn up st
      with
      | BOk (parts, bn', up', st') => BOk (MFormat upm parts None 0%N, bn', up', st')
      | BErr e => BErr e
      end

    | TConst z d => BOk (MConst upm (VCst z d 0), bn, up, st)
    | TStr s => BOk (MConst upm (VStr s 0), bn, up, st)
    | TEmptyList => BOk (MConst upm (VSeq [] 0), bn, up, st)

    | TCapture ch =>
      match build ch MLeaf bn up st with
      | BOk (m, bn', up', st') => BOk (MCapture upm m, bn', up', st')
      | BErr e => BErr e
      end

    | TSubx keep ch =>
      match build ch MLeaf bn up st with
      | BOk (m, bn', up', st') => BOk (MSubx upm m keep None None, bn', up', st')
      | BErr e => BErr e
      end

    | TStar ch =>
      match build ch MLeaf bn up st with
      | BOk (m, bn', up', st') => BOk (MClosure upm m false None [] [] true, bn', up', st')
      | BErr e => BErr e
      end

    | TPlus ch =>
      match build ch MLeaf bn up st with
      | BOk (m, bn', up', st') => BOk (MClosure upm m true None [] [] true, bn', up', st')
      | BErr e => BErr e
      end

    | TScope ch =>
      (* bindings scope {bn}: additions die with the scope; the id counter and
         the up-value bookkeeping live on *)
      match build ch upm (push_scope bn) up st with
      | BOk (m, _, up', st') => BOk (m, bn, up', st')
      | BErr e => BErr e
      end

    | TBlock _ ch =>
      let inner_up := UBlock bn up [] O in
      let inner_bn := mkbn [[]] false in
      match build ch MLeaf inner_bn inner_up st with
      | BOk (body, _, inner_up', st') =>
        let used := match inner_up' with UBlock _ _ u _ => u | UTop => [] end in
        (* walk the referenced names in backward order of their id *)
        match
          (fix go (l : list (name * nat)) (upm : mach) (up : uprefs) {struct l} :=
             match l with
             | [] => BOk (upm, up)
             | (n, _) :: rest =>
               match bfind tc bn n with
               | Some (BdBind id) => go rest (MRead upm id) up
               | Some (BdBuiltin _) => BErr BStuck
               | None =>
                 match ufind tc up n with
                 | Some (UFValue id, up') => go rest (MUpread upm id) up'
                 | _ => BErr BStuck
                 end
               end
             end) (rev used) upm up
        with
        | BOk (upm', up') =>
          let blk := N.of_nat (List.length (blocks st')) in
          BOk (MLexClosure upm' blk (List.length used), bn, up',
               mkbs (next_id st') (blocks st' ++ [body]))
        | BErr e => BErr e
        end
      | BErr e => BErr e
      end

    | TBind n =>
      let id := next_id st in
      match bbind bn n id with
      | Some bn' => BOk (MBind upm id, bn', up, mkbs (id + 1)%N (blocks st))
      | None => BErr BRebound
      end

    | TRead n =>
      match bfind tc bn n with
      | Some (BdBuiltin b) => BOk (build_builtin b upm, bn, up, st)
      | Some (BdBind id) => BOk (MApply (MRead upm id) true None, bn, up, st)
      | None =>
        match ufind tc up n with
        | Some (UFBuiltin b, up') => BOk (build_builtin b upm, bn, up', st)
        | Some (UFValue id, up') => BOk (MApply (MUpread upm id) true None, bn, up', st)
        | None => BErr BUnbound
        end
      end

    | TDebug => BOk (MDebug upm, bn, up, st)

    | TIfElse cnd thn els =>
      match build cnd MLeaf bn up st with
      | BOk (mc, bn1, up1, st1) =>
        match build thn MLeaf bn1 up1 st1 with
        | BOk (mt, bn2, up2, st2) =>
          match build els MLeaf bn2 up2 st2 with
          | BOk (me, bn3, up3, st3) => BOk (MIfElse upm mc mt me None, bn3, up3, st3)
          | BErr e => BErr e
          end
        | BErr e => BErr e
        end
      | BErr e => BErr e
      end

    | TPredAnd _ _ | TPredOr _ _ | TPredNot _ | TPredSubx _ => BErr BStuck
    end

  with build_pred (t : tree) (bn : bindings) (up : uprefs) (st : bstate) {struct t}
    : bres (predm * bindings * uprefs * bstate) :=
    match t with
    | TPredNot a =>
      match build_pred a bn up st with
      | BOk (p, bn', up', st') => BOk (PNot p, bn', up', st')
      | BErr e => BErr e
      end
    | TPredOr a b =>
      match build_pred a bn up st with
      | BOk (p, bn1, up1, st1) =>
        match build_pred b bn1 up1 st1 with
        | BOk (q, bn2, up2, st2) => BOk (POr p q, bn2, up2, st2)
        | BErr e => BErr e
        end
      | BErr e => BErr e
      end
    | TPredAnd a b =>
      match build_pred a bn up st with
      | BOk (p, bn1, up1, st1) =>
        match build_pred b bn1 up1 st1 with
        | BOk (q, bn2, up2, st2) => BOk (PAnd p q, bn2, up2, st2)
        | BErr e => BErr e
        end
      | BErr e => BErr e
      end
    | TPredSubx ch =>
      match build ch MLeaf bn up st with
      | BOk (m, bn', up', st') => BOk (PSubx m, bn', up', st')
      | BErr e => BErr e
      end
    | TBuiltin (BPredPos positive n) =>
      BOk (if positive then PPos n else PNot (PPos n), bn, up, st)
    | _ => BErr BStuck
    end.

  (* tree::build_exec: `bindings bn {root}` over the vocabulary, no up-values *)
  Definition build_program (t : tree) : bres (mach * list mach) :=
    match build t MLeaf (mkbn [[]] true) UTop (mkbs 0%N []) with
    | BOk (m, _, _, st) => BOk (m, blocks st)
    | BErr e => BErr e
    end.
End Build.

End BuildM.
Export BuildM.
