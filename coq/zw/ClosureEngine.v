(* C10 on the engine model: op_tr_closure (MClosure) never yields a stack it has
   yielded before for the same input - every stack it yields is new with respect
   to the seen-set, is put into the seen-set, and the seen-set is only ever
   extended by a yield or cleared when the next input stack is taken. *)
From Coq Require Import ZArith NArith List Bool Arith Lia.
From Dwgrep Require Import Radix Value Words Engine EngineProofs.
Import ListNotations.

Section ClosureEngine.
Variable P : params.
Variable blks : list mach.
Notation next := (next P blks).

(* no two entries of the seen-set are equal (stack_eqb), newest first *)
Fixpoint distinct (l : list stack) : Prop :=
  match l with [] => True | x :: t => seen_mem x t = false /\ distinct t end.

Theorem closure_yield_is_fresh : forall f env up inner plus slot seen stks drained c s stk m' c' s' e,
  next f env (MClosure up inner plus slot seen stks drained) c s = Ret (Some stk, m', c', s', e) ->
  exists up' inner' sl' seen0 stks' dr',
    m' = MClosure up' inner' plus sl' (stk :: seen0) stks' dr' /\
    seen_mem stk seen0 = false /\ (seen0 = seen \/ seen0 = []).
Proof.
  induction f as [|f IH]; intros env up inner plus slot seen stks drained c s stk m' c' s' e H; [discriminate|].
  cbn [EngineM.next] in H. destruct drained; cbn [negb] in H; cbv iota in H.
  - (* send_to_op / next_from_upstream *)
    destruct stks as [|w rest].
    + destruct (next f env up c s) as [| | |[[[[ru up'] cu] su] eu]] eqn:Eu; try discriminate.
      destruct ru as [stk0|]; [|discriminate].
      destruct plus.
      * apply add_errs_ret in H. destruct H as [e1 H].
        destruct (IH _ _ _ _ _ _ _ _ _ _ _ _ _ _ _ H) as (u1 & i1 & sl1 & seen0 & st1 & d1 & E1 & E2 & E3).
        exists u1, i1, sl1, seen0, st1, d1. split; [exact E1|]. split; [exact E2|]. right. destruct E3; assumption.
      * inversion H; subst. exists up', inner, slot, [], [stk], true. split; [reflexivity|]. split; [reflexivity|]. right. reflexivity.
    + destruct (IH _ _ _ _ _ _ _ _ _ _ _ _ _ _ _ H) as (u1 & i1 & sl1 & seen0 & st1 & d1 & E1 & E2 & E3).
      exists u1, i1, sl1, seen0, st1, d1. auto.
  - (* next_from_op *)
    destruct (next f env inner (LOrigin slot) s) as [| | |[[[[ri inner'] ci] si] ei]] eqn:Ei; try discriminate.
    destruct ri as [r|].
    + destruct ci as [sl|]; [|discriminate].
      destruct (seen_mem r seen) eqn:M.
      * apply add_errs_ret in H. destruct H as [e1 H].
        destruct (IH _ _ _ _ _ _ _ _ _ _ _ _ _ _ _ H) as (u1 & i1 & sl1 & seen0 & st1 & d1 & E1 & E2 & E3).
        exists u1, i1, sl1, seen0, st1, d1. auto.
      * inversion H; subst. exists up, inner', sl, seen, (stk :: stks), false. split; [reflexivity|]. split; [exact M|]. left. reflexivity.
    + destruct ci as [sl|]; [|discriminate].
      apply add_errs_ret in H. destruct H as [e1 H].
      destruct (IH _ _ _ _ _ _ _ _ _ _ _ _ _ _ _ H) as (u1 & i1 & sl1 & seen0 & st1 & d1 & E1 & E2 & E3).
      exists u1, i1, sl1, seen0, st1, d1. auto.
Qed.

(* hence the seen-set - the stacks yielded for the current input, newest first -
   never holds two equal stacks, after any number of pulls *)
Corollary closure_seen_distinct : forall f env up inner plus slot seen stks drained c s stk m' c' s' e,
  distinct seen ->
  next f env (MClosure up inner plus slot seen stks drained) c s = Ret (Some stk, m', c', s', e) ->
  exists up' inner' sl' seen' stks' dr', m' = MClosure up' inner' plus sl' seen' stks' dr' /\ distinct seen' /\ hd_error seen' = Some stk.
Proof.
  intros f env up inner plus slot seen stks drained c s stk m' c' s' e D H.
  destruct (closure_yield_is_fresh _ _ _ _ _ _ _ _ _ _ _ _ _ _ _ _ H) as (u1 & i1 & sl1 & seen0 & st1 & d1 & E1 & E2 & E3).
  exists u1, i1, sl1, (stk :: seen0), st1, d1. split; [exact E1|]. split; [|reflexivity].
  cbn [distinct]. split; [exact E2|]. destruct E3 as [->| ->]; [exact D|exact I].
Qed.

(* exhaustion clears nothing it should keep and keeps nothing it should clear:
   the op reports the end only after its upstream did, with an empty seen-set *)
Theorem closure_end_is_clean : forall f env up inner plus slot seen stks drained c s m' c' s' e,
  next f env (MClosure up inner plus slot seen stks drained) c s = Ret (None, m', c', s', e) ->
  exists up' inner' sl', m' = MClosure up' inner' plus sl' [] [] true.
Proof.
  induction f as [|f IH]; intros env up inner plus slot seen stks drained c s m' c' s' e H; [discriminate|].
  cbn [EngineM.next] in H. destruct drained; cbn [negb] in H; cbv iota in H.
  - destruct stks as [|w rest].
    + destruct (next f env up c s) as [| | |[[[[ru up'] cu] su] eu]] eqn:Eu; try discriminate.
      destruct ru as [stk0|].
      * destruct plus; [|discriminate]. apply add_errs_ret in H. destruct H as [e1 H]. eapply IH; exact H.
      * inversion H; subst. eauto.
    + eapply IH; exact H.
  - destruct (next f env inner (LOrigin slot) s) as [| | |[[[[ri inner'] ci] si] ei]] eqn:Ei; try discriminate.
    destruct ri as [r|]; (destruct ci as [sl|]; [|discriminate]).
    + destruct (seen_mem r seen); [|discriminate]. apply add_errs_ret in H. destruct H as [e1 H]. eapply IH; exact H.
    + apply add_errs_ret in H. destruct H as [e1 H]. eapply IH; exact H.
Qed.
End ClosureEngine.
