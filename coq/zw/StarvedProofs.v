(* An exhausted chain stays exhausted: pulling a chain that is in its
   constructed state when there is no input left (an empty origin slot; a
   branch of `,` whose copy of the current input is used up) yields nothing, no
   diagnostic, and marks the `,` levels it went through as done.  Together
   with EngineProofs (pulled dry = pristine again) this gives: once a result
   set has reported the end, every later pull reports the end. *)
From Coq Require Import ZArith NArith List Bool Arith Lia.
From Dwgrep Require Import Radix Value Words Engine Quiet EngineProofs.
Import ListNotations.

Section Starved.
Variable P : params.
Variable blks : list mach.
Notation next := (next P blks).
Notation snext := (snext P blks).

(* nothing left to hand out, at every level of `,` the leaf is below *)
Fixpoint dry (c : lctx) : Prop :=
  match c with
  | LOrigin sl => sl = None
  | LTine i file done up uc => done = false /\ all_none file = true /\ i < length file /\ quiet up /\ dry uc
  end.

(* ... and after the pull: every such level has seen its upstream run dry *)
Fixpoint dried (c : lctx) : Prop :=
  match c with
  | LOrigin sl => sl = None
  | LTine _ _ done _ uc => done = true /\ dried uc
  end.

Definition Starved (f : nat) : Prop :=
  forall env m c s r m' c' s' e, quiet m -> dry c ->
    next f env m c s = Ret (r, m', c', s', e) -> r = None /\ e = [] /\ dried c'.

(* the stringers of a pristine format op have nothing to hand out *)
Lemma snext_idle : forall f env parts s r parts' oslot' s' e,
  Forall (pquiet) parts ->
  snext f env parts None s = Ret (r, parts', oslot', s', e) -> r = None /\ e = [] /\ s' = s.
Proof.
  induction f as [|f IH]; intros env parts s r parts' oslot' s' e Hp H; [discriminate|].
  destruct parts as [|[str|inner slot cur] rest].
  - rewrite snext_nil in H. inversion H; subst. auto.
  - rewrite snext_lit in H. inversion Hp as [|? ? _ Hrest]; subst.
    destruct (snext f env rest None s) as [| | |[[[[rr rest'] os1] s1] e1]] eqn:E; try discriminate.
    destruct (IH _ _ _ _ _ _ _ _ Hrest E) as [-> [-> ->]]. inversion H; subst. auto.
  - inversion Hp as [|? ? Hop Hrest]; subst. cbn [pquiet] in Hop. destruct Hop as [Hq [-> ->]].
    rewrite snext_op_idle in H.
    destruct (snext f env rest None s) as [| | |[[[[rr rest'] os1] s1] e1]] eqn:E; try discriminate.
    destruct (IH _ _ _ _ _ _ _ _ Hrest E) as [-> [-> ->]]. inversion H; subst. auto.
Qed.

Ltac pullup H Eu :=
  match type of H with
  | match next ?f ?env ?up ?c ?s with _ => _ end = _ =>
    destruct (next f env up c s) as [| | |[[[[?ru ?up'] ?cu] ?su] ?eu]] eqn:Eu; try discriminate
  end.

Lemma starved_step f : Starved f -> Starved (S f).
Proof.
  intros IH env m c s r m' c' s' e Q D H.
  (* every op that first asks its upstream: upstream says "nothing", so does the op *)
  assert (forall up, quiet up -> forall X, next f env up c s = Ret X ->
            fst (fst (fst (fst X))) = None /\ snd X = [] /\ dried (snd (fst (fst X)))) as UP.
  { intros up Qu [[[[r0 m0] c0] s0] e0] HX. cbn [fst snd]. eapply IH; eauto. }
  destruct m.
  - (* leaf *)
    destruct c as [sl|i file done up uc].
    + cbn in D. subst sl. rewrite next_leaf_origin in H. inversion H; subst. cbn. auto.
    + cbn [dry] in D. destruct D as [-> [AN [Hi [Qup Duc]]]].
      rewrite next_leaf_tine in H. cbn iota in H. rewrite AN in H.
      pullup H Eu. destruct (IH _ _ _ _ _ _ _ _ _ Qup Duc Eu) as [-> [-> Dr]].
      inversion H; subst. cbn [dried]. auto.
  - (* MNop *) cbn [quiet] in Q. cbn [EngineM.next] in H. pullup H Eu. destruct (UP _ Q _ Eu) as [A [B C]]; cbn [fst snd] in A, B, C; subst. inversion H; subst. auto.
  - (* MConst *) cbn [quiet] in Q. cbn [EngineM.next] in H. pullup H Eu. destruct (UP _ Q _ Eu) as [A [B C]]; cbn [fst snd] in A, B, C; subst. inversion H; subst. auto.
  - (* MAssert *) cbn [quiet] in Q. cbn [EngineM.next] in H. pullup H Eu. destruct (UP _ Q _ Eu) as [A [B C]]; cbn [fst snd] in A, B, C; subst. inversion H; subst. auto.
  - (* MFormat *)
    apply quiet_format in Q. destruct Q as [Qu [Qp ->]]. rewrite next_format in H.
    destruct (snext f env parts None s) as [| | |[[[[rr parts1] os1] s1] e1]] eqn:E; try discriminate.
    destruct (snext_idle _ _ _ _ _ _ _ _ _ Qp E) as [-> [-> ->]].
    pullup H Eu. destruct (UP _ Qu _ Eu) as [A [B C]]; cbn [fst snd] in A, B, C; subst. inversion H; subst. auto.
  - (* MMerge *)
    apply quiet_merge in Q. destruct Q as [Qu [Qb [AN [-> [-> [Hl Hn]]]]]].
    cbn [EngineM.next] in H. cbn iota in H.
    destruct brs as [|br brs0]; [congruence|]. cbn [nth_error] in H.
    assert (quiet br) as Qbr by (inversion Qb; assumption).
    assert (dry (LTine 0 file false m c)) as D0.
    { cbn [dry]. repeat split; auto. rewrite Hl. cbn. lia. }
    destruct (next f env br (LTine 0 file false m c) s) as [| | |[[[[rb br'] cb] sb] eb]] eqn:Eb; try discriminate.
    destruct (IH _ _ _ _ _ _ _ _ _ Qbr D0 Eb) as [-> [-> Dr]].
    destruct cb as [slb|i' file' done' up' cu]; [discriminate|].
    cbn [dried] in Dr. destruct Dr as [-> Dr]. inversion H; subst. auto.
  - (* MOr *)
    apply quiet_or in Q. destruct Q as [Qu [Qb ->]]. cbn [EngineM.next] in H.
    pullup H Eu. destruct (UP _ Qu _ Eu) as [A [B C]]; cbn [fst snd] in A, B, C; subst. inversion H; subst. auto.
  - (* MCapture *) cbn [quiet] in Q. destruct Q as [Qu Qi]. cbn [EngineM.next] in H.
    pullup H Eu. destruct (UP _ Qu _ Eu) as [A [B C]]; cbn [fst snd] in A, B, C; subst. inversion H; subst. auto.
  - (* MClosure *) cbn [quiet] in Q. destruct Q as [Qu [Qi [-> [-> [-> ->]]]]]. cbn [EngineM.next negb] in H. cbv iota in H.
    pullup H Eu. destruct (UP _ Qu _ Eu) as [A [B C]]; cbn [fst snd] in A, B, C; subst. inversion H; subst. auto.
  - (* MSubx *) cbn [quiet] in Q. destruct Q as [Qu [Qi [-> ->]]]. cbn [EngineM.next] in H.
    pullup H Eu. destruct (UP _ Qu _ Eu) as [A [B C]]; cbn [fst snd] in A, B, C; subst. inversion H; subst. auto.
  - (* MBind *) cbn [quiet] in Q. cbn [EngineM.next] in H. pullup H Eu. destruct (UP _ Q _ Eu) as [A [B C]]; cbn [fst snd] in A, B, C; subst. inversion H; subst. auto.
  - (* MRead *) cbn [quiet] in Q. cbn [EngineM.next] in H. pullup H Eu. destruct (UP _ Q _ Eu) as [A [B C]]; cbn [fst snd] in A, B, C; subst. inversion H; subst. auto.
  - (* MUpread *) cbn [quiet] in Q. cbn [EngineM.next] in H. pullup H Eu. destruct (UP _ Q _ Eu) as [A [B C]]; cbn [fst snd] in A, B, C; subst. inversion H; subst. auto.
  - (* MLexClosure *) cbn [quiet] in Q. cbn [EngineM.next] in H. pullup H Eu. destruct (UP _ Q _ Eu) as [A [B C]]; cbn [fst snd] in A, B, C; subst. inversion H; subst. auto.
  - (* MIfElse *) cbn [quiet] in Q. destruct Q as [Qu [Q1 [Q2 [Q3 ->]]]]. cbn [EngineM.next] in H.
    pullup H Eu. destruct (UP _ Qu _ Eu) as [A [B C]]; cbn [fst snd] in A, B, C; subst. inversion H; subst. auto.
  - (* MWord *) cbn [quiet] in Q. destruct Q as [Qu ->]. cbn [EngineM.next] in H.
    pullup H Eu. destruct (UP _ Qu _ Eu) as [A [B C]]; cbn [fst snd] in A, B, C; subst. inversion H; subst. auto.
  - (* MApply *) cbn [quiet] in Q. destruct Q as [Qu ->]. cbn [EngineM.next] in H.
    pullup H Eu. destruct (UP _ Qu _ Eu) as [A [B C]]; cbn [fst snd] in A, B, C; subst. inversion H; subst. auto.
  - (* MDebug *) cbn [quiet] in Q. cbn [EngineM.next] in H. pullup H Eu. destruct (UP _ Q _ Eu) as [A [B C]]; cbn [fst snd] in A, B, C; subst. inversion H; subst. auto.
Qed.

Theorem starved : forall f, Starved f.
Proof. induction f as [|f IH]; [intros env m c s r m' c' s' e _ _ H; discriminate H|apply starved_step; exact IH]. Qed.


(* the end is final: a pristine chain with an empty origin yields nothing,
   silently, and is left pristine with an empty origin *)
Theorem end_is_final : Forall quiet blks -> forall f env m s r m' c' s' e,
  quiet m -> next f env m (LOrigin None) s = Ret (r, m', c', s', e) ->
  r = None /\ e = [] /\ quiet m' /\ reset m' = reset m /\ c' = LOrigin None.
Proof.
  intros Qb f env m s r m' c' s' e Q H.
  destruct (starved f env m (LOrigin None) s r m' c' s' e Q eq_refl H) as [A [B C]].
  assert (cinv (LOrigin None)) as C1 by exact I. assert (nodone (LOrigin None)) as C2 by exact I.
  destruct (main P blks Qb f env m _ s r m' c' s' e (quiet_inv m Q) C1 C2 H) as [I1 [I2 [I3 [I4 I5]]]].
  destruct (mainR P blks Qb f env m _ s r m' c' s' e (quiet_inv m Q) C1 C2 H) as [R1 _].
  split; [exact A|]. split; [exact B|]. split; [apply I5; exact A|]. split; [exact R1|].
  destruct c' as [sl|]; [cbn in C; subst; reflexivity|cbn in I3; contradiction].
Qed.

(* so once a result set has reported the end, every later pull reports the end *)
Corollary after_the_end : Forall quiet blks -> forall f env m sl s outs m1 c1 s1,
  quiet m -> drains P blks f env m (LOrigin sl) s outs m1 c1 s1 ->
  forall g s2 r m2 c2 s3 e, next g env m1 c1 s2 = Ret (r, m2, c2, s3, e) ->
  r = None /\ e = [] /\ quiet m2 /\ reset m2 = reset m /\ c2 = LOrigin None.
Proof.
  intros Qb f env m sl s outs m1 c1 s1 Q D g s2 r m2 c2 s3 e H.
  destruct (engine_forgets_any P blks Qb f env m sl s outs m1 c1 s1 Q D) as [Q1 [R1 ->]].
  destruct (end_is_final Qb g env m1 s2 r m2 c2 s3 e Q1 H) as [A [B [C [D' E']]]].
  repeat split; auto. congruence.
Qed.
End Starved.
