(* The closure operators of the specification: each distinct stack at most
   once (T1), only reachable stacks (T2), every reachable stack when the
   evaluation finishes (T3). *)
From Coq Require Import ZArith NArith List Bool Lia.
From Dwgrep Require Import Radix Value Words Tree Engine Build Den.
Import ListNotations.

(* l lists stacks none of which equals (==) an earlier one or a member of seen *)
Fixpoint fresh_wrt (seen : list stack) (l : list stack) : Prop :=
  match l with
  | [] => True
  | x :: t => seen_mem x seen = false /\ fresh_wrt (x :: seen) t
  end.

Lemma fresh_wrt_app seen a : forall b,
  fresh_wrt seen (a ++ b) <-> fresh_wrt seen a /\ fresh_wrt (rev a ++ seen) b.
Proof.
  revert seen. induction a as [|x a IH]; intros seen b; cbn [app fresh_wrt rev].
  - tauto.
  - rewrite IH. rewrite <- app_assoc. cbn [app]. tauto.
Qed.

Lemma outs_of_app a b : outs_of (a ++ b) = outs_of a ++ outs_of b.
Proof. unfold outs_of. apply flat_map_app. Qed.

Lemma seq_ok_inv a r evs ab :
  seq (ok a) r = DOk evs ab -> exists evs2, r = DOk evs2 ab /\ evs = a ++ evs2.
Proof.
  unfold seq, ok. destruct r as [| |evs2 ab2]; try discriminate.
  destruct (Nat.ltb event_cap (length a + length evs2)); [discriminate|].
  intros H. inversion H; subst. eauto.
Qed.

Section Closure.
  Variable step : stack -> dres.
  Variable env : denv.

  Lemma mark_spec evs : forall seen out fresh seen',
    mark env evs seen = (out, fresh, seen') ->
    outs_of out = fresh /\ seen' = rev fresh ++ seen /\ fresh_wrt seen fresh /\
    (forall x, In x fresh -> In x (outs_of evs)).
  Proof.
    induction evs as [|ev evs IH]; intros seen out fresh seen' H; cbn [mark] in H.
    - inversion H; subst. cbn. auto.
    - destruct ev as [s e|k].
      + destruct (seen_mem s seen) eqn:M.
        * destruct (IH _ _ _ _ H) as (A & B & C & D). split; [|split; [|split]]; auto.
          intros x Hx. cbn. right. auto.
        * destruct (mark env evs (s :: seen)) as [[o fr] sn] eqn:E. inversion H; subst.
          destruct (IH _ _ _ _ E) as (A & B & C & D). split; [|split; [|split]].
          -- cbn. f_equal. exact A.
          -- cbn [rev]. rewrite <- app_assoc. cbn [app]. exact B.
          -- cbn [fresh_wrt]. auto.
          -- intros x [<-|Hx]; cbn; auto.
      + destruct (mark env evs seen) as [[o fr] sn] eqn:E. inversion H; subst.
        destruct (IH _ _ _ _ E) as (A & B & C & D). split; [|split; [|split]]; auto.
  Qed.

  (* T1: no stack is yielded twice, nor one that was already seen *)
  Theorem closure_no_dup : forall g work seen evs ab,
    closure_loop step env g work seen = DOk evs ab -> fresh_wrt seen (outs_of evs).
  Proof.
    induction g as [|g IH]; intros work seen evs ab H; cbn [closure_loop] in H; [discriminate|].
    destruct work as [|s rest].
    - inversion H; subst. exact I.
    - destruct (step s) as [| |evs0 ab0] eqn:ST; try discriminate.
      destruct (mark env evs0 seen) as [[out fresh] seen'] eqn:M.
      destruct (mark_spec _ _ _ _ _ M) as (A & B & C & D).
      destruct ab0.
      + inversion H. subst evs ab. rewrite A. exact C.
      + apply seq_ok_inv in H. destruct H as (evs2 & L & ->).
        rewrite outs_of_app, A. apply fresh_wrt_app. split; auto.
        rewrite <- B. eapply IH; eauto.
  Qed.

  (* one application of the body *)
  Definition succ (a b : stack) : Prop := exists evs ab, step a = DOk evs ab /\ In b (outs_of evs).

  (* reachable in one or more steps *)
  Inductive reach_plus : stack -> stack -> Prop :=
  | rp_one a b : succ a b -> reach_plus a b
  | rp_step a b c : succ a b -> reach_plus b c -> reach_plus a c.

  (* T2: whatever is yielded is reachable from a stack of the work list *)
  Theorem closure_sound : forall g work seen evs ab,
    closure_loop step env g work seen = DOk evs ab ->
    forall x, In x (outs_of evs) -> exists w, In w work /\ reach_plus w x.
  Proof.
    induction g as [|g IH]; intros work seen evs ab H x Hx; cbn [closure_loop] in H; [discriminate|].
    destruct work as [|s rest].
    - inversion H; subst. destruct Hx.
    - destruct (step s) as [| |evs0 ab0] eqn:ST; try discriminate.
      destruct (mark env evs0 seen) as [[out fresh] seen'] eqn:M.
      destruct (mark_spec _ _ _ _ _ M) as (A & B & C & D).
      assert (Hfresh : forall y, In y fresh -> succ s y).
      { intros y Hy. exists evs0, ab0. split; auto. }
      destruct ab0.
      + inversion H. subst evs ab. rewrite A in Hx. exists s. split; [left; auto|]. apply rp_one. auto.
      + apply seq_ok_inv in H. destruct H as (evs2 & L & ->).
        rewrite outs_of_app, A in Hx. apply in_app_or in Hx. destruct Hx as [Hx|Hx].
        * exists s. split; [left; auto|]. apply rp_one. auto.
        * destruct (IH _ _ _ _ L x Hx) as (w & Hw & R).
          apply in_app_or in Hw. destruct Hw as [Hw|Hw].
          -- apply in_rev in Hw. exists s. split; [left; auto|]. eapply rp_step; eauto.
          -- exists w. split; [right; auto|]. exact R.
  Qed.
End Closure.

(* ------------------------------------------------------------ completeness *)

Section Complete.
  Variable step : stack -> dres.
  Variable env : denv.

  Notation "a ~~ b" := (stack_eqb a b = true) (at level 70).
  Definition mem (x : stack) (l : list stack) : Prop := seen_mem x l = true.

  (* `==` on the stacks the closure ranges over (dom) is an equivalence, the
     body maps dom into dom and respects `==` *)
  Variable dom : stack -> Prop.
  Hypothesis Hrefl : forall a, dom a -> a ~~ a.
  Hypothesis Hsym : forall a b, a ~~ b -> b ~~ a.
  Hypothesis Htrans : forall a b c, a ~~ b -> b ~~ c -> a ~~ c.
  Hypothesis Hdom : forall a b, dom a -> succ step a b -> dom b.
  Hypothesis Hresp : forall a a' b, dom a -> dom a' -> a ~~ a' -> succ step a b ->
                                    exists b', succ step a' b' /\ b ~~ b'.

  Lemma mem_app x a b : mem x (a ++ b) <-> mem x a \/ mem x b.
  Proof. unfold mem, seen_mem. rewrite existsb_app, orb_true_iff. tauto. Qed.

  Lemma mem_in x l : mem x l <-> exists y, In y l /\ x ~~ y.
  Proof. unfold mem, seen_mem. rewrite existsb_exists. tauto. Qed.

  Lemma mem_rev x l : mem x (rev l) <-> mem x l.
  Proof.
    rewrite !mem_in. split; intros (y & Hy & E); exists y; split; auto.
    - apply in_rev; auto.
    - apply in_rev in Hy; auto.
  Qed.

  Lemma mem_eq x y l : x ~~ y -> mem y l -> mem x l.
  Proof. rewrite !mem_in. intros E (z & Hz & E'). exists z. split; auto. eapply Htrans; eauto. Qed.

  Lemma mem_self x l : dom x -> In x l -> mem x l.
  Proof. intros D H. apply mem_in. exists x. auto. Qed.

  (* after marking, every stack the expansion produced is in the seen-set *)
  Lemma mark_all_seen evs : forall seen out fresh seen',
    mark env evs seen = (out, fresh, seen') ->
    (forall b, In b (outs_of evs) -> dom b) ->
    forall b, In b (outs_of evs) -> mem b seen'.
  Proof.
    induction evs as [|ev evs IH]; intros seen out fresh seen' H D b Hb; cbn [mark] in H.
    - destruct Hb.
    - destruct ev as [s e|k].
      + cbn in Hb.
        destruct (seen_mem s seen) eqn:M.
        * destruct (mark_spec env _ _ _ _ _ H) as (_ & B & _ & _).
          destruct Hb as [<-|Hb].
          -- rewrite B. apply mem_app. right. exact M.
          -- eapply IH; eauto. intros c Hc. apply D. cbn. auto.
        * destruct (mark env evs (s :: seen)) as [[o fr] sn] eqn:E. inversion H; subst.
          destruct (mark_spec env _ _ _ _ _ E) as (_ & B & _ & _).
          destruct Hb as [<-|Hb].
          -- rewrite B. apply mem_app. right. apply mem_self; [apply D; cbn; auto | left; auto].
          -- eapply IH; eauto. intros c Hc. apply D. cbn. auto.
      + destruct (mark env evs seen) as [[o fr] sn] eqn:E. inversion H; subst.
        eapply IH; eauto.
  Qed.

  (* F is closed under the body, up to == *)
  Definition closed (F : list stack) : Prop :=
    forall a, dom a -> mem a F -> forall b, succ step a b -> mem b F.

  (* the expanded part of the seen-set is closed; what is not yet expanded is in the work list *)
  Definition closed_except (work seen : list stack) : Prop :=
    forall a, dom a -> mem a seen -> ~ mem a work -> forall b, succ step a b -> mem b seen.

  (* T3: when the closure finishes, seen-set plus yielded stacks is closed *)
  Theorem closure_closed : forall g work seen evs,
    closure_loop step env g work seen = DOk evs false ->
    (forall w, In w work -> dom w) ->
    (forall w, In w work -> mem w seen) ->
    closed_except work seen ->
    closed (seen ++ outs_of evs).
  Proof.
    induction g as [|g IH]; intros work seen evs H Dw Ws CE; cbn [closure_loop] in H; [discriminate|].
    destruct work as [|s rest].
    - inversion H; subst. cbn [outs_of flat_map]. rewrite app_nil_r.
      intros a Da Ma b Sb. eapply CE; eauto. intros M. apply mem_in in M. destruct M as (y & [] & _).
    - destruct (step s) as [| |evs0 ab0] eqn:ST; try discriminate.
      destruct (mark env evs0 seen) as [[out fresh] seen'] eqn:M.
      destruct (mark_spec env _ _ _ _ _ M) as (A & B & C & D).
      destruct ab0; [discriminate|].
      apply seq_ok_inv in H. destruct H as (evs2 & L & ->).
      assert (Ds : dom s) by (apply Dw; left; auto).
      assert (Dout : forall b, In b (outs_of evs0) -> dom b).
      { intros b Hb. eapply Hdom; eauto. exists evs0, false. auto. }
      assert (AllSeen : forall b, In b (outs_of evs0) -> mem b seen') by (eapply mark_all_seen; eauto).
      (* premises of the induction hypothesis for the rest of the run *)
      assert (Dw' : forall w, In w (rev fresh ++ rest) -> dom w).
      { intros w Hw. apply in_app_or in Hw. destruct Hw as [Hw|Hw]; [apply Dout, D; apply in_rev; auto | apply Dw; right; auto]. }
      assert (Ws' : forall w, In w (rev fresh ++ rest) -> mem w seen').
      { intros w Hw. apply in_app_or in Hw. destruct Hw as [Hw|Hw].
        - apply AllSeen, D. apply in_rev; auto.
        - rewrite B. apply mem_app. right. apply Ws. right; auto. }
      assert (CE' : closed_except (rev fresh ++ rest) seen').
      { intros a Da Ma NW b Sb. rewrite B in Ma. apply mem_app in Ma. destruct Ma as [Ma|Ma].
        - exfalso. apply NW. apply mem_app. left. exact Ma.
        - destruct (seen_mem a (s :: rest)) eqn:InW.
          + (* a is == to a stack of the old work list; not to one of rest, so to s *)
            assert (a ~~ s).
            { unfold seen_mem in InW. cbn [existsb] in InW. apply orb_true_iff in InW. destruct InW as [E|E]; auto.
              exfalso. apply NW. apply mem_app. right. exact E. }
            destruct (Hresp a s b Da Ds H Sb) as (b' & Sb' & E').
            destruct Sb' as (evs1 & ab1 & ST1 & Hin). rewrite ST in ST1. inversion ST1; subst.
            eapply mem_eq; eauto.
          + rewrite B. apply mem_app. right. eapply CE; eauto. unfold mem. rewrite InW. discriminate. }
      specialize (IH _ _ _ L Dw' Ws' CE').
      (* seen' ++ outs evs2 and seen ++ outs (out ++ evs2) have the same members *)
      intros a Da Ma b Sb.
      assert (Eqv : forall x, mem x (seen ++ outs_of (out ++ evs2)) <-> mem x (seen' ++ outs_of evs2)).
      { intros x. rewrite outs_of_app, A, B. rewrite !mem_app, mem_rev. tauto. }
      apply Eqv. eapply IH; eauto. apply Eqv; auto.
  Qed.

  (* hence every stack reachable (in any number of steps) from a member is a member *)
  Inductive reach_star : stack -> stack -> Prop :=
  | rs_refl a : reach_star a a
  | rs_step a b c : succ step a b -> reach_star b c -> reach_star a c.

  Lemma closed_reach F : closed F -> forall a x, reach_star a x -> dom a -> mem a F -> mem x F.
  Proof.
    intros CF a x R. induction R as [a|a b c S R IH]; intros Da Ma; auto.
    apply IH; [eapply Hdom; eauto | eapply CF; eauto].
  Qed.

  (* E*: the start stack and everything reachable from it are yielded (up to ==) *)
  Theorem star_complete g stk evs :
    dom stk ->
    closure_loop step env g [stk] [stk] = DOk evs false ->
    forall x, reach_star stk x -> mem x (stk :: outs_of evs).
  Proof.
    intros Ds H x R.
    assert (CF : closed ([stk] ++ outs_of evs)).
    { eapply closure_closed; eauto.
      - intros w [<-|[]]; auto.
      - intros w [<-|[]]. apply mem_self; [auto | left; auto].
      - intros a Da Ma NW. exfalso. apply NW. exact Ma. }
    eapply (closed_reach _ CF); eauto. apply mem_self; [auto | left; auto].
  Qed.
End Complete.
