(* What tree::simplify guarantees: shape of the result, and that its rewrite
   steps do not change the specified meaning (Den.v) -- up to the evaluator
   giving up (DFuel: event cap or fuel). *)
From Coq Require Import ZArith NArith List Bool Lia.
From Dwgrep Require Import Radix Value Words Tree Engine Build Den Simplify.
Import ListNotations.

(* r1 and r2 are the same result unless one of them gave up *)
Definition same_or_fuel (r1 r2 : dres) : Prop := r1 = DFuel \/ r2 = DFuel \/ r1 = r2.

Lemma seq_ok_nil_r r : seq r (ok []) = r \/ seq r (ok []) = DFuel.
Proof.
  unfold seq, ok. destruct r as [| |evs ab]; auto. destruct ab; auto.
  rewrite app_nil_r. destruct (Nat.ltb event_cap (length evs + length (@nil dev))); auto.
Qed.

Lemma seq_single_l ev r : seq (ok [ev]) r = DFuel \/
  seq (ok [ev]) r = match r with DOk e ab => DOk (ev :: e) ab | o => o end.
Proof.
  unfold seq, ok. destruct r as [| |evs ab]; auto.
  destruct (Nat.ltb event_cap (length [ev] + length evs)); auto.
Qed.

(* feeding every yielded stack to the identity continuation changes nothing *)
Lemma bind_outs_ret r : bind_outs r (fun s e => ok [DOut s e]) = r \/ bind_outs r (fun s e => ok [DOut s e]) = DFuel.
Proof.
  destruct r as [| |evs ab]; cbn [bind_outs]; auto.
  induction evs as [|ev evs IH].
  - auto.
  - destruct ev as [s e|k].
    + destruct IH as [IH|IH]; rewrite IH.
      * destruct (seq_single_l (DOut s e) (DOk evs ab)) as [E|E]; rewrite E; auto.
      * right. reflexivity.
    + destruct IH as [IH|IH]; rewrite IH.
      * destruct (seq_single_l (DSoft k) (DOk evs ab)) as [E|E]; rewrite E; auto.
      * right. reflexivity.
Qed.

Lemma seq_same_or_fuel a a' b b' :
  same_or_fuel a a' -> same_or_fuel b b' -> same_or_fuel (seq a b) (seq a' b').
Proof.
  unfold same_or_fuel. intros [Ha|[Ha|Ha]] Hb; subst.
  - left. reflexivity.
  - right. left. reflexivity.
  - destruct a' as [| |ea aba]; auto. destruct aba; auto.
    destruct Hb as [Hb|[Hb|Hb]]; subst; auto.
Qed.

Lemma bind_outs_same_or_fuel r k1 k2 :
  (forall s e, same_or_fuel (k1 s e) (k2 s e)) ->
  same_or_fuel (bind_outs r k1) (bind_outs r k2).
Proof.
  intros H. destruct r as [| |evs ab]; cbn [bind_outs]; unfold same_or_fuel; auto.
  induction evs as [|ev evs IH]; auto.
  destruct ev as [s e|k]; apply seq_same_or_fuel; auto.
  unfold same_or_fuel; auto.
Qed.

Section Steps.
  Variable P : params.
  Variable prog : tree.

  Lemma den_cat_eq f l env stk :
    den P prog (S f) (TCat l) env stk =
    (fix go (l : list tree) (env : denv) (stk : stack) : dres :=
       match l with
       | [] => ok [DOut stk env]
       | c :: r => bind_outs (den P prog f c env stk) (fun s e => go r e s)
       end) l env stk.
  Proof. reflexivity. Qed.

  (* "Promote CAT's only child" *)
  Theorem cat_single f c env stk :
    same_or_fuel (den P prog (S f) (TCat [c]) env stk) (den P prog f c env stk).
  Proof.
    rewrite den_cat_eq. unfold same_or_fuel.
    destruct (bind_outs_ret (den P prog f c env stk)) as [E|E]; rewrite E; auto.
  Qed.

  (* "Drop NOP's in CAT nodes" *)
  Theorem cat_drop_nop f l1 l2 env stk :
    same_or_fuel (den P prog (S (S f)) (TCat (l1 ++ TNop :: l2)) env stk)
                 (den P prog (S (S f)) (TCat (l1 ++ l2)) env stk).
  Proof.
    rewrite !den_cat_eq. revert env stk. induction l1 as [|c l1 IH]; intros env stk; cbn [app].
    - (* the NOP itself: yields the incoming stack once *)
      change (den P prog (S f) TNop env stk) with (ok [DOut stk env]).
      cbn [bind_outs ok].
      set (go := fix go (l : list tree) (env : denv) (stk : stack) : dres := _).
      unfold same_or_fuel. change (DOk [] false) with (ok []).
      destruct (seq_ok_nil_r (go l2 env stk)) as [E|E]; rewrite E; auto.
    - apply bind_outs_same_or_fuel. intros s e. apply IH.
  Qed.

  (* "(FORMAT (STR)) -> (STR)" *)
  Theorem format_single_str f s env stk :
    den P prog (S (S f)) (TFormat [TStr s]) env stk = den P prog (S f) (TStr s) env stk.
  Proof. cbn. rewrite app_nil_r. reflexivity. Qed.
End Steps.

(* shape: after flattening, a CAT has no CAT child *)
Lemma flatten_cat_no_cat : forall f l,
  (forall c, In c l -> depth c <= f) -> Forall (fun c => is_cat c = false) (flatten_cat f l).
Proof.
  induction f as [|f IH]; intros l H.
  - cbn. apply Forall_forall. intros c Hc. specialize (H c Hc). destruct c; cbn in *; auto; lia.
  - cbn [flatten_cat]. apply Forall_forall. intros c Hc. apply in_flat_map in Hc.
    destruct Hc as (x & Hx & Hc). specialize (H x Hx).
    destruct x; try (destruct Hc as [<-|[]]; reflexivity).
    assert (Hl : forall c', In c' l0 -> depth c' <= f).
    { intros c' Hc'. cbn [depth] in H.
      assert (depth c' <= (fix dl (l : list tree) : nat := match l with [] => 0 | x :: r => Nat.max (depth x) (dl r) end) l0).
      { clear - Hc'. induction l0 as [|y l0 IHl]; [destruct Hc'|]. destruct Hc' as [<-|Hc']; [lia|]. specialize (IHl Hc'). lia. }
      lia. }
    specialize (IH l0 Hl). rewrite Forall_forall in IH. auto.
Qed.
