(* The uncapped twin (DenU.v) agrees with the specification evaluator wherever
   the latter finishes; it, too, is monotone in fuel; and its combinators obey
   the algebra the simplifier proof needs. *)
From Coq Require Import ZArith NArith List Bool Arith Lia.
From Dwgrep Require Import Radix Value Words Tree Engine Build Den DenMono DenU.
Import ListNotations.

(* ---- capped <= uncapped ---- *)
Lemma seq_le_U a a' b b' : rle a a' -> rle b b' -> rle (seq a b) (seqU a' b').
Proof.
  intros [-> | ->] Hb; [left; reflexivity|].
  destruct a' as [| |ea aba]; try apply rle_refl. destruct aba; [apply rle_refl|].
  destruct Hb as [-> | ->]; [left; reflexivity|].
  destruct b' as [| |eb abb]; try apply rle_refl.
  cbn [seq seqU]. destruct (Nat.ltb event_cap (length ea + length eb)); [left; reflexivity|apply rle_refl].
Qed.

Lemma bind_le_U r r' k k' :
  rle r r' -> (forall s e, rle (k s e) (k' s e)) -> rle (bind_outs r k) (bind_outsU r' k').
Proof.
  intros [-> | ->] H; [left; reflexivity|].
  destruct r' as [| |evs ab]; cbn [bind_outs bind_outsU]; try apply rle_refl.
  induction evs as [|ev evs IH]; [apply rle_refl|].
  destruct ev as [s e|k0]; apply seq_le_U; auto; apply rle_refl.
Qed.

Lemma closure_loop_le_U (step step' : stack -> dres) env :
  (forall s, rle (step s) (step' s)) ->
  forall g work seen, rle (closure_loop step env g work seen) (closure_loopU step' env g work seen).
Proof.
  intros Hs. induction g as [|g IH]; intros work seen; [left; reflexivity|].
  cbn [closure_loop closure_loopU]. destruct work as [|s rest]; [apply rle_refl|].
  destruct (Hs s) as [E|E]; rewrite E; [left; reflexivity|].
  destruct (step' s) as [| |evs ab]; try apply rle_refl.
  destruct (mark env evs seen) as [[out fresh] seen'].
  destruct ab; [apply rle_refl|].
  apply seq_le_U; [apply rle_refl|]. apply IH.
Qed.

Lemma capture_fold_le (ab : bool) (stk : stack) (env : denv) : forall evs acc,
  rle ((fix go (evs : list dev) (acc : list value) : dres :=
          match evs with
          | [] => if ab then abort else ok [DOut (VSeq acc 0 :: stk) env]
          | DSoft k :: r => seq (ok [DSoft k]) (go r acc)
          | DOut (v :: _) _ :: r => go r (acc ++ [v])
          | DOut [] _ :: _ => abort
          end) evs acc)
      ((fix go (evs : list dev) (acc : list value) : dres :=
          match evs with
          | [] => if ab then abort else ok [DOut (VSeq acc 0 :: stk) env]
          | DSoft k :: r => seqU (ok [DSoft k]) (go r acc)
          | DOut (v :: _) _ :: r => go r (acc ++ [v])
          | DOut [] _ :: _ => abort
          end) evs acc).
Proof.
  induction evs as [|ev evs IHe]; intros acc; [apply rle_refl|].
  destruct ev as [[|v s0] e0|k0]; try apply rle_refl; [apply IHe|].
  apply seq_le_U; [apply rle_refl|apply IHe].
Qed.

Section CapVsU.
  Variable P : params.
  Variable prog : tree.

  Definition LeU (f : nat) : Prop :=
    (forall t env stk, rle (den P prog f t env stk) (denU P prog f t env stk)) /\
    (forall p env stk, ple (peval P prog f p env stk) (pevalU P prog f p env stk)).

  Lemma le_u_step f : LeU f -> LeU (S f).
  Proof.
    intros [IHd IHp]. split.
    - intros t env stk. destruct t; cbn [den denU]; try apply rle_refl.
      + (* TCat *)
        revert env stk. induction l as [|c r IHl]; intros env stk; [apply rle_refl|].
        apply bind_le_U; [apply IHd|]. intros s e. apply IHl.
      + (* TAlt *)
        induction l as [|c r IHl]; [apply rle_refl|].
        apply seq_le_U; [apply scoped_mono; apply IHd|apply IHl].
      + (* TOr *)
        induction l as [|c r IHl]; [apply rle_refl|].
        destruct (scoped_mono env _ _ (IHd c env stk)) as [E|E]; rewrite E; [left; reflexivity|].
        destruct (scoped env (denU P prog f c env stk)) as [| |evs ab]; try apply rle_refl.
        destruct (outs_of evs); [|apply rle_refl]. apply seq_le_U; [apply rle_refl|apply IHl].
      + (* TCapture *)
        destruct (IHd t env stk) as [E|E]; rewrite E; [left; reflexivity|].
        destruct (denU P prog f t env stk) as [| |evs ab]; try apply rle_refl.
        apply capture_fold_le.
      + (* TSubx *)
        apply bind_le_U; [apply IHd|]. intros s e. apply rle_refl.
      + (* TIfElse *)
        destruct (IHd t1 env stk) as [E|E]; rewrite E; [left; reflexivity|].
        destruct (denU P prog f t1 env stk) as [| |evs ab]; try apply rle_refl.
        destruct (upto_first evs) as [pre [o|]].
        * apply seq_le_U; [apply rle_refl|apply scoped_mono; apply IHd].
        * destruct ab; [apply rle_refl|]. apply seq_le_U; [apply rle_refl|apply scoped_mono; apply IHd].
      + (* TScope *) apply scoped_mono. apply IHd.
      + (* TRead *)
        destruct (dlookup env n) as [[z d p0|s p0|l p0|blk cenv p0]|]; try apply rle_refl.
        * destruct (find_block prog blk); [|apply rle_refl]. apply scoped_mono. apply IHd.
        * destruct (assoc (voc_table (p_tc P)) n) as [[w|pos w]|]; try apply rle_refl.
          destruct w; try apply rle_refl.
          destruct stk as [|[z d p0|s p0|l p0|blk cenv p0] rest]; try apply rle_refl.
          destruct (find_block prog blk); [|apply rle_refl]. apply scoped_mono. apply IHd.
      + (* TStar *)
        apply seq_le_U; [apply rle_refl|]. apply closure_loop_le_U. intros s. apply IHd.
      + (* TPlus *)
        apply closure_loop_le_U. intros s. apply IHd.
      + (* TAssert *)
        fold (peval P prog). fold (pevalU P prog).
        destruct (IHp t env stk) as [E|E]; rewrite E; [left; reflexivity|apply rle_refl].
      + (* TFormat *)
        match goal with
        | |- rle (match ?A with _ => _ end) (match ?B with _ => _ end) => assert (rle A B) as HF
        end.
        { induction l as [|part rest IHl]; [apply rle_refl|].
          apply bind_le_U; [apply IHl|]. intros s1 e1.
          destruct s1 as [|[z d p0|suffix p0|l0 p0|blk cenv p0] s1']; try apply rle_refl.
          destruct part; try apply rle_refl;
            (apply bind_le_U; [apply IHd|intros s2 e2; apply rle_refl]). }
        destruct HF as [E|E]; rewrite E; [left; reflexivity|apply rle_refl].
    - intros p env stk. destruct p; cbn [peval pevalU]; try (right; reflexivity).
      + destruct (IHp p1 env stk) as [E|E]; rewrite E; [left; reflexivity|].
        destruct (pevalU P prog f p1 env stk) as [[ra ea]|o]; [|right; reflexivity].
        destruct (IHp p2 env stk) as [E2|E2]; rewrite E2; [left; reflexivity|right; reflexivity].
      + destruct (IHp p1 env stk) as [E|E]; rewrite E; [left; reflexivity|].
        destruct (pevalU P prog f p1 env stk) as [[ra ea]|o]; [|right; reflexivity].
        destruct (IHp p2 env stk) as [E2|E2]; rewrite E2; [left; reflexivity|right; reflexivity].
      + destruct (IHp p env stk) as [E|E]; rewrite E; [left; reflexivity|right; reflexivity].
      + fold (den P prog). fold (denU P prog).
        destruct (IHd p env stk) as [E|E]; rewrite E; [left; reflexivity|right; reflexivity].
  Qed.

  Theorem den_le_denU : forall f t env stk, rle (den P prog f t env stk) (denU P prog f t env stk).
  Proof.
    assert (forall f, LeU f) as H.
    { induction f as [|f IH]; [split; intros; left; reflexivity|apply le_u_step; exact IH]. }
    intros f. apply H.
  Qed.
End CapVsU.

(* ---- the twin is monotone in fuel, by the same argument as DenMono ---- *)
Lemma seqU_mono a a' b b' : rle a a' -> rle b b' -> rle (seqU a b) (seqU a' b').
Proof.
  intros [-> | ->] Hb; [left; reflexivity|].
  destruct a' as [| |ea aba]; try apply rle_refl. destruct aba; [apply rle_refl|].
  destruct Hb as [-> | ->]; [left; reflexivity|apply rle_refl].
Qed.

Lemma bindU_mono r r' k k' :
  rle r r' -> (forall s e, rle (k s e) (k' s e)) -> rle (bind_outsU r k) (bind_outsU r' k').
Proof.
  intros [-> | ->] H; [left; reflexivity|].
  destruct r' as [| |evs ab]; cbn [bind_outsU]; try apply rle_refl.
  induction evs as [|ev evs IH]; [apply rle_refl|].
  destruct ev as [s e|k0]; apply seqU_mono; auto; apply rle_refl.
Qed.

Lemma scoped_mono env r r' : rle r r' -> rle (scoped env r) (scoped env r').
Proof. intros [-> | ->]; [left; reflexivity|apply rle_refl]. Qed.

(* the closure loop: monotone in its body and in its own bound *)
Lemma closure_loopU_mono (step step' : stack -> dres) env :
  (forall s, rle (step s) (step' s)) ->
  forall g work seen, rle (closure_loopU step env g work seen) (closure_loopU step' env (S g) work seen).
Proof.
  intros Hs. induction g as [|g IH]; intros work seen; [left; reflexivity|].
  cbn [closure_loopU]. destruct work as [|s rest]; [apply rle_refl|].
  destruct (Hs s) as [E|E]; rewrite E; [left; reflexivity|].
  destruct (step' s) as [| |evs ab]; try apply rle_refl.
  destruct (mark env evs seen) as [[out fresh] seen'].
  destruct ab; [apply rle_refl|].
  apply seqU_mono; [apply rle_refl|]. apply IH.
Qed.

Lemma closure_loopU_mono_same (step step' : stack -> dres) env :
  (forall s, rle (step s) (step' s)) ->
  forall g work seen, rle (closure_loopU step env g work seen) (closure_loopU step' env g work seen).
Proof.
  intros Hs. induction g as [|g IH]; intros work seen; [left; reflexivity|].
  cbn [closure_loopU]. destruct work as [|s rest]; [apply rle_refl|].
  destruct (Hs s) as [E|E]; rewrite E; [left; reflexivity|].
  destruct (step' s) as [| |evs ab]; try apply rle_refl.
  destruct (mark env evs seen) as [[out fresh] seen'].
  destruct ab; [apply rle_refl|].
  apply seqU_mono; [apply rle_refl|]. apply IH.
Qed.

Lemma closure_loopU_le (step step' : stack -> dres) env :
  (forall s, rle (step s) (step' s)) ->
  forall f g, f <= g -> forall work seen, rle (closure_loopU step env f work seen) (closure_loopU step' env g work seen).
Proof.
  intros Hs f g L. induction L as [|g L IH]; intros work seen.
  - apply closure_loopU_mono_same. exact Hs.
  - eapply rle_trans; [apply IH|]. apply closure_loopU_mono. intros s. apply rle_refl.
Qed.

Section MonoU.
  Variable P : params.
  Variable prog : tree.

  Definition DenULe2 (f g : nat) : Prop :=
    (forall t env stk, rle (denU P prog f t env stk) (denU P prog g t env stk)) /\
    (forall p env stk, ple (pevalU P prog f p env stk) (pevalU P prog g p env stk)).
  Definition DenULe (f : nat) : Prop := DenULe2 f (S f).

  (* one level: both fuels are variables, so that unfolding stops after one step *)
  Lemma denU_le_step2 f g : f <= g -> DenULe2 f g -> DenULe2 (S f) (S g).
  Proof.
    intros L [IHd IHp]. split.
    - intros t env stk. destruct t; cbn [denU]; try apply rle_refl.
      + (* TCat *)
        revert env stk. induction l as [|c r IHl]; intros env stk; [apply rle_refl|].
        apply bindU_mono; [apply IHd|]. intros s e. apply IHl.
      + (* TAlt *)
        induction l as [|c r IHl]; [apply rle_refl|].
        apply seqU_mono; [apply scoped_mono; apply IHd|apply IHl].
      + (* TOr *)
        induction l as [|c r IHl]; [apply rle_refl|].
        destruct (scoped_mono env _ _ (IHd c env stk)) as [E|E]; rewrite E; [left; reflexivity|].
        destruct (scoped env (denU P prog g c env stk)) as [| |evs ab]; try apply rle_refl.
        destruct (outs_of evs); [|apply rle_refl]. apply seqU_mono; [apply rle_refl|apply IHl].
      + (* TCapture *)
        destruct (IHd t env stk) as [E|E]; rewrite E; [left; reflexivity|apply rle_refl].
      + (* TSubx *)
        apply bindU_mono; [apply IHd|]. intros s e. apply rle_refl.
      + (* TIfElse *)
        destruct (IHd t1 env stk) as [E|E]; rewrite E; [left; reflexivity|].
        destruct (denU P prog g t1 env stk) as [| |evs ab]; try apply rle_refl.
        destruct (upto_first evs) as [pre [o|]].
        * apply seqU_mono; [apply rle_refl|apply scoped_mono; apply IHd].
        * destruct ab; [apply rle_refl|]. apply seqU_mono; [apply rle_refl|apply scoped_mono; apply IHd].
      + (* TScope *) apply scoped_mono. apply IHd.
      + (* TRead *)
        destruct (dlookup env n) as [[z d p0|s p0|l p0|blk cenv p0]|]; try apply rle_refl.
        * destruct (find_block prog blk); [|apply rle_refl]. apply scoped_mono. apply IHd.
        * destruct (assoc (voc_table (p_tc P)) n) as [[w|pos w]|]; try apply rle_refl.
          destruct w; try apply rle_refl.
          destruct stk as [|[z d p0|s p0|l p0|blk cenv p0] rest]; try apply rle_refl.
          destruct (find_block prog blk); [|apply rle_refl]. apply scoped_mono. apply IHd.
      + (* TStar *)
        apply seqU_mono; [apply rle_refl|]. apply closure_loopU_le; [|exact L]. intros s. apply IHd.
      + (* TPlus *)
        apply closure_loopU_le; [|exact L]. intros s. apply IHd.
      + (* TAssert *)
        fold (pevalU P prog).
        destruct (IHp t env stk) as [E|E]; rewrite E; [left; reflexivity|apply rle_refl].
      + (* TFormat *)
        match goal with
        | |- rle (match ?A with _ => _ end) (match ?B with _ => _ end) => assert (rle A B) as HF
        end.
        { induction l as [|part rest IHl]; [apply rle_refl|].
          apply bindU_mono; [apply IHl|]. intros s1 e1.
          destruct s1 as [|[z d p0|suffix p0|l0 p0|blk cenv p0] s1']; try apply rle_refl.
          destruct part; try apply rle_refl;
            (apply bindU_mono; [apply IHd|intros s2 e2; apply rle_refl]). }
        destruct HF as [E|E]; rewrite E; [left; reflexivity|apply rle_refl].
    - intros p env stk. destruct p; cbn [pevalU]; try (right; reflexivity).
      + (* TPredAnd *)
        destruct (IHp p1 env stk) as [E|E]; rewrite E; [left; reflexivity|].
        destruct (pevalU P prog g p1 env stk) as [[ra ea]|o]; [|right; reflexivity].
        destruct (IHp p2 env stk) as [E2|E2]; rewrite E2; [left; reflexivity|right; reflexivity].
      + (* TPredOr *)
        destruct (IHp p1 env stk) as [E|E]; rewrite E; [left; reflexivity|].
        destruct (pevalU P prog g p1 env stk) as [[ra ea]|o]; [|right; reflexivity].
        destruct (IHp p2 env stk) as [E2|E2]; rewrite E2; [left; reflexivity|right; reflexivity].
      + (* TPredNot *)
        destruct (IHp p env stk) as [E|E]; rewrite E; [left; reflexivity|right; reflexivity].
      + (* TPredSubx *)
        fold (denU P prog).
        destruct (IHd p env stk) as [E|E]; rewrite E; [left; reflexivity|right; reflexivity].
  Qed.

  Lemma denU_le_step f : DenULe f -> DenULe (S f).
  Proof. apply denU_le_step2. lia. Qed.

  Theorem denU_le : forall f, DenULe f.
  Proof.
    induction f as [|f IH]; [|apply denU_le_step; exact IH].
    split; intros; left; reflexivity.
  Qed.

  (* the statement users of the specification want: once it finishes, more fuel gives the same *)
  Theorem denU_mono : forall f g t env stk, f <= g ->
    denU P prog f t env stk <> DFuel -> denU P prog g t env stk = denU P prog f t env stk.
  Proof.
    intros f g t env stk L. induction L as [|g L IH]; intros N; [reflexivity|].
    destruct (proj1 (denU_le g) t env stk) as [E|E].
    - rewrite IH in E by exact N. contradiction.
    - rewrite <- E. apply IH. exact N.
  Qed.
End MonoU.
